---------------------------- MODULE SectionsTrace ----------------------------
(* code -> spec binding of the heading-section MODEL: OdtContent / DocxContent objects are built directly from a
   paragraph list (no file involved) and iterate_units() must return exactly SectionsDefs!UnitsOf: numbers, heading
   levels, heading paths and the paragraphs of every unit, with the deviations of the findings still open.      *)
EXTENDS SectionsDefs, Json, IOUtils, TLCExt

Traces == JsonDeserialize(IOEnv.TRACE_FILE)
VARIABLES tid, l
vars == <<tid, l>>
Ev == Traces[tid].ev[l]
IsEvent(x) == l <= Len(Traces[tid].ev) /\ Ev.a = x /\ l' = l + 1 /\ UNCHANGED tid

\* What the property fixes is compared exactly (which paragraphs are in which unit, the numbers, the chain of headings);
\* what it leaves open is not: the heading_level field, whether the document title leads the path, and whether two
\* adjacent equal texts in a path are written once or twice.
PathEq(x, y, base) == \/ MergeAdjacent(x) = MergeAdjacent(y)
                      \/ MergeAdjacent(base \o x) = MergeAdjacent(y)
                      \/ MergeAdjacent(x) = MergeAdjacent(base \o y)
TraceSections ==
    /\ IsEvent("Sections")
    /\ LET m == UnitsOf(Ev.flavour, Ev.paras, Ev.base) IN
       /\ Len(Ev.units) = Len(m)
       /\ \A u \in DOMAIN m : /\ Ev.units[u].n = m[u].n
                              /\ Ev.units[u].lines = m[u].lines
                              /\ PathEq(Ev.units[u].path, m[u].path, Ev.base)

TraceInit == tid \in 1..Len(Traces) /\ l = 1
TraceNext == TraceSections
TraceSpec == TraceInit /\ [][TraceNext]_vars
TraceAccept ==
    /\ (l = Len(Traces[tid].ev) + 1) => PrintT(<<"ACCEPT", tid>>)
    /\ (IOEnv.MBV_PROGRESS = "1") => PrintT(<<"AT", tid, l>>)
=============================================================================
