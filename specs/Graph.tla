------------------------------- MODULE Graph -------------------------------
(* C18 -- SharePoint listing is complete, exact and fault-contained.

   Mirrors sharepoint2text/sharepoint_io/client.py:
     SharePointRestClient.fetch_access_token / _ensure_token / _get_headers   (token cache)
     get_site_id                                                             (site-id cache)
     list_all_files, list_files_filtered, _walk_and_filter, _get_folder_by_path,
     list_files_modified_since / list_files_created_since, list_files_in_folder
     _walk_drive_items   : every folder is listed TWICE over the same URL -- file pass
                           (_list_items_paginated), then folder pass (_get_folders_from_url) --
                           and the folders found are walked depth-first
     _get_json / _send   : Send -> (transport raises | response) -> close (finally) -> checks

   SERVER MODEL  srv = [n, parent, kind, name, cr, mo, P, tail, lead]
     nodes 1..n, node 0 = drive root; parent[i] < i is not required, only that parent is the
     root or a folder; kind[i] \in {"file","folder","other"}; children of a folder are served in
     node order, P per page, through opaque nextLinks; tail = TRUE: a folder whose child count is
     a positive multiple of P gets a trailing EMPTY page (Graph may do that); lead = TRUE: the
     listing of a folder with children opens with an EMPTY page that carries a nextLink.  name/cr/mo: code
     points / dates for GraphFilter.  Sibling names are unique.  The kind of an item is carried by
     the PRESENCE of its facet key ("file" / "folder" / neither) alone: the facet's content (empty
     object, childCount, mimeType, hashes, ...) and every optional member (size, webUrl, dates,
     downloadUrl, parentReference, listItem / fields) vary per item in the concretisation.
     Names are arbitrary strings without "/" (the concretisation draws plain, non-ASCII and names
     needing URL quoting: space # ? & ; = + and "%" followed by hex digits or not, with sibling
     pairs that collide after one round of percent-decoding); the server decodes a request path
     exactly ONCE.  Error payloads (HTTPError bodies, bodies of non-2xx answers) are arbitrary
     bytes: empty, ASCII / UTF-8 JSON, ISO-8859-1 HTML, UTF-16 with BOM, invalid UTF-8, very long.

   CLIENT MODEL  one action per code step; pc:
     "idle" (no call running) -> StartCall -> "ready" (client code outside _send)
     -> SendReq -> "sent" -> TransportRaise | TransportReturn -> "open" -> CloseResp -> "got"
     -> Process -> "ready" | "raised" -> RaiseOut -> "idle";  "ready"/ctl="done" -> Return -> "idle"
   The transport's answer is a parameter of the actions: the exhaustive specification (MCSpec)
   takes the server model's answer or -- for ONE request of the first call, any one, chosen when
   the request is sent -- any fault; every later call is answered by the healthy server (the
   retry).  GraphTrace takes the answer from the log and checks it against the server model.
   `out` is the outcome of the last finished call; all bookkeeping restarts with each call, so the
   behaviours share their prefixes and their retries (5*10^5 states for <= 3 nodes).

   FAULT KINDS (an injected fault is [at, kind, code]; at = request index within the call)
     "http" (HTTPError code), "url" (URLError), "non2xx" / "non2xx_nonobject" / "non2xx_badjson"
     (a response returned with a 1xx / 3xx / 4xx / 5xx status, body a JSON object / other JSON / not JSON),
     "badjson", "nonobject" (valid JSON, not an object), "badutf8", "nofield" (object without the
     field the caller needs; token and site requests only), "readerr" (read() raises OSError).

   DON'T-CAREs
     * order of the returned files; laziness of the generators;
     * the class of the error when read() itself raises (not in the property's list of fault
       kinds) -- but the response MUST still be closed;
     * an HTTPError's own body stream (owned by the exception, never "opened" by the client);
     * a 404 -- injected or genuine -- answering the folder lookup of a targeted listing: the
       code treats it as "folder not found" and skips the target; the property is silent;
     * parent_path of list_files_in_folder results (the property names list_all_files and the
       filtered listings only);
     * overlapping / duplicate / non-canonical folder targets, items with both or neither of
       the file/folder facets beyond "other" = skipped, objects whose "value" is not a list.

   DEVIATIONS (named wrong steps; Deviations = {} is the reference design)
     "NonObjectEscapes"     as built before proposed fix c18-nonobject-json: AttributeError
     "BadUtf8TokenEscapes"  as built before the same fix: UnicodeDecodeError from the token body
     "DirPassFirstPageOnly", "NoCloseOnReadError", "CacheSiteBeforeCheck"  sensitivity only     *)
EXTENDS GraphFilter, TLC

CONSTANTS Deviations, MaxNodes, MaxP, FaultKinds, Calls

VARIABLES srv, job, fault,                       \* fixed per behaviour (fault: the injection PLAN of a
                                                 \* replay case -- GraphGen / trace header; unused by MCSpec)
          budget, hit,                           \* injections still allowed; one was met in this call
          callNo, pc, ctl, ti, stack, flat,      \* control
          tokenC, siteC, okTok, okSite,          \* caches / "a successful response was seen"
          cur, resp, nreq, opened, closed,       \* transport
          results, err, out, swallowed           \* outcome (out = how the last finished call ended)

envV   == <<srv, job, fault, budget>>
walkV  == <<ctl, ti, stack, flat>>
cacheV == <<tokenC, siteC, okTok, okSite>>
ioV    == <<cur, resp, nreq, opened, closed>>
outV   == <<results, err, out, swallowed>>
vars   == <<envV, hit, callNo, pc, walkV, cacheV, ioV, outV>>

Dev(d) == d \in Deviations
Min(a, b) == IF a < b THEN a ELSE b

(* ------------------------------ server model ------------------------------ *)
Root == 0
NodeSeq(s) == [i \in 1..s.n |-> i]
ChildSeq(s, f) == SelectSeq(NodeSeq(s), LAMBDA i : s.parent[i] = f)
IsFolder(s, f) == f = Root \/ (f \in 1..s.n /\ s.kind[f] = "folder")

\* lead = TRUE: the listing of every folder that has children OPENS with an empty page that carries a nextLink (Graph
\* answers so when a server-side filter / security trimming empties a page): the children start on page 2
LeadPages(s, f) == IF s.lead /\ Len(ChildSeq(s, f)) > 0 THEN 1 ELSE 0
NPages(s, f) == LET c == Len(ChildSeq(s, f)) IN
    LeadPages(s, f) +
    (IF c = 0 THEN 1
     ELSE IF s.tail /\ c % s.P = 0 THEN (c \div s.P) + 1 ELSE (c + s.P - 1) \div s.P)
PageItems(s, f, p) == LET cs == ChildSeq(s, f)
                          q  == p - LeadPages(s, f)
                      IN IF q < 1 THEN <<>> ELSE SubSeq(cs, (q - 1) * s.P + 1, Min(q * s.P, Len(cs)))

RECURSIVE PathTo(_, _)
PathTo(s, f) == IF f = Root THEN <<>> ELSE Append(PathTo(s, s.parent[f]), s.name[f])

\* (bound variables carry VALUES: TLC re-evaluates lazy operator arguments and LET definitions at
\*  every use inside a set constructor, which made the obvious recursion exponential in the depth)
StepTo(s, prev, nm) ==                            \* -1 = no such item
    IF prev = -1 THEN -1
    ELSE LET c == { i \in 1..s.n : s.parent[i] = prev /\ s.name[i] = nm } IN
         IF c = {} THEN -1 ELSE CHOOSE i \in c : TRUE
RECURSIVE ResolveK(_, _, _)
ResolveK(s, path, k) ==                           \* the item k names down the path
    IF k = 0 THEN Root
    ELSE CHOOSE r \in { StepTo(s, prev, path[k]) : prev \in {ResolveK(s, path, k - 1)} } : TRUE
Resolve(s, path) == ResolveK(s, path, Len(path))

RECURSIVE IsUnder(_, _, _)
IsUnder(s, i, f) == i = f \/ (i # Root /\ IsUnder(s, s.parent[i], f))     \* f is i or an ancestor of i
FilesUnder(s, f) == { i \in 1..s.n : s.kind[i] = "file" /\ IsUnder(s, s.parent[i], f) }
FoldersUnder(s, f) == { g \in 0..s.n : IsFolder(s, g) /\ IsUnder(s, g, f) }

WellFormedSrv(s) ==
    /\ s.P >= 1
    /\ \A i \in 1..s.n : s.parent[i] \in 0..s.n /\ s.parent[i] # i /\ IsFolder(s, s.parent[i]) /\ IsUnder(s, i, Root)
    /\ \A i, j \in 1..s.n : (i # j /\ s.parent[i] = s.parent[j]) => s.name[i] # s.name[j]

(* requests and answers *)
Req(k, f, p, path) == [k |-> k, f |-> f, p |-> p, path |-> path]
TokenReq == Req("token", 0, 1, <<>>)
NoReq == Req("none", 0, 0, <<>>)

Resp(status, body, items, next, node, isf) ==
    [status |-> status, body |-> body, items |-> items, next |-> next, node |-> node, isFolder |-> isf]
NoResp == Resp(0, "none", <<>>, FALSE, 0, FALSE)
OkPage(s, f, p) == Resp(200, "ok", PageItems(s, f, p), p < NPages(s, f), f, TRUE)
AnsResp(r) == [t |-> "resp", r |-> r, kind |-> "", code |-> 0]
AnsRaise(kind, code) == [t |-> "raise", r |-> NoResp, kind |-> kind, code |-> code]

\* what a healthy server does with request r, given whether the token / site id the client uses
\* were really issued (a poisoned cache makes Graph answer 401 / 404)
HealthyAnswer(s, r, tokOK, siteOK) ==
    IF r.k = "token" THEN AnsResp(Resp(200, "ok", <<>>, FALSE, 0, FALSE))
    ELSE IF ~tokOK THEN AnsRaise("http", 401)
    ELSE IF r.k = "site" THEN AnsResp(Resp(200, "ok", <<>>, FALSE, 0, FALSE))
    ELSE IF ~siteOK THEN AnsRaise("http", 404)
    ELSE IF r.k = "children" THEN
         IF IsFolder(s, r.f) /\ r.p \in 1..NPages(s, r.f) THEN AnsResp(OkPage(s, r.f, r.p)) ELSE AnsRaise("http", 404)
    ELSE LET node == Resolve(s, r.path) IN
         IF node = -1 THEN AnsRaise("http", 404)
         ELSE IF r.k = "childrenByPath" THEN
              IF IsFolder(s, node) THEN AnsResp(OkPage(s, node, 1)) ELSE AnsRaise("http", 404)
         ELSE AnsResp(Resp(200, "ok", <<>>, FALSE, node, IsFolder(s, node)))     \* folderByPath

(* ------------------------------ declarative part ------------------------------ *)
EffFilter(j) ==
    CASE j.call = "filtered" -> j.flt
      [] j.call = "modsince" -> [NoFilter EXCEPT !.ma = [set |-> TRUE, v |-> j.since], !.exts = j.exts]
      [] j.call = "crsince"  -> [NoFilter EXCEPT !.ca = [set |-> TRUE, v |-> j.since], !.exts = j.exts]
      [] OTHER -> NoFilter

TargetNodes(s, j) == { Resolve(s, j.targets[x]) : x \in DOMAIN j.targets }
\* the files the call ranges over (before filtering)
Scope(s, j) ==
    IF j.call = "infolder" THEN
         LET f == Resolve(s, j.targets[1]) IN
         IF f >= 0 /\ IsFolder(s, f) THEN { i \in 1..s.n : s.kind[i] = "file" /\ s.parent[i] = f } ELSE {}
    ELSE IF Len(j.targets) = 0 THEN FilesUnder(s, Root)
    ELSE UNION { FilesUnder(s, f) : f \in { g \in TargetNodes(s, j) : g >= 1 /\ IsFolder(s, g) } }

ExpPP(s, i) == PathTo(s, s.parent[i])
FileRec(s, i) == [name |-> s.name[i], pp |-> ExpPP(s, i), cr |-> s.cr[i], mo |-> s.mo[i]]

\* O: sequence of [id, pp].  Complete, exact, once -- modulo the filter's DON'T-CAREs
ListingOKF(s, j, O, F) ==
    LET ids == { O[x].id : x \in DOMAIN O } IN
    /\ Cardinality(ids) = Len(O)                                                   \* exactly once
    /\ \A x \in DOMAIN O : /\ O[x].id \in Scope(s, j)                              \* nothing foreign
                           /\ (j.call # "infolder" => O[x].pp = ExpPP(s, O[x].id)) \* correct parent path
                           /\ Verdict(F, FileRec(s, O[x].id)) # "mustnot"          \* nothing that does not match
    /\ \A i \in Scope(s, j) : Verdict(F, FileRec(s, i)) = "must" => i \in ids      \* every matching file

ListingOK(s, j, O) == ListingOKF(s, j, O, EffFilter(j))
\* the client model's `results` are the files WALKED (the filter is applied on the way out)
WalkedOK(s, j, O) == ListingOKF(s, j, O, NoFilter)

\* number of requests of a fault-free call on a fresh client (token + site + walk)
RECURSIVE SumPages(_, _, _)                       \* folders 0..g under f, two passes each (index recursion:
SumPages(s, f, g) ==                              \*  TLC re-evaluates lazy set arguments exponentially)
    IF g < 0 THEN 0
    ELSE (IF IsFolder(s, g) /\ IsUnder(s, g, f) THEN 2 * NPages(s, g) ELSE 0) + SumPages(s, f, g - 1)
NReqWalk(s, f) == SumPages(s, f, s.n)
RECURSIVE SumTargets(_, _, _)
SumTargets(s, j, x) ==
    IF x > Len(j.targets) THEN 0
    ELSE LET f == Resolve(s, j.targets[x]) IN
         1 + (IF f >= 1 /\ IsFolder(s, f) THEN NReqWalk(s, f) ELSE 0) + SumTargets(s, j, x + 1)
NReq(s, j) ==
    2 + (IF j.call = "infolder" THEN
              LET f == Resolve(s, j.targets[1]) IN IF f >= 0 /\ IsFolder(s, f) THEN NPages(s, f) ELSE 1
         ELSE IF Len(j.targets) = 0 THEN NReqWalk(s, Root) ELSE SumTargets(s, j, 1))

(* ------------------------------ client model ------------------------------ *)
Frame(node, path) == [f |-> node, path |-> path, mode |-> "F", page |-> 1, dirs |-> <<>>, idx |-> 1]
Top == stack[Len(stack)]
Flat0 == [f |-> 0, page |-> 1]
NoErr == [cls |-> "none", status |-> 0, req |-> NoReq, cause |-> ""]
Outcome(t, res, e) == [t |-> t, res |-> res, err |-> e, swallowed |-> swallowed, hit |-> hit, nreq |-> nreq]
NoOut == [t |-> "none", res |-> <<>>, err |-> NoErr, swallowed |-> FALSE, hit |-> FALSE, nreq |-> 0]

SetCtl(c, t, st, fl) == ctl' = c /\ ti' = t /\ stack' = st /\ flat' = fl

AfterSite ==
    IF job.call = "infolder" THEN SetCtl("flat", 1, <<>>, Flat0)
    ELSE IF Len(job.targets) = 0 THEN SetCtl("walk", 0, <<Frame(Root, <<>>)>>, flat)
    ELSE SetCtl("target", 1, <<>>, flat)
NextTargetFrom(t) ==
    IF t < Len(job.targets) THEN SetCtl("target", t + 1, <<>>, flat) ELSE SetCtl("done", t, <<>>, flat)

Want ==
    CASE ctl = "site"   -> Req("site", 0, 1, <<>>)
      [] ctl = "target" -> Req("folderByPath", 0, 1, job.targets[ti])
      [] ctl = "walk"   -> Req("children", Top.f, Top.page, <<>>)
      [] ctl = "flat"   -> IF flat.page = 1 /\ Len(job.targets[1]) > 0
                           THEN Req("childrenByPath", 0, 1, job.targets[1])
                           ELSE Req("children", flat.f, flat.page, <<>>)
      [] OTHER -> NoReq
CanRequest ==
    /\ pc = "ready"
    /\ \/ ctl = "site" /\ ~siteC
       \/ ctl \in {"target", "flat"}
       \/ ctl = "walk" /\ Top.mode \in {"F", "D"}
NextReq == IF ~tokenC THEN TokenReq ELSE Want            \* _get_headers -> _ensure_token first

StartCall ==
    /\ pc = "idle"
    /\ callNo' = callNo + 1 /\ pc' = "ready"
    /\ SetCtl("site", 0, <<>>, Flat0)
    /\ results' = <<>> /\ err' = NoErr /\ swallowed' = FALSE /\ hit' = FALSE /\ out' = NoOut
    /\ cur' = NoReq /\ resp' = NoResp /\ nreq' = 0 /\ opened' = 0 /\ closed' = 0
         \* counters restart per call: Inv_Closed has already been checked in the idle state
    /\ UNCHANGED <<envV, cacheV>>

SkipSite ==                                              \* get_site_id: cached
    /\ pc = "ready" /\ ctl = "site" /\ siteC
    /\ AfterSite
    /\ UNCHANGED <<envV, hit, callNo, pc, cacheV, ioV, outV>>

Advance ==                                               \* _walk_drive_items: recurse / return
    /\ pc = "ready" /\ ctl = "walk" /\ Top.mode = "R"
    /\ IF Top.idx <= Len(Top.dirs) THEN
            LET d == Top.dirs[Top.idx] IN
            /\ stack' = Append([stack EXCEPT ![Len(stack)].idx = @ + 1], Frame(d, Append(Top.path, srv.name[d])))
            /\ UNCHANGED <<ctl, ti, flat>>
       ELSE IF Len(stack) > 1 THEN stack' = SubSeq(stack, 1, Len(stack) - 1) /\ UNCHANGED <<ctl, ti, flat>>
       ELSE IF ti = 0 THEN SetCtl("done", 0, <<>>, flat) ELSE NextTargetFrom(ti)
    /\ UNCHANGED <<envV, hit, callNo, pc, cacheV, ioV, outV>>

SendReq(r) ==
    /\ CanRequest /\ r = NextReq
    /\ cur' = r /\ nreq' = nreq + 1 /\ pc' = "sent"
    /\ UNCHANGED <<envV, hit, callNo, walkV, cacheV, resp, opened, closed, outV>>

Fail(cls, status, cause) ==
    /\ err' = [cls |-> cls, status |-> status, req |-> cur, cause |-> cause]
    /\ pc' = "raised"

TransportRaise(kind, code, inj) ==                       \* _send: except HTTPError / URLError
    /\ pc = "sent"
    /\ hit' = (hit \/ inj) /\ budget' = IF inj THEN budget - 1 ELSE budget
    /\ IF kind = "http" /\ code = 404 /\ cur.k = "folderByPath"
       THEN /\ NextTargetFrom(ti) /\ pc' = "ready" /\ swallowed' = TRUE     \* _get_folder_by_path: not found
            /\ UNCHANGED <<results, err, out>>
       ELSE /\ Fail("request", IF kind = "http" THEN code ELSE -1, kind)
            /\ UNCHANGED <<walkV, results, out, swallowed>>
    /\ UNCHANGED <<srv, job, fault, callNo, cacheV, ioV>>

TransportReturn(rs, inj) ==                              \* _send: response = self._request(...)
    /\ pc = "sent"
    /\ hit' = (hit \/ inj) /\ budget' = IF inj THEN budget - 1 ELSE budget
    /\ resp' = rs /\ opened' = opened + 1 /\ pc' = "open"
    /\ UNCHANGED <<srv, job, fault, callNo, walkV, cacheV, cur, nreq, closed, outV>>

CloseResp ==                                             \* _send: read() ; finally: response.close()
    /\ pc = "open"
    /\ closed' = IF Dev("NoCloseOnReadError") /\ resp.body = "readerr" THEN closed ELSE closed + 1
    /\ pc' = "got"
    /\ UNCHANGED <<envV, hit, callNo, walkV, cacheV, cur, resp, nreq, opened, outV>>

BodyErrClass(k, body) ==
    IF body = "nonobject" /\ Dev("NonObjectEscapes") THEN "other"
    ELSE IF body = "badutf8" /\ k = "token" /\ Dev("BadUtf8TokenEscapes") THEN "other"
    ELSE IF k = "token" THEN "auth" ELSE "request"

ProcWalkPage ==                                          \* _list_items_paginated / _get_folders_from_url
    LET fr == Top
        files == SelectSeq(resp.items, LAMBDA i : srv.kind[i] = "file")
        dirs  == SelectSeq(resp.items, LAMBDA i : srv.kind[i] = "folder")
        more  == [x \in 1..Len(files) |-> [id |-> files[x], pp |-> fr.path]]
        fr2 == IF fr.mode = "F"
               THEN IF resp.next THEN [fr EXCEPT !.page = @ + 1] ELSE [fr EXCEPT !.mode = "D", !.page = 1]
               ELSE IF resp.next /\ ~Dev("DirPassFirstPageOnly")
                    THEN [fr EXCEPT !.page = @ + 1, !.dirs = @ \o dirs]
                    ELSE [fr EXCEPT !.mode = "R", !.idx = 1, !.dirs = @ \o dirs]
    IN /\ results' = IF fr.mode = "F" THEN results \o more ELSE results
       /\ stack' = [stack EXCEPT ![Len(stack)] = fr2]
       /\ UNCHANGED <<ctl, ti, flat>>

ProcFlatPage ==                                          \* list_files_in_folder
    LET files == SelectSeq(resp.items, LAMBDA i : srv.kind[i] = "file")
        more  == [x \in 1..Len(files) |-> [id |-> files[x], pp |-> <<>>]]
    IN /\ results' = results \o more
       /\ IF resp.next THEN SetCtl("flat", ti, stack, [f |-> resp.node, page |-> flat.page + 1])
          ELSE SetCtl("done", ti, stack, flat)

Process ==                                               \* back in client code, response closed
    /\ pc = "got"
    /\ IF resp.body = "readerr" THEN                      \* read() raised inside _send; status never looked at
            Fail("other", -1, "readerr") /\ UNCHANGED <<walkV, cacheV, results, out, swallowed>>
       ELSE IF resp.status < 200 \/ resp.status > 299 THEN
            IF cur.k = "folderByPath" /\ resp.status = 404
            THEN /\ NextTargetFrom(ti) /\ pc' = "ready" /\ swallowed' = TRUE
                 /\ UNCHANGED <<cacheV, results, err, out>>
            ELSE Fail("request", resp.status, "non2xx") /\ UNCHANGED <<walkV, cacheV, results, out, swallowed>>
       ELSE IF resp.body # "ok" THEN
            /\ Fail(BodyErrClass(cur.k, resp.body), -1, resp.body)
            /\ siteC' = IF Dev("CacheSiteBeforeCheck") /\ cur.k = "site" /\ resp.body = "nofield" THEN TRUE ELSE siteC
            /\ UNCHANGED <<walkV, tokenC, okTok, okSite, results, out, swallowed>>
       ELSE /\ pc' = "ready"
            /\ CASE cur.k = "token" -> /\ tokenC' = TRUE /\ okTok' = TRUE
                                       /\ UNCHANGED <<walkV, siteC, okSite, results>>
                 [] cur.k = "site"  -> /\ siteC' = TRUE /\ okSite' = TRUE /\ AfterSite
                                       /\ UNCHANGED <<tokenC, okTok, results>>
                 [] cur.k = "folderByPath" ->
                        /\ IF resp.isFolder THEN SetCtl("walk", ti, <<Frame(resp.node, job.targets[ti])>>, flat)
                           ELSE NextTargetFrom(ti)
                        /\ UNCHANGED <<cacheV, results>>
                 [] OTHER -> /\ (IF ctl = "flat" THEN ProcFlatPage ELSE ProcWalkPage)
                             /\ UNCHANGED cacheV
            /\ UNCHANGED <<err, out, swallowed>>
    /\ UNCHANGED <<envV, hit, callNo, ioV>>


Return ==
    /\ pc = "ready" /\ ctl = "done"
    /\ out' = Outcome("return", results, NoErr) /\ pc' = "idle"
    /\ UNCHANGED <<envV, hit, callNo, walkV, cacheV, ioV, results, err, swallowed>>

RaiseOut ==
    /\ pc = "raised"
    /\ out' = Outcome("raise", <<>>, err) /\ pc' = "idle"
    /\ UNCHANGED <<envV, hit, callNo, walkV, cacheV, ioV, results, err, swallowed>>

ClientInit ==
    /\ callNo = 0 /\ pc = "idle" /\ ctl = "done" /\ ti = 0 /\ stack = <<>> /\ flat = Flat0
    /\ tokenC = FALSE /\ siteC = FALSE /\ okTok = FALSE /\ okSite = FALSE
    /\ cur = NoReq /\ resp = NoResp /\ nreq = 0 /\ opened = 0 /\ closed = 0
    /\ results = <<>> /\ err = NoErr /\ out = NoOut /\ swallowed = FALSE /\ hit = FALSE

(* ------------------------------ invariants ------------------------------ *)
\* `out` is the outcome of the last finished call (reset when the next call starts); every call's
\* outcome is therefore `out` in some reachable state and the invariants below see each of them.
\* The model's `results` are unfiltered (WalkedOK); GraphTrace applies the job's filter verdicts to
\* the observed result at the Return event.
\* (list_files_in_folder on a path the server does not have is answered 404 by the healthy
\*  server itself: the call is infeasible and raises the request error)
Feasible(s, j) == j.call = "infolder" => (Resolve(s, j.targets[1]) >= 0 /\ IsFolder(s, Resolve(s, j.targets[1])))

Inv_Complete == (out.t = "return" /\ ~out.swallowed) => WalkedOK(srv, job, out.res)
Inv_Once == LET O == out.res IN Cardinality({ O[y].id : y \in DOMAIN O }) = Len(O)
Inv_Closed == (pc # "open") => (opened = closed)                  \* control outside _send
Inv_Family == out.t = "raise" =>
    LET e == out.err IN
    /\ e.cause \in {"http", "url", "non2xx"} => (e.cls = "request" /\ e.req # NoReq)   \* carries status and URL
    /\ e.cause = "url" => e.status = -1
    /\ e.cause # "readerr" => e.cls \in {"request", "auth"}
Inv_CacheOnlyAfterSuccess == (tokenC => okTok) /\ (siteC => okSite)
\* a call that meets no injected fault (in particular the retry) returns, completely
Inv_RetryComplete == (out.t # "none" /\ ~out.hit) =>
        IF Feasible(srv, job) THEN out.t = "return" /\ WalkedOK(srv, job, out.res)
        ELSE out.t = "raise" /\ out.err.cls = "request" /\ out.err.status = 404
\* the first call on a fresh client sends exactly NReq requests; later ones save the cached two
Inv_ReqCount == (out.t = "return" /\ ~out.hit /\ ~out.swallowed /\ Feasible(srv, job)) =>
        out.nreq \in { NReq(srv, job), NReq(srv, job) - 1, NReq(srv, job) - 2 }
\* a failing call always raises (nothing is swallowed but the documented 404 of a folder lookup)
Inv_FaultRaises == (out.hit /\ ~out.swallowed) => out.t = "raise"

(* ------------------------------ exhaustive specification ------------------------------ *)
OkDate == [t |-> "ok", v |-> 0]
Trees(n) ==
    { [n |-> n, parent |-> pa, kind |-> ki] :
        pa \in { q \in [1..n -> 0..n] : \A i \in 1..n : q[i] < i },
        ki \in [1..n -> {"file", "folder"}] }
SrvOf(t, P, tail, lead) ==
    [n |-> t.n, parent |-> t.parent, kind |-> t.kind, name |-> [i \in 1..t.n |-> <<96 + i>>],
     cr |-> [i \in 1..t.n |-> OkDate], mo |-> [i \in 1..t.n |-> OkDate], P |-> P, tail |-> tail, lead |-> lead]
HasFullLastPage(s) == \E f \in 0..s.n : IsFolder(s, f) /\ Len(ChildSeq(s, f)) > 0 /\ Len(ChildSeq(s, f)) % s.P = 0
Servers == { s \in { SrvOf(t, P, tl, ld) : t \in UNION { Trees(n) : n \in 0..MaxNodes }, P \in 1..MaxP,
                                             tl \in BOOLEAN, ld \in BOOLEAN } :
               /\ WellFormedSrv(s)
               /\ (s.tail => HasFullLastPage(s))                          \* tail only where it changes something
               /\ (s.lead => (s.n > 0 /\ ~s.tail)) }                     \* lead likewise (and not combined with tail)

\* folder targets: one existing folder, one file (not a folder), one missing name -- as name paths
MissingPath == << <<63>> >>                         \* "?": a name no node carries
TargetChoices(s) ==
    LET fs == { i \in 1..s.n : s.kind[i] = "folder" }
        xs == { i \in 1..s.n : s.kind[i] = "file" } IN
    {<<>>} \cup { <<PathTo(s, i)>> : i \in fs } \cup { <<PathTo(s, i)>> : i \in xs } \cup { <<MissingPath>> }
      \cup { <<PathTo(s, i), MissingPath>> : i \in fs } \cup { <<MissingPath, PathTo(s, i)>> : i \in fs }
JobOf(call, targets) == [call |-> call, targets |-> targets, flt |-> NoFilter, since |-> 0, exts |-> <<>>]
Jobs(s) ==
    { JobOf("all", <<>>) : c \in {"all"} \cap Calls }
    \cup { JobOf("filtered", t) : t \in IF "filtered" \in Calls THEN TargetChoices(s) ELSE {} }
    \cup { JobOf("infolder", t) : t \in IF "infolder" \in Calls
                                       THEN { <<PathTo(s, i)>> : i \in { g \in 0..s.n : IsFolder(s, g) } } \cup { <<MissingPath>> }
                                       ELSE {} }

NoFault == [at |-> -1, kind |-> "none", code |-> 0]
\* a response RETURNED (not raised) with a status outside 2xx is a failure whatever its class (1xx, 3xx,
\* 4xx, 5xx) and whatever its body (a JSON object -- even a well-formed page --, JSON that is not an
\* object, empty / not JSON): only a 2xx response carrying a JSON object is a page
Non2xxKinds == {"non2xx", "non2xx_nonobject", "non2xx_badjson"}
AllCodes == {0, 100, 304, 403, 404, 500, 503}
FaultCodes(k) == CASE k = "http" -> {403, 404, 500} [] k \in Non2xxKinds -> {100, 304, 404, 503} [] OTHER -> {0}
Faults(s, j) ==
    {NoFault} \cup { [at |-> a, kind |-> k, code |-> c] : a \in 0..(NReq(s, j) - 1), k \in FaultKinds, c \in AllCodes }
FaultOK(f) == f.at < 0 \/ (f.code \in FaultCodes(f.kind) /\ (f.kind = "nofield" => f.at <= 1))    \* requests 0, 1 = token, site

InjectedAnswer(f) ==
    CASE f.kind = "http" -> AnsRaise("http", f.code)
      [] f.kind = "url"  -> AnsRaise("url", 0)
      [] f.kind = "non2xx" -> AnsResp(Resp(f.code, "ok", <<>>, FALSE, 0, FALSE))
      [] f.kind = "non2xx_nonobject" -> AnsResp(Resp(f.code, "nonobject", <<>>, FALSE, 0, FALSE))
      [] f.kind = "non2xx_badjson"   -> AnsResp(Resp(f.code, "badjson", <<>>, FALSE, 0, FALSE))
      [] OTHER -> AnsResp(Resp(200, f.kind, <<>>, FALSE, 0, FALSE))

\* MCSpec: in the first call the transport may answer ONE request -- any one -- with any fault;
\* everything after that (the retry) is the healthy server.  Choosing the fault when the request
\* is sent, not in the initial state, lets the behaviours share their prefixes and their retries.
InjectChoices == { f \in [at : {0}, kind : FaultKinds, code : AllCodes] : FaultOK(f) }
MCInit ==
    /\ srv \in Servers
    /\ job \in Jobs(srv)
    /\ fault = NoFault /\ budget = 1
    /\ ClientInit

Healthy == HealthyAnswer(srv, cur, okTok, okSite)
DoAnswer(a, inj) == IF a.t = "raise" THEN TransportRaise(a.kind, a.code, inj) ELSE TransportReturn(a.r, inj)
MCTransport ==
    /\ pc = "sent"
    /\ \/ DoAnswer(Healthy, FALSE)
       \/ /\ callNo = 1 /\ budget > 0
          /\ \E f \in InjectChoices : (f.kind = "nofield" => cur.k \in {"token", "site"}) /\ DoAnswer(InjectedAnswer(f), TRUE)

MCNext ==
    \/ (callNo < 2 /\ StartCall)
    \/ SkipSite \/ Advance \/ SendReq(NextReq) \/ MCTransport \/ CloseResp \/ Process \/ Return \/ RaiseOut
MCSpec == MCInit /\ [][MCNext]_vars
=============================================================================
