------------------------------ MODULE SevenZip ------------------------------
(* C10, 7z part: "member k receives member k's bytes, whatever the folder layout".

   WHAT IS MODELLED.  A 7z archive as a standard packer lays it out (7zFormat.txt):

       signature header | [gap] | pack stream of folder 1 | pack stream of folder 2 | ... | header

   and the cursor machine of the library's reader, one action per code step, transcribed from
   sharepoint2text/parsing/extractors/util/sevenzip.py:

       pc = "sub"     SevenZipReader._parse_substreams_info   per folder: substream sizes -> fileSizes
       pc = "list"    SevenZipReader._build_file_list, 1st loop    per entry: is_directory, size
       pc = "map"     SevenZipReader._build_file_list, 2nd loop    per entry: folder_idx / file_in_folder
       pc = "folder"  SevenZipReader.extractall, loop body          which pack bytes are read and decoded
       pc = "write"   SevenZipReader._extract_files_from_folder     offset walk through the decoded folder
       pc = "empties" SevenZipReader.extractall, tail               entries that are empty files
       pc = "done"

   The reader sees only Header(arch) (PackInfo: one packPos + pack sizes; UnpackInfo: coder and unpack
   size per folder; SubStreamsInfo: streams per folder, all-but-last sizes; FilesInfo: emptyStream and
   emptyFile vectors) and reads the pack area through AreaRead.  Byte strings are kept symbolically
   as lists of segments <<t, g, a, b>> = bytes a..b of folder g's unpacked data (t = "u"), of its
   compressed stream (t = "z"), or of the gap (t = "g"): sizes can be 1..2 in the theorem runs and
   real byte counts in trace validation with the same operators.

   REFERENCE ADDRESSING (format description): pack streams are stored back to back in folder order,
   folder k's data starts at packPos + Sum(pack sizes of the streams of folders 1..k-1) and has that
   folder's pack size(s); an entry without a stream is an empty file iff its emptyFile bit is set.

   DEVIATIONS (what the code did before the proposed fixes; sensitivity runs):
     "AlwaysFirstPackStream"   extractall passes (packPos, ALL pack sizes) for every folder
                               (proposed_fixes/c10-7z-folder-pack-streams.diff)
     "EmptyStreamIsDirectory"  kEmptyFile is skipped, every entry without stream is a directory
                               (proposed_fixes/c10-7z-empty-files.diff)

   THEOREM (TLC, Deviations = {}): Faithful for all layouts of <= MaxFiles entries x {file, empty, dir}
   x all ordered partitions of the files into folders x coders x sizes x pack positions.

   DON'T-CARE: whether directories are created on extraction; attribute-based directory detection;
   folders with several coders / several pack streams (BCJ2): the property names copy, LZMA, LZMA2.
   The coder is abstract: "copy" (pack bytes are the data) or "lz" (decoding succeeds iff the bytes read
   begin with one complete compressed stream, and yields that stream's folder).                      *)
EXTENDS Naturals, Sequences, FiniteSets, TLC

CONSTANTS MaxFiles, Sizes, PackSizes, PackPositions, Coders, Deviations

DeviationNames == {"AlwaysFirstPackStream", "EmptyStreamIsDirectory"}
ASSUME Deviations \subseteq DeviationNames
Dev(d) == d \in Deviations

VARIABLES arch,        \* the archive as packed (the reader never looks at it except through Header / AreaRead)
          pc, i, cur, fileSizes, files, sizeIdx, emptyIdx, fIdx, inFolder, fmap, k, packIdx, dec, off, out, failed
vars == <<arch, pc, i, cur, fileSizes, files, sizeIdx, emptyIdx, fIdx, inFolder, fmap, k, packIdx, dec, off, out, failed>>

(* ------------------------------------------------------------------ arithmetic helpers *)
Min(a, b) == IF a < b THEN a ELSE b
Max(a, b) == IF a > b THEN a ELSE b
RECURSIVE SumSeq(_)
SumSeq(s) == IF s = <<>> THEN 0 ELSE s[1] + SumSeq(Tail(s))
RECURSIVE Flatten(_)
Flatten(ss) == IF ss = <<>> THEN <<>> ELSE ss[1] \o Flatten(Tail(ss))

(* ------------------------------------------------------------------ the archive as packed *)
NE(A) == Len(A.kinds)
NF(A) == Len(A.fold)
UnpackSize(A, g) == SumSeq([j \in 1..Len(A.fold[g]) |-> A.usize[A.fold[g][j]]])
Start(A, g) == A.packPos + SumSeq(SubSeq(A.psize, 1, g - 1))          \* REFERENCE: where folder g's data starts
FolderOf(A, n) == CHOOSE g \in 1..NF(A) : \E j \in 1..Len(A.fold[g]) : A.fold[g][j] = n
PosIn(A, n) == CHOOSE j \in 1..Len(A.fold[FolderOf(A, n)]) : A.fold[FolderOf(A, n)][j] = n
OffsetOf(A, n) == LET g == FolderOf(A, n) IN SumSeq([j \in 1..(PosIn(A, n) - 1) |-> A.usize[A.fold[g][j]]])
Content(A, n) == IF A.usize[n] = 0 THEN <<>>
                 ELSE << <<"u", FolderOf(A, n), OffsetOf(A, n) + 1, OffsetOf(A, n) + A.usize[n]>> >>

EmptyKinds(A) == SelectSeq(A.kinds, LAMBDA x : x # "file")
Header(A) == [ packPos     |-> A.packPos,
               packSizes   |-> A.psize,
               coder       |-> A.coder,
               unpack      |-> [g \in 1..NF(A) |-> UnpackSize(A, g)],
               numStreams  |-> [g \in 1..NF(A) |-> Len(A.fold[g])],
               subSizes    |-> Flatten([g \in 1..NF(A) |-> [j \in 1..(Len(A.fold[g]) - 1) |-> A.usize[A.fold[g][j]]]]),
               emptyStream |-> [n \in 1..NE(A) |-> A.kinds[n] # "file"],
               emptyFile   |-> [n \in 1..Len(EmptyKinds(A)) |-> EmptyKinds(A)[n] = "empty"] ]

(* bytes s..e (1-based, counted from the end of the signature header) of the archive file *)
RECURSIVE AreaFrom(_, _, _, _)
AreaFrom(A, g, s, e) ==
    IF g > NF(A) THEN <<>>
    ELSE LET lo == Max(s, Start(A, g) + 1)
             hi == Min(e, Start(A, g) + A.psize[g])
             here == IF lo <= hi
                     THEN << <<IF A.coder[g] = "copy" THEN "u" ELSE "z", g, lo - Start(A, g), hi - Start(A, g)>> >>
                     ELSE <<>>
         IN here \o AreaFrom(A, g + 1, s, e)
GapPart(A, s, e) == LET hi == Min(e, A.packPos) IN IF s <= hi THEN << <<"g", 0, s, hi>> >> ELSE <<>>
AreaRead(A, start, len) == GapPart(A, start + 1, start + len) \o AreaFrom(A, 1, start + 1, start + len)

Error == << <<"error", 0, 0, 0>> >>      \* same shape as a segment list (TLC compares element-wise)
Decode(A, coder, segs) ==
    IF coder = "copy" THEN segs
    ELSE IF segs # <<>> /\ segs[1][1] = "z" /\ segs[1][3] = 1 /\ segs[1][4] = A.psize[segs[1][2]]
         THEN << <<"u", segs[1][2], 1, UnpackSize(A, segs[1][2])>> >>
         ELSE Error

SegLen(segs) == SumSeq([n \in 1..Len(segs) |-> (segs[n][4] - segs[n][3]) + 1])
RECURSIVE Slice(_, _, _)
Slice(segs, o, n) ==                                   \* bytes o+1 .. o+n of a segment list (o + n <= SegLen)
    IF n = 0 THEN <<>>
    ELSE LET s == segs[1]
             len == (s[4] - s[3]) + 1
         IN IF o >= len THEN Slice(Tail(segs), o - len, n)
            ELSE LET take == Min(n, len - o)
                 IN << <<s[1], s[2], s[3] + o, (s[3] + o + take) - 1>> >> \o Slice(Tail(segs), 0, n - take)

(* ------------------------------------------------------------------ universe of the theorem runs *)
RECURSIVE Parts(_)
Parts(s) == IF s = <<>> THEN {<<>>}
            ELSE UNION { { <<SubSeq(s, 1, j)>> \o p : p \in Parts(SubSeq(s, j + 1, Len(s))) } : j \in 1..Len(s) }
FileIdx(ks) == SelectSeq([n \in 1..Len(ks) |-> n], LAMBDA n : ks[n] = "file")
KindSeqs == UNION { [1..n -> {"file", "empty", "dir"}] : n \in 0..MaxFiles }
ArchUniverse ==
    UNION { UNION { UNION { UNION {
        { [kinds |-> ks, usize |-> us, fold |-> fo, coder |-> co, packPos |-> pp,
           psize |-> [g \in 1..Len(fo) |-> IF co[g] = "copy"
                                           THEN SumSeq([j \in 1..Len(fo[g]) |-> us[fo[g][j]]]) ELSE ps[g]]]
          : pp \in PackPositions, ps \in [1..Len(fo) -> PackSizes] }
        : co \in [1..Len(fo) -> Coders] }
        : fo \in Parts(FileIdx(ks)) }
        : us \in { u \in [1..Len(ks) -> Sizes \cup {0}] : \A n \in 1..Len(ks) : (u[n] = 0) <=> (ks[n] # "file") } }
        : ks \in KindSeqs }

(* ------------------------------------------------------------------ the reader's cursor machine *)
H == Header(arch)
NotWritten == [w |-> FALSE, segs |-> <<>>]
Written(s) == [w |-> TRUE, segs |-> s]

InitRegs == /\ pc = "sub" /\ i = 1 /\ cur = 0 /\ fileSizes = <<>> /\ files = <<>> /\ sizeIdx = 0 /\ emptyIdx = 0
            /\ fIdx = 1 /\ inFolder = 0 /\ fmap = [g \in 1..NF(arch) |-> <<>>] /\ k = 1 /\ packIdx = 0
            /\ dec = <<>> /\ off = 0 /\ out = [n \in 1..NE(arch) |-> NotWritten] /\ failed = FALSE
Init == arch \in ArchUniverse /\ InitRegs

(* _parse_substreams_info: per folder, the explicit sizes of all but the last stream, then the rest *)
SubStep ==
    /\ pc = "sub"
    /\ IF i > NF(arch)
       THEN pc' = "list" /\ i' = 1 /\ UNCHANGED <<cur, fileSizes>>
       ELSE LET n == H.numStreams[i]
                taken == SubSeq(H.subSizes, cur + 1, cur + (n - 1))
                rest == H.unpack[i] - SumSeq(taken)
            IN /\ fileSizes' = fileSizes \o taken \o (IF rest > 0 THEN <<rest>> ELSE <<>>)   \* `if total > 0`
               /\ cur' = cur + (n - 1)
               /\ i' = i + 1 /\ pc' = "sub"
    /\ UNCHANGED <<arch, files, sizeIdx, emptyIdx, fIdx, inFolder, fmap, k, packIdx, dec, off, out, failed>>

(* _build_file_list, first loop *)
ListStep ==
    /\ pc = "list"
    /\ IF i > NE(arch)
       THEN pc' = "map" /\ i' = 1 /\ UNCHANGED <<files, sizeIdx, emptyIdx>>
       ELSE LET es == H.emptyStream[i]
                isEmptyFile == es /\ ~Dev("EmptyStreamIsDirectory") /\ H.emptyFile[emptyIdx + 1]
                isDir == es /\ ~isEmptyFile
                takes == ~es /\ sizeIdx < Len(fileSizes)
            IN /\ files' = Append(files, [isDir |-> isDir, stream |-> ~es, folder |-> 0,
                                          size |-> IF takes THEN fileSizes[sizeIdx + 1] ELSE 0])
               /\ sizeIdx' = IF takes THEN sizeIdx + 1 ELSE sizeIdx
               /\ emptyIdx' = IF es THEN emptyIdx + 1 ELSE emptyIdx
               /\ i' = i + 1 /\ pc' = "list"
    /\ UNCHANGED <<arch, cur, fileSizes, fIdx, inFolder, fmap, k, packIdx, dec, off, out, failed>>

(* _build_file_list, second loop: entries with a stream take the folders' substreams in order *)
MapStep ==
    /\ pc = "map"
    /\ IF i > NE(arch)
       THEN pc' = "folder" /\ i' = 1 /\ UNCHANGED <<files, fIdx, inFolder, fmap>>
       ELSE /\ IF files[i].isDir \/ ~files[i].stream \/ fIdx > NF(arch)
               THEN UNCHANGED <<files, fIdx, inFolder, fmap>>
               ELSE /\ files' = [files EXCEPT ![i].folder = fIdx]
                    /\ fmap' = [fmap EXCEPT ![fIdx] = Append(@, i)]
                    /\ IF inFolder + 1 >= H.numStreams[fIdx]
                       THEN fIdx' = fIdx + 1 /\ inFolder' = 0
                       ELSE fIdx' = fIdx /\ inFolder' = inFolder + 1
            /\ i' = i + 1 /\ pc' = "map"
    /\ UNCHANGED <<arch, cur, fileSizes, sizeIdx, emptyIdx, k, packIdx, dec, off, out, failed>>

(* extractall, loop body: which bytes are handed to the decoder for folder k *)
ReadStart == IF Dev("AlwaysFirstPackStream") THEN H.packPos
             ELSE H.packPos + SumSeq(SubSeq(H.packSizes, 1, packIdx))
ReadSizes == IF Dev("AlwaysFirstPackStream") THEN H.packSizes
             ELSE SubSeq(H.packSizes, packIdx + 1, packIdx + 1)        \* one pack stream per folder
FolderStep ==
    /\ pc = "folder"
    /\ IF k > NF(arch)
       THEN pc' = "empties" /\ UNCHANGED <<k, packIdx, dec, off, i, failed>>
       ELSE /\ packIdx' = packIdx + 1
            /\ IF fmap[k] = <<>>
               THEN k' = k + 1 /\ pc' = "folder" /\ UNCHANGED <<dec, off, i, failed>>
               ELSE LET d == Decode(arch, H.coder[k], AreaRead(arch, ReadStart, SumSeq(ReadSizes)))
                    IN IF d = Error
                       THEN failed' = TRUE /\ pc' = "done" /\ UNCHANGED <<k, dec, off, i>>
                       ELSE dec' = d /\ off' = 0 /\ i' = 1 /\ pc' = "write" /\ UNCHANGED <<k, failed>>
    /\ UNCHANGED <<arch, cur, fileSizes, files, sizeIdx, emptyIdx, fIdx, inFolder, fmap, out>>

(* _extract_files_from_folder: offset walk *)
WriteStep ==
    /\ pc = "write"
    /\ IF i > Len(fmap[k])
       THEN k' = k + 1 /\ pc' = "folder" /\ UNCHANGED <<i, off, out, failed>>
       ELSE LET n == fmap[k][i] IN
            IF off + files[n].size > SegLen(dec)                        \* "exceeds decompressed data bounds"
            THEN failed' = TRUE /\ pc' = "done" /\ UNCHANGED <<k, i, off, out>>
            ELSE /\ out' = [out EXCEPT ![n] = Written(Slice(dec, off, files[n].size))]
                 /\ off' = off + files[n].size
                 /\ i' = i + 1 /\ pc' = "write" /\ UNCHANGED <<k, failed>>
    /\ UNCHANGED <<arch, cur, fileSizes, files, sizeIdx, emptyIdx, fIdx, inFolder, fmap, packIdx, dec>>

(* extractall, tail: empty files have no stream and belong to no folder *)
EmptiesStep ==
    /\ pc = "empties"
    /\ out' = [n \in 1..NE(arch) |-> IF ~files[n].stream /\ ~files[n].isDir THEN Written(<<>>) ELSE out[n]]
    /\ pc' = "done"
    /\ UNCHANGED <<arch, i, cur, fileSizes, files, sizeIdx, emptyIdx, fIdx, inFolder, fmap, k, packIdx, dec, off, failed>>

Next == SubStep \/ ListStep \/ MapStep \/ FolderStep \/ WriteStep \/ EmptiesStep
Spec == Init /\ [][Next]_vars

(* ------------------------------------------------------------------ the property *)
EntryOK(A, fl, o, n) ==
    CASE A.kinds[n] = "file"  -> /\ o[n] = Written(Content(A, n))
                                 /\ ~fl[n].isDir /\ fl[n].size = A.usize[n] /\ fl[n].folder = FolderOf(A, n)
      [] A.kinds[n] = "empty" -> o[n] = Written(<<>>) /\ ~fl[n].isDir /\ fl[n].size = 0
      [] A.kinds[n] = "dir"   -> fl[n].isDir /\ ~o[n].w
Faithful == pc = "done" => /\ ~failed
                           /\ \A n \in 1..NE(arch) : EntryOK(arch, files, out, n)
TypeOK == /\ pc \in {"sub", "list", "map", "folder", "write", "empties", "done"}
          /\ Len(files) <= NE(arch) /\ failed \in BOOLEAN
=============================================================================
