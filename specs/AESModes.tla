------------------------------ MODULE AESModes ------------------------------
(* C20 -- modes of operation on top of AES.tla: ECB, CBC (NIST SP 800-38A 6.1, 6.2), PKCS#7
   padding (RFC 5652 6.3) and the stream wrapper pypdf calls CryptAES.

   Mirrors _pypdf_aes_fallback.py:
       aes_ecb_encrypt / aes_ecb_decrypt / aes_cbc_encrypt / aes_cbc_decrypt -> ModeCall .. ModeReturn
       _pkcs7_pad / _pkcs7_unpad                                             -> Pad / ValidPad / Unpad
       CryptAES.encrypt / .decrypt installed by patch_pypdf_fallback_aes()   -> WrapCall, WrapSub, WrapOutcomeOK
       CryptAES.__init__ (one key per OBJECT)                                -> NewObj, ObjCall (variable objs)

   A mode call is a step machine around the block machine of AES.tla:
       ModeCall (reject wrong lengths | load the key)  -> ExpandWord* -> ( FeedBlock -> block steps
       -> CollectBlock )*  -> ModeReturn,   result in outp.
   CBC: prev starts as the IV; encrypt feeds  block (+) prev  and chains on the CIPHERTEXT block;
   decrypt emits  D(block) (+) prev  and chains on the INPUT (ciphertext) block.

   Rejection (the property: "wrong key or data lengths are rejected with ValueError"):
   key length not in {16,24,32}; CBC IV length # 16; data length not a multiple of 16.

   Stream wrapper:  encrypt(m) = iv || CBC-Enc(key, iv, Pad(m)) for an IV of 16 bytes chosen by the
   implementation (freshness is not a safety property of one behaviour; the trace module checks
   length and pairwise distinctness over repeated calls);
   decrypt(d): iv = d[1..16], payload = rest;
       payload empty              -> empty result               (MUST; pypdf: "for empty encrypted data")
                                     (the code makes no AES call then; a CBC call on the empty string
                                      is tolerated as long as the result is empty)
       payload block-aligned      -> p = CBC-Dec(key, iv, payload); ValidPad(p) -> Unpad(p)   (MUST)
   DON'T-CAREs (the property statement is silent, any outcome is accepted):
     * aligned payload whose plaintext does not end in valid PKCS#7 padding (the code raises
       ValueError, pypdf's own provider strips p[-1] bytes blindly),
     * payload not block-aligned (pypdf: "just for robustness, it does not happen"),
     * wrong key length together with an empty payload (no AES operation is requested),
     * Unpad of the empty string, and which of several wrong lengths is reported first.          *)
EXTENDS AES

VARIABLES fn,    \* "none" | "expand" | "ecb_enc" | "ecb_dec" | "cbc_enc" | "cbc_dec"
          iv,    \* the IV of the running CBC call (<< >> for ECB)
          inp,   \* input bytes of the running call
          outp,  \* output bytes produced so far
          prev,  \* CBC chaining block
          res,   \* "" (nothing called yet) | "run" | "ok" | "ValueError"
          wr,    \* the stream-wrapper call in progress (record), WrNone when there is none
          objs   \* the live wrapper objects: a function  object id -> the key that object was constructed with
modevars == << fn, iv, inp, outp, prev, res >>
allvars  == << key, w, st, rnd, ph, fn, iv, inp, outp, prev, res, wr, objs >>

ModeFns == {"ecb_enc", "ecb_dec", "cbc_enc", "cbc_dec"}
IsEnc(f) == f \in {"ecb_enc", "cbc_enc"}
IsCbc(f) == f \in {"cbc_enc", "cbc_dec"}

Xor16(a, b) == [i \in Idx |-> a[i] \oplus b[i]]
BlockAt(d, off) == SubSeq(d, off + 1, off + 16)            \* off = 0, 16, 32, ...

(* ------------------------------- PKCS#7 ------------------------------- *)
PadLen(n) == IF "PadZeroWhenAligned" \in Deviations THEN (16 - (n % 16)) % 16 ELSE 16 - (n % 16)
Pad(m) == m \o [i \in 1..PadLen(Len(m)) |-> PadLen(Len(m))]
ValidPad(p) == /\ Len(p) > 0 /\ Len(p) % 16 = 0
               /\ p[Len(p)] \in 1..16
               /\ \A i \in (Len(p) - p[Len(p)] + 1)..Len(p) : p[i] = p[Len(p)]
Unpad(p) == SubSeq(p, 1, Len(p) - p[Len(p)])               \* only meaningful when ValidPad(p)

(* ------------------------------ ECB / CBC ------------------------------ *)
BadCall(f, k, v, d) == \/ ~ ValidKeyLen(Len(k))
                       \/ IsCbc(f) /\ Len(v) # 16
                       \/ f \in ModeFns /\ Len(d) % 16 # 0

ModeInit == AESInit /\ fn = "none" /\ iv = << >> /\ inp = << >> /\ outp = << >> /\ prev = << >> /\ res = ""

\* f = "expand" is the bare key expansion (_expand_key): v = d = << >>
ModeCall(f, k, v, d) ==
    /\ fn = "none" /\ res # "run"
    /\ IF BadCall(f, k, v, d)
       THEN res' = "ValueError" /\ UNCHANGED << key, w, st, rnd, ph, fn, iv, inp, outp, prev >>
       ELSE /\ SetKey(k)
            /\ fn' = f /\ iv' = v /\ inp' = d /\ outp' = << >> /\ prev' = v /\ res' = "run"

FeedBlock ==
    /\ res = "run" /\ fn \in ModeFns /\ Len(outp) < Len(inp)
    /\ LET b == BlockAt(inp, Len(outp)) IN
       IF IsEnc(fn) THEN BeginEnc(IF fn = "cbc_enc" THEN Xor16(b, prev) ELSE b) ELSE BeginDec(b)
    /\ UNCHANGED modevars

CollectBlock ==
    /\ res = "run" /\ fn \in ModeFns /\ BlockDone
    /\ LET b == BlockAt(inp, Len(outp)) IN
       /\ outp' = outp \o (IF fn = "cbc_dec" THEN Xor16(st, prev) ELSE st)
       /\ prev' = (CASE fn = "cbc_enc" -> (IF "CbcChainPlain" \in Deviations THEN b ELSE st)
                     [] fn = "cbc_dec" -> b
                     [] OTHER -> prev)
    /\ EndBlock
    /\ UNCHANGED << fn, iv, inp, res >>

ModeReturn ==
    /\ res = "run" /\ ph = "ready" /\ Len(outp) = Len(inp)
    /\ res' = "ok" /\ fn' = "none"
    /\ UNCHANGED << key, w, st, rnd, ph, iv, inp, outp, prev >>

ModeStep == \/ ExpandWord /\ UNCHANGED modevars
            \/ FeedBlock
            \/ BlockStep /\ UNCHANGED modevars
            \/ CollectBlock
            \/ ModeReturn

(* ---------------------------- stream wrapper ---------------------------- *)
WrNone == [fn |-> "none", key |-> << >>, data |-> << >>, ph |-> "none"]
WrapFns == {"wrap_enc", "wrap_dec"}

IvOf(d) == SubSeq(d, 1, IF Len(d) < 16 THEN Len(d) ELSE 16)
PayloadOf(d) == SubSeq(d, 17, Len(d))
PayloadEmpty(d) == Len(d) <= 16
PayloadAligned(d) == Len(d) > 16 /\ (Len(d) - 16) % 16 = 0

\* a wrapper call may follow a finished one (histories of several calls on several live objects)
WrapCall(f, k, d) ==
    /\ wr.ph \in {"none", "end"} /\ fn = "none" /\ res # "run" /\ f \in WrapFns
    /\ wr' = [fn |-> f, key |-> k, data |-> d, ph |-> "called"]
    /\ UNCHANGED objs

(* Object identity.  CryptAES(key) constructs a wrapper OBJECT; every later encrypt / decrypt on that object
   works under the key IT was constructed with, however many other objects (other keys, other key sizes, the
   same key again) were constructed or used in between.  Deviation SharedWrapperKey (sensitivity only): the key
   is shared state of all objects, the most recently constructed one wins.                                   *)
NoObjs == [o \in {} |-> << >>]
NewObj(o, k) ==
    /\ wr.ph \in {"none", "end"} /\ o \notin DOMAIN objs
    /\ objs' = [x \in DOMAIN objs \cup {o} |->
                  IF x = o \/ "SharedWrapperKey" \in Deviations THEN k ELSE objs[x]]
ObjCall(f, o, d) == o \in DOMAIN objs /\ WrapCall(f, objs[o], d)

\* what the wrapper may hand to the CBC layer (f, k, v, d = function, key, iv, data of that call)
WrapSubArgsOK(f, k, v, d) ==
    CASE wr.fn = "wrap_enc" -> f = "cbc_enc" /\ k = wr.key /\ Len(v) = 16 /\ d = Pad(wr.data)
      [] wr.fn = "wrap_dec" /\ PayloadAligned(wr.data) ->
             f = "cbc_dec" /\ k = wr.key /\ v = IvOf(wr.data) /\ d = PayloadOf(wr.data)
      [] wr.fn = "wrap_dec" /\ ~ PayloadAligned(wr.data) /\ ~ PayloadEmpty(wr.data) -> TRUE     \* DON'T-CARE
      \* empty payload: the code makes no AES call at all; a CBC call on the empty string is harmless
      [] wr.fn = "wrap_dec" /\ PayloadEmpty(wr.data) -> f = "cbc_dec" /\ k = wr.key /\ d = << >>
      [] OTHER -> FALSE

WrapSub(f, k, v, d) ==
    /\ wr.ph = "called"
    /\ WrapSubArgsOK(f, k, v, d)
    /\ ModeCall(f, k, v, d)
    /\ wr' = [wr EXCEPT !.ph = "sub"]
    /\ UNCHANGED objs

WrapDontCare ==
    /\ wr.fn = "wrap_dec"
    /\ \/ ~ PayloadAligned(wr.data) /\ ~ PayloadEmpty(wr.data)
       \/ PayloadEmpty(wr.data) /\ ~ ValidKeyLen(Len(wr.key))
       \/ PayloadAligned(wr.data) /\ wr.ph = "sub" /\ res = "ok" /\ ~ ValidPad(outp)

\* kind = "ret" (val = returned bytes) | "raise" (val = exception class name)
WrapOutcomeOK(kind, val) ==
    \/ WrapDontCare
    \/ /\ wr.fn = "wrap_enc" /\ wr.ph = "sub"
       /\ \/ kind = "ret"   /\ res = "ok" /\ val = iv \o outp
          \/ kind = "raise" /\ res = "ValueError" /\ val = "ValueError"
    \/ /\ wr.fn = "wrap_dec" /\ PayloadEmpty(wr.data)
       /\ wr.ph = "called" \/ (wr.ph = "sub" /\ res = "ok")
       /\ kind = "ret" /\ val = << >>
    \/ /\ wr.fn = "wrap_dec" /\ PayloadAligned(wr.data) /\ wr.ph = "sub"
       /\ \/ kind = "ret"   /\ res = "ok" /\ ValidPad(outp) /\ val = Unpad(outp)
          \/ kind = "raise" /\ res = "ValueError" /\ val = "ValueError"

WrapEnd == wr' = [wr EXCEPT !.ph = "end"] /\ UNCHANGED objs
=============================================================================
