--------------------------------- MODULE Doc ---------------------------------
(* The abstract document algebra shared by C02 (main-text fidelity), C03 (units), C13 (tables)
   and C14 (images): what a document IS, independent of any file format, and what each
   observation (full text, unit texts, tables) must look like.

   A document (JSON from the harness, same value the writers render):
     [units |-> << [blocks |-> <<B..>>, notes |-> <<I..>>, name |-> id | 0] .. >>,
      header |-> <<I..>>, footer |-> <<I..>>]
     Block   <<"p", <<I..>>>> | <<"h", level, <<I..>>>> | <<"ul", << <<B..>> .. >>>>
           | <<"tbl", << << <<B..>> .. >> .. >>>>   (rows of cells of blocks)
           | <<"sdt", <<B..>>>> | <<"tbx", <<B..>>>>
     Inline  <<"r", id>> | <<"tab">> | <<"br">> | <<"a", <<I..>>>> | <<"ins", <<I..>>>>
           | <<"del", <<I..>>>> | <<"isdt", <<I..>>>> | <<"fn", id>> | <<"cm", id>>
   Text leaves are token ids (rendered as unmistakable words by the writers).

   Flatten gives the reading-order sequence of atoms
       <<"t", id, class, marks>>      a token with its class and structural marks
       <<"b", "hard">>                paragraph / cell / item boundary
       <<"b", "soft">>                tab or line break inside a paragraph
   The class of a token is derived from its position (BODY, HEAD, CELL, LISTITEM, LINK, INS, SDT,
   TEXTBOX visible;  DEL, NOTE, COMMENT, HDRFTR, SPEAKERNOTE excluded by documentation;
   SHEETNAME decoration).  Req(fmt, class) in {"MUST","MUSTNOT","DONTCARE"} is transcribed from
   the README ("Format-Specific Notes on get_full_text()") and the statement of C02.         *)
EXTENDS Naturals, Sequences, FiniteSets, TLC

Range(s) == { s[i] : i \in DOMAIN s }

RECURSIVE ConcatAll(_)
ConcatAll(ss) == IF ss = <<>> THEN <<>> ELSE Head(ss) \o ConcatAll(Tail(ss))

Hard == << <<"b", "hard">> >>
Soft == << <<"b", "soft">> >>

Hidden == {"DEL", "NOTE", "COMMENT", "HDRFTR", "SPEAKERNOTE"}

\* context: [cls, marks]; a hidden class, once entered, sticks
Enter(ctx, c) == IF ctx.cls \in Hidden THEN ctx ELSE [ctx EXCEPT !.cls = c]
Mark(ctx, m) == [ctx EXCEPT !.marks = @ \cup {m}]

RECURSIVE FlatInls(_, _), FlatBlocks(_, _)

FlatInl(i, ctx) ==
    CASE i[1] = "r"    -> << <<"t", i[2], ctx.cls, ctx.marks>> >>
      [] i[1] = "tab"  -> Soft
      [] i[1] = "br"   -> Soft
      [] i[1] = "a"    -> FlatInls(i[2], Enter(ctx, "LINK"))
      [] i[1] = "ins"  -> FlatInls(i[2], Enter(ctx, "INS"))
      [] i[1] = "del"  -> FlatInls(i[2], Enter(ctx, "DEL"))
      [] i[1] = "isdt" -> FlatInls(i[2], Enter(ctx, "SDT"))
      [] i[1] = "fn"   -> << <<"t", i[2], Enter(ctx, "NOTE").cls, ctx.marks>> >>
      [] i[1] = "cm"   -> << <<"t", i[2], Enter(ctx, "COMMENT").cls, ctx.marks>> >>

FlatInls(is, ctx) == ConcatAll([k \in DOMAIN is |-> FlatInl(is[k], ctx)])

FlatBlock(b, ctx) ==
    CASE b[1] = "p"   -> Hard \o FlatInls(b[2], ctx) \o Hard
      [] b[1] = "h"   -> Hard \o FlatInls(b[3], Enter(ctx, "HEAD")) \o Hard
      [] b[1] = "ul"  -> ConcatAll([k \in DOMAIN b[2] |->
                            Hard \o FlatBlocks(b[2][k],
                                      Enter(IF "ul" \in ctx.marks THEN Mark(ctx, "ul.nested") ELSE Mark(ctx, "ul"),
                                            "LISTITEM")) \o Hard])
      [] b[1] = "tbl" -> ConcatAll([r \in DOMAIN b[2] |-> ConcatAll([c \in DOMAIN b[2][r] |->
                            Hard \o FlatBlocks(b[2][r][c],
                                      Enter(IF "tbl" \in ctx.marks THEN Mark(ctx, "tbl.nested") ELSE Mark(ctx, "tbl"),
                                            "CELL")) \o Hard])])
      [] b[1] = "sdt" -> FlatBlocks(b[2], Enter(Mark(ctx, "bsdt"), "SDT"))
      [] b[1] = "tbx" -> Hard \o FlatBlocks(b[2], Enter(Mark(ctx, "tbx"), "TEXTBOX")) \o Hard

FlatBlocks(bs, ctx) == ConcatAll([k \in DOMAIN bs |-> FlatBlock(bs[k], ctx)])

Ctx0(c) == [cls |-> c, marks |-> {}]

\* body of one unit (sheet name first when the unit has one)
FlatUnitBody(u) ==
    (IF u.name # 0 THEN Hard \o << <<"t", u.name, "SHEETNAME", {}>> >> \o Hard ELSE <<>>)
    \o FlatBlocks(u.blocks, Ctx0("BODY"))

FlatUnit(u) == FlatUnitBody(u) \o Hard \o FlatInls(u.notes, Ctx0("SPEAKERNOTE")) \o Hard

FlatDoc(d) ==
    Hard \o FlatInls(d.header, Ctx0("HDRFTR")) \o Hard
    \o ConcatAll([k \in DOMAIN d.units |-> FlatUnit(d.units[k])])
    \o Hard \o FlatInls(d.footer, Ctx0("HDRFTR")) \o Hard

Tokens(flat) == SelectSeq(flat, LAMBDA a : a[1] = "t")

(* ------------------------------ documentation table ------------------------------ *)
Visible == {"BODY", "HEAD", "CELL", "LISTITEM", "LINK", "INS", "SDT", "TEXTBOX"}

\* formats whose tables are documented as NOT part of the full text (statement of C02: "or, for the
\* formats that document it, in the extracted tables"): cell text is then looked up in the tables
TablesOutsideText == {"odp", "epub"}

Req(fmt, cls) ==
    CASE cls \in Visible \ {"CELL"}                      -> "MUST"
      [] cls = "CELL" /\ fmt \notin TablesOutsideText    -> "MUST"
      [] cls = "CELL"                                    -> "DONTCARE"      \* checked through the tables (C13)
      [] cls \in {"DEL", "COMMENT", "HDRFTR", "SPEAKERNOTE"} -> "MUSTNOT"
      [] cls = "NOTE"                                    -> "DONTCARE"      \* footnote text: README silent for docx/odt/rtf
      [] cls = "SHEETNAME" /\ fmt \in {"xlsx", "ods"}    -> "MUST"          \* README: "Includes sheet name + sheet text"
      [] cls = "SHEETNAME"                               -> "DONTCARE"      \* xls: "no sheet names" (not generated here)
      [] OTHER                                           -> "DONTCARE"

(* ------------------------------ deviations (as-built behaviour) ------------------------------
   A deviation relaxes the rule for exactly the tokens in its domain, in exactly the way today's
   code misbehaves.  Strict checking uses dev = {}.                                            *)
DeviationNames ==
    { "Docx!TabBreakDropped",        \* w:tab / w:br inside a run emit nothing: neighbours are glued
      "Docx!BlockSdtLost",           \* body-level w:sdt is not walked: its paragraphs are lost
      "Docx!NestedTableRepeated",    \* table.iter() descends into nested tables: their text 3x
      "Odt!NestedRepeated",          \* iter() over nested lists / tables: inner paragraphs repeated
      "Odt!TrackedDeletionLeaks",    \* text:tracked-changes paragraphs are walked like body text
      "Html!NestedTableRepeated",    \* rows of a nested table are collected as rows of the outer table too
      "Epub!TableTextDropped",       \* text inside tables is neither in the text nor (nested) in the tables
      "Rtf!DeletedLeaks",            \* {\deleted ...} groups are not skipped
      "Xlsx!UnnamedHeaderPlaceholder" }   \* empty cells of the first row are rendered as "Unnamed: <col>"

\* does deviation dv apply to token atom a in format fmt?  [min, max] occurrence bounds and leak permission
InDomain(dv, fmt, a) ==
    CASE dv = "Docx!BlockSdtLost"        -> fmt = "docx" /\ "bsdt" \in a[4]
      [] dv = "Docx!NestedTableRepeated" -> fmt = "docx" /\ "tbl.nested" \in a[4]
      [] dv = "Odt!NestedRepeated"       -> fmt = "odt" /\ ({"tbl.nested", "ul.nested"} \cap a[4] # {})
      [] dv = "Odt!TrackedDeletionLeaks" -> fmt = "odt" /\ a[3] = "DEL"
      [] dv = "Html!NestedTableRepeated" -> fmt \in {"html", "mhtml"} /\ "tbl.nested" \in a[4]
      [] dv = "Epub!TableTextDropped"    -> fmt = "epub" /\ "tbl" \in a[4]
      [] dv = "Rtf!DeletedLeaks"         -> fmt = "rtf" /\ a[3] = "DEL"
      [] OTHER                           -> FALSE

MinCount(fmt, a, dev) ==
    IF Req(fmt, a[3]) # "MUST" THEN 0
    ELSE IF \E dv \in dev : dv \in {"Docx!BlockSdtLost", "Epub!TableTextDropped"} /\ InDomain(dv, fmt, a) THEN 0
    ELSE 1

MaxCount(fmt, a, dev) ==
    IF Req(fmt, a[3]) = "DONTCARE" THEN 99
    ELSE IF Req(fmt, a[3]) = "MUSTNOT" THEN
        (IF \E dv \in dev : dv \in {"Odt!TrackedDeletionLeaks", "Rtf!DeletedLeaks"}
                             /\ InDomain(dv, fmt, a) THEN 99 ELSE 0)
    ELSE IF \E dv \in dev : dv \in {"Docx!NestedTableRepeated", "Odt!NestedRepeated", "Html!NestedTableRepeated"}
                             /\ InDomain(dv, fmt, a) THEN 4
    ELSE 1

SoftCounts(fmt, dev) == ~(fmt = "docx" /\ "Docx!TabBreakDropped" \in dev)

\* alphanumeric words other than tokens: none is documented decoration, except as-built placeholders
AllowedResidue(fmt, w, dev) ==
    /\ fmt = "xlsx" /\ "Xlsx!UnnamedHeaderPlaceholder" \in dev
    /\ w \in {"Unnamed"} \cup {ToString(n) : n \in 0..30}

(* ------------------------------ the fidelity predicate ------------------------------ *)
Count(seq, x) == Cardinality({k \in DOMAIN seq : seq[k] = x})

\* segment number of every token: tokens in the same segment may be glued in the output
SegOf(flat, fmt, dev) ==
    LET n == Len(flat)
        bump(k) == flat[k][1] = "b" /\ (flat[k][2] = "hard" \/ SoftCounts(fmt, dev))
        seg[k \in 0..n] == IF k = 0 THEN 0 ELSE IF bump(k) THEN seg[k - 1] + 1 ELSE seg[k - 1]
    IN [id \in {flat[k][2] : k \in {j \in 1..n : flat[j][1] = "t"}} |->
            seg[CHOOSE k \in 1..n : flat[k][1] = "t" /\ flat[k][2] = id]]

RECURSIVE FirstOcc(_, _)
FirstOcc(s, seen) == IF s = <<>> THEN <<>>
                     ELSE IF Head(s) \in seen THEN FirstOcc(Tail(s), seen)
                     ELSE <<Head(s)>> \o FirstOcc(Tail(s), seen \cup {Head(s)})

\* obs: token ids in output order; sep[k] = 1 iff whitespace between obs[k] and obs[k+1];
\* residue: alphanumeric words left after deleting the tokens
Fidelity(flat, fmt, obs, sep, residue, dev) ==
    LET toks   == Tokens(flat)
        ids    == {toks[k][2] : k \in DOMAIN toks}
        atom(i) == toks[CHOOSE k \in DOMAIN toks : toks[k][2] = i]
        strictIds == {i \in ids : Req(fmt, atom(i)[3]) = "MUST"}
        order  == SelectSeq([k \in DOMAIN toks |-> toks[k][2]], LAMBDA i : i \in strictIds /\ Count(obs, i) > 0)
        seg    == SegOf(flat, fmt, dev)
    IN /\ \A k \in DOMAIN obs : obs[k] \in ids                                   \* nothing invented
       /\ \A i \in ids : /\ Count(obs, i) >= MinCount(fmt, atom(i), dev)          \* nothing lost
                         /\ Count(obs, i) <= MaxCount(fmt, atom(i), dev)          \* nothing doubled / leaked
       /\ FirstOcc(SelectSeq(obs, LAMBDA i : i \in strictIds), {}) = order        \* relative order kept
       /\ \A k \in DOMAIN sep :                                                   \* nothing merged
             (sep[k] = 0 /\ obs[k] \in strictIds /\ obs[k + 1] \in strictIds /\ obs[k] # obs[k + 1])
                => seg[obs[k]] = seg[obs[k + 1]]
       /\ \A k \in DOMAIN residue : AllowedResidue(fmt, residue[k], dev)         \* no undocumented text
=============================================================================
