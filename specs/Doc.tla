--------------------------------- MODULE Doc ---------------------------------
(* The abstract document algebra shared by C02 (main-text fidelity), C03 (units), C13 (tables)
   and C14 (images): what a document IS, independent of any file format, and what each
   observation (full text, unit texts, tables) must look like.

   A document (JSON from the harness, same value the writers render):
     [units |-> << [blocks |-> <<B..>>, notes |-> <<I..>>, name |-> id | 0] .. >>,
      header |-> <<I..>>, footer |-> <<I..>>]
     Block   <<"p", <<I..>>>> | <<"h", level, <<I..>>>> | <<"ul", << <<B..>> .. >>>>
           | <<"tbl", << << <<B..>> .. >> .. >>>>   (rows of cells of blocks)
           | <<"sdt", <<B..>>>> | <<"tbx", <<B..>>>>
     Inline  <<"r", id>> | <<"tab">> | <<"br">> | <<"sp">> (a blank between two runs: a text node of its own) | <<"a", <<I..>>>> | <<"ins", <<I..>>>>
           | <<"del", <<I..>>>> | <<"isdt", <<I..>>>> | <<"fn", id>> | <<"cm", id>>
   Text leaves are token ids (rendered as unmistakable words by the writers).

   Flatten gives the reading-order sequence of atoms
       <<"t", id, class, marks>>      a token with its class and structural marks
       <<"b", "hard">>                paragraph / cell / item boundary
       <<"b", "soft">>                tab or line break inside a paragraph
   The class of a token is derived from its position (BODY, HEAD, CELL, LISTITEM, LINK, INS, SDT,
   TEXTBOX visible;  DEL, NOTE, COMMENT, HDRFTR, SPEAKERNOTE excluded by documentation;
   SHEETNAME decoration).  Req(fmt, class) in {"MUST","MUSTNOT","DONTCARE"} is transcribed from
   the README ("Format-Specific Notes on get_full_text()") and the statement of C02.         *)
EXTENDS Naturals, Sequences, FiniteSets, TLC

Range(s) == { s[i] : i \in DOMAIN s }

RECURSIVE ConcatAll(_)
ConcatAll(ss) == IF ss = <<>> THEN <<>> ELSE Head(ss) \o ConcatAll(Tail(ss))

Hard == << <<"b", "hard">> >>
Soft == << <<"b", "soft">> >>

Hidden == {"DEL", "NOTE", "COMMENT", "HDRFTR", "SPEAKERNOTE"}

\* context: [cls, marks]; a hidden class, once entered, sticks
Enter(ctx, c) == IF ctx.cls \in Hidden THEN ctx ELSE [ctx EXCEPT !.cls = c]
Mark(ctx, m) == [ctx EXCEPT !.marks = @ \cup {m}]

RECURSIVE FlatInls(_, _), FlatBlocks(_, _)

FlatInl(i, ctx) ==
    CASE i[1] = "r"    -> << <<"t", i[2], ctx.cls, ctx.marks>> >>
      [] i[1] = "tab"  -> Soft
      [] i[1] = "sp"   -> Soft
      [] i[1] = "br"   -> Soft
      [] i[1] = "a"    -> FlatInls(i[2], Enter(ctx, "LINK"))
      [] i[1] = "ins"  -> FlatInls(i[2], Enter(ctx, "INS"))
      [] i[1] = "del"  -> FlatInls(i[2], Enter(ctx, "DEL"))
      [] i[1] = "isdt" -> FlatInls(i[2], Enter(ctx, "SDT"))
      [] i[1] = "fn"   -> << <<"t", i[2], Enter(ctx, "NOTE").cls, ctx.marks>> >>
      [] i[1] = "cm"   -> << <<"t", i[2], Enter(ctx, "COMMENT").cls, ctx.marks>> >>
      [] i[1] = "itbx" -> Hard \o FlatBlocks(i[2], Enter(Mark(ctx, "tbx"), "TEXTBOX")) \o Hard     \* text box anchored in the paragraph

FlatInls(is, ctx) == ConcatAll([k \in DOMAIN is |-> FlatInl(is[k], ctx)])

FlatBlock(b, ctx) ==
    CASE b[1] = "p"   -> Hard \o FlatInls(b[2], ctx) \o Hard
      [] b[1] = "h"   -> Hard \o FlatInls(b[3], Enter(Mark(ctx, IF b[2] = 1 THEN "L1" ELSE IF b[2] = 2 THEN "L2" ELSE "L3"), "HEAD")) \o Hard
      [] b[1] = "ul"  -> ConcatAll([k \in DOMAIN b[2] |->
                            Hard \o FlatBlocks(b[2][k],
                                      Enter(IF "ul" \in ctx.marks THEN Mark(ctx, "ul.nested") ELSE Mark(ctx, "ul"),
                                            "LISTITEM")) \o Hard])
      [] b[1] = "tbl" -> ConcatAll([r \in DOMAIN b[2] |-> ConcatAll([c \in DOMAIN b[2][r] |->
                            Hard \o FlatBlocks(b[2][r][c],
                                      Enter(IF "tbl" \in ctx.marks THEN Mark(ctx, "tbl.nested") ELSE Mark(ctx, "tbl"),
                                            "CELL")) \o Hard])])
      [] b[1] = "sdt" -> FlatBlocks(b[2], Enter(Mark(ctx, "bsdt"), "SDT"))
      [] b[1] = "tbx" -> Hard \o FlatBlocks(b[2], Enter(Mark(ctx, "tbx"), "TEXTBOX")) \o Hard

FlatBlocks(bs, ctx) == ConcatAll([k \in DOMAIN bs |-> FlatBlock(bs[k], ctx)])

Ctx0(c) == [cls |-> c, marks |-> {}]

\* body of one unit (sheet name first when the unit has one)
FlatUnitBody(u) ==
    (IF u.name # 0 THEN Hard \o << <<"t", u.name, "SHEETNAME", {}>> >> \o Hard ELSE <<>>)
    \o FlatBlocks(u.blocks, Ctx0("BODY"))

FlatUnit(u) == FlatUnitBody(u) \o Hard \o FlatInls(u.notes, Ctx0("SPEAKERNOTE")) \o Hard

\* every token of unit k carries the mark "U<k>" (which unit a token belongs to; used by the slide-order deviations)
UnitMark(k) == "U" \o ToString(k)
WithUnit(flat, k) == [j \in DOMAIN flat |-> IF flat[j][1] = "t" THEN <<"t", flat[j][2], flat[j][3], flat[j][4] \cup {UnitMark(k)}>>
                                                              ELSE flat[j]]
FlatDoc(d) ==
    Hard \o FlatInls(d.header, Ctx0("HDRFTR")) \o Hard
    \o ConcatAll([k \in DOMAIN d.units |-> WithUnit(FlatUnit(d.units[k]), k)])
    \o Hard \o FlatInls(d.footer, Ctx0("HDRFTR")) \o Hard

Tokens(flat) == SelectSeq(flat, LAMBDA a : a[1] = "t")

(* ------------------------------ documentation table ------------------------------ *)
Visible == {"BODY", "HEAD", "CELL", "LISTITEM", "LINK", "INS", "SDT", "TEXTBOX"}

\* formats whose tables are documented as NOT part of the full text (statement of C02: "or, for the
\* formats that document it, in the extracted tables"): cell text is then looked up in the tables
TablesOutsideText == {"odp", "epub"}

Req(fmt, cls) ==
    CASE cls \in Visible \ {"CELL"}                      -> "MUST"
      [] cls = "CELL" /\ fmt \notin TablesOutsideText    -> "MUST"
      [] cls = "CELL"                                    -> "DONTCARE"      \* checked through the tables (C13)
      [] cls \in {"DEL", "COMMENT", "HDRFTR", "SPEAKERNOTE"} -> "MUSTNOT"
      [] cls = "NOTE"                                    -> "DONTCARE"      \* footnote text: README silent for docx/odt/rtf
      [] cls = "SHEETNAME" /\ fmt \in {"xlsx", "ods"}    -> "MUST"          \* README: "Includes sheet name + sheet text"
      [] cls = "SHEETNAME"                               -> "DONTCARE"      \* xls: "no sheet names" (not generated here)
      [] OTHER                                           -> "DONTCARE"

\* the requirement for a token atom: in the formats whose tables are outside the text, EVERYTHING inside a table (a
\* heading or a link in a cell as well) is looked up in the tables
ReqA(fmt, a) == IF fmt \in TablesOutsideText /\ "tbl" \in a[4] /\ Req(fmt, a[3]) = "MUST" THEN "DONTCARE" ELSE Req(fmt, a[3])

(* ------------------------------ deviations (as-built behaviour) ------------------------------
   A deviation relaxes the rule for exactly the tokens in its domain, in exactly the way today's
   code misbehaves.  Strict checking uses dev = {}.                                            *)
DeviationNames ==
    { "Docx!TabBreakDropped",        \* w:tab / w:br inside a run emit nothing: neighbours are glued
      "Docx!BlockSdtLost",           \* body-level w:sdt is not walked: its paragraphs are lost
      "Docx!NestedTableRepeated",    \* table.iter() descends into nested tables: their text 3x
      "Odt!NestedRepeated",          \* iter() over nested lists / tables: inner paragraphs repeated
      "Odt!TrackedDeletionLeaks",    \* text:tracked-changes paragraphs are walked like body text
      "Html!NestedTableRepeated",    \* rows of a nested table are collected as rows of the outer table too
      "Epub!TableTextDropped",       \* text inside tables is neither in the text nor (nested) in the tables
      "Epub!ColspanShifts",          \* a cell with colspan=2 is one cell: the cells right of it move one column left
      "Rtf!DeletedLeaks",            \* {\deleted ...} groups are not skipped
      "Xlsx!UnnamedHeaderPlaceholder",
      "Odt!TextboxParagraphsGlued",
      "Odp!TextBoxesAfterBody",      \* slide text = title, then placeholder paragraphs, then free text boxes (not visual order)
      "Ppt!TextBoxesAfterBody",      \* the same for legacy PPT (PptSlideContent.text_combined)
      "Ppt!RawFallback" }                 \* no slide has text: the raw-text fallback collects every text atom (speaker notes too)      \* paragraphs inside a text box are concatenated without separator   \* empty cells of the first row are rendered as "Unnamed: <col>"

\* does deviation dv apply to token atom a in format fmt?  [min, max] occurrence bounds and leak permission
InDomain(dv, fmt, a) ==
    CASE dv = "Docx!BlockSdtLost"        -> fmt = "docx" /\ "bsdt" \in a[4]
      [] dv = "Docx!NestedTableRepeated" -> fmt = "docx" /\ "tbl.nested" \in a[4]
      [] dv = "Odt!NestedRepeated"       -> fmt = "odt" /\ ({"tbl.nested", "ul.nested"} \cap a[4] # {})
      [] dv = "Odt!TrackedDeletionLeaks" -> fmt = "odt" /\ a[3] = "DEL"
      [] dv = "Html!NestedTableRepeated" -> fmt \in {"html", "mhtml"} /\ "tbl.nested" \in a[4]
      [] dv = "Epub!TableTextDropped"    -> fmt = "epub" /\ "tbl" \in a[4]
      [] dv = "Rtf!DeletedLeaks"         -> fmt = "rtf" /\ a[3] = "DEL"
      [] dv = "Ppt!RawFallback"          -> fmt = "ppt" /\ a[3] = "SPEAKERNOTE"
      [] OTHER                           -> FALSE

MinCount(fmt, a, dev) ==
    IF ReqA(fmt, a) # "MUST" THEN 0
    ELSE IF \E dv \in dev : dv \in {"Docx!BlockSdtLost", "Epub!TableTextDropped"} /\ InDomain(dv, fmt, a) THEN 0
    ELSE 1

MaxCount(fmt, a, dev) ==
    IF ReqA(fmt, a) = "DONTCARE" THEN 99
    ELSE IF ReqA(fmt, a) = "MUSTNOT" THEN
        (IF \E dv \in dev : dv \in {"Odt!TrackedDeletionLeaks", "Rtf!DeletedLeaks"}
                             /\ InDomain(dv, fmt, a) THEN 99 ELSE 0)       \* (Ppt!RawFallback: see Fidelity, its domain needs the whole document)
    ELSE IF \E dv \in dev : dv \in {"Docx!NestedTableRepeated", "Odt!NestedRepeated", "Html!NestedTableRepeated"}
                             /\ InDomain(dv, fmt, a) THEN 4
    ELSE 1

SoftCounts(fmt, dev) == ~(fmt = "docx" /\ "Docx!TabBreakDropped" \in dev)

\* alphanumeric words other than tokens: none is documented decoration, except as-built placeholders
AllowedResidue(fmt, w, dev) ==
    /\ fmt = "xlsx" /\ "Xlsx!UnnamedHeaderPlaceholder" \in dev
    /\ w \in {"Unnamed"} \cup {ToString(n) : n \in 0..30}

(* ------------------------------ the fidelity predicate ------------------------------ *)
Count(seq, x) == Cardinality({k \in DOMAIN seq : seq[k] = x})

\* segment number of every token: tokens in the same segment may be glued in the output
SegOf(flat, fmt, dev) ==
    LET n == Len(flat)
        \* a paragraph boundary between two text-box tokens does not count under the ODT text-box deviation
        inTbx(k) == /\ fmt = "odt" /\ "Odt!TextboxParagraphsGlued" \in dev
                    /\ \E i \in 1..(k - 1) : flat[i][1] = "t" /\ "tbx" \in flat[i][4]
                          /\ \A j \in (i + 1)..(k - 1) : flat[j][1] = "b"
                    /\ \E i \in (k + 1)..n : flat[i][1] = "t" /\ "tbx" \in flat[i][4]
                          /\ \A j \in (k + 1)..(i - 1) : flat[j][1] = "b"
        bump(k) == flat[k][1] = "b" /\ (flat[k][2] = "hard" \/ SoftCounts(fmt, dev)) /\ ~inTbx(k)
        seg[k \in 0..n] == IF k = 0 THEN 0 ELSE IF bump(k) THEN seg[k - 1] + 1 ELSE seg[k - 1]
    IN [id \in {flat[k][2] : k \in {j \in 1..n : flat[j][1] = "t"}} |->
            seg[CHOOSE k \in 1..n : flat[k][1] = "t" /\ flat[k][2] = id]]

\* as-built slide order of ODP / legacy PPT: within each unit the title first, then placeholder text, then free text boxes
BoxesLast(fmt, dev) == (fmt = "odp" /\ "Odp!TextBoxesAfterBody" \in dev) \/ (fmt = "ppt" /\ "Ppt!TextBoxesAfterBody" \in dev)
UnitIndexOf(a, n) == IF \E k \in 1..n : UnitMark(k) \in a[4] THEN CHOOSE k \in 1..n : UnitMark(k) \in a[4] ELSE 0
SlideKey(a, n) == 3 * UnitIndexOf(a, n) + (IF a[3] = "HEAD" THEN 0 ELSE IF "tbx" \in a[4] THEN 2 ELSE 1)
SlideOrder(toks) == LET n == Len(toks) IN
                    ConcatAll([key \in 1..(3 * n + 3) |-> SelectSeq(toks, LAMBDA a : SlideKey(a, n) = key - 1)])

RECURSIVE FirstOcc(_, _)
FirstOcc(s, seen) == IF s = <<>> THEN <<>>
                     ELSE IF Head(s) \in seen THEN FirstOcc(Tail(s), seen)
                     ELSE <<Head(s)>> \o FirstOcc(Tail(s), seen \cup {Head(s)})

\* obs: token ids in output order; sep[k] = 1 iff whitespace between obs[k] and obs[k+1];
\* residue: alphanumeric words left after deleting the tokens
Fidelity(flat, fmt, obs, sep, residue, dev) ==
    LET toks   == Tokens(flat)
        ids    == {toks[k][2] : k \in DOMAIN toks}
        atom(i) == toks[CHOOSE k \in DOMAIN toks : toks[k][2] = i]
        strictIds == {i \in ids : ReqA(fmt, atom(i)) = "MUST"}
        otoks  == IF BoxesLast(fmt, dev) THEN SlideOrder(toks) ELSE toks
        order  == SelectSeq([k \in DOMAIN otoks |-> otoks[k][2]], LAMBDA i : i \in strictIds /\ Count(obs, i) > 0)
        seg    == SegOf(flat, fmt, dev)
        \* Ppt!RawFallback applies only to a deck in which no slide has text: then speaker notes may leak
        maxc(i) == IF "Ppt!RawFallback" \in dev /\ InDomain("Ppt!RawFallback", fmt, atom(i)) /\ strictIds = {} THEN 99
                   ELSE MaxCount(fmt, atom(i), dev)
    IN /\ \A k \in DOMAIN obs : obs[k] \in ids                                   \* nothing invented
       /\ \A i \in ids : /\ Count(obs, i) >= MinCount(fmt, atom(i), dev)          \* nothing lost
                         /\ Count(obs, i) <= maxc(i)                              \* nothing doubled / leaked
       /\ FirstOcc(SelectSeq(obs, LAMBDA i : i \in strictIds), {}) = order        \* relative order kept
       /\ \A k \in DOMAIN sep :                                                   \* nothing merged
             (sep[k] = 0 /\ obs[k] \in strictIds /\ obs[k + 1] \in strictIds /\ obs[k] # obs[k + 1])
                => seg[obs[k]] = seg[obs[k + 1]]
       /\ \A k \in DOMAIN residue : AllowedResidue(fmt, residue[k], dev)         \* no undocumented text

(* =============================== C03: units =============================== *)
\* formats whose documentation derives the full text from the units (statement of C03)
JoinFormats == {"pdf", "pptx", "odp", "xlsx", "ods", "epub", "html", "mhtml", "txt", "md", "csv", "tsv", "json",
                "odg", "eml", "mbox"}
\* formats with one unit per source unit (page / slide / sheet / chapter / explicit RTF page)
PagedFormats == {"pdf", "pptx", "ppt", "odp", "xlsx", "ods", "xls", "epub", "rtf"}

UnitDeviationNames ==
    { "Rtf!EmptyPageDropped",         \* pages without text are skipped and later pages renumbered
      "Ppt!RawFallback",              \* no slide has text: raw-text fallback appends another unit numbered 1
      "Ppt!EmptySlideDropped",        \* slides without text are dropped (when any slide has text) and later ones renumbered
      "Docx!UnitsOmitTables",         \* heading-section units carry no table text at all
      "Docx!UnitsRepeatTextbox",      \* text-box paragraphs are emitted once per AlternateContent branch and level
      "Odt!UnitsIncludeHidden",       \* tracked deletions / annotations become unit text
      "Odt!UnitsRepeatNested",
      "Docx!PreambleLost",            \* body text before the first heading belongs to no unit
      "Odt!EmptyHeadingDropped",
      "Docx!UnitsBlockSdtLost" }      \* paragraphs inside a block-level content control are in no unit     \* a heading whose section has no content yields no unit (its text is lost)

\* observation of one unit: [n, obs, sep, residue, heads (tokens of the heading path), tbl (tokens in unit tables)]
\* Paged formats: unit k mirrors source unit k.
PagedUnits(d, fmt, us, dev) ==
    LET dropEmpty == ("Rtf!EmptyPageDropped" \in dev /\ fmt = "rtf") \/ ("Ppt!EmptySlideDropped" \in dev /\ fmt = "ppt")
        hasText(k) == \E a \in Range(Tokens(FlatUnitBody(d.units[k]))) : ReqA(fmt, a) = "MUST"
        keep == IF dropEmpty
                \* rtf: pages without text are skipped.  ppt (_parse_slide_list_container): an empty slide is dropped
                \* once any text has been seen, i.e. empty slides BEFORE the first slide with text are kept
                THEN SelectSeq([k \in DOMAIN d.units |-> k],
                               LAMBDA k : hasText(k) \/ (fmt = "ppt" /\ \A m \in 1..k : ~hasText(m)))
                \* a source position that is not a unit of this kind (EPUB spine item that is no chapter: an SVG page,
                \* a dangling idref) yields no unit but still counts as a position
                ELSE SelectSeq([k \in DOMAIN d.units |-> k], LAMBDA k : d.units[k].gap = 0)
    IN /\ Len(us) = Len(keep)                                        \* one unit per page / slide / sheet / chapter
       /\ \A k \in DOMAIN us :
            /\ us[k].n = (IF dropEmpty THEN k ELSE keep[k])                       \* 1-based source position
            /\ Fidelity(FlatUnit(d.units[keep[k]]), fmt, us[k].obs, us[k].sep, us[k].residue, dev)

\* The heading path of a section unit is the chain of open headings: heading i is an ancestor of heading j iff it
\* precedes j and every heading after i up to and including j has a deeper level (one token per heading here).
LevelOf(a) == IF "L1" \in a[4] THEN 1 ELSE IF "L2" \in a[4] THEN 2 ELSE 3
HeadPathOKIn(hs, heads) ==
    \/ heads = <<>>
    \/ LET last == heads[Len(heads)]
       IN \E j \in DOMAIN hs :
            /\ hs[j][2] = last
            /\ LET anc == SelectSeq([i \in 1..j |-> i],
                                    LAMBDA i : i = j \/ \A m \in (i + 1)..j : LevelOf(hs[m]) > LevelOf(hs[i]))
               IN heads = [i \in DOMAIN anc |-> hs[anc[i]][2]]
\* a heading-styled paragraph inside a table cell is cell content; whether it also opens a section is left open
\* (Word's outline does not list it, an ODF outline does): the chain may be computed with or without such headings
HeadPathOK(toks, heads) ==
    \/ HeadPathOKIn(SelectSeq(toks, LAMBDA a : a[3] = "HEAD"), heads)
    \/ HeadPathOKIn(SelectSeq(toks, LAMBDA a : a[3] = "HEAD" /\ "tbl" \notin a[4]), heads)

\* Flowing-text formats: one unit or one per heading section; together they cover the body exactly.
\* Heading tokens may live in the heading path, cell tokens in the unit's tables.
FlowUnits(d, fmt, us, dev) ==
    LET flat  == FlatDoc(d)
        toks  == Tokens(flat)
        all   == ConcatAll([k \in DOMAIN us |-> us[k].obs])
        heads == UNION {Range(us[k].heads) : k \in DOMAIN us}
        tbls  == UNION {Range(us[k].tbl) : k \in DOMAIN us}
        pos(a) == CHOOSE j \in DOMAIN toks : toks[j] = a
        \* (the first heading the DOCX unit builder sees: a heading-styled paragraph inside a table cell is none for it)
        isHead(a) == a[3] = "HEAD" /\ "tbl" \notin a[4]
        firstHead == IF \E j \in DOMAIN toks : isHead(toks[j])
                     THEN CHOOSE j \in DOMAIN toks : isHead(toks[j]) /\ \A i \in 1..(j - 1) : ~isHead(toks[i])
                     ELSE 0
        \* next visible token after position j (0 = none)
        nextVis(j) == IF \E i \in (j + 1)..Len(toks) : ReqA(fmt, toks[i]) = "MUST"
                      THEN CHOOSE i \in (j + 1)..Len(toks) : ReqA(fmt, toks[i]) = "MUST"
                                /\ \A h \in (j + 1)..(i - 1) : ReqA(fmt, toks[h]) # "MUST"
                      ELSE 0
        emptySection(a) == a[3] = "HEAD" /\ (nextVis(pos(a)) = 0 \/ toks[nextVis(pos(a))][3] = "HEAD")
        lo(a) == IF (a[3] = "HEAD" /\ a[2] \in heads) \/ ((a[3] = "CELL" \/ "tbl" \in a[4]) /\ a[2] \in tbls)
                    \/ ("Docx!PreambleLost" \in dev /\ fmt = "docx" /\ firstHead > 0 /\ pos(a) < firstHead)
                    \/ ("Odt!EmptyHeadingDropped" \in dev /\ fmt = "odt" /\ emptySection(a))
                    \/ ("Docx!UnitsBlockSdtLost" \in dev /\ fmt = "docx" /\ "bsdt" \in a[4])
                    \/ ("Docx!UnitsOmitTables" \in dev /\ fmt = "docx" /\ "tbl" \in a[4])
                 THEN 0 ELSE MinCount(fmt, a, dev)
        hi(a) == IF ("Docx!UnitsRepeatTextbox" \in dev /\ fmt = "docx" /\ "tbx" \in a[4])
                    \/ ("Odt!UnitsRepeatNested" \in dev /\ fmt = "odt" /\ ({"tbx", "tbl.nested", "ul.nested"} \cap a[4] # {}))
                 THEN 9
                 ELSE IF "Odt!UnitsIncludeHidden" \in dev /\ fmt = "odt" /\ a[3] \in {"DEL", "COMMENT"} THEN 9
                 ELSE MaxCount(fmt, a, dev)
    IN /\ (\E j \in DOMAIN toks : lo(toks[j]) > 0) => Len(us) >= 1     \* (an empty document may have no unit)
       /\ \A k \in DOMAIN us : us[k].n >= 1 /\ (k > 1 => us[k].n > us[k - 1].n)          \* strictly increasing, 1-based
       /\ \A k \in DOMAIN all : \E j \in DOMAIN toks : toks[j][2] = all[k]               \* nothing invented
       /\ \A j \in DOMAIN toks : /\ Count(all, toks[j][2]) >= lo(toks[j])                 \* every piece in some unit
                                 /\ Count(all, toks[j][2]) <= hi(toks[j])                 \* ... and in no other
       /\ LET strict == {toks[j][2] : j \in {i \in DOMAIN toks : ReqA(fmt, toks[i]) = "MUST" /\ toks[i][3] # "HEAD"}}
              order  == SelectSeq([j \in DOMAIN toks |-> toks[j][2]], LAMBDA i : i \in strict /\ Count(all, i) > 0)
          IN FirstOcc(SelectSeq(all, LAMBDA i : i \in strict), {}) = order               \* source order across units
       /\ \A k \in DOMAIN us : \A w \in DOMAIN us[k].residue : AllowedResidue(fmt, us[k].residue[w], dev)
       /\ \A k \in DOMAIN us : HeadPathOK(toks, us[k].heads)

NoSlideText(d, fmt) == \A k \in DOMAIN d.units : \A a \in Range(Tokens(FlatUnitBody(d.units[k]))) : ReqA(fmt, a) # "MUST"

Units(d, fmt, us, full, joinok, dev) ==
    /\ IF "Ppt!RawFallback" \in dev /\ fmt = "ppt" /\ NoSlideText(d, fmt)
       THEN Len(us) >= Len(d.units)         \* as built: the empty slides plus one more unit numbered 1 holding the raw text
       ELSE IF fmt \in PagedFormats /\ ~(fmt = "rtf" /\ Len(d.units) = 1)
       THEN PagedUnits(d, fmt, us, dev) ELSE FlowUnits(d, fmt, us, dev)
    /\ fmt \in JoinFormats => joinok                  \* get_full_text() = trimmed newline-join of the unit texts

(* =============================== C13: tables =============================== *)
TableDeviationNames ==
    { "Xlsx!HeaderPlaceholder",        \* empty first-row cells become the text 'Unnamed: <col>'
      "Epub!NestedTableGarbles",       \* a table containing a nested table loses its own cells
      "Xlsx!TableNameRowSkipped",      \* a first row with exactly one non-empty cell is dropped from the table
      "Rtf!NeighbourTablesMerged",
      "Epub!CellInlineSpaced",
      "Xls!HeaderOnlySheetEmpty",      \* a sheet with a single row yields an empty table (XlsSheet.get_table needs data rows)
      "Xls!HeaderKeyCollision",        \* rows are dicts keyed by header text: equal (e.g. empty) header names lose columns
      "Xls!ErrorCellNone" }            \* the value of an error cell is None        \* text of adjacent inline elements in a cell is joined with a blank ("zq00 03x")    \* tables separated by less than ~20 characters of text are returned as one

RECURSIVE TopTables(_)
TopTables(bs) ==
    ConcatAll([k \in DOMAIN bs |->
        CASE bs[k][1] = "tbl" -> << bs[k] >>
          [] bs[k][1] = "ul"  -> ConcatAll([i \in DOMAIN bs[k][2] |-> TopTables(bs[k][2][i])])
          [] bs[k][1] \in {"sdt", "tbx"} -> TopTables(bs[k][2])
          [] OTHER -> <<>>])

HasNested(t) == \E a \in Range(Tokens(FlatBlock(t, Ctx0("BODY")))) : "tbl.nested" \in a[4]

\* expected content of a source cell: ids of its MUST tokens, in order
CellIds(cell, fmt) ==
    LET ts == Tokens(FlatBlocks(cell, [cls |-> "CELL", marks |-> {"tbl"}]))
    IN SelectSeq([k \in DOMAIN ts |-> IF ReqA(fmt, ts[k]) = "MUSTNOT" THEN 0 ELSE ts[k][2]], LAMBDA i : i # 0)

\* an observed cell is a record [k |-> "ids" | "lit" | "val", v |-> token ids, s |-> other text / typed value]
IsIds(c) == c.k = "ids"

EmptyCell == [k |-> "ids", v |-> <<>>, s |-> "", v2 |-> <<>>, sep |-> <<>>]
Max2(a, b) == IF a >= b THEN a ELSE b

\* paragraphs (and other segments) of one cell stay separated: two tokens may touch only inside one segment
CellSepOK(cell, fmt, oc, dev) ==
    LET flat == FlatBlocks(cell, [cls |-> "CELL", marks |-> {"tbl"}])
        seg  == SegOf(flat, fmt, dev)
    IN \A k \in DOMAIN oc.sep :
          (oc.sep[k] = 0 /\ oc.v[k] \in DOMAIN seg /\ oc.v[k + 1] \in DOMAIN seg /\ oc.v[k] # oc.v[k + 1])
             => seg[oc.v[k]] = seg[oc.v[k + 1]]

\* does the table's first row look like a caption row (exactly one non-empty cell, more than one column)?
CaptionRow(row, fmt) == Len(row) > 1 /\ Cardinality({j \in DOMAIN row : CellIds(row[j], fmt) # <<>>}) = 1

\* a row as the EPUB reader sees it (as built, "Epub!ColspanShifts"): a cell covered by a horizontal merge (written as
\* colspan="2" on its left neighbour) is not a cell of its own, so everything right of it moves one column to the left
Squeeze(row) == LET keep == SelectSeq([j \in DOMAIN row |-> j], LAMBDA j : ~(j > 1 /\ row[j] = <<>> /\ row[j - 1] # <<>>))
                IN [k \in DOMAIN keep |-> row[keep[k]]]

RowMatches(row, i, fmt, g, dev) ==
    \A j \in 1..Max2(Len(row), Len(g.grid[i])) :                                   \* ragged rows: padding is don't-care,
       LET src == IF j <= Len(row) THEN CellIds(row[j], fmt) ELSE <<>>              \* missing cells count as empty
           oc  == IF j <= Len(g.grid[i]) THEN g.grid[i][j] ELSE EmptyCell
       IN \/ (IsIds(oc) /\ oc.v = src                                             \* cell (i,j) in place,
                /\ (j <= Len(row) => CellSepOK(row[j], fmt, oc, dev)))              \* its paragraphs not glued
          \/ ("Xlsx!HeaderPlaceholder" \in dev /\ fmt = "xlsx" /\ i = 1 /\ src = <<>> /\ oc.k = "lit")
          \/ ("Epub!CellInlineSpaced" \in dev /\ fmt = "epub" /\ oc.k = "lit" /\ oc.v2 = src)

GridMatches(t, fmt, g, dev) ==
    LET rows == IF "Xlsx!TableNameRowSkipped" \in dev /\ fmt = "xlsx" /\ t[2] # <<>> /\ CaptionRow(t[2][1], fmt)
                THEN Tail(t[2]) ELSE t[2] IN
    /\ Len(g.grid) = Len(rows)                                                     \* r rows
    /\ \A i \in DOMAIN rows :
         \/ RowMatches(rows[i], i, fmt, g, dev)
         \/ ("Epub!ColspanShifts" \in dev /\ fmt = "epub" /\ RowMatches(Squeeze(rows[i]), i, fmt, g, dev))
    /\ g.dim[1] = Len(g.grid)                                                      \* get_dim() = shape of get_table()
    /\ g.dim[2] = (IF g.grid = <<>> THEN 0
                   ELSE LET m == CHOOSE i \in DOMAIN g.grid : \A j \in DOMAIN g.grid : Len(g.grid[j]) <= Len(g.grid[i])
                        IN Len(g.grid[m]))

\* tables nested in the cells of a table (one level is what the universe contains; deeper ones recursively)
RECURSIVE NestedIn(_)
NestedIn(t) ==
    ConcatAll([r \in DOMAIN t[2] |-> ConcatAll([c \in DOMAIN t[2][r] |->
        LET inner == TopTables(t[2][r][c]) IN
        inner \o ConcatAll([k \in DOMAIN inner |-> NestedIn(inner[k])])])])

RemoveAt(s, i) == SubSeq(s, 1, i - 1) \o SubSeq(s, i + 1, Len(s))

RECURSIVE SubseqMatch(_, _, _, _, _)
\* every source table is matched, in order, by an observed table; an observed table in between must be one of
\* the nested tables of the source, each listed at most once (whether nested tables are listed separately is
\* DON'T-CARE; listing one twice, or inventing a table, is not)
SubseqMatch(src, obs, nest, fmt, dev) ==
    IF obs = <<>> THEN src = <<>>
    ELSE \/ (src # <<>> /\ GridMatches(Head(src), fmt, Head(obs), dev)
                /\ SubseqMatch(Tail(src), Tail(obs), nest, fmt, dev))
         \/ \E i \in DOMAIN nest : GridMatches(nest[i], fmt, Head(obs), dev)
                /\ SubseqMatch(src, Tail(obs), RemoveAt(nest, i), fmt, dev)

RECURSIVE MergedMatch(_, _, _, _)
\* as-built RTF grouping: runs of neighbouring source tables come back as one table (rows concatenated)
MergedMatch(src, obs, fmt, dev) ==
    IF src = <<>> THEN obs = <<>>
    ELSE IF obs = <<>> THEN FALSE
    ELSE \E k \in 1..Len(src) :
            /\ GridMatches(<<"tbl", ConcatAll([i \in 1..k |-> src[i][2]])>>, fmt, Head(obs), dev)
            /\ MergedMatch(SubSeq(src, k + 1, Len(src)), Tail(obs), fmt, dev)

TablesOK(d, fmt, obs, dev) ==
    LET src0 == ConcatAll([k \in DOMAIN d.units |-> TopTables(d.units[k].blocks)])
        src == IF "Xls!HeaderOnlySheetEmpty" \in dev /\ fmt = "xls"
               THEN SelectSeq(src0, LAMBDA t : Len(t[2]) # 1) ELSE src0
        collide(t) == \E i, j \in DOMAIN t[2][1] : i # j /\ CellIds(t[2][1][i], fmt) = CellIds(t[2][1][j], fmt)
        nested == \E k \in DOMAIN src : HasNested(src[k])
        nonempty == SelectSeq(obs, LAMBDA g : g.grid # <<>>)        \* an empty sheet may or may not yield a table
    IN /\ \A k \in DOMAIN obs : obs[k].dim[1] = Len(obs[k].grid)
       /\ IF nested
          THEN SubseqMatch(src, nonempty, ConcatAll([k \in DOMAIN src |-> NestedIn(src[k])]), fmt, dev)
                  \/ ("Epub!NestedTableGarbles" \in dev /\ fmt = "epub")
          ELSE \/ /\ Len(nonempty) = Len(src)                        \* none lost, merged or invented
                  /\ \A k \in DOMAIN src :
                        \/ GridMatches(src[k], fmt, nonempty[k], dev)
                        \/ /\ "Xls!HeaderKeyCollision" \in dev /\ fmt = "xls" /\ src[k][2] # <<>> /\ collide(src[k])
                           /\ Len(nonempty[k].grid) = Len(src[k][2])       \* same rows, some columns lost
               \/ ("Rtf!NeighbourTablesMerged" \in dev /\ fmt = "rtf" /\ Len(src) > 1
                     /\ MergedMatch(src, nonempty, fmt, dev))

(* ------------------ C13: typed spreadsheet values keep their value ------------------
   A typed data cell is named by its kind; the observation is a record
     [k |-> "num", n2 |-> 2 * value]  (numbers, exact for multiples of 0.5)   [k |-> "bool", b |-> BOOLEAN]
     [k |-> "str", s |-> text]        [k |-> "ids", v |-> token ids]          [k |-> "other", s |-> repr]
   The writer puts: n = 7, nf = 1.5, z = 0, b = TRUE, bf = FALSE, d = 2024-01-02T03:04:05, date = 2024-01-02, t = 03:04:05,
   e = #DIV/0! (error value), f = formula with cached result 2.5, s = one token, empty = nothing.       *)
TypedAcceptable(kind, oc, fmt, dev) ==
    CASE kind = "n"     -> oc.k = "num" /\ oc.n2 = 14
      [] kind = "nf"    -> oc.k = "num" /\ oc.n2 = 3
      [] kind = "z"     -> oc.k = "num" /\ oc.n2 = 0                                  \* a zero is a value, not an empty cell
      [] kind = "bf"    -> oc.k = "bool" /\ oc.b = FALSE
      [] kind = "b"     -> oc.k = "bool" /\ oc.b = TRUE
      [] kind = "d"     -> oc.k = "str" /\ oc.s \in {"2024-01-02T03:04:05", "2024-01-02 03:04:05"}   \* dates as ISO strings (T or blank)
      [] kind = "date"  -> oc.k = "str" /\ oc.s \in {"2024-01-02", "2024-01-02T00:00:00"}
      [] kind = "t"     -> oc.k = "str" /\ oc.s \in {"03:04:05", "PT03H04M05S"}       \* either ISO 8601 form
      [] kind = "e"     -> \/ (oc.k = "str" /\ oc.s = "#DIV/0!")
                           \/ ("Xls!ErrorCellNone" \in dev /\ fmt = "xls" /\ oc.k = "ids" /\ oc.v = <<>>)
      [] kind = "f"     -> oc.k = "num" /\ oc.n2 = 5                                  \* formula result
      [] kind = "s"     -> oc.k = "ids" /\ Len(oc.v) = 1
      [] kind = "empty" -> oc.k = "ids" /\ oc.v = <<>>

TypedRowOK(kinds, row, fmt, dev) ==
    /\ Len(row) >= Len(kinds) \/ \A j \in (Len(row) + 1)..Len(kinds) : kinds[j] = "empty"
    /\ \A j \in DOMAIN row : IF j <= Len(kinds) THEN TypedAcceptable(kinds[j], row[j], fmt, dev)
                                               ELSE row[j].k = "ids" /\ row[j].v = <<>>

(* ------------------ C02 / C13: typed values are visible in the sheet text ------------------
   The text line of the data row shows every value, in column order, in a display form of its value.       *)
TextForms(kind) ==
    CASE kind = "n"    -> {"7", "7.0"}
      [] kind = "nf"   -> {"1.5"}
      [] kind = "z"    -> {"0", "0.0"}
      [] kind = "b"    -> {"True", "true", "TRUE"}
      [] kind = "bf"   -> {"False", "false", "FALSE"}
      [] kind = "d"    -> {"2024-01-02T03:04:05"}
      [] kind = "date" -> {"2024-01-02", "2024-01-02T00:00:00"}
      [] kind = "t"    -> {"03:04:05", "PT03H04M05S"}
      [] kind = "e"    -> {"#DIV/0!", "#ERROR"}
      [] kind = "f"    -> {"2.5"}
      [] OTHER         -> {}
RECURSIVE TypedTextFrom(_, _, _, _)
TypedTextFrom(kinds, ws, k, i) ==
    IF k > Len(kinds) THEN i = Len(ws) + 1
    ELSE IF kinds[k] = "empty" THEN TypedTextFrom(kinds, ws, k + 1, i)
    ELSE IF kinds[k] = "s" THEN i <= Len(ws) /\ ws[i] = "<token>" /\ TypedTextFrom(kinds, ws, k + 1, i + 1)
    ELSE \/ (i <= Len(ws) /\ ws[i] \in TextForms(kinds[k]) /\ TypedTextFrom(kinds, ws, k + 1, i + 1))
         \/ (kinds[k] = "d" /\ i + 1 <= Len(ws) /\ ws[i] = "2024-01-02" /\ ws[i + 1] = "03:04:05"    \* date and time as two words
                /\ TypedTextFrom(kinds, ws, k + 1, i + 2))
TypedTextOK(kinds, ws) == TypedTextFrom(kinds, ws, 1, 1)

\* numbers in the FIRST row of a sheet (year columns): the header cell shows the value (as the number or as its text)
TypedHeaderCellOK(kind, oc) ==
    CASE kind = "n"  -> (oc.k = "num" /\ oc.n2 = 14) \/ (oc.k = "str" /\ oc.s = "7")
      [] kind = "nf" -> (oc.k = "num" /\ oc.n2 = 3) \/ (oc.k = "str" /\ oc.s = "1.5")
      [] kind = "z"  -> (oc.k = "num" /\ oc.n2 = 0) \/ (oc.k = "str" /\ oc.s = "0")
      [] OTHER       -> TRUE
TypedHeaderOK(kinds, row) == Len(row) >= Len(kinds) /\ \A j \in DOMAIN kinds : TypedHeaderCellOK(kinds[j], row[j])

\* a header-less typed grid (ODS): every row in place; trailing all-empty columns may be trimmed
TypedGridOK(kinds, grid, fmt, dev) ==
    /\ Len(grid) = Len(kinds)
    /\ \A i \in DOMAIN kinds : TypedRowOK(kinds[i], grid[i], fmt, dev)

=============================================================================
