----------------------------- MODULE GraphTrace -----------------------------
(* code -> spec for C18.  A trace = one SharePointRestClient object driven through a fake
   transport (request_func): header = the simulated library (srv), the call and its arguments
   (job), the injection plan (fault, informational); events, in program order:

     Call                                   a listing call starts (the last one of a trace is the
                                            retry against a healthy transport)
     Req    k f p path auth site drive      request handed to the transport, URL decoded back to
                                            <<kind, folder node, page>> / a name path; auth / site /
                                            drive: the bearer token, site id and drive id in it are
                                            the ones the server issued / the call was given
     Fault  kind code inj                   the transport raised HTTPError(code) / URLError
     Resp   r status body items next node isFolder inj    the transport returned response no. r
     Close  r                               close() called on response r
     Return res=<<[id, nm, pp]..>>           the call returned / the generator was exhausted
     Raise  cls status url_ok               the call raised: cls "request" | "auth" | "other"
     Match  F file obs                      FileFilter.matches(file) = obs on a synthetic file

   Strict = TRUE : every event must be the step of Graph's client model (each request is the one
                   the walker must send next, each healthy answer is the one Graph's server model
                   gives, the response is closed before anything else happens, results and error
                   equal the model's), with all invariants conjoined primed.
   Strict = FALSE: property level only (the driver re-validates traces the strict pass rejected):
                   any request order is accepted; a call that met no injected fault must return
                   the complete exact listing; a call that met one must raise (unless it sent the
                   failed request again by itself and then returns the complete listing, or the
                   fault was the DON'T-CARE 404 of a folder lookup); a call that raises must have
                   met a fault, must have
                   closed every response it opened, and must raise the client's own family (HTTP /
                   network / status faults: the request error with that status and URL).         *)
EXTENDS Graph, Json, IOUtils, TLCExt

CONSTANT Strict

Traces == JsonDeserialize(IOEnv.TRACE_FILE)

VARIABLES tid, l, lib
tvars == <<tid, l, lib, vars>>

Ev == Traces[tid].ev[l]
IsEvent(a) == l <= Len(Traces[tid].ev) /\ Ev.a = a /\ l' = l + 1 /\ UNCHANGED tid

Ids(O) == { O[x].id : x \in DOMAIN O }
\* exactness over an explicit scope; complete = every MUST file of the scope is there
ListingIn(s, j, O, scope, complete) ==
    LET F == EffFilter(j) IN
    /\ Cardinality(Ids(O)) = Len(O)
    /\ \A x \in DOMAIN O : /\ O[x].id \in scope
                           /\ O[x].nm = s.name[O[x].id]                       \* it is that file
                           /\ (j.call # "infolder" => O[x].pp = ExpPP(s, O[x].id))
                           /\ Verdict(F, FileRec(s, O[x].id)) # "mustnot"
    /\ complete => \A i \in scope : Verdict(F, FileRec(s, i)) = "must" => i \in Ids(O)

Inv == /\ Inv_Complete /\ Inv_Once /\ Inv_Closed /\ Inv_Family /\ Inv_CacheOnlyAfterSuccess
       /\ Inv_RetryComplete /\ Inv_ReqCount /\ Inv_FaultRaises

(* ------------------------------ strict ------------------------------ *)
SCall == IsEvent("Call") /\ StartCall
SReq ==
    /\ IsEvent("Req")
    /\ SendReq(Req(Ev.k, Ev.f, Ev.p, Ev.path))             \* = NextReq: the request the walker must send now
    /\ Ev.auth /\ Ev.site /\ Ev.drive
SFault ==
    /\ IsEvent("Fault") /\ pc = "sent"
    /\ ~Ev.inj => Healthy = AnsRaise(Ev.kind, Ev.code)       \* the fake server is Graph's server model
    /\ TransportRaise(Ev.kind, Ev.code, Ev.inj)
SResp ==
    /\ IsEvent("Resp") /\ pc = "sent"
    /\ LET rs == Resp(Ev.status, Ev.body, Ev.items, Ev.next, Ev.node, Ev.isFolder) IN
       /\ ~Ev.inj => (rs.status \in 200..299 /\ Healthy = AnsResp([rs EXCEPT !.status = 200]))   \* any 2xx is success
       /\ TransportReturn(rs, Ev.inj)
SClose == IsEvent("Close") /\ CloseResp
SReturn ==
    /\ IsEvent("Return") /\ Return
    /\ ListingIn(srv, job, Ev.res, Ids(results), TRUE)      \* what was walked, filtered; Inv_Complete': walked = scope
SRaise ==
    /\ IsEvent("Raise") /\ RaiseOut
    /\ err.cause # "readerr" => Ev.cls = err.cls
    /\ err.cls = "request" => (Ev.cls = "request" /\ Ev.status = err.status /\ Ev.url_ok)
SSilent == (SkipSite \/ Advance \/ Process) /\ UNCHANGED <<tid, l>>
SNext == /\ (SCall \/ SReq \/ SFault \/ SResp \/ SClose \/ SReturn \/ SRaise \/ SSilent)
         /\ Inv'
         /\ UNCHANGED lib

(* ------------------------------ property level ------------------------------ *)
NoCause == [kind |-> "", code |-> 0, k |-> ""]
EvReq == Req(Ev.k, Ev.f, Ev.p, Ev.path)
LInit == lib = [st |-> "idle", open |-> {}, closed |-> {}, inj |-> FALSE, cause |-> NoCause, lastk |-> "",
                lastReq |-> NoReq, failedReq |-> NoReq, resent |-> FALSE]
LCall == IsEvent("Call") /\ lib.st = "idle"
         /\ lib' = [lib EXCEPT !.st = "in", !.inj = FALSE, !.cause = NoCause, !.failedReq = NoReq, !.resent = FALSE]
\* resent: the request that met the injected fault was sent again (a client that retries by itself)
LReq == IsEvent("Req") /\ lib.st = "in"
        /\ lib' = [lib EXCEPT !.lastk = Ev.k, !.lastReq = EvReq,
                               !.resent = @ \/ (lib.inj /\ EvReq = lib.failedReq)]
LFault ==
    /\ IsEvent("Fault") /\ lib.st = "in"
    /\ lib' = IF Ev.inj THEN [lib EXCEPT !.inj = TRUE, !.failedReq = lib.lastReq,
                                         !.cause = [kind |-> Ev.kind, code |-> Ev.code, k |-> lib.lastk]]
              ELSE [lib EXCEPT !.cause = [kind |-> "genuine", code |-> Ev.code, k |-> lib.lastk]]
LResp ==
    /\ IsEvent("Resp") /\ lib.st = "in"
    /\ lib' = IF Ev.inj
              THEN [lib EXCEPT !.open = @ \cup {Ev.r}, !.inj = TRUE, !.failedReq = lib.lastReq,
                               !.cause = [kind |-> IF Ev.status < 200 \/ Ev.status > 299 THEN "non2xx" ELSE Ev.body,
                                          code |-> Ev.status, k |-> lib.lastk]]
              ELSE [lib EXCEPT !.open = @ \cup {Ev.r}]
LClose == IsEvent("Close") /\ lib' = [lib EXCEPT !.closed = @ \cup {Ev.r}]
Swallowable(c) == c.k = "folderByPath" /\ c.code = 404       \* "folder not found": DON'T-CARE
LReturn ==
    /\ IsEvent("Return") /\ lib.st = "in"
    /\ Feasible(srv, job)
    \* "if a request fails the call raises": returning after an injected fault is acceptable only for the
    \* folder-lookup 404 (DON'T-CARE) or when the client itself sent the failed request again
    /\ lib.inj => (Swallowable(lib.cause) \/ lib.resent)
    /\ ListingIn(srv, job, Ev.res, Scope(srv, job), ~(lib.inj /\ Swallowable(lib.cause)))
    /\ lib' = [lib EXCEPT !.st = "idle"]
LRaise ==
    /\ IsEvent("Raise") /\ lib.st = "in"
    /\ lib.open = lib.closed                                 \* every response opened so far has been closed
    /\ IF lib.inj THEN
            LET c == lib.cause IN
            /\ c.kind \in {"http", "non2xx"} => (Ev.cls = "request" /\ Ev.status = c.code /\ Ev.url_ok)
            /\ c.kind = "url" => (Ev.cls = "request" /\ Ev.status = -1 /\ Ev.url_ok)
            /\ c.kind # "readerr" => Ev.cls \in {"request", "auth"}
       ELSE /\ lib.cause.kind = "genuine" /\ lib.cause.code = 404       \* the server itself said 404 ...
            /\ (~Feasible(srv, job) \/ Swallowable(lib.cause))           \* ... to a path that does not exist
            /\ Ev.cls = "request" /\ Ev.status = 404 /\ Ev.url_ok
    /\ lib' = [lib EXCEPT !.st = "idle"]
LNext == /\ (LCall \/ LReq \/ LFault \/ LResp \/ LClose \/ LReturn \/ LRaise)
         /\ UNCHANGED vars

(* ------------------------------ filter predicate ------------------------------ *)
TraceMatch ==
    /\ IsEvent("Match")
    /\ ObsConforms(Ev.F, Ev.file, Ev.obs)
    /\ UNCHANGED <<lib, vars>>

TraceInit ==
    /\ tid \in 1..Len(Traces) /\ l = 1
    /\ srv = Traces[tid].hdr.srv /\ job = Traces[tid].hdr.job /\ fault = Traces[tid].hdr.fault
    /\ WellFormedSrv(srv)
    /\ budget = 0
    /\ ClientInit
    /\ LInit
TraceNext == TraceMatch \/ (IF Strict THEN SNext ELSE LNext)
TraceSpec == TraceInit /\ [][TraceNext]_tvars

TraceAccept ==
    /\ (l = Len(Traces[tid].ev) + 1) => PrintT(<<"ACCEPT", tid>>)
    /\ (IOEnv.MBV_PROGRESS = "1") => PrintT(<<"AT", tid, l>>)
=============================================================================
