---------------------------- MODULE PptxSlideTrace ----------------------------
(* code -> spec binding of PptxSlide.tla: the PptxSlide the real _process_slide_from_context builds from a slide part
   written from the shapes (title, footer, content_placeholders, other_textboxes, tables, numbered pictures, text,
   base_text) is PptxSlideDefs!SlideOf of the shapes. *)
EXTENDS PptxSlideDefs, Json, IOUtils, TLCExt
Traces == JsonDeserialize(IOEnv.TRACE_FILE)
VARIABLES tid, l
tvars == <<tid, l>>
Ev == Traces[tid].ev[l]
IsEvent(x) == l <= Len(Traces[tid].ev) /\ Ev.a = x /\ l' = l + 1 /\ UNCHANGED tid
TraceSlide == IsEvent("Slide") /\ Ev.slide = SlideOf(Ev.shapes, Ev.n0)
TraceInit == tid \in 1..Len(Traces) /\ l = 1
TraceNext == TraceSlide
TraceSpec == TraceInit /\ [][TraceNext]_tvars
TraceAccept ==
    /\ (l = Len(Traces[tid].ev) + 1) => PrintT(<<"ACCEPT", tid>>)
    /\ (IOEnv.MBV_PROGRESS = "1") => PrintT(<<"AT", tid, l>>)
=============================================================================
