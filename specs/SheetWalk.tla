------------------------------ MODULE SheetWalk ------------------------------
(* Algorithm-shaped model of the XLSX sheet reader
       xlsx_extractor.py: _read_sheet_data (_find_last_data_row, _find_last_data_column, header row,
                          body rows) and _read_content_from_workbook (_is_table_name_row)
   as a step machine over the rows openpyxl hands to it (ws.iter_rows(values_only=True): possibly ragged).

   A cell is a pair <<kind, n>>:
       <<"none", 0>>   no value                     <<"ws", 0>>     a string of white space only
       <<"tok", id>>   a non-blank string           <<"num", n2>>   a number (n2 = 2 * value)
       <<"bool", b>>   a boolean (0 / 1)
     produced only by the reader:
       <<"unn", k>>    the text "Unnamed: k"        <<"numstr", n2>> the number written as text (header row)
       <<"boolstr", b>> the boolean written as text (header row)

   One behaviour = one call.  The loops of the code are loops of the machine (one step per iteration), so that
   TLC also shows termination.  The theorems (C13, for every grid of the bounded universe):
       Inv_NothingLost     every non-empty source cell (i, j) is cell (i, j) of the table
       Inv_NothingInvented every table cell (i, j) shows source cell (i, j) (an empty one: nothing)
       Inv_Shape           the table has exactly the rows up to the last non-empty one, no row is wider than the
                           last non-empty column
       Prop_Terminates
   hold for WalkDev = {} and fail for each as-built step switched on as a named deviation:
       "Xlsx!HeaderPlaceholder"    empty cells of the first row become the text "Unnamed: <col>"   (KF-C13-01)
       "Xlsx!TableNameRowSkipped"  a first row with exactly one meaningful cell is dropped          (KF-C13-03)
   SheetWalkTrace.tla binds the real code to this machine: the table it returns for recorded openpyxl rows is
   exactly the machine's final state (with the deviations of the findings that are still open).        *)
EXTENDS SheetWalkDefs

CONSTANTS MaxRows, MaxCols

(* ------------------------------ the step machine ------------------------------ *)
VARIABLES src,        \* the rows as openpyxl returned them (never changed)
          pc, rows, i, lastRow, lastCol, allRows, data
vars == <<src, pc, rows, i, lastRow, lastCol, allRows, data>>

Kinds == {None, <<"ws", 0>>, <<"tok", 1>>, <<"num", 0>>}          \* (a zero is a value, not an empty cell)
RowsU == UNION {[1..n -> Kinds] : n \in 0..MaxCols}
\* tokens get their position as identity, so that a cell that moves is a different cell
Stamp(g) == [r \in DOMAIN g |-> [c \in DOMAIN g[r] |-> IF g[r][c][1] = "tok" THEN <<"tok", 10 * r + c>> ELSE g[r][c]]]

Init == /\ src \in {Stamp(g) : g \in UNION {[1..n -> RowsU] : n \in 0..MaxRows}}
        /\ pc = "start" /\ rows = <<>> /\ i = 0 /\ lastRow = 0 /\ lastCol = 0 /\ allRows = <<>> /\ data = <<>>

Start == /\ pc = "start"
         /\ rows' = src
         /\ IF src = <<>> THEN pc' = "nameRow" /\ i' = 0 ELSE pc' = "scanRow" /\ i' = Len(src)      \* i: 1-based row under test
         /\ UNCHANGED <<src, lastRow, lastCol, allRows, data>>

\* _find_last_data_row: for i in range(len(rows) - 1, -1, -1)
ScanRow == /\ pc = "scanRow"
           /\ IF i = 0 THEN lastRow' = 0 /\ pc' = "trimRow" /\ i' = 0
              ELSE IF \E j \in DOMAIN rows[i] : NonEmpty(rows[i][j]) THEN lastRow' = i /\ pc' = "trimRow" /\ i' = 0
              ELSE i' = i - 1 /\ UNCHANGED <<lastRow, pc>>
           /\ UNCHANGED <<src, rows, lastCol, allRows, data>>

TrimRow == /\ pc = "trimRow"
           /\ rows' = Take(rows, lastRow)
           /\ IF rows' = <<>> THEN pc' = "nameRow" /\ i' = 0 ELSE pc' = "scanCol" /\ i' = 1
           /\ UNCHANGED <<src, lastRow, lastCol, allRows, data>>

\* _find_last_data_column: for row in rows: max_col = max(max_col, last non-empty index + 1)
ScanCol == /\ pc = "scanCol"
           /\ IF i > Len(rows) THEN pc' = "trimCol" /\ UNCHANGED <<i, lastCol>>
              ELSE lastCol' = Max2(lastCol, RowLastCol(rows[i])) /\ i' = i + 1 /\ UNCHANGED pc
           /\ UNCHANGED <<src, rows, lastRow, allRows, data>>

TrimCol == /\ pc = "trimCol"
           /\ rows' = [r \in DOMAIN rows |-> Take(rows[r], lastCol)]
           /\ pc' = "headers"
           /\ UNCHANGED <<src, i, lastRow, lastCol, allRows, data>>

Headers == /\ pc = "headers"
           /\ allRows' = << [j \in DOMAIN rows[1] |-> Hdr(rows[1][j], j)] >>
           /\ pc' = "body" /\ i' = 2
           /\ UNCHANGED <<src, rows, lastRow, lastCol, data>>

\* for row in rows[1:]: all_rows.append([_get_cell_value(val) for val in row])
Body == /\ pc = "body"
        /\ IF i > Len(rows) THEN pc' = "nameRow" /\ UNCHANGED <<i, allRows>>
           ELSE allRows' = Append(allRows, [j \in DOMAIN rows[i] |-> Conv(rows[i][j])]) /\ i' = i + 1 /\ UNCHANGED pc
        /\ UNCHANGED <<src, rows, lastRow, lastCol, data>>

\* _read_content_from_workbook: data_rows = all_rows[1:] if all_rows and _is_table_name_row(all_rows[0]) else all_rows
NameRowStep == /\ pc = "nameRow"
               /\ data' = DataOf(allRows)
               /\ pc' = "done"
               /\ UNCHANGED <<src, rows, i, lastRow, lastCol, allRows>>

Next == Start \/ ScanRow \/ TrimRow \/ ScanCol \/ TrimCol \/ Headers \/ Body \/ NameRowStep
Spec == Init /\ [][Next]_vars /\ WF_vars(Next)
\* the bounded universe of input grids alone (spec -> code replay: every grid is written as a sheet and read back)
GenSpec == Init /\ [][UNCHANGED vars]_vars

(* ------------------------------ theorems ------------------------------ *)
\* what a table cell shows of a source cell: its text / value (a number in the header row is shown as text)
Shows(t, s) == \/ t = s
               \/ (s[1] = "num" /\ t = <<"numstr", s[2]>>)
               \/ (s[1] = "bool" /\ t = <<"boolstr", s[2]>>)
               \/ (~NonEmpty(s) /\ ~NonEmpty(t))                       \* empty stays empty (None or blank)
SrcAt(r, c) == IF r \in DOMAIN src /\ c \in DOMAIN src[r] THEN src[r][c] ELSE None

Inv_StepAgreesWithFunction == pc = "done" => (allRows = AllRowsOf(src) /\ data = DataOf(AllRowsOf(src)))
Inv_NothingLost ==
    pc = "done" => \A r \in DOMAIN src : \A c \in DOMAIN src[r] :
                      NonEmpty(src[r][c]) => (r \in DOMAIN data /\ c \in DOMAIN data[r] /\ Shows(data[r][c], src[r][c]))
Inv_NothingInvented ==
    pc = "done" => \A r \in DOMAIN data : \A c \in DOMAIN data[r] : Shows(data[r][c], SrcAt(r, c))
Inv_Shape ==
    pc = "done" => /\ Len(data) = LastRow(src)
                   /\ \A r \in DOMAIN data : Len(data[r]) <= MaxLastCol(Take(src, LastRow(src)))
Prop_Terminates == <>(pc = "done")
=============================================================================
