----------------------------- MODULE SerialTrace -----------------------------
(* code -> spec for C05.  A trace = header (dataclass registry schema, base64 facts) exported from the
   running code + events recorded from the real library:

     RoundTrip  v   = projection of a live object x (hand-built from TLC's templates, or extracted; every
                      BytesIO carries the position the stream stands at when to_json is called -- the
                      templates enumerate start/mid/end, extracted results are also replayed after
                      their streams were read to the end / to the middle)
                j   = json.loads(json.dumps(x.to_json()))            ("error" if the encoder raised)
                out = ExtractionInterface.from_json(j) projected     ("error" if it raised)
                nb  = json.loads(json.dumps(serialize_extraction(x, include_binary=False)))
                same = "yes" | "no:<what>" | "n/a": out.to_json(), get_full_text(), units, tables and image
                      bytes of the restored object compared with the original's (complete, unprojected)
     Cell       kind = Python type of the value openpyxl delivered for a cell, row = "header" | "data",
                out  = tag of the value the extractor stored for it in sheet.data
     Cli        mode, n = number of results, top/inner = JSON type of stdout's top level / its items,
                eq = stdout equals the library's JSON for the same results; recorded in-process and, for
                documents / file names with non-ASCII, non-BMP and undecodable characters, in processes
                whose stdout has the encoding of several environments (utf-8, ascii, cp1252, C locale):
                there rc = 0 and eq mean "the bytes written decode and parse to the library's JSON"
                The path argument ranges over path forms (absolute, relative, with . / .. components,
                symbolic links whose name and suffix differ from the target's, files below a symlinked
                directory): the library's JSON is that of read_file(<the very path string given>).
     CliItem    one result (--json) / unit (--json-unit) of the CLI's stdout with the object it came from
                (multi-result inputs: archives of documents with images, and small single results)

   Constant Accept = "law":     the event must satisfy the property (Serial!Prop_* stated on the
                                observations; the wire format itself is not demanded -- only that
                                dataclass/dict -> object keyed by field/key, list -> array).
            Accept = "asbuilt": the event must lie in the domain of KF-C05-01 and equal what the
                                algorithm model (Ser, FromJson with the configured Deviations) predicts. *)
EXTENDS Serial, Json, IOUtils, TLCExt

CONSTANT Accept

Traces == JsonDeserialize(IOEnv.TRACE_FILE)

VARIABLES tid, l, E
vars == <<tid, l, E>>

Range(s) == { s[i] : i \in DOMAIN s }
PairsToFun(ps) == [ k \in { x[1] : x \in Range(ps) } |-> (CHOOSE x \in Range(ps) : x[1] = k)[2] ]
EnvOf(hd) == [ schema |-> PairsToFun(hd.schema), enc |-> PairsToFun(hd.enc), dec |-> PairsToFun(hd.dec) ]

Ev == Traces[tid].ev[l]
IsEvent(a) == l <= Len(Traces[tid].ev) /\ Ev.a = a /\ l' = l + 1 /\ UNCHANGED <<tid, E>>

\* binary payloads excluded: exactly the binary leaves of v are null in nb, everything else as in j
RECURSIVE ExclOK(_, _, _)
ExclOK(v, j, nb) ==
    CASE v.t \in {"bytes", "bytesio"} -> nb.t = "null" /\ j.t = "obj"          \* "base64 in wrapper objects"
      [] v.t = "dc" ->
            /\ j.t = "obj" /\ nb.t = "obj" /\ Len(j.kv) = Len(nb.kv)
            /\ \A i \in DOMAIN j.kv : j.kv[i][1] = nb.kv[i][1]
            /\ \A i \in DOMAIN v.f : v.f[i][1] \in Keys(j.kv)
            /\ \A i \in DOMAIN j.kv :
                  IF \E q \in DOMAIN v.f : v.f[q][1] = j.kv[i][1]
                  THEN ExclOK(v.f[CHOOSE q \in DOMAIN v.f : v.f[q][1] = j.kv[i][1]][2], j.kv[i][2], nb.kv[i][2])
                  ELSE j.kv[i][2] = nb.kv[i][2]
      [] v.t = "dict" ->
            /\ j.t = "obj" /\ nb.t = "obj" /\ Len(j.kv) = Len(v.kv) /\ Len(nb.kv) = Len(v.kv)
            /\ \A i \in DOMAIN v.kv : /\ j.kv[i][1] = v.kv[i][1] /\ nb.kv[i][1] = v.kv[i][1]
                                      /\ ExclOK(v.kv[i][2], j.kv[i][2], nb.kv[i][2])
      [] v.t \in {"list", "tuple", "set"} ->
            /\ j.t = "arr" /\ nb.t = "arr" /\ Len(j.xs) = Len(v.xs) /\ Len(nb.xs) = Len(v.xs)
            /\ \A i \in DOMAIN v.xs : ExclOK(v.xs[i], j.xs[i], nb.xs[i])
      [] OTHER -> nb = j

Law(e) ==
    /\ JsonOK(e.j) /\ JsonOK(e.nb)               \* the standard encoder wrote both
    /\ e.out = Canon(e.v)                        \* from_json restored the same object (bytes by content)
    /\ ExclOK(e.v, e.j, e.nb)
    /\ Prop_BinaryOnlyInBinaryFields(E, e.v)     \* no text / number / list field holds a binary value
    /\ e.same \in {"yes", "n/a"}                 \* complete to_json / full text / units / tables / image bytes

AsBuilt(e) ==
    /\ InDomain_KF_C05_01(E, e.v)
    /\ e.j = Ser(E, e.v, TRUE) /\ JsonOK(e.j)
    /\ e.nb = Ser(E, e.v, FALSE)
    /\ e.out = FromJson(E, e.j)

TraceRoundTrip == IsEvent("RoundTrip") /\ (IF Accept = "law" THEN Law(Ev) ELSE AsBuilt(Ev))

TraceCell == /\ IsEvent("Cell")
             /\ IF Ev.row = "header" THEN HeaderCellOK(Ev.out)
                ELSE Ev.out = CellNorm(Ev.kind) /\ Ev.out # "py"

\* cli.py:_serialize_results / _serialize_unit_results: one result -> its JSON, several -> an array
CliTop(mode, n)   == IF mode = "json" THEN (IF n = 1 THEN "obj" ELSE "arr") ELSE "arr"
CliInner(mode, n) == IF mode = "json" THEN (IF n = 1 THEN "-" ELSE "obj") ELSE (IF n = 1 THEN "obj" ELSE "arr")
TraceCli == /\ IsEvent("Cli")
            /\ Ev.rc = 0 /\ Ev.eq
            /\ Ev.top = CliTop(Ev.mode, Ev.n)
            /\ Ev.inner \in {CliInner(Ev.mode, Ev.n), "-"}           \* "-": no item to look at

\* one item of the CLI's output (a result for --json, a unit for --json-unit) against the object it was
\* made from: v = projection of the result / unit, j = its complete library JSON (binary included),
\* cli = what the CLI printed for it.  With --binary the CLI prints exactly j; without it exactly the binary
\* leaves are null -- per result and per unit, whatever the number of results.
TraceCliItem == /\ IsEvent("CliItem")
                /\ JsonOK(Ev.cli)
                /\ IF Ev.binary THEN Ev.cli = Ev.j ELSE ExclOK(Ev.v, Ev.j, Ev.cli)

TraceInit == tid \in 1..Len(Traces) /\ l = 1 /\ E = EnvOf(Traces[tid].hdr)
TraceNext == TraceRoundTrip \/ TraceCell \/ TraceCli \/ TraceCliItem
TraceSpec == TraceInit /\ [][TraceNext]_vars

TraceAccept ==
    /\ (l = Len(Traces[tid].ev) + 1) => PrintT(<<"ACCEPT", tid>>)
    /\ (IOEnv.MBV_PROGRESS = "1") => PrintT(<<"AT", tid, l>>)
=============================================================================
