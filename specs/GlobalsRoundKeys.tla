-------------------------- MODULE GlobalsRoundKeys --------------------------
(* C15: the AES round-key cache of the PDF fallback crypto, shared by all threads.

   Mirrors  sharepoint2text/parsing/extractors/pdf/_pypdf_aes_fallback.py:_get_round_keys

        cached = _ROUND_KEY_CACHE.get(key)              Lookup(t, k)      hit -> pc = "hit"
        if cached is not None:
            _ROUND_KEY_CACHE.move_to_end(key)           Move(t)           (KeyError if k was evicted meanwhile)
            return cached
        round_keys = _expand_key(key)
        _ROUND_KEY_CACHE[key] = round_keys              Insert(t, k)      (miss: insert, evict the oldest
        if len(...) > _ROUND_KEY_CACHE_MAX: popitem(last=False)            when over capacity; one step: no
        return round_keys                                                  failure mode between the two)

   cache = LRU order of the keys (oldest first), capacity Cap (4 in the code; PDF AES derives one key per
   indirect object, so evictions are constant).
   Deviation "UnguardedMoveToEnd": Move of a key that another thread's inserts evicted between Lookup and Move
   raises KeyError (the extraction of a healthy document fails because of concurrent work).  Reference: the
   LRU update of a vanished key is skipped.
   Property NoError: no call ever fails.                                                                  *)
EXTENDS Naturals, Sequences, FiniteSets, TLC, Json, IOUtils, TLCExt

CONSTANTS Threads, Keys, Cap, Calls, Deviations
ASSUME Deviations \subseteq {"UnguardedMoveToEnd"}

VARIABLES cache, pc, cur, err, left, tid, l
rvars == <<cache, pc, cur, err, left, tid, l>>

Has(c, k)     == \E i \in DOMAIN c : c[i] = k
Without(c, k) == SelectSeq(c, LAMBDA x : x # k)
Touch(c, k)   == Append(Without(c, k), k)
Put(c, k)     == LET c2 == Touch(c, k) IN IF Len(c2) > Cap THEN Tail(c2) ELSE c2

\* state functions (shared with the trace part)
DoLookupHit(t, k) == /\ Has(cache, k) /\ pc[t] = "idle"
                     /\ pc' = [pc EXCEPT ![t] = "hit"] /\ cur' = [cur EXCEPT ![t] = k]
                     /\ UNCHANGED <<cache, err>>
DoInsert(t, k)    == /\ ~Has(cache, k) /\ pc[t] = "idle"
                     /\ cache' = Put(cache, k) /\ UNCHANGED <<pc, cur, err>>
MoveFails(t)      == ~Has(cache, cur[t]) /\ "UnguardedMoveToEnd" \in Deviations
DoMove(t)         == /\ pc[t] = "hit"
                     /\ cache' = IF Has(cache, cur[t]) THEN Touch(cache, cur[t]) ELSE cache
                     /\ err' = [err EXCEPT ![t] = MoveFails(t)]
                     /\ pc' = [pc EXCEPT ![t] = "idle"] /\ UNCHANGED cur

Init == /\ cache = <<>> /\ pc = [t \in Threads |-> "idle"] /\ cur = [t \in Threads |-> 0]
        /\ err = [t \in Threads |-> FALSE] /\ left = [t \in Threads |-> Calls] /\ tid = 0 /\ l = 0
Next == /\ \E t \in Threads :
             \/ left[t] > 0 /\ (\E k \in Keys : DoLookupHit(t, k)) /\ UNCHANGED left
             \/ left[t] > 0 /\ (\E k \in Keys : DoInsert(t, k)) /\ left' = [left EXCEPT ![t] = @ - 1]
             \/ DoMove(t) /\ left' = [left EXCEPT ![t] = @ - 1]
        /\ UNCHANGED <<tid, l>>
Spec == Init /\ [][Next]_rvars

NoError == \A t \in Threads : ~err[t]
TypeOK  == Len(cache) <= Cap /\ \A i, j \in DOMAIN cache : i # j => cache[i] # cache[j]

-----------------------------------------------------------------------------
(* code -> spec: the witness run of mbv/c15_sched.py (real threads through the real _get_round_keys, one thread
   stopped by a sys.monitoring LINE event between the lookup and move_to_end).  Events:
     {"a":"Call","t":t,"k":k}            a complete call that was not stopped (miss -> Insert, hit -> Lookup.Move)
     {"a":"Hit","t":t,"k":k}             the thread stands before move_to_end(k): its lookup was a hit
     {"a":"Return","t":t,"err":bool}     the stopped call finished; err = it raised KeyError             *)
Traces == JsonDeserialize(IOEnv.TRACE_FILE)
Ev == Traces[tid].ev[l]
IsEvent(a) == l <= Len(Traces[tid].ev) /\ Ev.a = a /\ l' = l + 1 /\ UNCHANGED <<tid, left>>

TraceCall == /\ IsEvent("Call") /\ pc[Ev.t] = "idle"
             /\ cache' = IF Has(cache, Ev.k) THEN Touch(cache, Ev.k) ELSE Put(cache, Ev.k)
             /\ UNCHANGED <<pc, cur, err>>
TraceHit  == IsEvent("Hit") /\ DoLookupHit(Ev.t, Ev.k)
TraceRet  == IsEvent("Return") /\ DoMove(Ev.t) /\ Ev.err = MoveFails(Ev.t)

TraceInit == /\ tid \in 1..Len(Traces) /\ l = 1 /\ cache = <<>> /\ pc = [t \in Threads |-> "idle"]
             /\ cur = [t \in Threads |-> 0] /\ err = [t \in Threads |-> FALSE] /\ left = [t \in Threads |-> 0]
TraceNext == TraceCall \/ TraceHit \/ TraceRet
TraceSpec == TraceInit /\ [][TraceNext]_rvars
TraceAccept ==
    /\ (l = Len(Traces[tid].ev) + 1) => PrintT(<<"ACCEPT", tid>>)
    /\ (IOEnv.MBV_PROGRESS = "1") => PrintT(<<"AT", tid, l>>)
=============================================================================
