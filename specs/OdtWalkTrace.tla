--------------------------- MODULE OdtWalkTrace ---------------------------
(* code -> spec binding of the ODT walk MODEL: the token sequence and separation flags observed from the real
   read_odt().get_full_text() must be exactly what OdtWalk!WalkOutput produces for the same abstract document
   (strict first; with "Odt!TextboxParagraphsGlued" while KF-C02-11 is open). *)
EXTENDS OdtWalk, Json, IOUtils, TLCExt

Traces == JsonDeserialize(IOEnv.TRACE_FILE)
VARIABLES tid, l
vars == <<tid, l>>
Ev == Traces[tid].ev[l]
IsEvent(a) == l <= Len(Traces[tid].ev) /\ Ev.a = a /\ l' = l + 1 /\ UNCHANGED tid

TraceWalk ==
    /\ IsEvent("Text")
    /\ LET out == WalkOutput(Traces[tid].hdr.doc.units[1].blocks)
       IN Ev.obs = ObsOf(out) /\ Ev.sep = SepOf(out)

TraceInit == tid \in 1..Len(Traces) /\ l = 1
TraceNext == TraceWalk
TraceSpec == TraceInit /\ [][TraceNext]_vars
TraceAccept ==
    /\ (l = Len(Traces[tid].ev) + 1) => PrintT(<<"ACCEPT", tid>>)
    /\ (IOEnv.MBV_PROGRESS = "1") => PrintT(<<"AT", tid, l>>)
=============================================================================
