---------------------------- MODULE IfaceTrace ----------------------------
(* code -> spec for C04.  One trace = (a slice of) the accessor protocol executed on the results of ONE
   extraction by the recorder mbv/c04_lib.py:Recorder.
     hdr  [fmt      format of a generated document ("" for fixtures / mutants),
           path     the abstract path argument with concrete spellings (root "none" = no path given,
                    "dc" = DON'T-CARE: results out of an archive),
           mutant   the input was a damaged-but-accepted file,
           member   [k |-> "none"] or the archive member this result was made from [k |-> "member", archseg, dirs, stem, exts]:
                    the path the accessors must reflect is then <archive path>!/<member name> (Iface!MemberPath),
           members  <<>> or, for an archive with several members, the member of the 1st, 2nd, ... result,
           dcwrapper  EPUB whose dc elements sit in an OEB 1.x <dc-metadata> wrapper (domain of KF-C04-01)]
     ev   one event per accessor call with the projected return:
          Text     get_full_text / unit.get_text / image.get_content_type|caption|description   [cls, utf8]
          Num      unit_number of a unit, image_number of an image                                [cls, n]
          OptNum   unit_number of an image (None allowed)                                        [cls, n]
          Size     width / height of an image's metadata (None or a number)                        [cls]
          Stream   image.get_bytes(), called twice                     [cls, bytes, pos, len, pos2, len2, hassize, size]
          Table    get_table() + get_dim()           [gridcls, rows, widths, cellsutf8, dimcls, dimrows, dimcols]
          FileMeta result.get_metadata(): file name / extension / folder / file path     [fnk, fn, extk, ext, dir, fdir, fpn]
          Prop     one stored textual document property against the metadata object   [mtype, field, has, cls, stored, got]
          Units    RTF run of \uN code units against title / body text                          [who, units, cls, cps]
          Json     to_json() returned                                                                     [cls]
          Raise    the accessor raised                -- there is NO action for it: never a behaviour
   Every action's guard is the "...OK" operator of Iface.tla for that accessor; a non-conforming
   return disables the only action that could consume the event, so the trace is rejected there.   *)
EXTENDS Iface, Json, IOUtils, TLCExt

Traces == JsonDeserialize(IOEnv.TRACE_FILE)
VARIABLES tid, l, path         \* path: the abstract path argument of this trace (fixed at Init)
vars == <<tid, l, path>>

Ev == Traces[tid].ev[l]
Hdr == Traces[tid].hdr
IsEvent(a) == l <= Len(Traces[tid].ev) /\ Ev.a = a /\ l' = l + 1 /\ UNCHANGED <<tid, path>>

TraceText   == IsEvent("Text")   /\ TextOK(Ev.cls, Ev.utf8)
TraceNum    == IsEvent("Num")    /\ NumberOK(Ev.cls, Ev.n)
TraceOptNum == IsEvent("OptNum") /\ OptNumberOK(Ev.cls, Ev.n)
TraceSize   == IsEvent("Size")   /\ SizeOK(Ev.cls)
TraceStream == IsEvent("Stream") /\ StreamOK(Ev)
TraceTable  == IsEvent("Table")  /\ DimOK(Ev)
TraceJson   == IsEvent("Json")   /\ Ev.cls = "dict"
TraceFileMeta ==
    /\ IsEvent("FileMeta")
    /\ Acceptable(IF Hdr.members # <<>> THEN EffectivePath(Hdr.path, Hdr.members[Ev.ri]) ELSE path,   \* ri: which result
                  [fnk |-> Ev.fnk, fn |-> Ev.fn, extk |-> Ev.extk, ext |-> Ev.ext,
                         dir |-> Ev.dir, fdir |-> Ev.fdir, fpn |-> Ev.fpn])
    /\ (Hdr.fmt \in DOMAIN MetaTypeOf => Ev.mtype = MetaTypeOf[Hdr.fmt])
    /\ Ev.strsutf8 = TRUE              \* every string the metadata object carries is well-formed Unicode
TraceProp ==
    /\ IsEvent("Prop")
    /\ PropOK(Hdr.fmt, Ev.mtype, Ev.field, Ev.has, Ev.cls, Ev.stored, Ev.got, Hdr.dcwrapper)
TraceUnits ==
    /\ IsEvent("Units")
    /\ Ev.cls = "str" /\ Utf8OK(Ev.cps)
    /\ (Ev.who = "title" /\ WellPaired(Ev.units)) => Strip(Ev.cps) = Strip(DecodeUnits(Ev.units))

TraceInit == tid \in 1..Len(Traces) /\ l = 1 /\ path = EffectivePath(Traces[tid].hdr.path, Traces[tid].hdr.member)
TraceNext == \/ TraceText \/ TraceNum \/ TraceOptNum \/ TraceSize \/ TraceStream \/ TraceTable
             \/ TraceJson \/ TraceFileMeta \/ TraceProp \/ TraceUnits
TraceSpec == TraceInit /\ [][TraceNext]_vars
TraceAccept ==
    /\ (l = Len(Traces[tid].ev) + 1) => PrintT(<<"ACCEPT", tid>>)
    /\ (IOEnv.MBV_PROGRESS = "1") => PrintT(<<"AT", tid, l>>)
=============================================================================
