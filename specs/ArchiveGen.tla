----------------------------- MODULE ArchiveGen -----------------------------
(* Enumerates the cases of Archive.tla for the spec -> code replay of C09 / C10: one initial state of
   the Archive machine = one case (format, member list [kind, nc], consumer history).  Dumped with
   `tlc -dump`; the Python side concretises each member (name of that class, content of that kind,
   canary host files), builds the archive with zipfile / tarfile / the independent 7z writer and runs
   the consumer history literally against read_archive.                                         *)
EXTENDS Archive

GenNext == UNCHANGED vars
GenSpec == Init /\ [][GenNext]_vars
=============================================================================
