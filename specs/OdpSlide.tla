------------------------------- MODULE OdpSlide -------------------------------
(* Step machine and theorems of the ODP slide reader model (definitions: OdpSlideDefs.tla).
   One behaviour = one call of _extract_slide: collect the frames (one step per frame), sort (one step: list.sort),
   walk (one step per paragraph / table / picture), finish.

   Universe: pages of up to MaxFrames frames; every frame has a position rank y in 0..MaxY, x in 0..1, a group depth
   0..MaxG and one of the Shapes (text boxes with one or two paragraphs of the three style classes, an empty paragraph,
   a table, a picture).  Ids are stamped by position so that every paragraph / table / picture is distinguishable.

   Theorems (WalkDev = {}; C02 / C03 for presentations, C13 for the table order, C14 for the picture numbers):
       Inv_StepAgreesWithFunction
       Inv_EveryParagraphOnce   every non-empty paragraph is in exactly one of title / body_text / other_text
       Inv_ClassOrder           title = the first title-styled paragraph in READING order; body_text / other_text are the
                                body-styled / remaining paragraphs in reading order
       Inv_ReadingOrder         the slide text has the paragraphs in reading order
       Inv_TablesInOrder        tables in reading order
       Inv_ImagesNumbered       the k-th picture in reading order has number n0 + k
       Prop_Terminates
   Sensitivity (each must violate a theorem): Odp!TextBoxesAfterBody (ReadingOrder), Odp!GroupedFrameSkipped
   (EveryParagraphOnce), Odp!XmlOrder (ClassOrder), Odp!NumbersCompared (ClassOrder).                         *)
EXTENDS OdpSlideDefs

CONSTANTS MaxFrames, MaxY, MaxG

VARIABLES frames, n0, pc, i, coll, sorted, st, pj, out
vars == <<frames, n0, pc, i, coll, sorted, st, pj, out>>

Shapes == { [kind |-> "txt", paras |-> << <<"T", 1>> >>, id |-> 0],
            [kind |-> "txt", paras |-> << <<"B", 1>> >>, id |-> 0],
            [kind |-> "txt", paras |-> << <<"O", 1>> >>, id |-> 0],
            [kind |-> "txt", paras |-> << <<"O", 0>> >>, id |-> 0],
            [kind |-> "txt", paras |-> << <<"B", 1>>, <<"B", 1>> >>, id |-> 0],
            [kind |-> "txt", paras |-> << <<"T", 1>>, <<"O", 1>> >>, id |-> 0],
            [kind |-> "txt", paras |-> << <<"O", 1>>, <<"T", 1>> >>, id |-> 0],
            [kind |-> "txt", paras |-> << <<"T", 0>>, <<"T", 1>> >>, id |-> 0],
            [kind |-> "tbl", paras |-> <<>>, id |-> 1],
            [kind |-> "img", paras |-> <<>>, id |-> 1] }
FrameU == {[y |-> yy, x |-> xx, g |-> gg, kind |-> s.kind, paras |-> s.paras, id |-> s.id] :
              yy \in 0..MaxY, xx \in 0..1, gg \in 0..MaxG, s \in Shapes}
Stamp(fs) == [k \in DOMAIN fs |-> [fs[k] EXCEPT !.paras = [m \in DOMAIN @ |-> IF @[m][2] = 0 THEN @[m] ELSE <<@[m][1], 10 * k + m>>],
                                                !.id = IF @ = 0 THEN 0 ELSE 10 * k]]

Init == /\ frames \in {Stamp(fs) : fs \in UNION {[1..n -> FrameU] : n \in 0..MaxFrames}}
        /\ n0 \in {0, 3}
        /\ pc = "collect" /\ i = 1 /\ coll = <<>> /\ sorted = <<>> /\ st = W0(n0) /\ pj = 1 /\ out = [done |-> FALSE]

\* for frame in _iter_page_frames(page): frames_with_positions.append(..)
Collect == /\ pc = "collect"
           /\ IF i > Len(frames) THEN pc' = "sort" /\ UNCHANGED <<i, coll>>
              ELSE /\ coll' = IF Dev("Odp!GroupedFrameSkipped") /\ frames[i].g > 0 THEN coll ELSE Append(coll, i)
                   /\ i' = i + 1 /\ UNCHANGED pc
           /\ UNCHANGED <<frames, n0, sorted, st, pj, out>>
\* frames_with_positions.sort(key=(y, x))
Sort == /\ pc = "sort"
        /\ sorted' = IF Dev("Odp!XmlOrder") THEN coll ELSE SortIdx(frames, coll)
        /\ pc' = "walk" /\ i' = 1 /\ pj' = 1
        /\ UNCHANGED <<frames, n0, coll, st, out>>
\* for _, _, frame in frames_with_positions: (for p in text_box.iter(text:p) | table | image)
Walk == /\ pc = "walk"
        /\ IF i > Len(sorted) THEN pc' = "finish" /\ UNCHANGED <<i, pj, st>>
           ELSE LET f == frames[sorted[i]] IN
                IF f.kind = "txt" /\ pj <= Len(f.paras)
                THEN st' = ParaStep(st, f.paras[pj]) /\ pj' = pj + 1 /\ UNCHANGED <<i, pc>>
                ELSE /\ st' = IF f.kind = "txt" THEN st ELSE FrameStep(st, f)
                     /\ i' = i + 1 /\ pj' = 1 /\ UNCHANGED pc
        /\ UNCHANGED <<frames, n0, coll, sorted, out>>
FinishStep == /\ pc = "finish"
              /\ out' = [done |-> TRUE, slide |-> Finish(st)]
              /\ pc' = "done"
              /\ UNCHANGED <<frames, n0, i, coll, sorted, st, pj>>
Next == Collect \/ Sort \/ Walk \/ FinishStep
Spec == Init /\ [][Next]_vars /\ WF_vars(Next)
GenSpec == Init /\ [][UNCHANGED vars]_vars

(* ------------------------------ theorems ------------------------------ *)
Done == pc = "done"
S == out.slide
Inv_StepAgreesWithFunction == Done => S = SlideOf(frames, n0)
Inv_EveryParagraphOnce ==
    Done => LET ps == ParasInOrder(frames)
                got == (IF S.title # 0 THEN <<S.title>> ELSE <<>>) \o S.body \o S.other
            IN /\ Len(got) = Len(ps)
               /\ {got[k] : k \in DOMAIN got} = {ps[k][2] : k \in DOMAIN ps}
Inv_ClassOrder ==
    Done => LET ps == ParasInOrder(frames)
                ft == FirstTitlePos(ps)
                rest == SelectSeq([k \in DOMAIN ps |-> <<ps[k][1], ps[k][2], k>>], LAMBDA q : q[3] # ft)
            IN /\ S.title = IF ft = 0 THEN 0 ELSE ps[ft][2]
               /\ S.body = Ids(SelectSeq(rest, LAMBDA q : q[1] = "B"))
               /\ S.other = Ids(SelectSeq(rest, LAMBDA q : q[1] # "B"))
Inv_ReadingOrder == Done => S.combined = Ids(ParasInOrder(frames))
Inv_TablesInOrder == Done => S.tables = KindInOrder(frames, "tbl")
Inv_ImagesNumbered == Done => LET im == KindInOrder(frames, "img") IN S.images = [k \in DOMAIN im |-> <<n0 + k, im[k]>>]
Prop_Terminates == <>Done
=============================================================================
