---------------------------- MODULE SevenZipTrace ----------------------------
(* code -> spec for C10 (7z reader).  A trace = one 7z archive written by the independent writer:

     hdr   the archive as packed, with REAL byte counts:
           kinds, names, usize (per entry), fold (folders = lists of entry indices), coder ("copy" | "lz"),
           psize (pack size per folder), packPos
     List  {files: [[name, isdir, size, folder_index], ...]}   SevenZipReader(file).list()
     Out   {i, st: "file" | "dir" | "missing", segs}           what extractall left on disk for entry i;
                                                               segs = provenance of the bytes found:
                                                               [["u", g, a, b]] = bytes a..b of folder g's data
     Done  {failed: 0 | 1}                                      extractall raised

   TLC runs the reference cursor machine of SevenZip.tla (Deviations = {}) on hdr to its end and
   compares the reader's listing and every extracted file with the machine's registers.            *)
EXTENDS SevenZip, Json, IOUtils, TLCExt

Traces == JsonDeserialize(IOEnv.TRACE_FILE)

VARIABLES tid, l
tvars == <<tid, l, vars>>

Hdr == Traces[tid].hdr
Ev == Traces[tid].ev[l]
IsEvent(a) == l <= Len(Traces[tid].ev) /\ Ev.a = a /\ l' = l + 1 /\ UNCHANGED <<tid, vars>>

ArchOf(h) == [kinds |-> h.kinds, usize |-> h.usize, fold |-> h.fold, coder |-> h.coder,
              psize |-> h.psize, packPos |-> h.packPos]

\* silent: the machine runs to its end
TraceRun == pc # "done" /\ Next /\ UNCHANGED <<tid, l>>

ListEntryOK(n, f) ==
    /\ f[1] = Hdr.names[n]
    /\ (f[2] = 1) <=> files[n].isDir
    /\ f[3] = files[n].size
    /\ (files[n].stream /\ ~files[n].isDir) => f[4] + 1 = files[n].folder      \* folder_index is 0-based
TraceList == /\ pc = "done" /\ IsEvent("List")
             /\ Len(Ev.files) = NE(arch)
             /\ \A n \in 1..NE(arch) : ListEntryOK(n, Ev.files[n])

TraceOut == /\ pc = "done" /\ IsEvent("Out")
            /\ Ev.i \in 1..NE(arch)
            /\ IF files[Ev.i].isDir THEN Ev.st \in {"dir", "missing"}         \* DON'T-CARE: directory created or not
               ELSE Ev.st = "file" /\ out[Ev.i].w /\ Ev.segs = out[Ev.i].segs

TraceDone == pc = "done" /\ IsEvent("Done") /\ ((Ev.failed = 1) <=> failed)

TraceInit == tid \in 1..Len(Traces) /\ l = 1 /\ arch = ArchOf(Hdr) /\ InitRegs
TraceNext == (TraceRun \/ TraceList \/ TraceOut \/ TraceDone) /\ Faithful'
TraceSpec == TraceInit /\ [][TraceNext]_tvars

TraceAccept ==
    /\ (l = Len(Traces[tid].ev) + 1) => PrintT(<<"ACCEPT", tid>>)
    /\ (IOEnv.MBV_PROGRESS = "1") => PrintT(<<"AT", tid, l>>)
=============================================================================
