---------------------------- MODULE HtmlSkipGen ----------------------------
(* spec -> code for C17: enumerates every token string over Alphabet up to MaxLen together
   with the specification's classification; one state = one test case (`tlc -dump`).       *)
EXTENDS Naturals, Sequences

CONSTANTS Alphabet, MaxLen

VARIABLES g, c, cx,       \* g: token string, c: its classification in the HTML dialect, cx: in the XML dialect
          d, dx           \* H!DelX(g, FALSE / TRUE): the tokens that make up the removed elements

H == INSTANCE HtmlSkip WITH Deviations <- {}, toks <- <<>>, cdata <- "", h <- [skip |-> 0, tag |-> "", body |-> FALSE, dead |-> FALSE], out <- {}

AlphaQ1 == H!AlphaQ1
AlphaQ2 == H!AlphaQ2
AlphaQ3 == H!AlphaQ3
AlphaQ4 == H!AlphaQ4
AlphaQ5 == H!AlphaQ5
AlphaQ6 == H!AlphaQ6
AlphaQ7 == H!AlphaQ7
AlphaQ8 == H!AlphaQ8
AlphaQ9 == H!AlphaQ9
AlphaT3 == H!AlphaT3
AlphaT  == H!AlphaT
AlphaT2 == H!AlphaT2

Init == g = <<>> /\ c = <<>> /\ cx = <<>> /\ d = {} /\ dx = {}
Next == \E t \in Alphabet : /\ Len(g) < MaxLen
                            /\ g' = Append(g, t)
                            /\ c' = H!ClassX(g', FALSE)
                            /\ cx' = H!ClassX(g', TRUE)
                            /\ d' = H!DelX(g', FALSE) /\ dx' = H!DelX(g', TRUE)
Spec == Init /\ [][Next]_<<g, c, cx, d, dx>>
=============================================================================
