---------------------------- MODULE HtmlSkipGen ----------------------------
(* spec -> code for C17: enumerates every token string over Alphabet up to MaxLen together
   with the specification's classification; one state = one test case (`tlc -dump`).       *)
EXTENDS Naturals, Sequences

CONSTANTS Alphabet, MaxLen

VARIABLES g, c            \* g: token string, c: Class(g)

H == INSTANCE HtmlSkip WITH Deviations <- {}, toks <- <<>>, cdata <- "", h <- [skip |-> 0, tag |-> ""], out <- {}

AlphaQ1 == H!AlphaQ1
AlphaQ2 == H!AlphaQ2
AlphaQ3 == H!AlphaQ3
AlphaQ4 == H!AlphaQ4
AlphaT  == H!AlphaT
AlphaT2 == H!AlphaT2

Init == g = <<>> /\ c = <<>>
Next == \E t \in Alphabet : /\ Len(g) < MaxLen
                            /\ g' = Append(g, t)
                            /\ c' = H!Class(g')
Spec == Init /\ [][Next]_<<g, c>>
=============================================================================
