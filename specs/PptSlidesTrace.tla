---------------------------- MODULE PptSlidesTrace ----------------------------
(* code -> spec binding of PptSlides.tla: the slides the real _parse_slide_list_container + _build_slides_from_text_blocks
   build from a rendered record stream are PptSlidesDefs!SlidesOf of the records (deviation of KF-C03-11 while open). *)
EXTENDS PptSlidesDefs, Json, IOUtils, TLCExt
Traces == JsonDeserialize(IOEnv.TRACE_FILE)
VARIABLES tid, l
tvars == <<tid, l>>
Ev == Traces[tid].ev[l]
IsEvent(x) == l <= Len(Traces[tid].ev) /\ Ev.a = x /\ l' = l + 1 /\ UNCHANGED tid
TraceSlides == IsEvent("Slides") /\ Ev.slides = SlidesOf(Ev.recs)
TraceInit == tid \in 1..Len(Traces) /\ l = 1
TraceNext == TraceSlides
TraceSpec == TraceInit /\ [][TraceNext]_tvars
TraceAccept ==
    /\ (l = Len(Traces[tid].ev) + 1) => PrintT(<<"ACCEPT", tid>>)
    /\ (IOEnv.MBV_PROGRESS = "1") => PrintT(<<"AT", tid, l>>)
=============================================================================
