--------------------------- MODULE ZipGuardTrace ---------------------------
(* code -> spec for C11.  Three kinds of recorded traces (Traces[tid].hdr.kind):

   In every entry the dir bit is computed from the NAME only (ends in "/").  Events may carry a field
   `meta` (external_attr, create_system, flag bits, compression method drawn per entry by the harness,
   independently of the name): it is deliberately not read by any action -- the verdict depends on the
   name and the sizes only.

   "lattice"  hdr.lim = <<maxEntries, maxSingle, maxTotal, trNum, trDen, erNum, erDen>>
              Case    {es: [[fs, cs, dirbit], ...], obs}    validate_zipfile ran on a ZipInfo list with
                      ZipBombLimits(lim); obs = "bomb" (raised ExtractionZipBombError) | "ok" | "other".
                      TLC decides with ZipGuard!ConformsObs (three-valued).
   "big"      hdr.blim = limits with limb-encoded sizes (the running code's defaults)
              BigCase {gs: [[n, fsLimbs, csLimbs, dirbit], ...], rej, who}   a real ZIP with forged
                      headers went through extractor `who`; rej = outcome class is ZipBomb.
                      TLC decides with ZipGuardBig!BigConforms.
              Cover   {k, gs}   no observation: TLC prints its class and fired clauses for vector k
                      (harness adequacy: each clause is hit alone, each boundary from both sides).
   "proto"    per extraction call, from wrappers on zipfile.ZipFile.__init__/open/read,
              zip_bomb.validate_zipfile and zip_bomb.validate_zip_bytesio:
              Construct {o, d, site}   o-th ZipFile object of this trace on bytes id d
              Validate  {o, res}       validate_zipfile(o) returned ("accept") / raised ZipBomb ("reject")
              Read      {o}            a member of o is opened for decompression
              VzbEnter  {pos} / VzbExit {pos}    tell() of the caller's stream on entry / exit
              The monitor is ZipGuard!MayRead on ZipGuard's protocol variables: a Read is enabled only
              on an object of the archive extractor, on a Validated object, or on an Open object whose
              bytes were accepted before (openpyxl after validate_zip_bytesio).  A ZipFile constructed
              anywhere else (site "foreign": an extractor calling zipfile.ZipFile itself) is not an error
              by itself -- the statement only demands validation before decompression -- but every
              member read on it without a preceding accepting Validate is.                      *)
EXTENDS ZipGuardBig, Json, IOUtils, TLCExt

Traces == JsonDeserialize(IOEnv.TRACE_FILE)

VARIABLES tid, l, bl
tvars == <<tid, l, bl, vars, gsv>>

Hdr == Traces[tid].hdr
Ev == Traces[tid].ev[l]
IsEvent(a) == l <= Len(Traces[tid].ev) /\ Ev.a = a /\ l' = l + 1 /\ UNCHANGED <<tid, bl, gsv, loopvars>>

ToEntries(x) == [k \in DOMAIN x |-> E(x[k][1], x[k][2], x[k][3] = 1)]
ToGroups(x)  == [k \in DOMAIN x |-> G(x[k][1], x[k][2], x[k][3], x[k][4] = 1)]
LimOfTuple(t) == Lim(t[1], t[2], t[3], t[4], t[5], t[6], t[7])

(* ---- (i) lattice observations *)
TraceCase == /\ IsEvent("Case")
             /\ Ev.obs \in {"bomb", "ok", "other"}
             /\ ConformsObs(ToEntries(Ev.es), L, Ev.obs)
             /\ UNCHANGED protovars

(* ---- (ii) default magnitudes, real files *)
TraceBigCase == /\ IsEvent("BigCase")
                /\ LET gs == ToGroups(Ev.gs) IN
                   /\ WellFormedGroups(gs)
                   /\ BigConforms(gs, bl, Ev.rej)
                /\ UNCHANGED protovars
TraceCover == /\ IsEvent("Cover")
              /\ LET gs == ToGroups(Ev.gs) IN
                 /\ WellFormedGroups(gs)
                 /\ PrintT(<<"COVER", Ev.k, BigClass(gs, bl), BigFired(gs, bl)>>)
              /\ UNCHANGED protovars

(* ---- (iii) protocol, (iv) stream position *)
TraceConstruct == /\ IsEvent("Construct")
                  /\ Ev.o = Len(objs) + 1
                  /\ objs' = Append(objs, Obj(Ev.d, Ev.site, "Open"))
                  /\ UNCHANGED <<vb, held, okb, cpos, call>>
TraceValidate == /\ IsEvent("Validate")
                 /\ Ev.o \in 1..Len(objs)
                 /\ Ev.res \in {"accept", "reject"}
                 /\ objs' = [objs EXCEPT ![Ev.o].st = IF Ev.res = "accept" THEN "Validated" ELSE "Rejected"]
                 /\ vb' = IF Ev.res = "accept" THEN vb \cup {objs[Ev.o].d} ELSE vb
                 /\ UNCHANGED <<held, okb, cpos, call>>
TraceRead == /\ IsEvent("Read")
             /\ Ev.o \in 1..Len(objs)
             /\ MayRead(objs[Ev.o], vb)                      \* Inv_ValidateBeforeRead, as an enabling condition
             /\ UNCHANGED protovars
TraceVzbEnter == /\ IsEvent("VzbEnter")
                 /\ call.fn = "none"
                 /\ call' = [fn |-> "vzb", d |-> 0, step |-> "exit", orig |-> Ev.pos]
                 /\ cpos' = 0
                 /\ UNCHANGED <<objs, vb, held, okb>>
TraceVzbExit == /\ IsEvent("VzbExit")
                /\ call.fn = "vzb"
                /\ cpos' = Ev.pos
                /\ cpos' = call.orig                          \* Prop_PosRestored
                /\ call' = [fn |-> "none"]
                /\ UNCHANGED <<objs, vb, held, okb>>

BLOf(h) == [maxEntries |-> h.maxEntries, maxSingle |-> h.maxSingle, maxTotal |-> h.maxTotal,
            trNum |-> h.trNum, trDen |-> h.trDen, erNum |-> h.erNum, erDen |-> h.erDen]

TraceInit == /\ tid \in 1..Len(Traces) /\ l = 1
             /\ es = <<>> /\ pc = "off" /\ i = 0 /\ totU = 0 /\ totC = 0 /\ verdict = "none" /\ why = ""
             /\ L = IF Hdr.kind = "lattice" THEN LimOfTuple(Hdr.lim) ELSE L0
             /\ bl = IF Hdr.kind = "big" THEN BLOf(Hdr.blim) ELSE EncodeLimits(L0)
             /\ WellFormedLimits(bl)
             /\ bl.trNum < 65536 /\ bl.trDen < 65536 /\ bl.erNum < 65536 /\ bl.erDen < 65536
             /\ gsv = <<>>
             /\ ProtoIdle
TraceNext == \/ TraceCase \/ TraceBigCase \/ TraceCover
             \/ TraceConstruct \/ TraceValidate \/ TraceRead \/ TraceVzbEnter \/ TraceVzbExit
TraceSpec == TraceInit /\ [][TraceNext]_tvars

TraceAccept ==
    /\ (l = Len(Traces[tid].ev) + 1) => PrintT(<<"ACCEPT", tid>>)
    /\ (IOEnv.MBV_PROGRESS = "1") => PrintT(<<"AT", tid, l>>)
=============================================================================
