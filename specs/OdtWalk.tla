------------------------------ MODULE OdtWalk ------------------------------
(* Algorithm-shaped model of the ODT main-text walk
       odt_extractor.py: _extract_full_text / _append_full_text_from_element / _get_text_recursive
       (_shared.py: element_text / _append_element_text)
   over the abstract document of Doc.tla (the writer maps Block / Inline one-to-one onto OpenDocument:
   p -> text:p, h -> text:h, ul -> text:list / text:list-item, tbl -> table:table / table-row / table-cell,
   tbx -> text:p / draw:frame / draw:text-box / blocks, r -> text / text:span, tab -> text:tab, br -> text:line-break,
   a -> text:a, ins -> change-start .. change-end, del -> an empty text:change (the deleted text sits in
   text:tracked-changes at the top of the body), fn -> text:note, cm -> office:annotation).

   The model produces the output as a sequence of atoms  <<"t", id>> | <<"ws">> ; TLC checks on the whole DocGen
   universe that the walk satisfies Doc!Fidelity for odt (theorem WalkOK) and that each wrong step, switched on as a
   named deviation, violates it (sensitivity runs):
     "Odt!TextboxParagraphsGlued"  the paragraphs of a text box are concatenated without separator (as built:
                                   KF-C02-11, open -- the paragraph that anchors the frame is read recursively)
     "Odt!HeadingInListLost"       inside lists and tables only text:p is collected, not text:h (repaired 82274a7)
     "Odt!NestedRepeated"          rows / items iterated with iter() and their paragraphs again with iter(): nested
                                   paragraphs twice (repaired earlier)
     "Odt!TrackedDeletionLeaks"    text:tracked-changes is walked like body text (repaired earlier)            *)
EXTENDS Doc

CONSTANT WalkDev

WS == << <<"ws">> >>
WDev(d) == d \in WalkDev

RECURSIVE OInls(_)
\* _append_element_text on the children of a paragraph
OInl(i) ==
    CASE i[1] = "r"    -> << <<"t", i[2]>> >>
      [] i[1] \in {"tab", "br", "sp"} -> WS                       \* "sp": the tail text of the element before it
      [] i[1] \in {"a", "ins"} -> OInls(i[2])                    \* generic recursion into children
      [] i[1] = "del"  -> <<>>                                     \* text:change is an empty element
      [] i[1] \in {"fn", "cm"} -> <<>>                             \* text:note / office:annotation are skip tags
OInls(is) == ConcatAll([k \in DOMAIN is |-> OInl(is[k])])

\* deleted runs, in document order (they are written as paragraphs of text:tracked-changes before the body)
RECURSIVE DeletedInls(_), DeletedBlocks(_)
DeletedInl(i) == CASE i[1] = "del" -> << OInls(i[2]) >>
                   [] i[1] \in {"a", "ins"} -> DeletedInls(i[2])
                   [] OTHER -> <<>>
DeletedInls(is) == ConcatAll([k \in DOMAIN is |-> DeletedInl(is[k])])
DeletedBlock(b) ==
    CASE b[1] = "p" -> DeletedInls(b[2])
      [] b[1] = "h" -> DeletedInls(b[3])
      [] b[1] = "ul" -> ConcatAll([k \in DOMAIN b[2] |-> DeletedBlocks(b[2][k])])
      [] b[1] = "tbl" -> ConcatAll([r \in DOMAIN b[2] |-> ConcatAll([c \in DOMAIN b[2][r] |-> DeletedBlocks(b[2][r][c])])])
      [] b[1] = "tbx" -> DeletedBlocks(b[2])
DeletedBlocks(bs) == ConcatAll([k \in DOMAIN bs |-> DeletedBlock(bs[k])])

\* ---- the XML tree the body walk sees
\* element:  <<"P", text>>  |  <<"PBOX", inner elements>> (a paragraph that anchors a text box)
\*           |  <<"LIST", items>>  |  <<"TBL", rows>>         ("H" is a "P" flagged as heading: <<"P", text, TRUE>>)
RECURSIVE OElems(_), DeepText(_), AllParasOf(_)
OElem(b) ==
    CASE b[1] = "p"   -> << <<"P", OInls(b[2]), FALSE>> >>
      [] b[1] = "h"   -> << <<"P", OInls(b[3]), TRUE>> >>
      [] b[1] = "ul"  -> << <<"LIST", [k \in DOMAIN b[2] |-> OElems(b[2][k])]>> >>
      [] b[1] = "tbl" -> << <<"TBL", [r \in DOMAIN b[2] |-> [c \in DOMAIN b[2][r] |-> OElems(b[2][r][c])]]>> >>
      [] b[1] = "tbx" -> << <<"PBOX", OElems(b[2])>> >>
OElems(bs) == ConcatAll([k \in DOMAIN bs |-> OElem(bs[k])])

\* _get_text_recursive of an element: all text below it, in document order; nested paragraphs are not set apart
\* (strict model: they are -- a paragraph boundary is a boundary)
Sep == IF WDev("Odt!TextboxParagraphsGlued") THEN <<>> ELSE WS
DeepTextOfElem(e) ==
    CASE e[1] = "P"    -> e[2]
      [] e[1] = "PBOX" -> DeepText(e[2])
      [] e[1] = "LIST" -> ConcatAll([k \in DOMAIN e[2] |-> Sep \o DeepText(e[2][k])])
      [] e[1] = "TBL"  -> ConcatAll([r \in DOMAIN e[2] |-> ConcatAll([c \in DOMAIN e[2][r] |-> Sep \o DeepText(e[2][r][c])])])
DeepText(es) == ConcatAll([k \in DOMAIN es |-> IF k = 1 THEN DeepTextOfElem(es[k]) ELSE Sep \o DeepTextOfElem(es[k])])

\* elem.iter() over text:p / text:h below a table or list, document order: a paragraph that anchors a text box is
\* visited (with all the text below it) and so are the paragraphs inside the box
AllParas(e) ==
    CASE e[1] = "P"    -> IF e[3] /\ WDev("Odt!HeadingInListLost") THEN <<>> ELSE << e[2] >>
      [] e[1] = "PBOX" -> << DeepText(e[2]) >> \o AllParasOf(e[2])
      [] e[1] = "LIST" -> ConcatAll([k \in DOMAIN e[2] |-> AllParasOf(e[2][k])])
      [] e[1] = "TBL"  -> ConcatAll([r \in DOMAIN e[2] |-> ConcatAll([c \in DOMAIN e[2][r] |-> AllParasOf(e[2][r][c])])])
AllParasOf(es) == ConcatAll([k \in DOMAIN es |-> AllParas(es[k])])

\* pre-fix "Odt!NestedRepeated": for row in table.iter(row): for cell: for p in cell.iter(p) -- the rows of a nested
\* table are rows of the outer iteration too, so their paragraphs come again
RECURSIVE NestedAgain(_)
NestedAgain(es) ==
    ConcatAll([k \in DOMAIN es |->
        CASE es[k][1] = "TBL"  -> AllParas(es[k]) \o ConcatAll([r \in DOMAIN es[k][2] |-> ConcatAll([c \in DOMAIN es[k][2][r] |-> NestedAgain(es[k][2][r][c])])])
          [] es[k][1] = "LIST" -> AllParas(es[k]) \o ConcatAll([j \in DOMAIN es[k][2] |-> NestedAgain(es[k][2][j])])
          [] OTHER -> <<>>])
ContainerParas(e) ==
    AllParas(e) \o (IF WDev("Odt!NestedRepeated")
                    THEN (IF e[1] = "TBL" THEN ConcatAll([r \in DOMAIN e[2] |-> ConcatAll([c \in DOMAIN e[2][r] |-> NestedAgain(e[2][r][c])])])
                          ELSE ConcatAll([j \in DOMAIN e[2] |-> NestedAgain(e[2][j])]))
                    ELSE <<>>)

NonBlank(p) == \E k \in DOMAIN p : p[k][1] = "t"       \* text.strip() is non-empty
JoinWith(parts, sepAtoms) ==
    LET ne == SelectSeq(parts, LAMBDA p : p # <<>>) IN
    ConcatAll([k \in DOMAIN ne |-> IF k = 1 THEN ne[k] ELSE sepAtoms \o ne[k]])

\* _append_full_text_from_element on the children of office:text
BodyLines(es) ==
    ConcatAll([k \in DOMAIN es |->
        CASE es[k][1] = "P"    -> IF NonBlank(es[k][2]) THEN << es[k][2] >> ELSE <<>>
          [] es[k][1] = "PBOX" -> LET t == DeepText(es[k][2]) IN IF NonBlank(t) THEN << t >> ELSE <<>>
          [] OTHER             -> SelectSeq(ContainerParas(es[k]), NonBlank)])

WalkOutput(blocks) ==
    JoinWith((IF WDev("Odt!TrackedDeletionLeaks") THEN SelectSeq(DeletedBlocks(blocks), NonBlank) ELSE <<>>)
             \o BodyLines(OElems(blocks)), WS)

\* projection of the modelled output, exactly as the harness projects the real text
ObsOf(out) == LET ts == SelectSeq(out, LAMBDA a : a[1] = "t") IN [k \in DOMAIN ts |-> ts[k][2]]
SepOf(out) ==
    LET idx == SelectSeq([k \in DOMAIN out |-> IF out[k][1] = "t" THEN k ELSE 0], LAMBDA k : k # 0)
    IN [j \in 1..(Len(idx) - 1) |-> IF \E m \in (idx[j] + 1)..(idx[j + 1] - 1) : out[m][1] = "ws" THEN 1 ELSE 0]

WalkOK(doc) ==
    LET out == WalkOutput(doc.units[1].blocks)
    IN Fidelity(FlatDoc(doc), "odt", ObsOf(out), SepOf(out), <<>>, {})
=============================================================================
