-------------------------- MODULE EncryptionTrace --------------------------
(* code -> spec for C08.  One trace = one real extraction of one concrete container through one
   entry point (direct extractor | read_file | cli.main).

   hdr : [ c |-> the abstract container (JSON: `names` as an array),
           entry |-> "direct" | "read_file" | "cli",
           pos |-> where the read position of the stream handed to the direct extractor stood (Positions;
                   "start" for read_file / cli, which open the file themselves),
           mode |-> "fresh" | "after-detector" (the kind's detector function ran first on the same stream: its
                   verdict is the first Detect event, the extractor's own detector call the second) ]
   ev  : optional  [a |-> "Fixture", named |-> BOOLEAN]   a repository fixture; named = its file name says
                                                           password / protected / encrypted
         optional  [a |-> "Detect", v |-> BOOLEAN]        the detector function of this kind returned v
                                                           (recorded by a wrapper; kinds whose detector is
                                                           inline log nothing)
         then      [a |-> "Yield"]*                        one per result delivered to the consumer
         then      [a |-> "Raise", cls |-> "Encrypted" | "Other", exit, out]
               or  [a |-> "End", same |-> "yes" | "no" | "n/a", exit, out]
                   exit = CLI exit status (0 for the other entry points' End), out = "empty" | "text"
                   same = token observation equal to the one of the unencrypted original (PDF)

   TLC decides, per event, with the operators of Encryption.tla:
     Detect : precedes every Yield; verdict = Encrypted(c) wherever the format documents decide
     Yield  : never for a MUST container, never after a positive verdict
     Raise  : class Encrypted  =>  nothing was yielded and the container is not MUSTNOT;
              MUST container   =>  class Encrypted (and for the CLI: non-zero exit, empty stdout)
     End    : never for a MUST container; empty-password PDF: same = "yes"                        *)
EXTENDS Encryption, Json, IOUtils, TLCExt

Traces == JsonDeserialize(IOEnv.TRACE_FILE)

VARIABLES tid, l, det
tvars == <<tid, l, det, c, pc, k, yielded, err>>

FromJson(h) == IF h.kind \in {"ooxml", "ppt"} THEN [h EXCEPT !.names = Range(h.names)] ELSE h

Ev == Traces[tid].ev[l]
Entry == Traces[tid].hdr.entry
IsEvent(a) == l <= Len(Traces[tid].ev) /\ Ev.a = a /\ l' = l + 1 /\ UNCHANGED <<tid, c, k>>

TraceFixture ==
    /\ IsEvent("Fixture") /\ l = 1
    /\ Ev.named <=> Must(c)                 \* the projection of a protected fixture is a MUST container
    /\ UNCHANGED <<det, pc, yielded, err>>

TraceDetect ==
    /\ IsEvent("Detect")
    /\ pc = "open" /\ yielded = 0                           \* Detect precedes the first Yield
    /\ det \in {"none", IF Ev.v THEN "T" ELSE "F"}         \* (asking twice is harmless, changing the answer is not)
    /\ Must(c) => Ev.v
    /\ MustNot(c) => ~Ev.v
    /\ det' = IF Ev.v THEN "T" ELSE "F"
    /\ UNCHANGED <<pc, yielded, err>>

TraceYield ==
    /\ IsEvent("Yield")
    /\ pc \in {"open", "extract"} /\ det # "T"
    /\ yielded' = yielded + 1 /\ pc' = "extract"
    /\ UNCHANGED <<det, err>>

CliOk(e) == Entry = "cli" => (e.exit # 0 /\ (e.cls = "Encrypted" => e.out = "empty"))

TraceRaise ==
    /\ IsEvent("Raise")
    /\ pc \in {"open", "extract"}
    /\ Ev.cls \in {"Encrypted", "Other"}
    /\ det = "T" => Ev.cls = "Encrypted"
    /\ ~MustEqualPlain(c)                                    \* the empty-password PDF extracts
    /\ CliOk(Ev)
    /\ err' = Ev.cls /\ pc' = "done"
    /\ UNCHANGED <<det, yielded>>

TraceEnd ==
    /\ IsEvent("End")
    /\ pc \in {"open", "extract"} /\ det # "T"
    /\ MustEqualPlain(c) => Ev.same = "yes"
    /\ pc' = "done"
    /\ UNCHANGED <<det, yielded, err>>

TraceInit == /\ tid \in 1..Len(Traces) /\ l = 1 /\ det = "none"
             /\ Traces[tid].hdr.pos \in Positions /\ Traces[tid].hdr.mode \in CallModes
             /\ Traces[tid].hdr.entry \in {"direct", "read_file", "cli"}
             /\ c = FromJson(Traces[tid].hdr.c)
             /\ pc = "open" /\ k = 1 /\ yielded = 0 /\ err = "none"

\* the property's invariants, conjoined primed: a violating step is not enabled
TraceNext == /\ (TraceFixture \/ TraceDetect \/ TraceYield \/ TraceRaise \/ TraceEnd)
             /\ Inv_NoYieldBeforeReject'
             /\ Inv_EncryptedRejected'
             /\ Inv_EncryptedNeverYields'
             /\ Inv_PlainNeverEncrypted'
             /\ Inv_EmptyPasswordExtracts'
TraceSpec == TraceInit /\ [][TraceNext]_tvars

TraceAccept ==
    /\ (l = Len(Traces[tid].ev) + 1) => PrintT(<<"ACCEPT", tid>>)
    /\ (IOEnv.MBV_PROGRESS = "1") => PrintT(<<"AT", tid, l>>)
=============================================================================
