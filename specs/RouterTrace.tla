----------------------------- MODULE RouterTrace -----------------------------
(* code -> spec for C07.  A trace = header with the routing tables exported from the running
   code + one "Tables" event + "Query" events recorded from is_supported_file / get_extractor /
   read_file on concrete path strings (the abstract path, the host's MIME guess, the three
   observations).  TLC recomputes both entry points from the specification.                 *)
EXTENDS Router, Json, IOUtils, TLCExt

Traces == JsonDeserialize(IOEnv.TRACE_FILE)

VARIABLES tid, l, T          \* T: the tables of this trace's header (fixed at Init)
vars == <<tid, l, T>>

Range(s) == { s[i] : i \in DOMAIN s }
PairsToFun(ps) == [ k \in { x[1] : x \in Range(ps) } |-> (CHOOSE x \in Range(ps) : x[1] = k)[2] ]

TablesOf(h) == [ reg   |-> PairsToFun(h.reg),
                 alias |-> PairsToFun(h.alias),
                 comp  |-> [ k \in { <<x[1], x[2]>> : x \in Range(h.comp) } |->
                               (CHOOSE x \in Range(h.comp) : <<x[1], x[2]>> = k)[3] ],
                 mime  |-> PairsToFun(h.mime) ]

Ev == Traces[tid].ev[l]
IsEvent(a) == l <= Len(Traces[tid].ev) /\ Ev.a = a /\ l' = l + 1 /\ UNCHANGED <<tid, T>>

\* the exported tables are well-formed and route every documented extension as documented
TraceTables == IsEvent("Tables") /\ WF(T) /\ TablesDocumented(T)

PathOf(e) == [exts |-> e.exts, hidden |-> e.hidden, tail |-> e.tail]

TraceQuery ==
    /\ IsEvent("Query")
    /\ LET pp == PathOf(Ev) IN
       /\ Ev.sup = IsSupported(pp, T, Ev.guess)            \* is_supported_file(path)
       /\ Ev.route = GetExtractor(pp, T, Ev.guess)          \* get_extractor(path): function name / NotSupported
       /\ Ev.rf \in {Ev.route, "n/a"}                        \* read_file dispatches to the same extractor
                                                             \* ("n/a": no file of that name can exist)
       /\ (Ev.sup <=> (Ev.route # NotSupported))

TraceInit == tid \in 1..Len(Traces) /\ l = 1 /\ T = TablesOf(Traces[tid].hdr)
TraceNext == TraceTables \/ TraceQuery
TraceSpec == TraceInit /\ [][TraceNext]_vars

TraceAccept ==
    /\ (l = Len(Traces[tid].ev) + 1) => PrintT(<<"ACCEPT", tid>>)
    /\ (IOEnv.MBV_PROGRESS = "1") => PrintT(<<"AT", tid, l>>)
=============================================================================
