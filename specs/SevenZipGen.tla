----------------------------- MODULE SevenZipGen -----------------------------
(* Enumerates the layouts of SevenZip.tla (entries x kinds x ordered partitions into folders x coders x
   pack position) for the spec -> code replay of C10: one initial state = one archive description.
   The Python side writes that archive with the independent 7z writer (real sizes), reads it with the
   real SevenZipReader and hands the observation to SevenZipTrace.                                  *)
EXTENDS SevenZip

GenNext == UNCHANGED vars
GenSpec == Init /\ [][GenNext]_vars
=============================================================================
