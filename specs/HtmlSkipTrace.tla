--------------------------- MODULE HtmlSkipTrace ---------------------------
(* code -> spec for C17.  One event = one document pushed through one entry point of the
   library:   [a |-> "Obs", w |-> wrapper, eof |-> BOOLEAN, toks |-> token string,
               seen |-> positions whose unique word occurs in ANY text-bearing accessor of the result,
               body |-> positions whose word occurs in the body-text accessors (main text, table cells),
               seq  |-> positions of the words found in the MAIN text, in order of occurrence there,
               meta |-> TRUE when the string was also extracted with the tokens `del` deleted,
               del  |-> the deleted positions (must equal HtmlSkip!DelX, else the clause is void),
               same |-> both extractions gave the same body text modulo white space,
               tree |-> MIME part tree of the archive (HtmlSkipParts; [t |-> "html", k |-> <<>>] for the other wrappers)]
   TLC classifies the token string with HtmlSkip!Class and accepts the event iff every MUST
   word was seen and no MUSTNOT word was seen.
   Wrapper "eml": README ("Returns body_plain when present, else body_html") documents that an
   HTML-only mail yields the RAW HTML body, so only MUST is demanded there (MUSTNOT is DC).  *)
EXTENDS Naturals, Sequences, FiniteSets, Json, IOUtils, TLC, TLCExt

H == INSTANCE HtmlSkip WITH Deviations <- {}, Alphabet <- {}, MaxLen <- 0,
                            toks <- <<>>, cdata <- "", h <- [skip |-> 0, tag |-> "", body |-> FALSE, dead |-> FALSE], out <- {}

HB == INSTANCE HtmlSkip WITH Deviations <- {"CountVoidStartTag", "AnyStartTagIncrements", "AnyEndTagDecrements",
                                             "VoidRemovableNeverCloses", "NoClose"},
                            Alphabet <- {}, MaxLen <- 0,
                            toks <- <<>>, cdata <- "", h <- [skip |-> 0, tag |-> "", body |-> FALSE, dead |-> FALSE], out <- {}

\* MIME part trees (HtmlSkipParts): every event names the tree its document travelled in; the verdict does not depend on it
\* (Depth / RichSiblings only feed the generator; TLC evaluates constant definitions eagerly, so keep them tiny here)
P == INSTANCE HtmlSkipParts WITH Depth <- 0, RichSiblings <- FALSE, tr <- [t |-> "html", k |-> <<>>]

Traces == JsonDeserialize(IOEnv.TRACE_FILE)

VARIABLES tid, l
vars == <<tid, l>>

Wrappers    == {"html", "mhtml_b64", "mhtml_qp", "mhtml_raw", "msg", "msgfile", "msgfrag", "epub", "eml"}
RawWrappers == {"eml"}

Ev == Traces[tid].ev[l]
IsEvent(a) == l <= Len(Traces[tid].ev) /\ Ev.a = a /\ l' = l + 1 /\ UNCHANGED tid

SeenSet(e) == { e.seen[j] : j \in 1..Len(e.seen) }

XmlWrappers == {"epub"}                                   \* chapters are application/xhtml+xml: XML dialect
ClassFor(e) == H!ClassX(e.toks, e.w \in XmlWrappers)

SeqOK(e) == /\ \A j \in 1..Len(e.seq) : e.seq[j] \in 1..Len(e.toks)
            /\ \A i \in 1..Len(e.seq) : \A j \in 1..Len(e.seq) : i # j => e.seq[i] # e.seq[j]

SetOf(q) == { q[j] : j \in 1..Len(q) }
BodySet(e) == SetOf(e.body)

(* Wrapper "msgfrag": an HTML FRAGMENT as the body of a real .msg file.  read_msg_format_mail converts the body only
   when it looks like HTML; nothing documents when that is, so the fragment carries obligations only if it contains a
   bare start tag of the recogniser's list as of the pinned commit (the list may grow, it must not shrink).           *)
MsgHtmlHints == {"p", "div", "span", "table", "tr", "td", "style", "script", "body"}
Obliged(e) == e.w # "msgfrag" \/ \E i \in 1..Len(e.toks) : e.toks[i].k = "S" /\ e.toks[i].n \in MsgHtmlHints

MetaOK(e) == LET xml == e.w \in XmlWrappers IN
             (e.meta /\ H!AllDecided(ClassFor(e)) /\ SetOf(e.del) = H!DelX(e.toks, xml)) => e.same

Verdict(e) == LET cls == ClassFor(e) IN
              ~Obliged(e) \/
              /\ IF e.w \in RawWrappers THEN H!ConformsRaw(cls, SeenSet(e))
                                         ELSE H!Conforms2(cls, BodySet(e), SeenSet(e))
              /\ H!OrderOK(cls, e.seq)
              /\ MetaOK(e)

WellEvent(e) == /\ e.w \in Wrappers
                /\ P!IsArchive(e.tree)                  \* exactly one text/html part, anywhere in the tree
                /\ H!WellFormed(e.toks)
                /\ SeenSet(e) \subseteq 1..Len(e.toks)
                /\ SeqOK(e)
                /\ BodySet(e) \subseteq SeenSet(e)
                /\ SetOf(e.del) \subseteq 1..Len(e.toks)
                /\ e.meta \in BOOLEAN /\ e.same \in BOOLEAN

TraceObs == /\ IsEvent("Obs")
            /\ WellEvent(Ev)
            /\ Verdict(Ev)

TraceInit == tid \in 1..Len(Traces) /\ l = 1
TraceNext == TraceObs
TraceSpec == TraceInit /\ [][TraceNext]_vars

TraceAccept ==
    /\ (l = Len(Traces[tid].ev) + 1) => PrintT(<<"ACCEPT", tid>>)
    /\ (IOEnv.MBV_PROGRESS = "1") => PrintT(<<"AT", tid, l>>)

(* Explain mode (diagnosis of rejected traces only): never blocks; prints, for every event the
   specification rejects, the expected classification so that the report can show it.       *)
ExplainObs == /\ IsEvent("Obs")
              /\ (~WellEvent(Ev)) => PrintT(<<"MALFORMED", tid, l>>)
              /\ (WellEvent(Ev) /\ ~Verdict(Ev)) => PrintT(<<"BAD", tid, l, ClassFor(Ev)>>)
ExplainSpec == TraceInit /\ [][ExplainObs]_vars

(* Model-agreement mode (self-test of the ALGORITHM part, never part of the verdict): the observed
   set must EQUAL what the step machine emits -- the reference machine (MBV_MODEL = "ref", run
   against the repaired code) or the as-built machine with all five deviations (MBV_MODEL =
   "asbuilt", run against the pinned code).  Comment / CDATA words are dropped by the machine
   as by the code.  A difference is printed, never blocks.                                   *)
ModelOut(e) == IF IOEnv.MBV_MODEL = "asbuilt" THEN HB!AlgOut(e.toks, e.eof) ELSE H!AlgOut(e.toks, e.eof)
ModelObs == /\ IsEvent("Obs")
            /\ (Ev.w \notin RawWrappers /\ SeenSet(Ev) # ModelOut(Ev))
                   => PrintT(<<"DIFF", tid, l, ModelOut(Ev)>>)
ModelSpec == TraceInit /\ [][ModelObs]_vars
=============================================================================
