--------------------------- MODULE HtmlSkipTrace ---------------------------
(* code -> spec for C17.  One event = one document pushed through one entry point of the
   library:   [a |-> "Obs", w |-> wrapper, eof |-> BOOLEAN, toks |-> token string,
               seen |-> positions whose unique word occurs in ANY text-bearing accessor of the result,
               seq  |-> positions of the words found in the MAIN text, in order of occurrence there]
   TLC classifies the token string with HtmlSkip!Class and accepts the event iff every MUST
   word was seen and no MUSTNOT word was seen.
   Wrapper "eml": README ("Returns body_plain when present, else body_html") documents that an
   HTML-only mail yields the RAW HTML body, so only MUST is demanded there (MUSTNOT is DC).  *)
EXTENDS Naturals, Sequences, FiniteSets, Json, IOUtils, TLC, TLCExt

H == INSTANCE HtmlSkip WITH Deviations <- {}, Alphabet <- {}, MaxLen <- 0,
                            toks <- <<>>, cdata <- "", h <- [skip |-> 0, tag |-> "", body |-> FALSE, dead |-> FALSE], out <- {}

HB == INSTANCE HtmlSkip WITH Deviations <- {"CountVoidStartTag", "AnyStartTagIncrements", "AnyEndTagDecrements",
                                             "VoidRemovableNeverCloses", "NoClose"},
                            Alphabet <- {}, MaxLen <- 0,
                            toks <- <<>>, cdata <- "", h <- [skip |-> 0, tag |-> "", body |-> FALSE, dead |-> FALSE], out <- {}

Traces == JsonDeserialize(IOEnv.TRACE_FILE)

VARIABLES tid, l
vars == <<tid, l>>

Wrappers    == {"html", "mhtml_b64", "mhtml_qp", "mhtml_raw", "msg", "msgfile", "epub", "eml"}
RawWrappers == {"eml"}

Ev == Traces[tid].ev[l]
IsEvent(a) == l <= Len(Traces[tid].ev) /\ Ev.a = a /\ l' = l + 1 /\ UNCHANGED tid

SeenSet(e) == { e.seen[j] : j \in 1..Len(e.seen) }

XmlWrappers == {"epub"}                                   \* chapters are application/xhtml+xml: XML dialect
ClassFor(e) == H!ClassX(e.toks, e.w \in XmlWrappers)

SeqOK(e) == /\ \A j \in 1..Len(e.seq) : e.seq[j] \in 1..Len(e.toks)
            /\ \A i \in 1..Len(e.seq) : \A j \in 1..Len(e.seq) : i # j => e.seq[i] # e.seq[j]

Verdict(e) == LET cls == ClassFor(e) IN
              /\ IF e.w \in RawWrappers THEN H!ConformsRaw(cls, SeenSet(e)) ELSE H!Conforms(cls, SeenSet(e))
              /\ H!OrderOK(cls, e.seq)

(* KF-C17-01 (open known finding, EPUB only; named deviation OpenCellDroppedAtEof).
   epub_extractor._XhtmlTextExtractor collects cell text in _current_cell and moves it to the table only at
   </td> / </tr> / </table>.  When those end tags never reach the handler -- they lie inside a removable
   element that is not closed before the end of input -- the cell is dropped with the VISIBLE text it already
   holds.  Domain: wrapper epub, the string opens a <td>/<th>, and the reference parse ends inside a removable
   element.  As-built prediction: exactly the MUST words after the cell's start tag may be missing; every other
   obligation (other MUST words, all MUSTNOT words, order) holds.                                              *)
CellStart(toks) == { i \in 1..Len(toks) : toks[i].k = "S" /\ toks[i].n \in {"td", "th"} }
InDomainKF1(e) == /\ e.w = "epub"
                  /\ CellStart(e.toks) # {}
                  /\ H!RefScan(e.toks, 1, H!R0(TRUE)).E # ""
KnownKF1(e) == /\ InDomainKF1(e)
               /\ LET cls == ClassFor(e)
                      c0  == CHOOSE i \in CellStart(e.toks) : \A j \in CellStart(e.toks) : i <= j
                      waived == [i \in 1..Len(e.toks) |-> IF i > c0 /\ cls[i] = "MUST" THEN "DC" ELSE cls[i]]
                  IN H!Conforms(waived, SeenSet(e)) /\ H!OrderOK(cls, e.seq)

WellEvent(e) == /\ e.w \in Wrappers
                /\ H!WellFormed(e.toks)
                /\ SeenSet(e) \subseteq 1..Len(e.toks)
                /\ SeqOK(e)

TraceObs == /\ IsEvent("Obs")
            /\ WellEvent(Ev)
            /\ Verdict(Ev)

TraceInit == tid \in 1..Len(Traces) /\ l = 1
TraceNext == TraceObs
TraceSpec == TraceInit /\ [][TraceNext]_vars

TraceAccept ==
    /\ (l = Len(Traces[tid].ev) + 1) => PrintT(<<"ACCEPT", tid>>)
    /\ (IOEnv.MBV_PROGRESS = "1") => PrintT(<<"AT", tid, l>>)

(* Explain mode (diagnosis of rejected traces only): never blocks; prints, for every event the
   specification rejects, the expected classification so that the report can show it.       *)
ExplainObs == /\ IsEvent("Obs")
              /\ (~WellEvent(Ev)) => PrintT(<<"MALFORMED", tid, l>>)
              /\ (WellEvent(Ev) /\ ~Verdict(Ev)) => PrintT(<<"BAD", tid, l, ClassFor(Ev)>>)
              /\ (WellEvent(Ev) /\ ~Verdict(Ev) /\ KnownKF1(Ev)) => PrintT(<<"KF1", tid, l>>)
ExplainSpec == TraceInit /\ [][ExplainObs]_vars

(* Model-agreement mode (self-test of the ALGORITHM part, never part of the verdict): the observed
   set must EQUAL what the step machine emits -- the reference machine (MBV_MODEL = "ref", run
   against the repaired code) or the as-built machine with all five deviations (MBV_MODEL =
   "asbuilt", run against the pinned code).  Comment / CDATA words are dropped by the machine
   as by the code.  A difference is printed, never blocks.                                   *)
ModelOut(e) == IF IOEnv.MBV_MODEL = "asbuilt" THEN HB!AlgOut(e.toks, e.eof) ELSE H!AlgOut(e.toks, e.eof)
ModelObs == /\ IsEvent("Obs")
            /\ (Ev.w \notin RawWrappers /\ SeenSet(Ev) # ModelOut(Ev))
                   => PrintT(<<"DIFF", tid, l, ModelOut(Ev)>>)
ModelSpec == TraceInit /\ [][ModelObs]_vars
=============================================================================
