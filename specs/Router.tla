------------------------------- MODULE Router -------------------------------
(* C07 -- format routing.

   Abstract path:  [exts |-> sequence of lower-cased extension tokens that end the last path
                             component (after a possibly empty stem),
                    hidden |-> TRUE when the stem is empty (".docx": the dot is a leading dot),
                    tail |-> what follows the last token: "" | "." | " " | "?q" | "/b" | "/" | "/." | "//"
                             (the last three: the name is used as a directory -- "Budget.xlsx/") ]
   Tables T = [reg   : function  type -> extractor function name,
               alias : function  token -> type,
               comp  : function  <<t1, t2>> -> type          (".t1.t2" compound suffixes),
               mime  : function  mime type -> type].
   guess = what the host's mimetypes database says for the lower-cased path ("" = nothing).

   Two algorithm-shaped operators transcribe the two entry points of router.py step by step;
   the declarative part says what a user relies on.                                         *)
EXTENDS Naturals, Sequences, FiniteSets, TLC

NotSupported == "NotSupported"

Dom(f) == DOMAIN f
Last(s) == s[Len(s)]

(* ---- helpers shared by both entry points (os.path.splitext on the lower-cased path) ---- *)
\* the extension os.path.splitext reports, as a token; "" = none; "?" = something that is in no table
SplitExt(p) ==
    IF p.tail \in {"/b", "/", "/.", "//"} THEN ""     \* last component "b" / "" / "." has no extension
    ELSE IF Len(p.exts) = 0 THEN ""
    ELSE IF p.hidden /\ Len(p.exts) = 1 /\ p.tail \in {"", " ", "?q"} THEN ""   \* ".docx": leading dot only
    ELSE IF p.tail = "." THEN "."                     \* "a.docx." -> "."
    ELSE IF p.tail = "" THEN Last(p.exts)
    ELSE "?"                                          \* "docx " / "docx?q": a string no table contains

CompoundHit(p, T) ==                                  \* path_lower.endswith(".t1.t2")
    /\ p.tail = ""
    /\ Len(p.exts) >= 2
    /\ <<p.exts[Len(p.exts) - 1], Last(p.exts)>> \in Dom(T.comp)

CompoundType(p, T) == T.comp[<<p.exts[Len(p.exts) - 1], Last(p.exts)>>]

(* ---- entry point 1: is_supported_file ---- *)
SupportedExtSet(T) == Dom(T.reg) \cup Dom(T.alias)        \* (+ compound keys, which splitext never yields)

IsSupported(p, T, guess) ==
    \/ CompoundHit(p, T)
    \/ SplitExt(p) \in SupportedExtSet(T)
    \/ (guess # "" /\ guess \in Dom(T.mime))

(* ---- entry point 2: get_extractor ---- *)
FileTypeFromExtension(p, T) ==                        \* "" = None
    IF CompoundHit(p, T) THEN CompoundType(p, T)
    ELSE LET e == SplitExt(p) IN
         IF e \in {"", ".", "?"} THEN ""
         ELSE LET a == IF e \in Dom(T.alias) THEN T.alias[e] ELSE e IN
              IF a \in Dom(T.reg) THEN a ELSE ""

Lookup(ft, T) == IF ft \in Dom(T.reg) THEN T.reg[ft] ELSE NotSupported     \* _get_extractor

GetExtractor(p, T, guess) ==
    LET ft == FileTypeFromExtension(p, T) IN
    IF ft # "" THEN Lookup(ft, T)
    ELSE IF guess # "" /\ guess \in Dom(T.mime) THEN Lookup(T.mime[guess], T)
    ELSE NotSupported

(* ---- declarative part ---- *)
Equiv(p, T, guess) == IsSupported(p, T, guess) <=> (GetExtractor(p, T, guess) # NotSupported)

WF(T) == /\ \A a \in Dom(T.alias) : T.alias[a] \in Dom(T.reg)
         /\ \A c \in Dom(T.comp)  : T.comp[c]  \in Dom(T.reg)
         /\ \A m \in Dom(T.mime)  : T.mime[m]  \in Dom(T.reg)

\* the route is decided by the extension alone (host MIME db irrelevant) whenever the extension is known
ExtDecides(p, T) == FileTypeFromExtension(p, T) # ""
MimeIndependent(p, T, g1, g2) ==
    ExtDecides(p, T) => /\ GetExtractor(p, T, g1) = GetExtractor(p, T, g2)
                        /\ IsSupported(p, T, g1) /\ IsSupported(p, T, g2)

(* ---- documented routes, transcribed from README.md ("Supported Formats", "Extension Aliases") ---- *)
Documented ==
  [ doc |-> "read_doc", dot |-> "read_doc", xls |-> "read_xls", xlt |-> "read_xls",
    ppt |-> "read_ppt", pot |-> "read_ppt", pps |-> "read_ppt", rtf |-> "read_rtf",
    docx |-> "read_docx", docm |-> "read_docx", dotx |-> "read_docx", dotm |-> "read_docx",
    xlsx |-> "read_xlsx", xlsm |-> "read_xlsx", xltx |-> "read_xlsx", xltm |-> "read_xlsx",
    pptx |-> "read_pptx", pptm |-> "read_pptx", potx |-> "read_pptx", potm |-> "read_pptx",
    ppsx |-> "read_pptx", ppsm |-> "read_pptx",
    odt |-> "read_odt", ott |-> "read_odt", odp |-> "read_odp", otp |-> "read_odp",
    ods |-> "read_ods", ots |-> "read_ods", odg |-> "read_odg", odf |-> "read_odf",
    eml |-> "read_eml_format_mail", msg |-> "read_msg_format_mail", mbox |-> "read_mbox_format_mail",
    txt |-> "read_plain_text", md |-> "read_plain_text", csv |-> "read_plain_text",
    tsv |-> "read_plain_text", json |-> "read_plain_text",
    pdf |-> "read_pdf", html |-> "read_html", htm |-> "read_html",
    mhtml |-> "read_mhtml", mht |-> "read_mhtml", epub |-> "read_epub",
    zip |-> "read_archive", tar |-> "read_archive", tgz |-> "read_archive", gz |-> "read_archive",
    tbz2 |-> "read_archive", bz2 |-> "read_archive", txz |-> "read_archive", xz |-> "read_archive" ]
  @@ ("7z" :> "read_archive")

DocumentedCompound == { <<"tar", "gz">>, <<"tar", "bz2">>, <<"tar", "xz">> }

\* alias pairs the README names: an alias must behave exactly like its base format
DocumentedAliasBase ==
  [ htm |-> "html", mht |-> "mhtml", dot |-> "doc", dotx |-> "docx", dotm |-> "docm", xlt |-> "xls",
    xltx |-> "xlsx", xltm |-> "xlsm", pot |-> "ppt", potx |-> "pptx", potm |-> "pptm", pps |-> "ppt",
    ppsx |-> "pptx", ppsm |-> "pptm", ott |-> "odt", ots |-> "ods", otp |-> "odp",
    gz |-> "tgz", bz2 |-> "tbz2", xz |-> "txz" ]

Plain(exts) == [exts |-> exts, hidden |-> FALSE, tail |-> ""]

TablesDocumented(T) ==
    /\ \A e \in DOMAIN Documented :
          \A g \in {"", "text/plain", "application/zip"} :
             GetExtractor(Plain(<<e>>), T, g) = Documented[e] /\ IsSupported(Plain(<<e>>), T, g)
    /\ \A c \in DocumentedCompound :
          /\ GetExtractor(Plain(<<c[1], c[2]>>), T, "") = "read_archive"
          /\ GetExtractor(Plain(<<c[1], c[2]>>), T, "") = GetExtractor(Plain(<<DocumentedAliasBase[c[2]]>>), T, "")
    /\ \A a \in DOMAIN DocumentedAliasBase :
          GetExtractor(Plain(<<a>>), T, "") = GetExtractor(Plain(<<DocumentedAliasBase[a]>>), T, "")
=============================================================================
