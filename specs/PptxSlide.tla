------------------------------- MODULE PptxSlide -------------------------------
(* Step machine and theorems of the PPTX slide reader model (definitions: PptxSlideDefs.tla).
   One behaviour = one call of _process_slide_from_context: three collecting passes (one step per shape and pass),
   the sort (one step), the walk (one step per shape), finish.

   Universe: shape trees of up to MaxShapes shapes over the Shapes below x Offsets x group depth 0..MaxG; ids are
   stamped by position.

   Theorems (WalkDev = {}):
       Inv_StepAgreesWithFunction
       Inv_EveryContentOnce    the slide text (base) holds every text shape and table exactly once -- and nothing of
                               footer / date placeholders
       Inv_ReadingOrder        the slide text is in reading order (positions never decrease; same kind at the same
                               position: document order)
       Inv_Lists               content_placeholders / other_textboxes are the body-role / remaining texts in the order
                               of the slide text; the title field is a title-typed text iff there is one
       Inv_TablesInOrder       tables in reading order
       Inv_ImagesNumbered      pictures numbered n0 + 1 .. in reading order; alternative texts are extra text items
                               (text minus base) in that order
       Prop_Terminates
   Sensitivity: Pptx!XmlOrder (ReadingOrder), Pptx!GroupSkipped (EveryContentOnce).                         *)
EXTENDS PptxSlideDefs

CONSTANTS MaxShapes, MaxG

VARIABLES shapes, n0, pc, pass, i, coll, sorted, st, out
vars == <<shapes, n0, pc, pass, i, coll, sorted, st, out>>

Sh(k, ph, idx, id, alt) == [kind |-> k, ph |-> ph, idx |-> idx, id |-> id, alt |-> alt]
Shapes == { Sh("sp", "title", 0, 1, 0), Sh("sp", "ctrTitle", 0, 1, 0), Sh("sp", "body", 1, 1, 0), Sh("sp", "subTitle", 0, 1, 0),
            Sh("sp", "idx", 2, 1, 0), Sh("sp", "idx", 0, 1, 0), Sh("sp", "ftr", 0, 1, 0), Sh("sp", "dt", 0, 1, 0),
            Sh("sp", "sldNum", 0, 1, 0), Sh("sp", "chart", 0, 1, 0), Sh("sp", "none", 0, 1, 0), Sh("sp", "none", 0, 0, 0),
            Sh("gf", "none", 0, 1, 0), Sh("gf", "none", 0, 0, 0),
            Sh("pic", "none", 0, 1, 0), Sh("pic", "none", 0, 1, 1), Sh("pic", "none", 0, 0, 0) }
\* no offset; (0, 0) ties with the default of a title; (2, 0) with the default of a body placeholder of idx 1;
\* (2, 5) right of it; one inch down
Offsets == { <<0, 0, 0>>, <<1, 0, 0>>, <<1, 2, 0>>, <<1, 2, 5>>, <<1, 914400, 0>> }
ShapeU == {[kind |-> s.kind, ph |-> s.ph, idx |-> s.idx, id |-> s.id, alt |-> s.alt, g |-> gg, has |-> o[1], y |-> o[2], x |-> o[3]] :
              s \in Shapes, o \in Offsets, gg \in 0..MaxG}
Stamp(ss) == [k \in DOMAIN ss |-> [ss[k] EXCEPT !.id = IF @ = 0 THEN 0 ELSE 10 * k, !.alt = IF @ = 0 THEN 0 ELSE 10 * k + 1]]

Init == /\ shapes \in {Stamp(ss) : ss \in UNION {[1..n -> ShapeU] : n \in 0..MaxShapes}}
        /\ n0 \in {0, 3}
        /\ pc = "collect" /\ pass = 1 /\ i = 1 /\ coll = <<>> /\ sorted = <<>> /\ st = W0(n0) /\ out = [done |-> FALSE]

PassKind == <<"sp", "pic", "gf">>
\* for sp in sp_tree.iter(P_SP) ..; for pic in sp_tree.iter(P_PIC) ..; for frame in sp_tree.iter(P_GRAPHICFRAME) ..
Collect == /\ pc = "collect"
           /\ IF i > Len(shapes)
              THEN IF pass < 3 THEN pass' = pass + 1 /\ i' = 1 /\ UNCHANGED <<pc, coll>>
                   ELSE pc' = "sort" /\ UNCHANGED <<pass, i, coll>>
              ELSE /\ coll' = IF shapes[i].kind = PassKind[pass] /\ Visible(shapes[i]) THEN Append(coll, i) ELSE coll
                   /\ i' = i + 1 /\ UNCHANGED <<pc, pass>>
           /\ UNCHANGED <<shapes, n0, sorted, st, out>>
Sort == /\ pc = "sort"
        /\ sorted' = IF Dev("Pptx!XmlOrder") THEN coll ELSE SortIdx(shapes, coll)
        /\ pc' = "walk" /\ i' = 1
        /\ UNCHANGED <<shapes, n0, pass, coll, st, out>>
Walk == /\ pc = "walk"
        /\ IF i > Len(sorted) THEN pc' = "finish" /\ UNCHANGED <<i, st>>
           ELSE st' = ShapeStep(st, shapes[sorted[i]]) /\ i' = i + 1 /\ UNCHANGED pc
        /\ UNCHANGED <<shapes, n0, pass, coll, sorted, out>>
FinishStep == /\ pc = "finish"
              /\ out' = [done |-> TRUE, slide |-> Finish(st)]
              /\ pc' = "done"
              /\ UNCHANGED <<shapes, n0, pass, i, coll, sorted, st>>
Next == Collect \/ Sort \/ Walk \/ FinishStep
Spec == Init /\ [][Next]_vars /\ WF_vars(Next)
GenSpec == Init /\ [][UNCHANGED vars]_vars

(* ------------------------------ theorems ------------------------------ *)
Done == pc = "done"
S == out.slide
SeqSet(q) == {q[k] : k \in DOMAIN q}
Inv_StepAgreesWithFunction == Done => S = SlideOf(shapes, n0)
Inv_EveryContentOnce ==
    Done => /\ SeqSet(S.base) = {shapes[j].id : j \in ContentIdx(shapes)}
            /\ Len(S.base) = Cardinality(ContentIdx(shapes))
Inv_ReadingOrder == Done => InReadingOrder(shapes, S.base)
BodyRole(s) == s.ph \in BodyTypes \/ (s.ph = "idx" /\ s.idx # 0)
Inv_Lists ==
    Done => LET texts == SelectSeq(S.base, LAMBDA id : shapes[IndexOfId(shapes, id)].kind = "sp")
                sh(id) == shapes[IndexOfId(shapes, id)]
            IN /\ S.content = SelectSeq(texts, LAMBDA id : BodyRole(sh(id)))
               /\ S.other = SelectSeq(texts, LAMBDA id : ~BodyRole(sh(id)) /\ sh(id).ph \notin TitleTypes)
               /\ LET ts == {id \in SeqSet(texts) : sh(id).ph \in TitleTypes}
                  IN IF ts = {} THEN S.title = 0 ELSE S.title \in ts
               /\ LET fs == {shapes[j].id : j \in {q \in DOMAIN shapes : shapes[q].kind = "sp" /\ shapes[q].ph = "ftr" /\ shapes[q].id # 0}}
                  IN IF fs = {} THEN S.footer = 0 ELSE S.footer \in fs
Inv_TablesInOrder ==
    Done => /\ SeqSet(S.tables) = {shapes[j].id : j \in {q \in DOMAIN shapes : IsTable(shapes[q])}}
            /\ InReadingOrder(shapes, S.tables)
Inv_ImagesNumbered ==
    Done => LET pics == [k \in DOMAIN S.images |-> S.images[k][2]]
            IN /\ SeqSet(pics) = {shapes[j].id : j \in {q \in DOMAIN shapes : IsPicture(shapes[q])}}
               /\ \A k \in DOMAIN S.images : S.images[k][1] = n0 + k
               /\ InReadingOrder(shapes, pics)
               /\ LET caps == SelectSeq(S.text, LAMBDA id : id \notin SeqSet(S.base))
                  IN caps = [k \in DOMAIN SelectSeq(pics, LAMBDA id : shapes[IndexOfId(shapes, id)].alt # 0) |->
                                shapes[IndexOfId(shapes, SelectSeq(pics, LAMBDA id : shapes[IndexOfId(shapes, id)].alt # 0)[k])].alt]
Prop_Terminates == <>Done
=============================================================================
