------------------------------ MODULE Archive ------------------------------
(* C09 (archive processing is confined) and the member part of C10 (members come out as themselves).

   WHAT IS MODELLED.  read_archive(file_like, path) of
   sharepoint2text/parsing/extractors/archive_extractor.py as a generator driven by a consumer:

     archive  = format (zip | tar | 7z) + sequence of members [kind, nc]
                kind  doc | emptyFile | corrupt            members with bytes of their own
                      nostream                             7z entry listed as a file but without data stream
                      dir hidden fork nested unsup oversize symlink hardlink chardev fifo    skip kinds
                      linkPrev symPrev    tar hard / symbolic link whose target is the PRECEDING member
                                          (the host-targeted symlink / hardlink kinds name a canary host file)
                nc    name class:  plain nested unicode dotslash | dup (the SAME name as the preceding member:
                      tar -r / zipfile "a" append a second entry under an existing name) | absolute dotdot dotdotIn backslash drive empty
                      long hostname      (POSIX host: backslash and drive letters are ordinary characters)
     consumer = Exhaust | CloseAfter(k) | Abandon(k) | Throw(k)      (hist; executed literally by the binding)
     state    = gen   fresh | running | suspended | exhausted | closed | failed | collected
                tmp   none | created | removed                       the private temporary directory
                fs    set of effects <<op, class>>, class \in {InsideTmp, TmpRootItself, Outside}
                results  sequence of [m |-> member index, src |-> "archive" | "host",
                                      own |-> set of members whose content (token words) the result carries]

   ALGORITHM PART (one action per code step):
     GStart / GMkdtemp      _extract_from_{zip,tar,7z}_optimized: open; 7z: tempfile.TemporaryDirectory()
     GExtract               SevenZipReader.extractall -> _extract_files_from_folder: every entry that has data
                            (and every empty file) is written below the temp dir through _safe_join
     GLoop                  the member loop: _should_skip_file, size check, read (zip: zf.read, tar:
                            tf.extractfile, 7z: _process_7z_files_sequential re-reads the extracted file),
                            _process_archive_entry -> yield
     CNext CClose CThrow CAbandon   the consumer;  Unwind = the `with TemporaryDirectory()` exit

   DEVIATIONS (sensitivity runs; the first three are what the code did before the proposed fixes):
     "RereadUnchecked"         7z re-read uses os.path.join(temp_dir, name) without containment check
                               (proposed_fixes/c09-7z-reread-containment.diff)
     "MemberErrorKillsArchive" ZIP: an unreadable member (bad CRC, unsupported method) ends the archive
                               (proposed_fixes/c10-zip-member-errors.diff)
     "FolderErrorKillsArchive" 7z: an undecodable folder ends the archive with no results   (OPEN: KF-C10-01)
     "NoCleanupOnEarlyExit"    temp dir not tied to the generator's frame (mkdtemp without context manager)
     "ExtractToCwd"            tar members extracted to the working directory instead of read in memory
     "YieldHidden"             hidden-member rule dropped
     "BackslashAfterCheck"     _safe_join turns backslashes into separators AFTER its containment check: a name
                               like docs\..\..\x passes as one file name and is then written outside the directory
     "ReadByName"              ZIP / TAR member bytes fetched by NAME (zf.read(name), tf.extractfile(name)): with
                               several entries of one name every one of them comes out with the LAST entry's bytes
     "FollowHardlinks"         tar hard links pass the regular-file test: tarfile.extractfile resolves the
                               link to its target's data, the skip rules see only the link's own name

   PROPERTIES.  Inv_Confined, Inv_Cleanup, Inv_SkipRules, Inv_Closed (C09); Inv_Members, Inv_Isolation (C10).

   THREE-VALUED ORACLE (Contribution): a member MUST come out (doc / emptyFile under a benign name),
   MUST NOT come out (skip kinds), or is DON'T-CARE (corrupt members: "affects only itself"; streamless
   7z entries; hostile names: the documentation does not say whether such a member is skipped, yielded
   from the archive's own bytes, or - for 7z - fails the archive; it may never yield host content).
   A consumer exception thrown into the generator may propagate or be swallowed (DON'T-CARE, C01's
   subject); either way the temp dir must be gone once the generator is finished.                      *)
EXTENDS Naturals, Sequences, FiniteSets, TLC

CONSTANTS Fmts, MemberTypes, MaxMembers, MaxK, Deviations

DeviationNames == {"RereadUnchecked", "MemberErrorKillsArchive", "FolderErrorKillsArchive",
                   "NoCleanupOnEarlyExit", "ExtractToCwd", "YieldHidden", "FollowHardlinks", "ReadByName", "BackslashAfterCheck"}
ASSUME Deviations \subseteq DeviationNames
Dev(d) == d \in Deviations

VARIABLES fmt, ms, nd, hist,            \* the case: format, members, expected results per member, consumer
          gen, tmp, fs, results, got,   \* observable state
          pc, idx, cause                \* the generator's control state
vars == <<fmt, ms, nd, hist, gen, tmp, fs, results, got, pc, idx, cause>>

(* ------------------------------------------------------------------ vocabulary *)
LinkPrev    == {"linkPrev", "symPrev"}
SkipKinds   == {"dir", "hidden", "fork", "nested", "unsup", "oversize", "symlink", "hardlink", "chardev", "fifo"}
               \cup LinkPrev
TarOnly     == {"symlink", "hardlink", "chardev", "fifo"} \cup LinkPrev
BenignNC    == {"plain", "nested", "unicode", "dotslash"}   \* dotslash: ./name, ./dir/name, dir/./name (tar czf x.tgz .)
HostileNC   == {"absolute", "dslash", "dotdot", "dotdotIn", "backslash", "drive", "empty", "long", "hostname"}
Classes     == {"InsideTmp", "TmpRootItself", "Outside"}
Finished    == {"exhausted", "closed", "failed", "collected"}

Applicable(f, m) == /\ (m.kind = "nostream") => f = "7z"
                    /\ (m.kind \in TarOnly) => f = "tar"
HasData(m)  == m.kind \in {"doc", "corrupt", "hidden", "fork", "nested", "unsup", "oversize"}
Written7z(m) == m.kind \in {"doc", "corrupt", "emptyFile"}  \* extractall(members = the entries that passed the filters)

(* sevenzip._safe_join(temp_dir, name) on a POSIX host *)
SafeJoin(nc) == CASE nc \in {"absolute", "dslash", "dotdot"} -> "Reject"
                  [] nc = "empty"                  -> "TmpRootItself"
                  [] OTHER                         -> "InsideTmp"
(* os.path.join(temp_dir, name), resolved *)
RawJoin(nc)  == CASE nc \in {"absolute", "dslash", "dotdot"} -> "Outside"
                  [] nc = "empty"                  -> "TmpRootItself"
                  [] OTHER                         -> "InsideTmp"
WriteFails(nc) == nc \in {"empty", "long"}               \* open(.., "wb"): IsADirectoryError / ENAMETOOLONG

Contribution(m) ==
    IF m.kind \in SkipKinds THEN "mustnot"
    ELSE IF m.kind \in {"doc", "emptyFile"} /\ m.nc \in BenignNC \cup {"dup"} THEN "must"
    ELSE "dontcare"
(* links inside the archive: the member a link finally designates (0 = none: first member, host target) *)
RECURSIVE Resolve(_, _)
Resolve(mm, j) == IF mm[j].kind \in LinkPrev THEN (IF j = 1 THEN 0 ELSE Resolve(mm, j - 1)) ELSE j
(* position-aware oracle: a link to a hidden / unsupported / oversize / ... member must not produce results
   (its content would be the skipped member's); a link to a document is DON'T-CARE (the documentation does not
   say whether links inside an archive are followed) *)
(* several entries under one name *)
InDupGroup(mm, j) == mm[j].nc = "dup" \/ (j < Len(mm) /\ mm[j + 1].nc = "dup")
RECURSIVE LastSameName(_, _)
LastSameName(mm, j) == IF j < Len(mm) /\ mm[j + 1].nc = "dup" THEN LastSameName(mm, j + 1) ELSE j
(* ZIP, TAR and 7z alike: every entry is a member of its own and comes out with ITS bytes, also when several
   entries bear one name (7z: since fix 800301b each pass of same-named entries is extracted to its own directory) *)
ContribAt(mm, j) ==
    IF mm[j].kind \in LinkPrev
    THEN IF Resolve(mm, j) # 0 /\ mm[Resolve(mm, j)].kind \in {"doc", "emptyFile", "corrupt"} THEN "dontcare" ELSE "mustnot"
    ELSE Contribution(mm[j])
(* an archive that carries a hostile member name may be refused as a whole (DON'T-CARE: today only the
   7z path does so, for names _safe_join rejects or the file system cannot create) *)
HostileFail(f, mm) == \E n \in 1..Len(mm) : mm[n].nc \in HostileNC
HasCorrupt(mm) == \E n \in 1..Len(mm) : mm[n].kind = "corrupt"

(* ------------------------------------------------------------------ universe *)
Members == { [kind |-> t[1], nc |-> t[2]] : t \in MemberTypes }
(* named universes (a cfg cannot express tuples):  MemberTypes <- MT_C09  *)
MT_C09 == ({"doc"} \X (BenignNC \cup HostileNC))
          \cup ({"nostream"} \X {"plain", "absolute", "dotdot"})
          \cup ({"emptyFile"} \X {"plain", "absolute"})
          \cup ((SkipKinds \ {"dir"}) \X {"plain"}) \cup {<<"dir", "nested">>, <<"hidden", "nested">>}
          \cup ({"doc", "oversize"} \X {"dup"})
MT_C09s == ({"doc"} \X {"plain", "nested", "dotslash", "absolute", "dotdot", "empty", "long"})      \* representatives
          \cup ({"nostream"} \X {"plain", "absolute"})
          \cup ({"hidden", "fork", "nested", "unsup", "oversize", "symlink", "fifo", "linkPrev"} \X {"plain"})
          \cup {<<"hidden", "nested">>, <<"oversize", "dup">>}
MT_C10 == ({"doc", "emptyFile"} \X {"dup"}) \cup {"doc", "emptyFile", "corrupt", "dir", "hidden", "fork", "nested", "unsup"} \X {"plain"}
Histories == {[t |-> "Exhaust", k |-> 0]}
             \cup { [t |-> x, k |-> n] : x \in {"CloseAfter", "Abandon", "Throw"}, n \in 0..MaxK }
(* a "dup" member repeats the name of a preceding member that has a visible, supported name *)
DupOK(mm, n) == mm[n].nc = "dup" =>
                  /\ n > 1 /\ mm[n].kind \in {"doc", "emptyFile", "oversize"}
                  /\ mm[n - 1].kind \in {"doc", "emptyFile", "oversize", "corrupt"}
                  /\ mm[n - 1].nc \in BenignNC \cup {"dup"}
Cases == { <<f, mm>> \in Fmts \X UNION { [1..n -> Members] : n \in 0..MaxMembers } :
             \A n \in 1..Len(mm) : Applicable(f, mm[n]) /\ DupOK(mm, n) }

Init == /\ \E c \in Cases : fmt = c[1] /\ ms = c[2]
        /\ nd = [n \in 1..Len(ms) |-> 1]
        /\ hist \in Histories
        /\ gen = "fresh" /\ tmp = "none" /\ fs = {} /\ results = <<>> /\ got = 0
        /\ pc = "start" /\ idx = 1 /\ cause = "none"

(* ------------------------------------------------------------------ leaving the generator frame *)
UnwindWith(final, why, extra) ==
    /\ gen' = final /\ cause' = why /\ pc' = "fin"
    /\ IF tmp = "created" /\ ~(Dev("NoCleanupOnEarlyExit") /\ final # "exhausted")
       THEN tmp' = "removed" /\ fs' = fs \cup extra \cup {<<"rmtree", "TmpRootItself">>}
       ELSE tmp' = tmp /\ fs' = fs \cup extra
Unwind(final, why) == UnwindWith(final, why, {})

(* ------------------------------------------------------------------ the consumer *)
WantsMore == hist.t = "Exhaust" \/ (hist.t \in {"CloseAfter", "Abandon", "Throw"} /\ got < hist.k)
CNext == /\ gen \in {"fresh", "suspended"} /\ WantsMore
         /\ gen' = "running"
         /\ UNCHANGED <<fmt, ms, nd, hist, tmp, fs, results, got, pc, idx, cause>>
CClose == /\ gen \in {"fresh", "suspended"}
          /\ (hist.t = "CloseAfter" /\ got = hist.k) \/ hist.t = "ThenClose"
          /\ IF gen = "fresh" THEN gen' = "closed" /\ UNCHANGED <<tmp, fs, pc, cause>>
             ELSE Unwind("closed", "none")
          /\ UNCHANGED <<fmt, ms, nd, hist, results, got, idx>>
CAbandon == /\ gen \in {"fresh", "suspended"} /\ hist.t = "Abandon" /\ got = hist.k
            /\ IF gen = "fresh" THEN gen' = "collected" /\ UNCHANGED <<tmp, fs, pc, cause>>
               ELSE Unwind("collected", "none")
            /\ UNCHANGED <<fmt, ms, nd, hist, results, got, idx>>
CThrow == /\ gen \in {"fresh", "suspended"} /\ hist.t = "Throw" /\ got = hist.k
          /\ \/ /\ IF gen = "fresh" THEN gen' = "failed" /\ cause' = "consumer" /\ UNCHANGED <<tmp, fs, pc>>
                   ELSE Unwind("failed", "consumer")                  \* the exception propagates
                /\ UNCHANGED hist
             \/ /\ gen = "suspended"                                   \* swallowed by a per-member handler:
                /\ gen' = "running" /\ hist' = [t |-> "ThenClose", k |-> 0]   \* the loop goes on; the consumer
                /\ UNCHANGED <<tmp, fs, pc, cause>>                    \* closes at the next suspension
          /\ UNCHANGED <<fmt, ms, nd, results, got, idx>>

(* ------------------------------------------------------------------ the generator *)
GStart == /\ gen = "running" /\ pc = "start"
          /\ IF fmt = "7z"
             THEN /\ tmp' = "created" /\ fs' = fs \cup {<<"mkdir", "TmpRootItself">>}    \* GMkdtemp
                  /\ pc' = "extract"
             ELSE pc' = "loop" /\ UNCHANGED <<tmp, fs>>
          /\ idx' = 1
          /\ UNCHANGED <<fmt, ms, nd, hist, gen, results, got, cause>>

GExtract ==
    /\ gen = "running" /\ pc = "extract"
    /\ IF idx > Len(ms) THEN pc' = "loop" /\ idx' = 1 /\ UNCHANGED <<gen, tmp, fs, cause>>
       ELSE LET m == ms[idx] IN
            IF m.kind = "corrupt"                                    \* this member's folder does not decode
            THEN IF Dev("FolderErrorKillsArchive") THEN Unwind("failed", "corruptMember") /\ UNCHANGED idx
                 ELSE idx' = idx + 1 /\ UNCHANGED <<gen, tmp, fs, pc, cause>>
            ELSE IF ~Written7z(m) THEN idx' = idx + 1 /\ UNCHANGED <<gen, tmp, fs, pc, cause>>
            ELSE IF SafeJoin(m.nc) = "Reject" THEN Unwind("failed", "hostileName") /\ UNCHANGED idx
            ELSE IF WriteFails(m.nc)
                 THEN UnwindWith("failed", "hostileName", {<<"write", SafeJoin(m.nc)>>}) /\ UNCHANGED idx
                 ELSE /\ fs' = fs \cup {<<"mkdir", "InsideTmp">>,
                                         <<"write", IF Dev("BackslashAfterCheck") /\ m.nc = "backslash"
                                                    THEN "Outside" ELSE "InsideTmp">>}
                      /\ idx' = idx + 1 /\ UNCHANGED <<gen, tmp, pc, cause>>
    /\ UNCHANGED <<fmt, ms, nd, hist, results, got>>

YieldOwn(src, own) ==
              /\ results' = Append(results, [m |-> idx, src |-> src, own |-> own])
              /\ got' = got + 1 /\ gen' = "suspended" /\ idx' = idx + 1
              /\ UNCHANGED <<tmp, pc, cause>>
Yield(src) == /\ results' = Append(results, [m |-> idx, src |-> src, own |-> IF src = "archive" THEN {idx} ELSE {}])
              /\ got' = got + 1 /\ gen' = "suspended" /\ idx' = idx + 1
              /\ UNCHANGED <<tmp, pc, cause>>
Skip == idx' = idx + 1 /\ UNCHANGED <<gen, tmp, fs, results, got, pc, cause>>

GLoop ==
    /\ gen = "running" /\ pc = "loop"
    /\ IF idx > Len(ms) THEN Unwind("exhausted", "none") /\ UNCHANGED <<results, got, idx>>
       ELSE LET m == ms[idx] IN
            IF m.kind \in SkipKinds /\ ~(Dev("YieldHidden") /\ m.kind = "hidden")
            THEN IF Dev("ExtractToCwd") /\ fmt = "tar" /\ m.kind \in {"symlink", "hardlink"}
                 THEN fs' = fs \cup {<<"link", "Outside">>} /\ idx' = idx + 1
                      /\ UNCHANGED <<gen, tmp, results, got, pc, cause>>
                 ELSE IF /\ Dev("FollowHardlinks") /\ fmt = "tar" /\ m.kind = "linkPrev"
                         /\ Resolve(ms, idx) # 0 /\ HasData(ms[Resolve(ms, idx)])
                      THEN UNCHANGED fs /\ YieldOwn("archive", {Resolve(ms, idx)})   \* the target's bytes, the link's label
                      ELSE Skip
            ELSE IF fmt # "7z"
                 THEN IF m.kind = "corrupt"
                      THEN IF Dev("MemberErrorKillsArchive") /\ fmt = "zip"
                           THEN Unwind("failed", "corruptMember") /\ UNCHANGED <<results, got, idx>>
                           ELSE Skip
                      ELSE IF Dev("ReadByName")
                           THEN UNCHANGED fs /\ YieldOwn("archive", {LastSameName(ms, idx)})
                      ELSE IF Dev("ExtractToCwd") /\ fmt = "tar"
                           THEN fs' = fs \cup {<<"write", "Outside">>, <<"read", "Outside">>} /\ Yield("archive")
                           ELSE UNCHANGED fs /\ Yield("archive")      \* zf.read / tf.extractfile: in memory
                 ELSE \* 7z: re-read what extractall wrote
                      LET cls == IF Dev("RereadUnchecked") THEN RawJoin(m.nc) ELSE SafeJoin(m.nc)
                          wasWritten == Written7z(m) /\ m.kind # "corrupt"
                      IN IF cls = "Reject" THEN Skip
                         ELSE IF cls = "Outside"                       \* a host file of that name exists
                              THEN fs' = fs \cup {<<"read", "Outside">>} /\ Yield("host")
                         ELSE IF wasWritten /\ cls = "InsideTmp"
                              THEN fs' = fs \cup {<<"read", "InsideTmp">>} /\ Yield("archive")
                              ELSE Skip                                \* "Extracted file not found"
    /\ UNCHANGED <<fmt, ms, nd, hist>>

Next == CNext \/ CClose \/ CAbandon \/ CThrow \/ GStart \/ GExtract \/ GLoop
Spec == Init /\ [][Next]_vars

(* ------------------------------------------------------------------ properties *)
Inv_Confined  == \A e \in fs : e[2] # "Outside"
Inv_Cleanup   == gen \in Finished => tmp \in {"none", "removed"}
Inv_SkipRules == \A n \in 1..Len(results) :
                    /\ results[n].m # 0 => ContribAt(ms, results[n].m) # "mustnot"
                    /\ \A j \in results[n].own : ContribAt(ms, j) # "mustnot"      \* nor their content under another label
                 \* (m = 0 only in recorded traces: a result that carries no member's path - C10's subject)
Inv_Closed    == /\ \A n \in 1..Len(results) : results[n].src = "archive"
                 /\ <<"read", "Outside">> \notin fs

Count(j) == Cardinality({ n \in 1..Len(results) : results[n].m = j })
LastM == IF results = <<>> THEN 0 ELSE results[Len(results)].m
Inv_Members ==
    /\ \A n \in 1..(Len(results) - 1) :                                               \* archive order
          \/ results[n].m <= results[n + 1].m
          \/ /\ ContribAt(ms, results[n + 1].m) # "must"      \* (DON'T-CARE entries of one name cannot be told apart)
             /\ LastSameName(ms, results[n + 1].m) >= results[n].m
    /\ \A j \in 1..Len(ms) : Count(j) <= (IF ContribAt(ms, j) = "must" THEN nd[j] ELSE Count(j))
    /\ \A j \in 1..Len(ms) :                                                         \* nothing lost
         (ContribAt(ms, j) = "must" /\ (gen = "exhausted" \/ j < LastM)) => Count(j) = nd[j]
(* every result carries the bytes of ITS entry (entries identified by their content), also when several
   entries bear one name *)
Inv_OwnContent == \A n \in 1..Len(results) :
                     (results[n].m # 0 /\ ContribAt(ms, results[n].m) = "must") => results[n].own \subseteq {results[n].m}
(* a corrupt or unsupported member affects only itself: the archive as a whole fails only because the
   consumer threw, or (7z) because a hostile name makes extraction refuse *)
FailAllowed == \/ cause = "consumer"
               \/ cause = "hostileName" /\ HostileFail(fmt, ms)
Inv_Isolation == gen = "failed" => FailAllowed

(* OPEN finding KF-C10-01 (deviation "FolderErrorKillsArchive"): domain and as-built prediction.  The
   property is Inv_Isolation; the as-built model violates it in exactly this way and no other. *)
KF_C10_01_Domain == fmt = "7z" /\ HasCorrupt(ms)
KF_C10_01_AsBuilt == gen = "failed" /\ cause = "corruptMember" /\ KF_C10_01_Domain /\ results = <<>>
Inv_IsolationAsBuilt == gen = "failed" => (FailAllowed \/ KF_C10_01_AsBuilt)

TypeOK == /\ gen \in {"fresh", "running", "suspended"} \cup Finished
          /\ tmp \in {"none", "created", "removed"}
          /\ fs \subseteq ({"mkdir", "write", "read", "remove", "rmtree", "rename", "link", "list", "other"} \X Classes)
=============================================================================
