---------------------------- MODULE RtfStripTrace ----------------------------
(* code -> spec binding of the RTF stripper MODEL: for a token stream rendered to RTF source text, the string the real
   _RtfParser._strip_rtf_full_with_pages returns and the pages it records (both projected to atoms, white-space runs
   collapsed) are exactly RtfStripDefs!Strip of that stream, with the deviations of the findings still open.    *)
EXTENDS RtfStripDefs, Json, IOUtils, TLCExt

Traces == JsonDeserialize(IOEnv.TRACE_FILE)
VARIABLES tid, l
vars == <<tid, l>>
Ev == Traces[tid].ev[l]
IsEvent(x) == l <= Len(Traces[tid].ev) /\ Ev.a = x /\ l' = l + 1 /\ UNCHANGED tid

TraceStrip == /\ IsEvent("Strip")
              /\ LET m == Strip(Ev.toks) IN Ev.result = m.result /\ Ev.pages = m.pages

TraceInit == tid \in 1..Len(Traces) /\ l = 1
TraceNext == TraceStrip
TraceSpec == TraceInit /\ [][TraceNext]_vars
TraceAccept ==
    /\ (l = Len(Traces[tid].ev) + 1) => PrintT(<<"ACCEPT", tid>>)
    /\ (IOEnv.MBV_PROGRESS = "1") => PrintT(<<"AT", tid, l>>)
=============================================================================
