--------------------------- MODULE SheetWalkTrace ---------------------------
(* code -> spec binding of the XLSX sheet reader MODEL (SheetWalk.tla): for the rows openpyxl handed to the real
   _read_sheet_data (recorded by a wrapper installed from outside, no source hook), the rows it returned and the
   table the result exposes are exactly SheetWalkDefs!AllRowsOf / DataOf of those rows.  WalkDev holds the
   as-built deviations of the findings that are still open.                                              *)
EXTENDS SheetWalkDefs, Json, IOUtils, TLCExt

Traces == JsonDeserialize(IOEnv.TRACE_FILE)
VARIABLES tid, l
vars == <<tid, l>>
Ev == Traces[tid].ev[l]
IsEvent(a) == l <= Len(Traces[tid].ev) /\ Ev.a = a /\ l' = l + 1 /\ UNCHANGED tid

TraceSheet ==
    /\ IsEvent("Sheet")
    /\ Ev.all = AllRowsOf(Ev.src)                 \* _read_sheet_data
    /\ Ev.data = DataOf(Ev.all)                   \* _read_content_from_workbook -> XlsxSheet.data -> get_table()

TraceInit == tid \in 1..Len(Traces) /\ l = 1
TraceNext == TraceSheet
TraceSpec == TraceInit /\ [][TraceNext]_vars
TraceAccept ==
    /\ (l = Len(Traces[tid].ev) + 1) => PrintT(<<"ACCEPT", tid>>)
    /\ (IOEnv.MBV_PROGRESS = "1") => PrintT(<<"AT", tid, l>>)
=============================================================================
