------------------------- MODULE PatchSectionTrace -------------------------
(* code -> spec for C15 (and the oracle of the spec -> code replay: the replayed schedules are
   recorded as traces and validated here, so every expected value is computed by TLC).

   A trace is the sequence of operations that real threads running the real
   pdf_extractor._patched_build_char_map() performed on the shared module attribute
   pypdf._page.build_char_map, observed from outside (mbv/c15_sched.py: module class swap):

     Probe(t)            hasattr() inside _get_pypdf_char_map_patcher: no effect
     Get(t, fn)          getattr(module, name) returned the wrapper chain fn
     Set(t, fn)          setattr(module, name, v), v = wrapper chain fn;  TLC decides from pc[t]
                         whether this is the Write or the Restore of the thread
     Body(t, fn, exc)    (scheduled runs only) the with-body ran under binding fn and raised iff exc
     Blocked(t)          (scheduled runs only) the scheduled thread could not take its next step
     Quiescent(fn)       all threads joined; binding read by the harness

   Lock operations are not observable from the module object; they are attached to the
   neighbouring observable step with PatchSection's own operators:
       Get  = Acquire . Read        Set (restoring) = [Body .] Restore . Release
   With UseLock = TRUE a Get by t while another thread is inside its section is NOT a step of the
   specification (the trace is rejected there), and Blocked(t) is a step exactly in that situation.
   Invariants are conjoined primed: a step into a state violating Residue / BodySeesOwn / Depth is
   not enabled.                                                                                      *)
EXTENDS PatchSection, Json, IOUtils, TLC, TLCExt

Traces == JsonDeserialize(IOEnv.TRACE_FILE)

VARIABLES tid, l
tvars == <<tid, l, st, sched>>

Ev == Traces[tid].ev[l]
IsEvent(a) == l <= Len(Traces[tid].ev) /\ Ev.a = a /\ l' = l + 1 /\ UNCHANGED <<tid, sched>>

TraceProbe == IsEvent("Probe") /\ Ev.t \in Threads /\ UNCHANGED st

TraceGet ==
    /\ IsEvent("Get")
    /\ LET t == Ev.t IN
       /\ t \in Threads
       /\ Ev.fn = st.fn                              \* the value obtained is the current binding
       /\ \/ CanStepRead(st, t) /\ st' = StepRead(st, t)
          \/ /\ st.pc[t] \in {"write", "body", "restore"}      \* re-read inside the own section: harmless
             /\ UNCHANGED st

TraceSet ==
    /\ IsEvent("Set")
    /\ LET t == Ev.t IN
       /\ t \in Threads
       /\ \/ /\ CanWrite(st, t)                      \* Write: a new wrapper of t around what t read
             /\ st' = DoWrite(st, t)
          \/ /\ CanBody(st, t)                       \* (free runs: Body is silent) Body . Restore
             /\ st' = StepRestore(DoBody(st, t, FALSE), t)
          \/ /\ CanRestore(st, t)
             /\ st' = StepRestore(st, t)
       /\ Ev.fn = st'.fn                             \* the value installed is what the design installs

TraceBody ==
    /\ IsEvent("Body")
    /\ LET t == Ev.t IN
       /\ t \in Threads
       /\ CanBody(st, t)
       /\ Ev.fn = st.fn                              \* the binding the body runs under
       /\ st' = DoBody(st, t, Ev.exc)

TraceBlocked == IsEvent("Blocked") /\ Ev.t \in Threads /\ IsBlocked(st, Ev.t) /\ UNCHANGED st

TraceQuiescent == IsEvent("Quiescent") /\ Quiescent(st) /\ Ev.fn = st.fn /\ UNCHANGED st

TraceInit == tid \in 1..Len(Traces) /\ l = 1 /\ st = S0 /\ sched = <<>>
TraceNext == (TraceProbe \/ TraceGet \/ TraceSet \/ TraceBody \/ TraceBlocked \/ TraceQuiescent) /\ InvOf(st')
TraceSpec == TraceInit /\ [][TraceNext]_tvars

TraceAccept ==
    /\ (l = Len(Traces[tid].ev) + 1) => PrintT(<<"ACCEPT", tid>>)
    /\ (IOEnv.MBV_PROGRESS = "1") => PrintT(<<"AT", tid, l>>)
=============================================================================
