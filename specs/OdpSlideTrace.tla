---------------------------- MODULE OdpSlideTrace ----------------------------
(* code -> spec binding of OdpSlide.tla: the OdpSlide the real _extract_slide builds from a draw:page element written
   from the frames (title, body_text, other_text, tables, numbered pictures, text_combined) is OdpSlideDefs!SlideOf of
   the frames (strict first; with the deviation of KF-C03-13 while that finding is open). *)
EXTENDS OdpSlideDefs, Json, IOUtils, TLCExt
Traces == JsonDeserialize(IOEnv.TRACE_FILE)
VARIABLES tid, l
tvars == <<tid, l>>
Ev == Traces[tid].ev[l]
IsEvent(x) == l <= Len(Traces[tid].ev) /\ Ev.a = x /\ l' = l + 1 /\ UNCHANGED tid
TraceSlide == IsEvent("Slide") /\ Ev.slide = SlideOf(Ev.frames, Ev.n0)
TraceInit == tid \in 1..Len(Traces) /\ l = 1
TraceNext == TraceSlide
TraceSpec == TraceInit /\ [][TraceNext]_tvars
TraceAccept ==
    /\ (l = Len(Traces[tid].ev) + 1) => PrintT(<<"ACCEPT", tid>>)
    /\ (IOEnv.MBV_PROGRESS = "1") => PrintT(<<"AT", tid, l>>)
=============================================================================
