-------------------------------- MODULE Mbox --------------------------------
(* C16, mailbox part -- "an mbox yields one result per message, in order, with boundaries only
   at separator lines".

   A mailbox is a sequence of LINES; only the class of a line matters:
     "Sep"       a From_ line in mbox form:  "From " addr-or-token SP asctime-date ending in a
                 4-digit year, e.g. "From MAILER-DAEMON Sat Oct  3 12:00:00 2026"
     "Esc"       an escaped body line ">From ..." (what a conforming mboxo/mboxrd writer makes of
                 a body line that starts with "From ")
     "FromLike"  a line that starts with "From " but is NOT in mbox form (no year at its end:
                 "From here on it gets harder.").  Writers that do not escape leave such lines.
     "Hdr"       "Name: value"          "Blank"  empty line          "Body"  any other text
   plus, for the whole file, the line terminator (LF / CRLF; irrelevant to every operator below,
   it is a concretisation dimension) and `fin`: whether the LAST line is newline-terminated.

   Declarative part (what a user relies on):   Messages(lines)
     a message starts after every Sep line and extends to the line before the next Sep line
     (or the end); trailing blank lines are not part of it; a Sep that is followed by no
     non-blank line introduces no message.  Lines before the first Sep belong to no message.

   Algorithmic part: mbox_email_extractor.py:_split_mbox_messages, step by step
     phase "find":   matches = MBOX_FROM_PATTERN.finditer(data)
                     rb"^From \S+.*\d{4}\r?\n" with re.MULTILINE is a LINE CLASSIFIER: a line
                     matches iff it starts with "From ", a non-space follows, it ends in four
                     digits and it is newline-terminated (features below).
     phase "slice":  for each match: data[match.end() : next.start() | len].rstrip(b"\r\n"),
                     kept iff non-empty.
   Theorem checked by TLC for ALL line-class sequences up to MaxLen (x fin):
       at pc = "done":  out = Messages(lines)                                   (Inv_SplitIsDecl)

   Deviations (sensitivity only; none is an open finding):
     "AnyFromLine"  the classifier accepts every line starting with "From " (what the stdlib
                    mailbox reader does; drop of the year test)  -> FromLike lines split messages.
     "NoAnchor"     the pattern lost its ^ anchor / MULTILINE: an ">From ... 2026" line matches.

   DON'T-CARE: whether an "Esc" line is un-escaped in the extracted body (mboxo vs mboxrd; the
   module docstring says it is not handled) -- lines are compared by identity (index), so both
   spellings are the same line.  EXCLUDED: a body line in exact separator form; a conforming
   writer (mailbox.mbox) cannot write one, every reader splits there.                        *)
EXTENDS Naturals, Sequences, FiniteSets, TLC

CONSTANTS MaxLen, Deviations

Classes == {"Sep", "Esc", "FromLike", "Hdr", "Blank", "Body"}

(* ---- line features seen by the regular expression ---- *)
\* from: starts with "From " at column 0;  gtfrom: starts with ">From ";  nonsp: a non-space
\* follows "From ";  year: the line's text ends in four digits
Feat(c) ==
    CASE c = "Sep"      -> [from |-> TRUE,  gtfrom |-> FALSE, nonsp |-> TRUE,  year |-> TRUE ]
      [] c = "FromLike" -> [from |-> TRUE,  gtfrom |-> FALSE, nonsp |-> TRUE,  year |-> FALSE]
      [] c = "Esc"      -> [from |-> FALSE, gtfrom |-> TRUE,  nonsp |-> TRUE,  year |-> TRUE ]
      [] OTHER          -> [from |-> FALSE, gtfrom |-> FALSE, nonsp |-> FALSE, year |-> FALSE]

\* does MBOX_FROM_PATTERN match on this line (term: the line is newline-terminated)
RegexMatches(c, term) ==
    LET f == Feat(c) IN
    /\ term
    /\ \/ f.from
       \/ ("NoAnchor" \in Deviations /\ f.gtfrom)
    /\ f.nonsp
    /\ (f.year \/ "AnyFromLine" \in Deviations)

(* ---- declarative part ---- *)
SepIdx(lines) == { i \in DOMAIN lines : lines[i] = "Sep" }

\* last index in lo..hi that is not a Blank line (0 if none)
LastNonBlank(lines, lo, hi) ==
    LET S == { i \in lo..hi : lines[i] # "Blank" } IN
    IF S = {} THEN 0 ELSE CHOOSE i \in S : \A j \in S : j <= i

NextSep(lines, b) ==
    LET S == { i \in SepIdx(lines) : i > b } IN
    IF S = {} THEN Len(lines) + 1 ELSE CHOOSE i \in S : \A j \in S : i <= j

\* the message introduced by the Sep line at index b: sequence of line indices (possibly empty)
MessageAt(lines, b) ==
    LET e == LastNonBlank(lines, b + 1, NextSep(lines, b) - 1) IN
    IF e = 0 THEN <<>> ELSE [ k \in 1..(e - b) |-> b + k ]

RECURSIVE MsgsFrom(_, _)
MsgsFrom(lines, b) ==      \* b: a Sep index or Len+1
    IF b > Len(lines) THEN <<>>
    ELSE LET m == MessageAt(lines, b)
             rest == MsgsFrom(lines, NextSep(lines, b)) IN
         IF m = <<>> THEN rest ELSE <<m>> \o rest

Messages(lines) == MsgsFrom(lines, NextSep(lines, 0))

(* ---- algorithmic part: _split_mbox_messages ---- *)
VARIABLES lines, fin, pc, i, matches, out
vars == <<lines, fin, pc, i, matches, out>>

Term(k) == k < Len(lines) \/ fin

LineSeqs == UNION { [1..n -> Classes] : n \in 0..MaxLen }

\* EXCLUDED (stated): a file whose final line is an unterminated From_ line (truncated right
\* after a separator; no writer leaves a From_ line without its newline).  The pattern needs the
\* newline, so that line would be kept as text of the previous message.
Init == /\ lines \in LineSeqs
        /\ fin \in BOOLEAN
        /\ ~(~fin /\ Len(lines) > 0 /\ lines[Len(lines)] = "Sep")
        /\ pc = "find" /\ i = 1 /\ matches = <<>> /\ out = <<>>

\* finditer: one step per line
Find == /\ pc = "find"
        /\ IF i > Len(lines)
           THEN /\ pc' = "slice" /\ i' = 1 /\ UNCHANGED matches
           ELSE /\ matches' = IF RegexMatches(lines[i], Term(i)) THEN Append(matches, i) ELSE matches
                /\ i' = i + 1 /\ UNCHANGED pc
        /\ UNCHANGED <<lines, fin, out>>

\* rstrip(b"\r\n") of data[lo..hi]: trailing Blank lines vanish (a blank line is only CR/LF
\* characters); the last kept line merely loses its terminator
Slice == /\ pc = "slice"
         /\ IF i > Len(matches)
            THEN /\ pc' = "done" /\ UNCHANGED <<i, out>>
            ELSE LET b  == matches[i]
                     hi == IF i + 1 <= Len(matches) THEN matches[i + 1] - 1 ELSE Len(lines)
                     e  == LastNonBlank(lines, b + 1, hi) IN
                 /\ out' = IF e = 0 THEN out ELSE Append(out, [ k \in 1..(e - b) |-> b + k ])
                 /\ i' = i + 1 /\ UNCHANGED pc
         /\ UNCHANGED <<lines, fin, matches>>

Next == Find \/ Slice
Spec == Init /\ [][Next]_vars
\* the inputs only (dumped for the spec -> code replay)
GenSpec == Init /\ [][UNCHANGED vars]_vars

Inv_SplitIsDecl == pc = "done" => out = Messages(lines)
\* consequences a user relies on, stated separately
Inv_BoundariesOnlyAtSep ==
    pc = "done" => \A k \in DOMAIN out : /\ out[k][1] - 1 \in SepIdx(lines)
                                         /\ \A j \in DOMAIN out[k] : lines[out[k][j]] # "Sep"
Inv_InOrderNoLoss ==
    pc = "done" => /\ \A k \in 1..(Len(out) - 1) : out[k][Len(out[k])] < out[k + 1][1]
                   /\ \A j \in DOMAIN lines :          \* every non-blank line after a Sep is in some message
                        (lines[j] \notin {"Sep", "Blank"} /\ \E b \in SepIdx(lines) : b < j)
                            => \E k \in DOMAIN out : \E x \in DOMAIN out[k] : out[k][x] = j
=============================================================================
