----------------------------- MODULE LimitsGen -----------------------------
(* Enumerates the scenario universe of C12 for the TLC theorem runs and for the spec -> code replay.
   Init chooses one scenario; the machine of Limits.tla runs it to "done".  The final states (pc = "done")
   are the replay cases: `scn` says what to build, `gov` names the as-built deviation whose domain contains
   the scenario ("" = none), `cls` (part (b)) is the specification's expectation for the cost.

   Part (a): read_file   max in {0, SmallFileLimits, 100 MiB} x size in {max-1, max, max+1}
                         (max = 0: sizes 0, 1, 100 MiB + 1: the check is disabled)
             sevenz_size size in {100 MiB - 1, 100 MiB, 100 MiB + 1}
             members     kind in {zip, tar, 7z} x lim in MemberLimits x all member sequences of length
                         1..MaxMembers over {lim-1, lim, lim+1, 5 bytes}; 7z: one solid folder, and (two
                         members) one folder per member is left to C10 (per-folder pack streams);
                         BigLim2: lim = 64 MiB configured, members around lim2 = 50 MiB.
             duplicate names: zip / tar / 7z, two entries of one name straddling the limit, both orders
             tar types: regular 5 bytes + regular lim+1 + one of {hard, sym} x {-> small, -> oversized,
                         -> missing}, fifo, chr, GNU sparse / pax at lim and lim+1; symlink first
   Part (b): Cases = construct x magnitude x position as listed in CostCases.                      *)
EXTENDS Limits

CONSTANTS SmallFileLimits,   \* e.g. {1, 4096}
          MemberLimits,      \* e.g. {4096, 10485760}
          MaxMembers,        \* 1 or 2
          BigLim2,           \* BOOLEAN: include the lim2 scenarios (50 MiB members)
          Parts              \* subset of {"a", "b"}

VARIABLES gov, cls
gvars == <<vars, gov, cls>>

Around(x) == {x - 1, x, x + 1}

\* every file is presented directly (via = 0), through a symbolic link (1) and through a link to a link (2)
Vias == {0, 1, 2}
NominalLinkSize == 40
ReadFileAll ==
    UNION { { [Scn("read_file") EXCEPT !.max = m, !.size = s, !.via = w, !.lsize = IF w = 0 THEN 0 ELSE NominalLinkSize] :
                s \in Around(m), w \in Vias } : m \in SmallFileLimits \cup {DefaultMaxFileSize} }
    \cup { [Scn("read_file") EXCEPT !.max = 0, !.size = s, !.via = w, !.lsize = IF w = 0 THEN 0 ELSE NominalLinkSize] :
                s \in {0, 1, DefaultMaxFileSize + 1}, w \in Vias }

SevenzScns == { [Scn("sevenz_size") EXCEPT !.size = s] : s \in Around(Max7zFileSize) }

MemberSizes(lim) == Around(lim) \cup {5}
SizeSeqs(lim) == UNION { [1..n -> MemberSizes(lim)] : n \in 1..MaxMembers }
MemberScns ==
    { [Scn("members") EXCEPT !.kind = kd, !.lim = lm, !.lim2 = MaxArchiveFileSize,
                             !.members = [i \in DOMAIN sq |-> Mem(sq[i], IF kd = "7z" THEN 1 ELSE i, i, "reg", 0)]] :
        kd \in {"zip", "tar", "7z"}, lm \in MemberLimits, sq \in UNION { SizeSeqs(l) : l \in MemberLimits } }
MemberScnsOK == { s \in MemberScns : \A i \in DOMAIN s.members : s.members[i].size \in MemberSizes(s.lim) }
Lim2Scns ==
    IF BigLim2 THEN { [Scn("members") EXCEPT !.kind = kd, !.lim = 64 * MiB, !.lim2 = MaxArchiveFileSize,
                                             !.members = <<Mem(sz, 1, 1, "reg", 0)>>] :
                        kd \in {"zip", "tar"}, sz \in Around(MaxArchiveFileSize) }
    ELSE {}

\* ---- duplicate member names (all three containers allow them): two entries of ONE name whose sizes straddle
\* the limit, both orders, plus two small ones
DupPairs(lim) == { <<5, lim + 1>>, <<lim + 1, 5>>, <<lim, lim + 1>>, <<lim + 1, lim>>, <<5, 6>>, <<lim + 1, lim + 1>> }
DupScns ==
    { [Scn("members") EXCEPT !.kind = kd, !.lim = lm, !.lim2 = MaxArchiveFileSize,
                             !.members = <<Mem(7, IF kd = "7z" THEN 1 ELSE 1, 1, "reg", 0),
                                           Mem(pr[1], IF kd = "7z" THEN 1 ELSE 2, 2, "reg", 0),
                                           Mem(pr[2], IF kd = "7z" THEN 1 ELSE 3, 2, "reg", 0)>>] :
        kd \in {"zip", "tar", "7z"}, lm \in MemberLimits, pr \in UNION { DupPairs(l) : l \in MemberLimits } }
DupScnsOK == { s \in DupScns : \A i \in DOMAIN s.members : s.members[i].size \in MemberSizes(s.lim) \cup {6, 7} }

\* ---- tar entries of every type next to a small (5 bytes) and an oversized (lim + 1) regular member:
\* hard / symbolic links to the small one, to the oversized one, to nothing; fifo; character device;
\* GNU sparse and pax-extended data entries at the limit and above it.  Symbolic links also in front.
TarSpecials(lim) ==
    { Mem(0, 3, 3, "hard", 1), Mem(0, 3, 3, "hard", 2), Mem(0, 3, 3, "hard", 0),
      Mem(0, 3, 3, "sym", 1),  Mem(0, 3, 3, "sym", 2),  Mem(0, 3, 3, "sym", 0),
      Mem(0, 3, 3, "fifo", 0), Mem(0, 3, 3, "chr", 0),
      Mem(lim, 3, 3, "sparse", 0), Mem(lim + 1, 3, 3, "sparse", 0),
      Mem(lim, 3, 3, "pax", 0), Mem(lim + 1, 3, 3, "pax", 0) }
TarTypeScns ==
    { [Scn("members") EXCEPT !.kind = "tar", !.lim = lm, !.lim2 = MaxArchiveFileSize,
                             !.members = <<Mem(5, 1, 1, "reg", 0), Mem(lm + 1, 2, 2, "reg", 0), x>>] :
        lm \in MemberLimits, x \in UNION { TarSpecials(l) : l \in MemberLimits } }
    \cup
    { [Scn("members") EXCEPT !.kind = "tar", !.lim = lm, !.lim2 = MaxArchiveFileSize,
                             !.members = <<Mem(0, 1, 1, "sym", t), Mem(5, 2, 2, "reg", 0), Mem(lm + 1, 3, 3, "reg", 0)>>] :
        lm \in MemberLimits, t \in {2, 3} }
TarTypeScnsOK == { s \in TarTypeScns : \A i \in DOMAIN s.members :
                      s.members[i].type \in {"sparse", "pax"} => s.members[i].size \in {s.lim, s.lim + 1} }

\* ---- part (b): the enumerated amplifier cases: <<construct, positions, magnitudes>>
P2 == 2147483647
CostFamilies == {
    <<"ods_cell_repeat",       {"first", "last"},  {100, 10000, 100000000}>>,
    <<"ods_cell_repeat_empty", {"first", "last"},  {100, 10000, 1000000, 100000000, P2}>>,
    <<"ods_row_repeat",        {"first", "last"},  {100, 10000, 100000000}>>,
    <<"ods_row_repeat_empty",  {"first", "last"},  {100, 10000, 1000000, 100000000, P2}>>,
    <<"ods_cell_x_row",        {"first"},          {100, 10000}>>,
    <<"odf_space_count",       {"odt", "ods"},     {100, 10000, 1000000, 100000000, P2}>>,
    <<"xlsx_dimension",        {"declared", "farrow", "farcol", "farcell"}, {100, 10000, 1000000}>>,
    <<"xml_entity",            {"laughs@ods", "laughs@odt", "laughs@docx", "laughs@xlsx", "laughs@pptx", "laughs@epub",
                                "quadratic@ods", "quadratic@odt", "quadratic@docx", "quadratic@xlsx", "quadratic@pptx",
                                "quadratic@epub"},                      {10000, 1000000}>>,
    <<"xml_entity",            {"external@ods", "external@odt", "external@docx", "external@xlsx", "external@pptx",
                                "external@epub", "parameter@ods", "parameter@odt", "parameter@docx", "parameter@xlsx",
                                "parameter@pptx", "parameter@epub"},    {100}>>,
    <<"nesting",               {"html", "html_unclosed", "rtf", "odt", "docx", "ods", "epub"}, {100, 1000, 10000}>>,
    <<"nesting",               {"docx_tbl"},       {100, 1000}>>,
    <<"ole_vector_count",      {"doc", "ppt", "xls"}, {100, 10000, 100000000, P2}>>,
    <<"sevenz_ratio",          {"honest", "lying"}, {67108864, 134217728}>>,
    <<"sevenz_ratio",          {"admitted"},       {1048576, 8388608}>>,
    <<"targz_ratio",           {"skipped"},        {11534336, 67108864}>>,
    <<"targz_ratio",           {"admitted"},       {1048576, 8388608}>>,
    <<"zip_ratio",             {"skipped"},        {11534336, 67108864}>>,
    <<"zip_ratio",             {"admitted"},       {1048576, 8388608}>>,
    <<"mbox_from",             {"bare", "full"},   {100, 1000}>>,
    <<"pdf_loop",              {"kids_self", "count_only", "prev_loop", "ref_chain"}, {1000000}>> }

\* nominal uncompressed size (KiB) of the file the concretiser builds: only used for the theorem runs and for
\* selecting cases; trace validation uses the real size
NominalKiB(c, mag, pos) ==
    CASE c = "nesting" -> 4 + (mag * 12) \div 1024
      [] c = "ole_vector_count" -> 36
      [] c \in {"sevenz_ratio", "targz_ratio", "zip_ratio"} -> IF pos = "admitted" THEN mag \div 1024 ELSE 4
      [] c = "mbox_from" -> 1 + (mag * 34) \div 1024
      [] c = "pdf_loop" -> 1
      [] OTHER -> 4

CostScns == UNION { { [Scn("cost") EXCEPT !.c = fam[1], !.pos = p, !.mag = m, !.skib = NominalKiB(fam[1], m, p)] :
                        p \in fam[2], m \in fam[3] } : fam \in CostFamilies }

GovernsScn(s) ==
    IF s.k = "cost" THEN Governs(s.c, s.mag, s.pos)
    ELSE IF s.k = "members" /\ s.kind = "7z" /\ \E i \in DOMAIN s.members : MustSkip(s.members[i].size, s.lim)
         THEN "ExtractAllIgnoresFilter" ELSE ""

Scenarios == (IF "a" \in Parts THEN ReadFileAll \cup SevenzScns \cup MemberScnsOK \cup Lim2Scns \cup DupScnsOK \cup TarTypeScnsOK
              ELSE {})
             \cup (IF "b" \in Parts THEN CostScns ELSE {})

GenInit == \E s \in Scenarios : InitWith(s) /\ gov = GovernsScn(s) /\ cls = ""
GenNext == Next /\ UNCHANGED gov /\ cls' = (IF scn.k = "cost" /\ pc' = "done" THEN Classify(work'[1], work'[2], scn.skib) ELSE "")
GenSpec == GenInit /\ [][GenNext]_gvars

=============================================================================
