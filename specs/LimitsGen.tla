----------------------------- MODULE LimitsGen -----------------------------
(* Enumerates the scenario universe of C12 for the TLC theorem runs and for the spec -> code replay.
   Init chooses one scenario; the machine of Limits.tla runs it to "done".  The final states (pc = "done")
   are the replay cases: `scn` says what to build, `gov` names the as-built deviation whose domain contains
   the scenario ("" = none), `cls` (part (b)) is the specification's expectation for the cost.

   Part (a): read_file   max in {0, SmallFileLimits, 100 MiB} x size in {max-1, max, max+1}
                         (max = 0: sizes 0, 1, 100 MiB + 1: the check is disabled)
             sevenz_size size in {100 MiB - 1, 100 MiB, 100 MiB + 1}
             members     kind in {zip, tar, 7z} x lim in MemberLimits x all member sequences of length
                         1..MaxMembers over {lim-1, lim, lim+1, 5 bytes}; 7z: one solid folder, and (two
                         members) one folder per member is left to C10 (per-folder pack streams);
                         BigLim2: lim = 64 MiB configured, members around lim2 = 50 MiB.
             duplicate names: zip / tar / 7z, two entries of one name straddling the limit, both orders
             tar types: regular 5 bytes + regular lim+1 + one of {hard, sym} x {-> small, -> oversized,
                         -> missing}, fifo, chr, GNU sparse / pax at lim and lim+1; symlink first
             7z layouts: solid / non-solid, an empty file / directory / anti item before, between, after
             configuration histories: see Histories (the limit in force is what the calls mean)
   Part (b): Cases = construct x magnitude x position as listed in CostCases.                      *)
EXTENDS Limits

CONSTANTS SmallFileLimits,   \* e.g. {1, 4096}
          MemberLimits,      \* e.g. {4096, 10485760}
          MaxMembers,        \* 1 or 2
          BigLim2,           \* BOOLEAN: include the lim2 scenarios (50 MiB members)
          Parts              \* subset of {"a", "b"}

VARIABLES gov, cls
gvars == <<vars, gov, cls>>

Around(x) == {x - 1, x, x + 1}

\* every file is presented directly (via = 0), through a symbolic link (1) and through a link to a link (2)
Vias == {0, 1, 2}
NominalLinkSize == 40
ReadFileAll ==
    UNION { { [Scn("read_file") EXCEPT !.max = m, !.size = s, !.via = w, !.lsize = IF w = 0 THEN 0 ELSE NominalLinkSize] :
                s \in Around(m), w \in Vias } : m \in SmallFileLimits \cup {DefaultMaxFileSize} }
    \cup { [Scn("read_file") EXCEPT !.max = 0, !.size = s, !.via = w, !.lsize = IF w = 0 THEN 0 ELSE NominalLinkSize] :
                s \in {0, 1, DefaultMaxFileSize + 1}, w \in Vias }

SevenzScns == { [Scn("sevenz_size") EXCEPT !.size = s] : s \in Around(Max7zFileSize) }

MemberSizes(lim) == Around(lim) \cup {5}
SizeSeqs(lim) == UNION { [1..n -> MemberSizes(lim)] : n \in 1..MaxMembers }
MemberScns ==
    { [Scn("members") EXCEPT !.kind = kd, !.lim = lm, !.lim2 = MaxArchiveFileSize, !.calls = CallsFor(lm),
                             !.members = [i \in DOMAIN sq |-> Mem(sq[i], IF kd = "7z" THEN 1 ELSE i, i, "reg", 0)]] :
        kd \in {"zip", "tar", "7z"}, lm \in MemberLimits, sq \in UNION { SizeSeqs(l) : l \in MemberLimits } }
MemberScnsOK == { s \in MemberScns : \A i \in DOMAIN s.members : s.members[i].size \in MemberSizes(s.lim) }
Lim2Scns ==
    IF BigLim2 THEN { [Scn("members") EXCEPT !.kind = kd, !.lim = 64 * MiB, !.lim2 = MaxArchiveFileSize, !.calls = CallsFor(64 * MiB),
                                             !.members = <<Mem(sz, 1, 1, "reg", 0)>>] :
                        kd \in {"zip", "tar"}, sz \in Around(MaxArchiveFileSize) }
    ELSE {}

\* ---- duplicate member names (all three containers allow them): two entries of ONE name whose sizes straddle
\* the limit, both orders, plus two small ones
DupPairs(lim) == { <<5, lim + 1>>, <<lim + 1, 5>>, <<lim, lim + 1>>, <<lim + 1, lim>>, <<5, 6>>, <<lim + 1, lim + 1>> }
DupScns ==
    { [Scn("members") EXCEPT !.kind = kd, !.lim = lm, !.lim2 = MaxArchiveFileSize, !.calls = CallsFor(lm),
                             !.members = <<Mem(7, IF kd = "7z" THEN 1 ELSE 1, 1, "reg", 0),
                                           Mem(pr[1], IF kd = "7z" THEN 1 ELSE 2, 2, "reg", 0),
                                           Mem(pr[2], IF kd = "7z" THEN 1 ELSE 3, 2, "reg", 0)>>] :
        kd \in {"zip", "tar", "7z"}, lm \in MemberLimits, pr \in UNION { DupPairs(l) : l \in MemberLimits } }
DupScnsOK == { s \in DupScns : \A i \in DOMAIN s.members : s.members[i].size \in MemberSizes(s.lim) \cup {6, 7} }

\* ---- tar entries of every type next to a small (5 bytes) and an oversized (lim + 1) regular member:
\* hard / symbolic links to the small one, to the oversized one, to nothing; fifo; character device;
\* GNU sparse and pax-extended data entries at the limit and above it.  Symbolic links also in front.
TarSpecials(lim) ==
    { Mem(0, 3, 3, "hard", 1), Mem(0, 3, 3, "hard", 2), Mem(0, 3, 3, "hard", 0),
      Mem(0, 3, 3, "sym", 1),  Mem(0, 3, 3, "sym", 2),  Mem(0, 3, 3, "sym", 0),
      Mem(0, 3, 3, "fifo", 0), Mem(0, 3, 3, "chr", 0),
      Mem(lim, 3, 3, "sparse", 0), Mem(lim + 1, 3, 3, "sparse", 0),
      Mem(lim, 3, 3, "pax", 0), Mem(lim + 1, 3, 3, "pax", 0) }
TarTypeScns ==
    { [Scn("members") EXCEPT !.kind = "tar", !.lim = lm, !.lim2 = MaxArchiveFileSize, !.calls = CallsFor(lm),
                             !.members = <<Mem(5, 1, 1, "reg", 0), Mem(lm + 1, 2, 2, "reg", 0), x>>] :
        lm \in MemberLimits, x \in UNION { TarSpecials(l) : l \in MemberLimits } }
    \cup
    { [Scn("members") EXCEPT !.kind = "tar", !.lim = lm, !.lim2 = MaxArchiveFileSize, !.calls = CallsFor(lm),
                             !.members = <<Mem(0, 1, 1, "sym", t), Mem(5, 2, 2, "reg", 0), Mem(lm + 1, 3, 3, "reg", 0)>>] :
        lm \in MemberLimits, t \in {2, 3} }
TarTypeScnsOK == { s \in TarTypeScns : \A i \in DOMAIN s.members :
                      s.members[i].type \in {"sparse", "pax"} => s.members[i].size \in {s.lim, s.lim + 1} }

\* ---- 7z layouts: two data members straddling the limit, solid (one folder) and non-solid (a folder each), with an
\* entry WITHOUT data stream (empty file, directory, anti item) before, between or after them -- and none at all
SzPairs(lim) == { <<5, lim + 1>>, <<lim + 1, 5>>, <<lim, lim + 1>> }
SzSpecial(tp, i) == Mem(0, 0, i, tp, 0)
SzLayout(pr, solid, tp, at) ==       \* at = 0: no special entry; 1 / 2 / 3: before / between / after
    LET f2 == IF solid THEN 1 ELSE 2 IN
    CASE at = 0 -> <<Mem(pr[1], 1, 1, "reg", 0), Mem(pr[2], f2, 2, "reg", 0)>>
      [] at = 1 -> <<SzSpecial(tp, 1), Mem(pr[1], 1, 2, "reg", 0), Mem(pr[2], f2, 3, "reg", 0)>>
      [] at = 2 -> <<Mem(pr[1], 1, 1, "reg", 0), SzSpecial(tp, 2), Mem(pr[2], f2, 3, "reg", 0)>>
      [] at = 3 -> <<Mem(pr[1], 1, 1, "reg", 0), Mem(pr[2], f2, 2, "reg", 0), SzSpecial(tp, 3)>>
SevenzLayoutScns ==
    { [Scn("members") EXCEPT !.kind = "7z", !.lim = lm, !.lim2 = MaxArchiveFileSize, !.calls = CallsFor(lm),
                             !.members = SzLayout(pr, solid, tp, at)] :
        lm \in MemberLimits, pr \in UNION { SzPairs(l) : l \in MemberLimits }, solid \in BOOLEAN,
        tp \in {"empty", "dir", "anti"}, at \in 0..3 }
SevenzLayoutOK == { s \in SevenzLayoutScns :
                      /\ \A i \in DOMAIN s.members : s.members[i].type = "reg" => s.members[i].size \in MemberSizes(s.lim)
                      \* the default limit (10 MiB members) only with empty files; no special entry: counted once
                      /\ \A i \in DOMAIN s.members : (s.lim = MaxMemorySize /\ s.members[i].type # "reg") => s.members[i].type = "empty" }

\* ---- histories of configuration calls before the extraction: each option alone, a lower limit configured earlier
\* and then an unrelated option, two options in one call, pairs, repetitions, a call that mentions nothing;
\* the archive holds a member of exactly the limit the history means and one of a byte more
OtherOptions == {"buffer_size", "max_workers", "enable_parallel", "enable_caching", "enable_streaming"}
Histories ==
    { <<Call(0, o)>> : o \in OtherOptions }
    \cup { <<Call(4096, ""), Call(0, o)>> : o \in OtherOptions }
    \cup { <<Call(4096, o)>> : o \in {"enable_parallel", "buffer_size"} }
    \cup { <<Call(0, "enable_parallel"), Call(0, "buffer_size")>>, <<Call(0, "enable_parallel"), Call(0, "enable_parallel")>>,
           <<Call(4096, ""), Call(0, "")>>, <<Call(4096, ""), Call(8192, "")>>, <<Call(8192, ""), Call(4096, "")>>,
           <<Call(0, "")>>, <<Call(4096, ""), Call(0, "enable_caching"), Call(0, "max_workers")>> }
ConfigScns ==
    { [Scn("members") EXCEPT !.kind = kd, !.lim = LimitAfter(h), !.lim2 = MaxArchiveFileSize, !.calls = h,
                             !.members = <<Mem(LimitAfter(h), 1, 1, "reg", 0),
                                           Mem(LimitAfter(h) + 1, IF kd = "7z" THEN 1 ELSE 2, 2, "reg", 0)>>] :
        kd \in {"zip", "tar", "7z"}, h \in Histories }
ConfigScnsOK == { s \in ConfigScns : s.kind = "zip" \/ (Len(s.calls) <= 2 /\ s.calls[Len(s.calls)].opt = "enable_parallel") }

\* ---- part (b): the enumerated amplifier cases: <<construct, positions, magnitudes>>
P2 == 2147483647
CostFamilies == {
    <<"ods_cell_repeat",       {"first", "last"},  {100, 10000, 100000000}>>,
    <<"ods_cell_repeat_empty", {"first", "last"},  {100, 10000, 1000000, 100000000, P2}>>,
    <<"ods_row_repeat",        {"first", "last"},  {100, 10000, 100000000}>>,
    <<"ods_row_repeat_empty",  {"first", "last"},  {100, 10000, 1000000, 100000000, P2}>>,
    <<"ods_cell_x_row",        {"first"},          {100, 10000}>>,
    <<"odf_space_count",       {"odt", "ods"},     {100, 10000, 1000000, 100000000, P2}>>,
    <<"xlsx_dimension",        {"declared", "farrow", "farcol", "farcell"}, {100, 10000, 1000000}>>,
    <<"xml_entity",            {"laughs@ods", "laughs@odt", "laughs@docx", "laughs@xlsx", "laughs@pptx", "laughs@epub",
                                "quadratic@ods", "quadratic@odt", "quadratic@docx", "quadratic@xlsx", "quadratic@pptx",
                                "quadratic@epub"},                      {10000, 1000000}>>,
    <<"xml_entity",            {"external@ods", "external@odt", "external@docx", "external@xlsx", "external@pptx",
                                "external@epub", "parameter@ods", "parameter@odt", "parameter@docx", "parameter@xlsx",
                                "parameter@pptx", "parameter@epub"},    {100}>>,
    <<"nesting",               {"html", "html_unclosed", "rtf", "odt", "docx", "ods", "epub"}, {100, 1000, 10000}>>,
    <<"nesting",               {"docx_tbl"},       {100, 1000}>>,
    <<"ole_vector_count",      {"doc", "ppt", "xls"}, {100, 10000, 100000000, P2}>>,
    <<"sevenz_ratio",          {"honest", "lying"}, {67108864, 134217728}>>,
    <<"sevenz_ratio",          {"admitted"},       {1048576, 8388608}>>,
    \* declared vs actual sizes for every coder of the 7z reader (Copy, LZMA, LZMA2, BCJ chains)
    <<"sevenz_declared",       {"copy.zero.na", "copy.smaller.na", "copy.larger.na"}, {32768}>>,
    <<"sevenz_declared",       (DeclZero \cup DeclSmaller \cup DeclLarger \cup DeclFirstBig)
                               \ {"copy.zero.na", "copy.smaller.na", "copy.larger.na"}, {67108864}>>,
    <<"targz_ratio",           {"skipped"},        {11534336, 67108864}>>,
    <<"targz_ratio",           {"admitted"},       {1048576, 8388608}>>,
    <<"zip_ratio",             {"skipped"},        {11534336, 67108864}>>,
    <<"zip_ratio",             {"admitted"},       {1048576, 8388608}>>,
    <<"mbox_from",             {"bare", "full"},   {100, 1000}>>,
    \* typed-but-empty ODS cells / rows (value-type string, no text) repeated: they are EMPTY, the caps apply
    \* ("covered": a table:covered-table-cell -- the part of a merge hidden under its left neighbour -- repeated)
    <<"ods_cell_repeat_typed_empty", {"string_p.first", "string_p.last", "string_nop.first", "string_nop.last", "string_attr.first", "string_attr.last", "string_span.first", "string_span.last", "covered.first", "covered.last"},
                               {100, 10000, 1000000, 100000000, P2}>>,
    <<"ods_row_repeat_typed_empty", {"string_p.first", "string_p.last", "string_nop.first", "string_nop.last", "string_attr.first", "string_attr.last", "string_span.first", "string_span.last", "covered.first", "covered.last"},
                               {100, 10000, 100000000}>>,
    \* many / nested bitmap headers and PNG signatures in a Word binary stream
    <<"doc_dib_headers",       {"nested", "chain", "overrun", "disjoint"}, {10, 1000, 4000}>>,
    <<"doc_png_signatures",    {"nested", "bare", "disjoint"}, {10, 1000, 4000}>>,
    \* one very long "From " line: <shape>.<newline-terminated or not>.<last line of a mailbox / the only line>
    <<"mbox_longline", {
        "years.nl.last", "years.nl.only", "years.eof.last", "years.eof.only", "digits.nl.last",
        "digits.nl.only", "digits.eof.last", "digits.eof.only", "spaces.nl.last", "spaces.nl.only",
        "spaces.eof.last", "spaces.eof.only", "letters.nl.last", "letters.nl.only", "letters.eof.last",
        "letters.eof.only", "nonspace.nl.last", "nonspace.nl.only", "nonspace.eof.last", "nonspace.eof.only",
        "yearsnosp.nl.last", "yearsnosp.nl.only", "yearsnosp.eof.last", "yearsnosp.eof.only", "froms.nl.last",
        "froms.nl.only", "froms.eof.last", "froms.eof.only" }, {1000, 10000, 100000}>>,
    \* hostile picture headers (first length field 0 / 1 / maximum / 2000 minimal segments) inside documents
    <<"image_header", {
        "jpeg_zero@rtf", "jpeg_tiny@rtf", "jpeg_huge@rtf", "jpeg_many@rtf", "png_zero@rtf", "png_tiny@rtf",
        "png_huge@rtf", "png_many@rtf", "jpeg_zero@docx", "jpeg_tiny@docx", "jpeg_huge@docx", "jpeg_many@docx",
        "png_zero@docx", "png_tiny@docx", "png_huge@docx", "png_many@docx", "gif_zero@docx", "gif_tiny@docx",
        "gif_huge@docx", "gif_many@docx", "bmp_zero@docx", "bmp_tiny@docx", "bmp_huge@docx", "bmp_many@docx",
        "jpeg_zero@pptx", "jpeg_tiny@pptx", "jpeg_huge@pptx", "jpeg_many@pptx", "png_zero@pptx", "png_tiny@pptx",
        "png_huge@pptx", "png_many@pptx", "gif_zero@pptx", "gif_tiny@pptx", "gif_huge@pptx", "gif_many@pptx",
        "bmp_zero@pptx", "bmp_tiny@pptx", "bmp_huge@pptx", "bmp_many@pptx", "jpeg_zero@xlsx", "jpeg_tiny@xlsx",
        "jpeg_huge@xlsx", "jpeg_many@xlsx", "png_zero@xlsx", "png_tiny@xlsx", "png_huge@xlsx", "png_many@xlsx",
        "gif_zero@xlsx", "gif_tiny@xlsx", "gif_huge@xlsx", "gif_many@xlsx", "bmp_zero@xlsx", "bmp_tiny@xlsx",
        "bmp_huge@xlsx", "bmp_many@xlsx", "jpeg_zero@odt", "jpeg_tiny@odt", "jpeg_huge@odt", "jpeg_many@odt",
        "png_zero@odt", "png_tiny@odt", "png_huge@odt", "png_many@odt", "gif_zero@odt", "gif_tiny@odt",
        "gif_huge@odt", "gif_many@odt", "bmp_zero@odt", "bmp_tiny@odt", "bmp_huge@odt", "bmp_many@odt",
        "jpeg_zero@epub", "jpeg_tiny@epub", "jpeg_huge@epub", "jpeg_many@epub", "png_zero@epub", "png_tiny@epub",
        "png_huge@epub", "png_many@epub", "gif_zero@epub", "gif_tiny@epub", "gif_huge@epub", "gif_many@epub",
        "bmp_zero@epub", "bmp_tiny@epub", "bmp_huge@epub", "bmp_many@epub", "jpeg_zero@ppt", "jpeg_tiny@ppt",
        "jpeg_huge@ppt", "jpeg_zero@xls", "jpeg_tiny@xls", "jpeg_huge@xls" }, {1}>>,
    <<"pdf_loop",              {"kids_self", "count_only", "prev_loop", "ref_chain"}, {1000000}>> }

\* nominal uncompressed size (KiB) of the file the concretiser builds: only used for the theorem runs and for
\* selecting cases; trace validation uses the real size
NominalKiB(c, mag, pos) ==
    CASE c = "nesting" -> 4 + (mag * 12) \div 1024
      [] c = "ole_vector_count" -> 36
      [] c \in {"sevenz_ratio", "targz_ratio", "zip_ratio"} -> IF pos = "admitted" THEN mag \div 1024 ELSE 4
      [] c = "mbox_from" -> 1 + (mag * 34) \div 1024
      [] c = "pdf_loop" -> 1
      [] c = "image_header" -> 2
      [] c \in {"doc_dib_headers", "doc_png_signatures"} -> 140 + (mag * 40) \div 1024
      [] c = "mbox_longline" -> 1 + mag \div 1024
      [] c = "sevenz_declared" -> IF mag = 32768 THEN 33 ELSE 10
      [] OTHER -> 4

CostScns == UNION { { [Scn("cost") EXCEPT !.c = fam[1], !.pos = p, !.mag = m, !.skib = NominalKiB(fam[1], m, p)] :
                        p \in fam[2], m \in fam[3] } : fam \in CostFamilies }

GovernsScn(s) ==
    IF s.k = "cost" THEN Governs(s.c, s.mag, s.pos)
    ELSE IF s.k = "members" /\ s.kind = "7z" /\ \E i \in DOMAIN s.members : MustSkip(s.members[i].size, s.lim)
         THEN "ExtractAllIgnoresFilter" ELSE ""

Scenarios == (IF "a" \in Parts THEN ReadFileAll \cup SevenzScns \cup MemberScnsOK \cup Lim2Scns \cup DupScnsOK \cup TarTypeScnsOK
                                \cup SevenzLayoutOK \cup ConfigScnsOK
              ELSE {})
             \cup (IF "b" \in Parts THEN CostScns ELSE {})

GenInit == \E s \in Scenarios : InitWith(s) /\ gov = GovernsScn(s) /\ cls = ""
GenNext == Next /\ UNCHANGED gov /\ cls' = (IF scn.k = "cost" /\ pc' = "done" THEN Classify(work'[1], work'[2], scn.skib) ELSE "")
GenSpec == GenInit /\ [][GenNext]_gvars

=============================================================================
