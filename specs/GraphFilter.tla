---------------------------- MODULE GraphFilter ----------------------------
(* C18, filter part -- FileFilter.matches (sharepoint_io/client.py:FileFilter.matches,
   _parse_iso_datetime) as a pure, three-valued predicate.

   Text is carried as sequences of Unicode code points (Python: [ord(c) for c in s]).
     file   = [name |-> codes, pp |-> <<codes, ...>> (parent folder names, outermost first),
               cr |-> date, mo |-> date]
     date   = [t |-> "ok" | "missing" | "garbage", v |-> seconds on an integer time line]
     bound  = [set |-> BOOLEAN, v |-> seconds]
     filter = [ca, cb, ma, mb : bound, exts |-> <<codes,...>>, pats |-> <<codes,...>>]

   The property (properties.jsonl C18): date bounds are inclusive-after and exclusive-before,
   extension match is case-insensitive, patterns apply to the full path; a file is returned
   iff it satisfies every criterion that is set.

   DON'T-CAREs (documentation silent; the verdict is "dontcare", the observation need only be
   a boolean):
     * a date bound is set and the file's date is missing or unparsable;
     * an extension given without the leading dot ("Extensions should include the leading dot"),
       and a file whose whole name equals the extension (".pdf");
     * glob details beyond "applies to the full path": whether "*" and "?" match "/" and
       whether literals compare case-sensitively (fnmatch is platform dependent); a pattern
       is MUST / MUST-NOT only when all four readings agree.  Patterns use "*", "?" and
       literals only ("[" and "**" are not generated).
     * sub-second parts of timestamps (the time line is whole seconds).                      *)
EXTENDS Integers, Sequences, FiniteSets

Star  == 42
QMark == 63
Slash == 47
Dot   == 46

Range(s) == { s[i] : i \in DOMAIN s }
Fold(c) == IF c >= 65 /\ c <= 90 THEN c + 32 ELSE c         \* ASCII case folding
FoldSeq(s) == [ i \in DOMAIN s |-> Fold(s[i]) ]

RECURSIVE JoinPath(_, _)
JoinPath(pp, name) ==                                        \* "a/b" + "/" + name
    IF Len(pp) = 0 THEN name ELSE Head(pp) \o <<Slash>> \o JoinPath(Tail(pp), name)

FullPath(file) == JoinPath(file.pp, file.name)

(* ---- three-valued criteria: "T" | "F" | "X" (don't care) ---- *)
DateC(a, b, d) ==
    IF ~a.set /\ ~b.set THEN "T"
    ELSE IF d.t # "ok" THEN "X"
    ELSE IF (a.set => d.v >= a.v) /\ (b.set => d.v < b.v) THEN "T" ELSE "F"

EndsWithFold(name, e) ==
    /\ Len(e) <= Len(name)
    /\ FoldSeq(SubSeq(name, Len(name) - Len(e) + 1, Len(name))) = FoldSeq(e)

Dotted(e) == Len(e) >= 2 /\ e[1] = Dot
ExtC(exts, name) ==
    IF Len(exts) = 0 THEN "T"
    ELSE LET E == Range(exts)
             hitD == \E e \in E : Dotted(e) /\ EndsWithFold(name, e) /\ Len(name) > Len(e)
             odd  == (\E e \in E : ~Dotted(e)) \/ (\E e \in E : Dotted(e) /\ FoldSeq(name) = FoldSeq(e))
         IN IF hitD THEN "T" ELSE IF odd THEN "X" ELSE "F"

RECURSIVE Glob(_, _, _, _, _, _)
Glob(pat, s, i, j, cross, fold) ==                           \* does pat[i..] match s[j..] ?
    IF i > Len(pat) THEN j > Len(s)
    ELSE IF pat[i] = Star THEN
           \/ Glob(pat, s, i + 1, j, cross, fold)
           \/ (j <= Len(s) /\ (cross \/ s[j] # Slash) /\ Glob(pat, s, i, j + 1, cross, fold))
    ELSE /\ j <= Len(s)
         /\ IF pat[i] = QMark THEN (cross \/ s[j] # Slash)
            ELSE IF fold THEN Fold(pat[i]) = Fold(s[j]) ELSE pat[i] = s[j]
         /\ Glob(pat, s, i + 1, j + 1, cross, fold)

PatC(pats, full) ==
    IF Len(pats) = 0 THEN "T"
    ELSE LET readings == { (\E p \in Range(pats) : Glob(p, full, 1, 1, c, f)) : c \in BOOLEAN, f \in BOOLEAN }
         IN IF readings = {TRUE} THEN "T" ELSE IF readings = {FALSE} THEN "F" ELSE "X"

Criteria(F, file) == << DateC(F.ca, F.cb, file.cr), DateC(F.ma, F.mb, file.mo),
                        ExtC(F.exts, file.name), PatC(F.pats, FullPath(file)) >>

\* Kleene conjunction: one definite "F" decides; otherwise any "X" leaves it open
Verdict(F, file) ==
    LET c == Range(Criteria(F, file)) IN
    IF "F" \in c THEN "mustnot" ELSE IF "X" \in c THEN "dontcare" ELSE "must"

\* obs: "T" / "F" (what matches() returned); anything else (an exception) is never acceptable
ObsConforms(F, file, obs) ==
    LET v == Verdict(F, file) IN
    /\ obs \in {"T", "F"}
    /\ (v = "must" => obs = "T")
    /\ (v = "mustnot" => obs = "F")

NoBound == [set |-> FALSE, v |-> 0]
NoFilter == [ca |-> NoBound, cb |-> NoBound, ma |-> NoBound, mb |-> NoBound, exts |-> <<>>, pats |-> <<>>]
=============================================================================
