---------------------------- MODULE SurfaceTrace ----------------------------
(* code -> spec for C01.  A trace is the exception flow of ONE real execution (a crash-point
   injection run or a fuzzed execution), recorded with sys.monitoring on the layer functions only:

     Enter(t, k)            a layer function starts (PY_START)
     Raise(d, st, c)        an exception of class c arises in frame d at stage st (st computed from the
                            function's AST: position of the line relative to the wrapper try)
     Wrap(d, c)             the wrapper handler of frame d raises a new exception of class c
     Absorb(d)              frame d caught the exception in flight and went on
     Unwind(d, c, pst)      the exception leaves frame d (PY_UNWIND) and arrives in the caller at stage pst
     Yield                  a result crosses the outermost generator frame (PY_YIELD)
     Return(d)              frame d returns (PY_RETURN)
     Outcome(esc, n)        what the consumer of the API saw: escaped class | "Done", number of results
     CliOut(out, diag, exit) stdout class (empty | result | partial | polluted = something other than cli.py wrote
                            to stdout), number of lines on stderr, exit status
     Helper(n)              n helper functions of the library (the image-dimension sniffers) were called directly on
                            hostile bytes and came back (returned or raised an Exception, which the extractor above
                            them wraps): nothing is required of a helper except that it comes back

   Every event is bound to the CORE operator of Surface with the logged arguments; the invariants
   are conjoined primed, so a step that lets a non-family exception through an API boundary, lets a
   member failure out of the member layer, wraps into the wrong class or produces a wrong CLI outcome
   is NOT ENABLED and the trace is rejected at that event.
   There is no action for "Timeout", "WorkerDied" or "LoopOverrun": an execution that had to be killed
   (CPU / wall budget), whose process died, or in which one `while` loop of the library iterated more
   than 16 * len(input) + 2^21 times (progress monitor) is rejected at that event (termination clause). *)
EXTENDS Surface, Json, IOUtils, TLCExt

Traces == JsonDeserialize(IOEnv.TRACE_FILE)

VARIABLES tid, l
tvars == <<tid, l, vars>>

Ev == Traces[tid].ev[l]
IsEvent(a) == l <= Len(Traces[tid].ev) /\ Ev.a = a /\ l' = l + 1 /\ UNCHANGED <<tid, gen>>

TEnter  == IsEvent("Enter")  /\ PushCore(Ev.t, Ev.k)
TRaise  == IsEvent("Raise")  /\ RaiseCore(Ev.d, Ev.st, Ev.c)
TWrap   == IsEvent("Wrap")   /\ Ev.d = Depth /\ WrapCore(Ev.c)
TAbsorb == IsEvent("Absorb") /\ Ev.d = Depth /\ AbsorbCore
TUnwind == IsEvent("Unwind") /\ Ev.d = Depth /\ UnwindCore(Ev.c, Ev.pst)
TYield  == IsEvent("Yield")  /\ YieldCore
TReturn == IsEvent("Return") /\ Ev.d = Depth /\ ReturnCore
TOutcome ==
    /\ IsEvent("Outcome") /\ phase = "done" /\ Depth = 0
    /\ Ev.esc = out /\ Ev.n = yielded
    /\ UNCHANGED core
TCliOut ==
    /\ IsEvent("CliOut") /\ phase = "done" /\ Depth = 0
    /\ Ev.exit = exit /\ Ev.diag = stderr
    /\ \/ Ev.out = stdout
       \/ "Cli!PartialStdout" \in Deviations /\ exit = 1 /\ Ev.out = "partial"
    /\ UNCHANGED core

THelper == IsEvent("Helper") /\ phase = "init" /\ UNCHANGED core

\* as built only (open findings KF-C01-01..03): the execution was killed on its CPU budget AND the input lies in
\* the narrow domain of a finding whose deviation is on (fields of the event = what the harness read from the input)
TKnownSpin ==
    /\ IsEvent("Timeout")
    /\ \E dv \in Deviations \cap SpinDeviations : Ev.k \in SpinKinds(dv) /\ InDomain(dv, Ev)
    /\ UNCHANGED core

TraceInit ==
    /\ tid \in 1..Len(Traces) /\ l = 1
    /\ plan = <<>> /\ ctl = <<>> /\ faults = 0 /\ flog = <<>>
    /\ stack = <<>> /\ pending = None /\ yielded = 0 /\ escaped = {} /\ out = None
    /\ stdout = "empty" /\ stderr = 0 /\ exit = NoExit /\ phase = "init"

TraceNext ==
    /\ (TEnter \/ TRaise \/ TWrap \/ TAbsorb \/ TUnwind \/ TYield \/ TReturn \/ TOutcome \/ TCliOut \/ TKnownSpin \/ THelper)
    /\ Inv_Surface' /\ Inv_MemberIsolation' /\ Inv_Cli' /\ Inv_WrapClass'

TraceSpec == TraceInit /\ [][TraceNext]_tvars

TraceAccept ==
    /\ (l = Len(Traces[tid].ev) + 1) => PrintT(<<"ACCEPT", tid>>)
    /\ (IOEnv.MBV_PROGRESS = "1") => PrintT(<<"AT", tid, l>>)
=============================================================================
