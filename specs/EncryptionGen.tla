--------------------------- MODULE EncryptionGen ---------------------------
(* Bounded universe of abstract containers for C08, and the pipeline over it.

   Two uses:
   (1) theorem / sensitivity runs: SPECIFICATION Spec with the invariants of Encryption.tla;
       Deviations = {} is the reference design (all invariants hold), each single deviation makes
       TLC print a counterexample (the bounded universe contains the witness);
   (2) enumeration for the spec -> code replay: SPECIFICATION GenSpec (no transitions), one state =
       one abstract container, dumped with -dump; `cls` is the specification's classification.  *)
EXTENDS Encryption

CONSTANTS PdfSweep,        \* "diag" | "full": how many plaintext-length layouts per empty-password PDF
          OdfSweep,        \* "star" | "full": how many manifest spellings (encoding x DOCTYPE x prolog x attribute order)
          GenKinds,        \* subset of Kinds to enumerate
          MaxRecs,         \* xls: record sequences up to this length
          MaxEntries,      \* odf: manifest entries up to this length
          MaxMembers,      \* zip: members up to this length
          MaxFolders       \* sevenz: folders up to this length

NonEmptySeqs(S, n) == UNION { [1..j -> S] : j \in 1..n }

OoxmlU == { [kind |-> "ooxml", wrap |-> "zip", names |-> {}] }
          \cup { [kind |-> "ooxml", wrap |-> "ole", names |-> n] : n \in SUBSET OleNames }
PptU   == { [kind |-> "ppt", names |-> n, token |-> t] : n \in SUBSET PptNames, t \in PptTokens }
XlsU   == { [kind |-> "xls", stream |-> s, recs |-> r] : s \in XlsStreams, r \in SeqsUpTo(RecKinds, MaxRecs) }
DocU   == { [kind |-> "doc", magic |-> m, fEncrypted |-> e, fObfuscated |-> o] :
              m \in DocMagics, e \in BOOLEAN, o \in BOOLEAN }
OdfEntry == [name : OdfNames, ed : BOOLEAN]
OdfVariant == [enc : OdfEncs, doctype : OdfDoctypes, prolog : OdfProlog, order : OdfOrders]
DefaultV(e) == [enc |-> e, doctype |-> "none", prolog |-> "none", order |-> "path-first"]
Differences(v) == Cardinality({ f \in {"enc", "doctype", "prolog", "order"} : v[f] # DefaultV("utf8")[f] })
StarVariants == { v \in OdfVariant : Differences(v) <= 1 }         \* the default and every single-dimension change
Odf(v, p, s) == [kind |-> "odf", enc |-> v.enc, prefix |-> p, doctype |-> v.doctype, prolog |-> v.prolog,
                 order |-> v.order, entries |-> s]
\* the spellings are swept over one-entry manifests: encrypted / plain x ordinary / tricky file name
SweepEntries == { <<[name |-> n, ed |-> e]>> : n \in {"content.xml", "Pictures/encryption-data.png"}, e \in BOOLEAN }
OdfU   == { Odf(DefaultV(e), p, s) : e \in {"utf8", "utf16"}, p \in {"manifest", "m"},
                                      s \in NonEmptySeqs(OdfEntry, MaxEntries) }
          \cup { Odf(v, p, s) : v \in (IF OdfSweep = "full" THEN OdfVariant ELSE StarVariants),
                                p \in {"manifest", "m"}, s \in SweepEntries }
\* plaintext-length layouts (see Encryption.tla): all 18 ("full"), or the diagonal + two mixed ones per compression
\* mode ("diag"); AES-256 revision 6 (whose pure-Python key derivation costs seconds per open) gets the diagonal set
\* in the "full" sweep and two layouts in the "diag" sweep
Residues == {0, 1, 15}
Layouts  == [flate : BOOLEAN, slen : Residues, strlen : Residues]
DiagLayouts == { y \in Layouts : y.slen = y.strlen \/ (y.slen = 0 /\ y.strlen = 1) \/ (y.slen = 1 /\ y.strlen = 0) }
R6Layouts == { [flate |-> FALSE, slen |-> 0, strlen |-> 0], [flate |-> TRUE, slen |-> 0, strlen |-> 1] }
DefaultLayout == [flate |-> FALSE, slen |-> 1, strlen |-> 1]
SweepOf(a) == IF PdfSweep = "full" THEN (IF a = "AES-256" THEN DiagLayouts ELSE Layouts)
              ELSE IF a = "AES-256" THEN R6Layouts ELSE DiagLayouts
Pdf(a, u, o, y) == [kind |-> "pdf", alg |-> a, userEmpty |-> u, owner |-> o,
                    flate |-> y.flate, slen |-> y.slen, strlen |-> y.strlen]
PdfU   == { Pdf(a, u, o, DefaultLayout) : a \in PdfAlgs \ {"none"}, u \in BOOLEAN, o \in PdfOwners }
          \cup UNION { { Pdf(a, TRUE, "distinct", y) : y \in SweepOf(a) } : a \in PdfAlgs \ {"none"} }
          \cup { Pdf("none", TRUE, "same", y) : y \in {DefaultLayout, [flate |-> TRUE, slen |-> 0, strlen |-> 0]} }
                                                                          \* no /Encrypt: no passwords
ZipU   == { [kind |-> "zip", members |-> m] : m \in NonEmptySeqs(ZipMembers, MaxMembers) }
\* coder chains as 7-Zip writes them (+ the unknown 06F107xx id alone)
CoderChains == { <<"COPY">>, <<"LZMA">>, <<"LZMA2">>, <<"BCJ", "LZMA">>, <<"AES">>, <<"AES", "LZMA2">>,
                 <<"LZMA2", "AES">>, <<"AESX">> }
SevenZU == { [kind |-> "sevenz", hdr |-> h, folders |-> f] :
               h \in HdrKinds, f \in NonEmptySeqs(CoderChains, MaxFolders) }
EpubU  == { [kind |-> "epub", encxml |-> x, rights |-> r] : x \in EncXml, r \in BOOLEAN }

Universe ==
    (IF "ooxml"  \in GenKinds THEN OoxmlU  ELSE {}) \cup
    (IF "ppt"    \in GenKinds THEN PptU    ELSE {}) \cup
    (IF "xls"    \in GenKinds THEN XlsU    ELSE {}) \cup
    (IF "doc"    \in GenKinds THEN DocU    ELSE {}) \cup
    (IF "odf"    \in GenKinds THEN OdfU    ELSE {}) \cup
    (IF "pdf"    \in GenKinds THEN PdfU    ELSE {}) \cup
    (IF "zip"    \in GenKinds THEN ZipU    ELSE {}) \cup
    (IF "sevenz" \in GenKinds THEN SevenZU ELSE {}) \cup
    (IF "epub"   \in GenKinds THEN EpubU   ELSE {})

Init == PipeInit(Universe)
Spec == Init /\ [][Next]_vars

\* ---- enumeration: no transitions; the classification travels in pc (a string variable)
GenInit == /\ c \in Universe
           /\ pc = Class(c) /\ k = 1 /\ yielded = 0 /\ err = "none"
GenSpec == GenInit /\ [][UNCHANGED vars]_vars
=============================================================================
