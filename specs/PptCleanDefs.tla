----------------------------- MODULE PptCleanDefs -----------------------------
(* Line kinds and the cleaning function of PptClean.tla (no variables: shared with PptCleanTrace.tla). *)
EXTENDS Naturals, Sequences, FiniteSets, TLC

CONSTANT WalkDev

Kinds == {"W", "WW", "CTRL", "BLANK", "CLICK", "PPTMARK", "STAR", "STARW", "OUTLINE"}
Filtered == {"CLICK", "PPTMARK", "STAR", "OUTLINE"}
\* the word ids a line shows (a WW line shows two: id and id + 50)
WordsOfLine(ln) == CASE ln[1] = "BLANK" -> <<>>
                     [] ln[1] = "STAR"  -> <<>>
                     [] ln[1] = "WW"    -> <<ln[2], ln[2] + 50>>
                     [] OTHER           -> <<ln[2]>>
Dropped(ln) == ln[1] = "BLANK" \/ ("Ppt!PlaceholderLineFilter" \in WalkDev /\ ln[1] \in Filtered)
\* the kept lines, as sequences of word ids (a kept STAR line shows no word: it is kept as an empty id list by the strict
\* reader; the binding compares word ids only, so it is left out on both sides)
Clean(lines) == SelectSeq([j \in DOMAIN lines |-> IF Dropped(lines[j]) THEN <<0>> ELSE WordsOfLine(lines[j])],
                          LAMBDA w : w # <<0>> /\ w # <<>>)

=============================================================================
