------------------------------- MODULE Surface -------------------------------
(* C01 -- stable failure surface, termination of the design, CLI outcome.

   WHAT IS MODELLED.  One consumption of one API call as a stack of LAYERS.  Every layer is a
   function of the library with a documented catch policy:

     Extractor(k)  the 21 read_xxx generators (sharepoint2text/parsing/extractors/.../read_xxx).
                   Whole body inside  try / except ExtractionError: raise /
                   except Exception -> ExtractionFailedError  (LegacyMicrosoftParsingError for
                   read_doc / read_ppt / read_xls).  read_mhtml calls read_html (nested Extractor),
                   read_archive calls the archive loops.
     ReadFile      sharepoint2text/__init__.py:read_file.  Size and routing errors are raised
                   BEFORE the try (stage "pro": ExtractionFileTooLargeError,
                   ExtractionFileFormatNotSupportedError; FileNotFoundError is documented to escape
                   and is outside the property: the file exists); the rest like an extractor.
     ArchiveLoop   archive_extractor.py:_extract_from_zip_optimized / _extract_from_tar_optimized /
                   _extract_from_7z_optimized / _process_7z_files_sequential.  INTERNAL layer: what
                   it does with a container-level failure (propagate, convert to Failed / Encrypted,
                   skip the member) is DON'T-CARE for C01 -- everything that leaves it is caught by
                   read_archive's wrapper.  (Whether a failure to READ one member ends the archive
                   is C10's question: Zip!MemberErrorKillsArchive, owned by C09/C10 and repaired there
                   (FX-C10-38); 7z: KF-C10-01.  Both behaviours are behaviours of this layer here.)
     ArchiveEntry  archive_extractor.py:_process_archive_entry: catches Exception, logs, returns.
                   Nothing ever leaves it (member isolation).
     Attachment    data_types.py:EmailContent.iterate_supported_attachments: routing before the try
                   (stage "pro": may raise NotSupported), per-attachment try lets
                   ExtractionFileEncryptedError through and swallows every other Exception.
     Cli           cli.py:main: catch Exception, one "sharepoint2text: ..." line on stderr, return 1;
                   otherwise serialise COMPLETELY, then print, return 0.

   Class = the seven members of the ExtractionError family + "Other", which abstracts every
   exception that is not in the family (KeyError, ValueError, struct.error, BadZipFile,
   UnicodeDecodeError, RecursionError, OSError, AttributeError, zlib.error, LZMAError, MemoryError..).

   "Arbitrary bytes" enter the model as the environment action Env: ANY class may be raised at
   ANY stage of ANY layer (restricted only at the stages the input bytes cannot influence: the
   "pro" stages run on the path, not on the content).  A stage is where, relative to the layer's
   wrapper try, the exception arises:
       "pro"  before the wrapper            "try"  inside the wrapper's try body (before, between
       "fin"  in a finally inside it               and after the yields)
       "mem"  per-member part of an archive loop
   Extractor layers have NO "pro" stage: the reference design has no input-dependent statement
   outside the wrapper (a trace that raises there has no action => rejected).

   The CORE operators (PushCore .. ReturnCore) are the transition relation; the generative Next
   drives them along a plan with program counters (ctl), SurfaceTrace drives them with events
   recorded from the real code.  So a recorded trace is accepted iff it is a behaviour of the
   same relation that TLC checked exhaustively.

   DON'T-CAREs (written here, not in the harness):
     * which handler inside a layer absorbs an exception (AbsorbCore is allowed everywhere: an
       extractor may recover locally, e.g. read_html falls back to empty content);
     * everything inside ArchiveLoop (see above);
     * where log records and third-party warnings go is host configuration: the harness gives the root logger
       a handler and filters warnings, so that `stderr` counts exactly the lines the CLI itself writes
       (a diagnostic whose message contains line breaks is as many lines);
     * exit codes / output for argument errors (argparse), a missing file's wording.

   CONSTANTS
     Kinds        names of the registered extractor kinds ("archive" among them)
     LegacyKinds  kinds whose wrapper must raise LegacyMicrosoftParsingError
     MultiKinds   kinds that may yield more than one result per input (mbox)
     Entries      entry points explored: direct readfile member rfmember attachment attmember cli climember
     MaxFaults    environment raises per behaviour
     MaxMembers   members per archive / attachments per e-mail
     AllowLocal   whether the generative model explores local absorption inside Extractor/ReadFile
     Deviations   named as-built gaps:
                  "Cli!PartialStdout"   json.dump streams to stdout (fixed by proposed_fixes/c01-cli-atomic-stdout.diff)
                  "Ole!VectorCountLoop", "Pdf!XrefPrevCycle", "Pdf!ParentCycleNoResources": OPEN findings
                                        KF-C01-01..03, loops in third-party parsers (olefile 0.47, pypdf 6.5.0)
                                        under read_doc / read_ppt / read_xls / read_pdf; see G_Spin
     Mutations    hypothetical breakages for the sensitivity runs: "NoWrapper", "WrongLegacyClass",
                  "EntryReraises", "CliNoCatch"                                                   *)
EXTENDS Naturals, Sequences, FiniteSets, TLC

CONSTANTS Kinds, LegacyKinds, MultiKinds, Entries, MaxFaults, MaxMembers, AllowLocal, Deviations, Mutations

None   == "None"
Family == {"Failed", "Encrypted", "ZipBomb", "TooLarge", "NotSupported", "Legacy", "Base"}
Class  == Family \cup {"Other"}
LayerTypes == {"Cli", "ReadFile", "Extractor", "ArchiveLoop", "ArchiveEntry", "Attachment"}
Boundary   == {"Extractor", "ReadFile", "Attachment"}      \* what leaves these reaches a user of the API
AllStages  == {"pro", "try", "fin", "mem"}
NoExit == 9
MaxY   == 3

StagesOf(t) == CASE t = "Extractor"    -> {"try", "fin"}
                 [] t = "ReadFile"     -> {"pro", "try", "fin"}
                 [] t = "ArchiveLoop"  -> AllStages
                 [] t = "ArchiveEntry" -> {"try", "fin"}
                 [] t = "Attachment"   -> {"pro", "try"}
                 [] t = "Cli"          -> {"try", "fin"}

WrapClass(f) == IF f.t = "Extractor" /\ f.k \in LegacyKinds THEN "Legacy" ELSE "Failed"

VARIABLES stack,    \* frames [t, k, rs, w]; rs = stage at which the exception in flight arose in / arrived at
                    \* the frame, w = the exception in flight was made by this frame's wrapper
          pending,  \* class of the exception in flight in the top frame, or None
          yielded,  \* results that crossed the API boundary (saturating at MaxY)
          escaped,  \* history: [t, st, c] for every exception that left a frame
          out,      \* what the consumer of the outermost frame saw: None (running) | "Done" | class
          stdout,   \* "empty" | "result" | "partial"
          stderr,   \* number of diagnostic lines written by the CLI
          exit,     \* NoExit | 0 | 1
          phase,    \* "init" | "run" | "done"  ("spin": as-built deviation Ole!VectorCountLoop only)
          plan, ctl, faults, flog      \* generative part only (constant in trace validation)

core == <<stack, pending, yielded, escaped, out, stdout, stderr, exit, phase>>
gen  == <<plan, ctl, faults, flog>>
vars == <<core, gen>>

Depth == Len(stack)
Top   == stack[Depth]
Cap(n) == IF n > MaxY THEN MaxY ELSE n
Pop(s) == SubSeq(s, 1, Len(s) - 1)

(* ------------------------------------------------------------------ core transition relation *)
PushCore(t, k) ==
    /\ pending = None /\ phase \in {"init", "run"}
    /\ t \in LayerTypes
    /\ stack' = Append(stack, [t |-> t, k |-> k, rs |-> "-", w |-> FALSE])
    /\ phase' = "run"
    /\ UNCHANGED <<pending, yielded, escaped, out, stdout, stderr, exit>>

\* an exception of class c arises in frame d at stage st; frames above d (suspended children of a
\* running generator) are dropped; an exception already in flight in that frame is replaced
RaiseCore(d, st, c) ==
    /\ phase = "run" /\ d \in 1..Depth
    /\ st \in StagesOf(stack[d].t) /\ c \in Class
    /\ (pending = None \/ d = Depth)
    /\ stack' = [SubSeq(stack, 1, d) EXCEPT ![d].rs = st, ![d].w = FALSE]
    /\ pending' = c
    /\ UNCHANGED <<yielded, escaped, out, stdout, stderr, exit, phase>>

\* the wrapper handler of the top frame converts the exception in flight.  Extractor / ReadFile:
\* ONLY a non-family exception, ONLY into the documented class (the family passes unchanged).
WrapCore(c2) ==
    /\ phase = "run" /\ Depth > 0 /\ pending # None
    /\ \/ Top.t \in {"Extractor", "ReadFile"} /\ Top.rs # "pro" /\ pending = "Other" /\ c2 = WrapClass(Top)
       \/ Top.t = "ArchiveLoop" /\ c2 \in Class
    /\ pending' = c2
    /\ stack' = [stack EXCEPT ![Depth].w = TRUE]
    /\ UNCHANGED <<yielded, escaped, out, stdout, stderr, exit, phase>>

\* the top frame catches the exception in flight and goes on (for the CLI: prints its diagnostic)
AbsorbCore ==
    /\ phase = "run" /\ Depth > 0 /\ pending # None
    /\ pending' = None
    /\ stack' = [stack EXCEPT ![Depth].rs = "-", ![Depth].w = FALSE]
    /\ IF Top.t = "Cli" THEN stderr' = stderr + 1 /\ exit' = 1 ELSE UNCHANGED <<stderr, exit>>
    /\ UNCHANGED <<yielded, escaped, out, stdout, phase>>

\* the exception in flight leaves the top frame; it arrives in the caller at stage pst
UnwindCore(c, pst) ==
    /\ phase = "run" /\ Depth > 0 /\ pending = c /\ c \in Class
    /\ escaped' = escaped \cup {[t |-> Top.t, k |-> Top.k, st |-> Top.rs, c |-> c, w |-> Top.w]}
    /\ IF Depth = 1
         THEN /\ stack' = <<>> /\ out' = c /\ pending' = None /\ phase' = "done"
         ELSE /\ pst \in StagesOf(stack[Depth - 1].t)
              /\ stack' = [Pop(stack) EXCEPT ![Depth - 1].rs = pst, ![Depth - 1].w = FALSE]
              /\ UNCHANGED <<out, pending, phase>>
    /\ UNCHANGED <<yielded, stdout, stderr, exit>>

YieldCore ==
    /\ phase = "run" /\ Depth > 0 /\ pending = None
    /\ yielded' = Cap(yielded + 1)
    /\ UNCHANGED <<stack, pending, escaped, out, stdout, stderr, exit, phase>>

\* the top frame returns normally; the CLI that has not failed has printed the complete result
ReturnCore ==
    /\ phase = "run" /\ Depth > 0 /\ pending = None
    /\ IF Top.t = "Cli" /\ exit = NoExit
         THEN exit' = 0 /\ stdout' = "result"
         ELSE UNCHANGED <<exit, stdout>>
    /\ stack' = Pop(stack)
    /\ IF Depth = 1 THEN out' = "Done" /\ phase' = "done" ELSE UNCHANGED <<out, phase>>
    /\ UNCHANGED <<pending, yielded, escaped, stderr>>

(* ------------------------------------------------------------------------------- properties *)
TypeOK ==
    /\ pending \in Class \cup {None}
    /\ yielded \in 0..MaxY
    /\ out \in Class \cup {None, "Done"}
    /\ stdout \in {"empty", "result", "partial"}
    /\ exit \in {NoExit, 0, 1}
    /\ phase \in {"init", "run", "done", "spin"}
    /\ \A i \in 1..Depth : stack[i].t \in LayerTypes

\* whatever leaves an API boundary is a member of the ExtractionError family
Inv_Surface ==
    /\ \A e \in escaped : e.t \in Boundary => e.c \in Family
    /\ out \in Family \cup {None, "Done"}

\* an exception manufactured by an extractor's wrapper has the documented class
Inv_WrapClass ==
    \A e \in escaped : (e.t = "Extractor" /\ e.w) => e.c = (IF e.k \in LegacyKinds THEN "Legacy" ELSE "Failed")

\* a member failure never leaves the member layer; an attachment failure other than "encrypted"
\* never leaves the attachment loop
Inv_MemberIsolation ==
    \A e \in escaped : /\ e.t # "ArchiveEntry"
                       /\ (e.t = "Attachment" /\ e.st = "try") => e.c = "Encrypted"

\* exit 0 => the result is on stdout, no diagnostic;  exit 1 => nothing on stdout, one diagnostic
Inv_Cli ==
    /\ \A e \in escaped : e.t # "Cli"
    /\ exit = 0 => (stdout = "result" /\ stderr = 0 /\ yielded > 0)
    /\ exit = 1 => (stdout = "empty" /\ stderr = 1)
    /\ exit = NoExit => (stdout = "empty" /\ stderr = 0)

(* ---------------------------------------------------------------- generative part: the plans *)
X(k, ny)  == [t |-> "Extractor", k |-> k, ny |-> ny, m |-> 0]
L(t, m)   == [t |-> t, k |-> "-", ny |-> 0, m |-> m]
SubCalls  == {<<"mhtml", "html">>}                    \* read_mhtml runs read_html on the extracted part
LeafKinds == Kinds \ {"archive"}
NYs(k)    == IF k \in MultiKinds THEN {0, 1, 2} ELSE {1}
Leaves(k) == {<<X(k, ny)>> : ny \in NYs(k)}
             \cup UNION {{<<X(k, 0), X(p[2], ny)>> : ny \in NYs(p[2])} : p \in {q \in SubCalls : q[1] = k /\ q[2] \in Kinds}}
Arch(mm)  == <<X("archive", 0), L("ArchiveLoop", mm), L("ArchiveEntry", 0)>>
PlansFor(e, leaf, mm) ==
    CASE e = "direct"     -> {leaf}
      [] e = "readfile"   -> {<<L("ReadFile", 0)>> \o leaf}
      [] e = "member"     -> {Arch(mm) \o leaf}
      [] e = "rfmember"   -> {<<L("ReadFile", 0)>> \o Arch(mm) \o leaf}
      [] e = "attachment" -> {<<L("Attachment", mm)>> \o leaf}
      [] e = "attmember"  -> {<<L("Attachment", 1)>> \o Arch(mm) \o leaf}
      [] e = "cli"        -> {<<L("Cli", 0), L("ReadFile", 0)>> \o leaf}
      [] e = "climember"  -> {<<L("Cli", 0), L("ReadFile", 0)>> \o Arch(mm) \o leaf}
IsLoopEntry(e) == e \in {"member", "rfmember", "attachment", "attmember", "climember"}
AllLeaves == UNION {Leaves(k) : k \in LeafKinds}
PlanSet == UNION { UNION { PlansFor(e, leaf, mm) : leaf \in AllLeaves,
                                                   mm \in IF IsLoopEntry(e) THEN 1..MaxMembers ELSE {1} } :
                   e \in Entries }

Init ==
    /\ plan \in PlanSet
    /\ stack = <<>> /\ ctl = <<>> /\ pending = None /\ yielded = 0 /\ escaped = {} /\ out = None
    /\ stdout = "empty" /\ stderr = 0 /\ exit = NoExit /\ phase = "init" /\ faults = 0 /\ flog = <<>>

IsCaller(d) == d < Len(plan)
C == ctl[Depth]
SetPc(pc) == ctl' = [ctl EXCEPT ![Depth].pc = pc]
StartPc(t) == IF t \in {"ReadFile", "Attachment"} THEN "pro" ELSE "try"
StageOfPc(pc) == CASE pc = "pro" -> "pro" [] pc = "mem" -> "mem" [] OTHER -> "try"
CallStage(t) == IF t = "ArchiveLoop" THEN "mem" ELSE "try"
\* classes the input bytes can cause at a stage: everything, except where only the PATH is looked at
EnvClasses(t, st) == CASE t = "ReadFile" /\ st = "pro"   -> {"TooLarge", "NotSupported"}
                       [] t = "Attachment" /\ st = "pro" -> {"NotSupported"}
                       [] OTHER -> Class
G_Enter ==
    /\ Depth < Len(plan) /\ pending = None
    /\ LET p == plan[Depth + 1] IN
       /\ \/ Depth = 0 /\ phase = "init" /\ ctl' = <<[pc |-> StartPc(p.t), y |-> 0, ny |-> p.ny, m |-> p.m]>>
          \/ /\ Depth > 0 /\ phase = "run"
             /\ \/ Top.t \in {"Extractor", "ArchiveEntry", "ReadFile", "Cli"} /\ C.pc = "try"
                \/ Top.t = "ArchiveLoop" /\ C.pc = "mem" /\ C.m > 0
                \/ Top.t = "Attachment" /\ C.pc = "try"
             /\ ctl' = Append([ctl EXCEPT ![Depth].pc = "wait",
                                          ![Depth].m = IF Top.t \in {"ArchiveLoop", "Attachment"} THEN @ - 1 ELSE @],
                              [pc |-> StartPc(p.t), y |-> 0, ny |-> p.ny, m |-> p.m])
       /\ PushCore(p.t, p.k)
    /\ UNCHANGED <<plan, faults, flog>>

\* the environment (= the bytes) makes the running frame fail.  Inside the wrapper the failing statement may
\* sit in the try body or in a finally nested in it ("fin"), before or after the yields.
EnvStages(t, pc) == IF pc \in {"try", "wait", "ser"} THEN {"try", "fin"} \cap StagesOf(t) ELSE {StageOfPc(pc)} \cap StagesOf(t)
MLeftAt(d) == LET js == {j \in 1..d : stack[j].t \in {"ArchiveLoop", "Attachment"}} IN
              IF js = {} THEN 0 ELSE ctl[CHOOSE j \in js : \A i \in js : i <= j].m
G_Env ==
    /\ phase = "run" /\ Depth > 0 /\ pending = None /\ faults < MaxFaults
    /\ C.pc \in {"pro", "try", "mem", "ser", "wait"}
    /\ \E st \in EnvStages(Top.t, C.pc) : \E c \in EnvClasses(Top.t, st) :
          /\ RaiseCore(Depth, st, c)
          /\ flog' = Append(flog, [d |-> Depth, t |-> Top.t, k |-> Top.k, st |-> st, c |-> c,
                                   y |-> yielded, ml |-> MLeftAt(Depth)])
    /\ faults' = faults + 1
    /\ UNCHANGED <<plan, ctl>>

\* a pass-through layer written as `for r in child(...): yield r` runs its loop body BETWEEN the yields, while
\* the child generator is suspended: it can fail there; the suspended children are dropped (closed)
PassThrough(f) == f.t \in {"ReadFile", "ArchiveEntry", "Extractor"}
G_EnvMid ==
    /\ phase = "run" /\ Depth > 1 /\ pending = None /\ faults < MaxFaults /\ yielded > 0
    /\ \E d \in 1..(Depth - 1) : \E st \in {"try"} : \E c \in Class :
          /\ PassThrough(stack[d]) /\ ctl[d].pc = "wait"
          /\ RaiseCore(d, st, c)
          /\ ctl' = SubSeq(ctl, 1, d)
          /\ flog' = Append(flog, [d |-> d, t |-> stack[d].t, k |-> stack[d].k, st |-> st, c |-> c,
                                   y |-> yielded, ml |-> MLeftAt(d)])
    /\ faults' = faults + 1
    /\ UNCHANGED plan

\* normal progress of the top frame
G_Step ==
    /\ phase = "run" /\ Depth > 0 /\ pending = None
    /\ \/ /\ Top.t = "Extractor" /\ ~IsCaller(Depth) /\ C.pc = "try"
          /\ \/ C.y < C.ny /\ YieldCore /\ ctl' = [ctl EXCEPT ![Depth].y = @ + 1]
             \/ C.y = C.ny /\ ReturnCore /\ ctl' = Pop(ctl)
       \/ /\ Top.t \in {"Extractor", "ArchiveEntry", "ReadFile"} /\ C.pc = "wait" /\ ReturnCore /\ ctl' = Pop(ctl)
       \/ /\ Top.t \in {"ReadFile"} /\ C.pc = "pro" /\ SetPc("try") /\ UNCHANGED core
       \/ /\ Top.t = "ArchiveLoop" /\ C.pc = "try" /\ SetPc("mem") /\ UNCHANGED core
       \/ /\ Top.t = "ArchiveLoop" /\ C.pc = "wait" /\ SetPc("mem") /\ UNCHANGED core
       \/ /\ Top.t = "ArchiveLoop" /\ C.pc = "mem" /\ C.m = 0 /\ ReturnCore /\ ctl' = Pop(ctl)
       \/ /\ Top.t = "Attachment" /\ C.pc = "pro" /\ C.m > 0 /\ SetPc("try") /\ UNCHANGED core
       \/ /\ Top.t = "Attachment" /\ C.pc = "pro" /\ C.m = 0 /\ ReturnCore /\ ctl' = Pop(ctl)
       \/ /\ Top.t = "Attachment" /\ C.pc = "wait" /\ SetPc("pro") /\ UNCHANGED core
       \/ /\ Top.t = "Cli" /\ C.pc = "wait" /\ yielded > 0 /\ SetPc("ser") /\ UNCHANGED core
       \/ /\ Top.t = "Cli" /\ C.pc = "wait" /\ yielded = 0          \* "No extraction results": RuntimeError
          /\ RaiseCore(Depth, "try", "Other") /\ UNCHANGED ctl
       \/ /\ Top.t = "Cli" /\ C.pc \in {"ser", "end"} /\ ReturnCore /\ ctl' = Pop(ctl)
    /\ UNCHANGED <<plan, faults, flog>>

\* as built before the fix: json.dump(payload, sys.stdout) writes chunk by chunk, a value that the
\* encoder rejects half-way leaves a torso on stdout
G_PartialPrint ==
    /\ "Cli!PartialStdout" \in Deviations
    /\ phase = "run" /\ Depth > 0 /\ pending = None /\ faults < MaxFaults
    /\ Top.t = "Cli" /\ C.pc = "ser"
    /\ stdout' = "partial" /\ pending' = "Other" /\ stack' = [stack EXCEPT ![Depth].rs = "try", ![Depth].w = FALSE]
    /\ faults' = faults + 1
    /\ flog' = Append(flog, [d |-> Depth, t |-> "Cli", k |-> "-", st |-> "print", c |-> "Other", y |-> yielded, ml |-> 0])
    /\ UNCHANGED <<yielded, escaped, out, stderr, exit, phase, plan, ctl>>

\* as built, OPEN findings: third-party parsers under an extractor that do not come back within any budget
\* proportional to the input -- the call neither yields nor raises.  One named deviation per input shape:
\*   KF-C01-01 Ole!VectorCountLoop          read_doc / read_ppt / read_xls -> olefile get_metadata(): VT_VECTOR property
\*                                          of an element type olefile does not decode, with a huge element count
\*   KF-C01-02 Pdf!XrefPrevCycle            read_pdf -> pypdf PdfReader(): trailer /Prev chain revisits an xref offset
\*   KF-C01-03 Pdf!ParentCycleNoResources   read_pdf -> pypdf extract_text(): page without /Resources, /Parent chain cyclic
\*   KF-C01-04 Rtf!InfoRegexQuadratic       read_rtf: _RE_INFO / _RE_INFO_ALT are searched from every `{\info` start: quadratic
\*                                          in the number of (unterminated) info groups, over the CPU budget from ~100 KB
\*   KF-C01-05 Rtf!FieldRegexQuadratic      read_rtf: the field / hyperlink regexes, from every `{\field{\*\fldinst` start
SpinDeviations == {"Ole!VectorCountLoop", "Pdf!XrefPrevCycle", "Pdf!ParentCycleNoResources",
                   "Rtf!InfoRegexQuadratic", "Rtf!FieldRegexQuadratic"}
SpinKinds(dv) == IF dv = "Ole!VectorCountLoop" THEN LegacyKinds
                 ELSE IF dv \in {"Rtf!InfoRegexQuadratic", "Rtf!FieldRegexQuadratic"} THEN {"rtf"} ELSE {"pdf"}
\* domain predicates on the evidence the harness reads from the input (fields of the Timeout event)
InDomain_KF_C01_01(e) == e.ole /\ e.vec /\ ~e.known /\ e.cntk >= 1024      \* count >= 2^20 elements
InDomain_KF_C01_02(e) == e.pdf /\ e.prevcycle
InDomain_KF_C01_03(e) == e.pdf /\ e.parentcycle
InDomain_KF_C01_04(e) == e.rtf /\ e.rtfinfo >= 2000           \* >= 2000 `{\info` groups (about 30 KB of them)
InDomain_KF_C01_05(e) == e.rtf /\ e.rtffield >= 10000         \* >= 10000 HYPERLINK field instructions (about 300 KB)
InDomain(dv, e) == CASE dv = "Ole!VectorCountLoop" -> InDomain_KF_C01_01(e)
                     [] dv = "Pdf!XrefPrevCycle" -> InDomain_KF_C01_02(e)
                     [] dv = "Pdf!ParentCycleNoResources" -> InDomain_KF_C01_03(e)
                     [] dv = "Rtf!InfoRegexQuadratic" -> InDomain_KF_C01_04(e)
                     [] dv = "Rtf!FieldRegexQuadratic" -> InDomain_KF_C01_05(e)
                     [] OTHER -> FALSE
G_Spin ==
    /\ phase = "run" /\ Depth > 0 /\ pending = None
    /\ Top.t = "Extractor" /\ C.pc = "try"
    /\ \E dv \in Deviations \cap SpinDeviations : Top.k \in SpinKinds(dv)
    /\ phase' = "spin"
    /\ UNCHANGED <<stack, pending, yielded, escaped, out, stdout, stderr, exit, gen>>

G_Unwind ==
    /\ UnwindCore(pending, IF Depth > 1 THEN CallStage(stack[Depth - 1].t) ELSE "try")
    /\ ctl' = Pop(ctl)

\* what each layer does with the exception in flight
G_Handle ==
    /\ phase = "run" /\ Depth > 0 /\ pending # None
    /\ \/ /\ Top.t \in {"Extractor", "ReadFile"}
          /\ \/ (Top.rs = "pro" \/ pending \in Family) /\ G_Unwind
             \/ /\ Top.rs # "pro" /\ pending = "Other"
                /\ IF "NoWrapper" \in Mutations /\ Top.t = "Extractor" THEN G_Unwind
                   ELSE IF "WrongLegacyClass" \in Mutations /\ Top.t = "Extractor" /\ Top.k \in LegacyKinds
                        THEN pending' = "Failed" /\ stack' = [stack EXCEPT ![Depth].w = TRUE]
                             /\ UNCHANGED <<yielded, escaped, out, stdout, stderr, exit, phase, ctl>>
                        ELSE WrapCore(WrapClass(Top)) /\ UNCHANGED ctl
             \/ /\ AllowLocal /\ Top.rs # "pro" /\ AbsorbCore /\ UNCHANGED ctl      \* local recovery, same pc
       \/ /\ Top.t = "ArchiveLoop"
          /\ \/ G_Unwind
             \/ pending = "Other" /\ (\E c2 \in {"Failed", "Encrypted"} : WrapCore(c2)) /\ UNCHANGED ctl
             \/ /\ Top.rs = "mem" /\ AbsorbCore             \* skip the member that could not be read
                /\ ctl' = [ctl EXCEPT ![Depth].pc = "mem", ![Depth].m = IF C.pc = "mem" /\ @ > 0 THEN @ - 1 ELSE @]
       \/ /\ Top.t = "ArchiveEntry"
          /\ IF "EntryReraises" \in Mutations THEN G_Unwind ELSE AbsorbCore /\ SetPc("wait")
       \/ /\ Top.t = "Attachment"
          /\ \/ (Top.rs = "pro" \/ pending = "Encrypted") /\ G_Unwind
             \/ /\ Top.rs # "pro" /\ pending # "Encrypted" /\ AbsorbCore     \* next attachment
                /\ ctl' = [ctl EXCEPT ![Depth].pc = "pro", ![Depth].m = IF C.pc = "try" /\ @ > 0 THEN @ - 1 ELSE @]
       \/ /\ Top.t = "Cli"
          /\ IF "CliNoCatch" \in Mutations /\ pending = "Other" THEN G_Unwind ELSE AbsorbCore /\ SetPc("end")
    /\ UNCHANGED <<plan, faults, flog>>

Next == G_Enter \/ G_Env \/ G_EnvMid \/ G_Step \/ G_PartialPrint \/ G_Spin \/ G_Handle
Spec == Init /\ [][Next]_vars /\ WF_vars(Next)

\* termination OF THE DESIGN: no behaviour runs forever without reaching the end of the call
Termination == <>(phase = "done")
\* when it is over, the CLI has decided
Inv_Decided == (phase = "done" /\ Len(plan) > 0 /\ plan[1].t = "Cli") => exit \in {0, 1}
=============================================================================
