----------------------------- MODULE AESModesKat -----------------------------
(* C20 -- what TLC decides about AESModes.tla itself (no code involved).

   Scenarios (one initial state each, deterministic afterwards):
     "mode"   the twelve NIST SP 800-38A vectors F.1.1-F.1.6 (ECB-AES128/192/256) and F.2.1-F.2.6
              (CBC-AES128/192/256), four blocks each: encrypt pt, compare with the published
              ciphertext (Inv_ModeKnownAnswer), feed the result to the matching decrypt call and
              compare with pt (Inv_ModeDecryptInvertsEncrypt); plus the empty message.
     "wrap"   stream wrapper: encrypt m (lengths 0,1,15,16,17,31,32,33,48; three key sizes), then
              decrypt the produced stream: result = m, padding valid and removed exactly
              (Inv_WrapRoundTrip); the stream is 16 + Len(Pad(m)) bytes and starts with the IV.
     "objs"   three live wrapper objects (key, key2, key again): object 1 encrypts after 2 and 3 were built, its
              stream must be the SP 800-38A F.2.1 answer of ITS key and object 3 decrypts it (Inv_ObjectOwnKey);
              with Deviations = {"SharedWrapperKey"} (key shared by all objects) Inv_ObjectOwnKey fails.
     "reject" wrong key / IV / data lengths end in res = "ValueError" without touching the
              cipher state (Inv_Rejects); right lengths never do (Inv_NoSpuriousReject).
   Thm_Pad: Pad always adds 1..16 bytes up to the next multiple of 16, is valid, Unpad inverts it.
   Sens_* MUST be violated (sensitivity).  With Deviations = {"CbcChainPlain"} the CBC known
   answers fail from the second block on; with {"PadZeroWhenAligned"} Thm_Pad and the round trip
   of aligned messages fail.                                                                  *)
EXTENDS AESModes, AESVectors

VARIABLES scn, stage, mid
kvars == << key, w, st, rnd, ph, fn, iv, inp, outp, prev, res, wr, objs, scn, stage, mid >>

Ramp(n, a, b) == [i \in 1..n |-> (a * i + b) % 256]

Thm_Pad == \A n \in 0..64 :
    LET m == Ramp(n, 3, 1)  p == Pad(m) IN
    /\ Len(p) % 16 = 0 /\ Len(p) - n \in 1..16
    /\ SubSeq(p, 1, n) = m /\ \A i \in (n + 1)..Len(p) : p[i] = Len(p) - n
    /\ ValidPad(p) /\ Unpad(p) = m
Thm_ValidPadRejects ==
    /\ ~ ValidPad(<< >>) /\ ~ ValidPad(Ramp(15, 0, 1)) /\ ~ ValidPad(Ramp(16, 0, 0))
    /\ ~ ValidPad(Ramp(16, 0, 17)) /\ ~ ValidPad(Ramp(14, 0, 7) \o << 3, 2 >>)
    /\ ValidPad(Ramp(15, 0, 7) \o << 1 >>) /\ ValidPad(Ramp(16, 0, 16))

ModeScn(n, enc, dec, k, v, p, c) ==
    [kind |-> "mode", name |-> n, enc |-> enc, dec |-> dec, key |-> k, iv |-> v, pt |-> p, ct |-> c]
WrapScn(k, v, n) == [kind |-> "wrap", name |-> "wrap", key |-> k, iv |-> v, pt |-> Ramp(n, 11, 5)]
RejScn(f, k, v, d) == [kind |-> "reject", name |-> "reject", f |-> f, key |-> k, iv |-> v, data |-> d]
GoodScn(f, k, v, d) == [kind |-> "accept", name |-> "accept", f |-> f, key |-> k, iv |-> v, data |-> d]

WrapLens == {0, 1, 15, 16, 17, 31, 32, 33, 48}
ModeScenarios ==
    { ModeScn("F.1.1/F.1.2 ECB-AES128", "ecb_enc", "ecb_dec", K_A1, << >>, PT_F, ECB128),
      ModeScn("F.1.3/F.1.4 ECB-AES192", "ecb_enc", "ecb_dec", K_A2, << >>, PT_F, ECB192),
      ModeScn("F.1.5/F.1.6 ECB-AES256", "ecb_enc", "ecb_dec", K_A3, << >>, PT_F, ECB256),
      ModeScn("F.2.1/F.2.2 CBC-AES128", "cbc_enc", "cbc_dec", K_A1, IV_F, PT_F, CBC128),
      ModeScn("F.2.3/F.2.4 CBC-AES192", "cbc_enc", "cbc_dec", K_A2, IV_F, PT_F, CBC192),
      ModeScn("F.2.5/F.2.6 CBC-AES256", "cbc_enc", "cbc_dec", K_A3, IV_F, PT_F, CBC256),
      ModeScn("empty ECB", "ecb_enc", "ecb_dec", K_A1, << >>, << >>, << >>),
      ModeScn("empty CBC", "cbc_enc", "cbc_dec", K_A3, IV_F, << >>, << >>) }
WrapScenarios ==
    { WrapScn(K_A1, IV_F, n) : n \in WrapLens } \cup { WrapScn(K_A2, CT_B, n) : n \in {0, 16, 33} }
    \cup { WrapScn(K_A3, PT_B, n) : n \in {0, 15, 32} }
RejectScenarios ==
    { RejScn(f, Ramp(n, 1, 0), IV_F, PT_B) : f \in ModeFns, n \in {0, 1, 15, 17, 23, 25, 31, 33, 48} }
    \cup { RejScn(f, K_A1, Ramp(n, 1, 0), PT_B) : f \in {"cbc_enc", "cbc_dec"}, n \in {0, 1, 15, 17, 32} }
    \cup { RejScn(f, K_A2, IV_F, Ramp(n, 1, 0)) : f \in ModeFns, n \in {1, 15, 17, 31, 33} }
    \cup { RejScn("expand", Ramp(n, 1, 0), << >>, << >>) : n \in {0, 8, 15, 20, 28, 33, 64} }
AcceptScenarios ==
    { GoodScn(f, k, IV_F, PT_B) : f \in ModeFns, k \in {K_A1, K_A2, K_A3} }
    \cup { GoodScn("ecb_enc", K_A1, Ramp(n, 1, 0), PT_B) : n \in {0, 5, 40} }     \* ECB ignores the IV
\* object 1 must produce SP 800-38A F.2.1 (CBC-AES128) although objects with other keys were built after it
ObjScenarios ==
    { [kind |-> "objs", name |-> "objs", key |-> K_A1, key2 |-> k2, iv |-> IV_F, pt |-> PT_F, ct |-> CBC128]
        : k2 \in {K_A3, K_A2, Ramp(16, 5, 9)} }
Scenarios == ModeScenarios \cup WrapScenarios \cup RejectScenarios \cup AcceptScenarios \cup ObjScenarios

KInit == ModeInit /\ wr = WrNone /\ objs = NoObjs /\ scn \in Scenarios /\ stage = "start" /\ mid = << >>

Keep == UNCHANGED << scn, mid >>

KNext ==
    \* --- mode known answers
    \/ /\ scn.kind = "mode" /\ stage = "start" /\ ModeCall(scn.enc, scn.key, scn.iv, scn.pt)
       /\ stage' = "enc" /\ UNCHANGED << wr, objs >> /\ Keep
    \/ /\ scn.kind = "mode" /\ stage = "enc" /\ res = "ok" /\ ModeCall(scn.dec, scn.key, scn.iv, outp)
       /\ stage' = "dec" /\ UNCHANGED << wr, objs >> /\ Keep
    \* --- wrapper round trip
    \/ /\ scn.kind = "wrap" /\ stage = "start" /\ WrapCall("wrap_enc", scn.key, scn.pt)
       /\ stage' = "w_enc" /\ UNCHANGED << key, w, st, rnd, ph >> /\ UNCHANGED modevars /\ Keep
    \* --- several live wrapper objects: construct 1 (key), construct 2 (key2), construct 3 (key again),
    \*     encrypt with 1, decrypt the stream with 3 (same key, other object)
    \/ /\ scn.kind = "objs" /\ stage \in {"start", "o1", "o2"}
       /\ NewObj(CASE stage = "start" -> 1 [] stage = "o1" -> 2 [] OTHER -> 3,
                 IF stage = "o1" THEN scn.key2 ELSE scn.key)
       /\ stage' = (CASE stage = "start" -> "o1" [] stage = "o1" -> "o2" [] OTHER -> "o3")
       /\ UNCHANGED << key, w, st, rnd, ph, wr >> /\ UNCHANGED modevars /\ Keep
    \/ /\ scn.kind = "objs" /\ stage = "o3" /\ ObjCall("wrap_enc", 1, scn.pt)
       /\ stage' = "w_enc" /\ UNCHANGED << key, w, st, rnd, ph >> /\ UNCHANGED modevars /\ Keep
    \* the CBC call is made with the key of the wrapper call in progress (wr.key = the object's own key)
    \/ /\ scn.kind \in {"wrap", "objs"} /\ stage = "w_enc" /\ WrapSub("cbc_enc", wr.key, scn.iv, Pad(scn.pt))
       /\ UNCHANGED stage /\ Keep
    \/ /\ scn.kind \in {"wrap", "objs"} /\ stage = "w_enc" /\ wr.ph = "sub" /\ res = "ok"
       /\ WrapOutcomeOK("ret", iv \o outp)
       /\ mid' = iv \o outp /\ wr' = WrNone /\ stage' = "w_mid"
       /\ UNCHANGED << key, w, st, rnd, ph, scn, objs >> /\ UNCHANGED modevars
    \/ /\ scn.kind = "wrap" /\ stage = "w_mid" /\ WrapCall("wrap_dec", scn.key, mid)
       /\ stage' = "w_dec" /\ UNCHANGED << key, w, st, rnd, ph >> /\ UNCHANGED modevars /\ Keep
    \/ /\ scn.kind = "objs" /\ stage = "w_mid" /\ ObjCall("wrap_dec", 3, mid)
       /\ stage' = "w_dec" /\ UNCHANGED << key, w, st, rnd, ph >> /\ UNCHANGED modevars /\ Keep
    \/ /\ scn.kind \in {"wrap", "objs"} /\ stage = "w_dec" /\ WrapSub("cbc_dec", wr.key, IvOf(mid), PayloadOf(mid))
       /\ UNCHANGED stage /\ Keep
    \* --- rejection
    \/ /\ scn.kind \in {"reject", "accept"} /\ stage = "start" /\ ModeCall(scn.f, scn.key, scn.iv, scn.data)
       /\ stage' = "called" /\ UNCHANGED << wr, objs >> /\ Keep
    \* --- the machine itself
    \/ ModeStep /\ UNCHANGED << wr, objs, stage >> /\ Keep

KSpec == KInit /\ [][KNext]_kvars

Inv_ModeKnownAnswer ==
    (scn.kind = "mode" /\ stage = "enc") =>
        /\ (res = "ok" => outp = scn.ct)
        /\ \A j \in 0..3 : Len(outp) >= 16 * (j + 1) => BlockAt(outp, 16 * j) = BlockAt(scn.ct, 16 * j)
Inv_ModeDecryptInvertsEncrypt == (scn.kind = "mode" /\ stage = "dec" /\ res = "ok") => outp = scn.pt
Inv_WrapStream ==
    (scn.kind \in {"wrap", "objs"} /\ stage \in {"w_mid", "w_dec"}) =>
        /\ Len(mid) = 16 + 16 * ((Len(scn.pt) \div 16) + 1)
        /\ SubSeq(mid, 1, 16) = scn.iv
Inv_WrapRoundTrip ==
    (scn.kind \in {"wrap", "objs"} /\ stage = "w_dec" /\ wr.ph = "sub" /\ res = "ok") =>
        /\ ValidPad(outp) /\ Unpad(outp) = scn.pt
        /\ WrapOutcomeOK("ret", scn.pt) /\ ~ WrapDontCare
        /\ ~ WrapOutcomeOK("ret", outp) /\ ~ WrapOutcomeOK("raise", "ValueError")
\* each object works under ITS OWN key: object 1's stream is the published CBC-AES128 answer of key 1
Inv_ObjectOwnKey ==
    (scn.kind = "objs") =>
        /\ (stage \in {"w_mid", "w_dec"} => SubSeq(mid, 17, 80) = scn.ct)
        /\ (stage \in {"o3", "w_enc", "w_mid", "w_dec"} =>
               objs = (1 :> scn.key) @@ (2 :> scn.key2) @@ (3 :> scn.key))
Inv_Rejects == (scn.kind = "reject" /\ stage = "called") => (res = "ValueError" /\ ph = "idle" /\ fn = "none")
Inv_NoSpuriousReject == (scn.kind # "reject") => res # "ValueError"
Inv_Termination == (res = "ok") => (ph = "ready" /\ Len(outp) = Len(inp))

\* sensitivity: MUST be violated
Sens_NoCbcAnswer == ~ (scn.kind = "mode" /\ scn.enc = "cbc_enc" /\ stage = "enc" /\ res = "ok" /\ outp = scn.ct)
Sens_NoWrapRoundTrip == ~ (scn.kind = "wrap" /\ stage = "w_dec" /\ res = "ok" /\ Len(scn.pt) = 33)
Sens_NoReject == res # "ValueError"
=============================================================================
