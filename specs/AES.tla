-------------------------------- MODULE AES --------------------------------
(* C20 -- the AES block cipher of FIPS-197, written from first principles.

   Nothing in this module is copied from the code under verification: the field GF(2^8) is
   built from the AES polynomial x^8+x^4+x^3+x+1, the multiplicative inverse is a CHOOSE, the
   S-box is the affine map of FIPS-197 5.1.1 applied to the inverse, the inverse S-box is the
   CHOOSE-inverse of the S-box, the six multiplication tables are GMul(_, c), Rcon[j] = x^(j-1).

   Mirrors  sharepoint2text/parsing/extractors/pdf/_pypdf_aes_fallback.py :
       _SBOX, _INV_SBOX, _MUL2/3/9/11/13/14, _xtime, _gf_mul           -> SBox, InvSBox, Mul*, XTime, GMul
       _add_round_key, _sub_bytes, _shift_rows, _mix_columns + inverses -> the state operators  
       _expand_key (Nk = 4 / 6 / 8)                                     -> ExpandWord (one word per step)
       _aes_encrypt_block / _aes_decrypt_block                          -> the E_* / D_* actions

   The cipher is a STEP MACHINE (one round function = one action, the 16-byte state in the
   variable st, column-major as in FIPS-197 3.4: byte i (1-based) is row (i-1)%4, column
   (i-1)\div 4).  TLC evaluates function constructors lazily, a closed-form Cipher(key, block)
   expression does not terminate; the step machine encrypts a block in 4*Nr+2 states.

   Order of the inverse cipher = FIPS-197 5.3 (InvShiftRows, InvSubBytes, AddRoundKey,
   InvMixColumns), which is also the code's order.

   CONSTANT Deviations: named wrong steps used ONLY for sensitivity runs (to show that the
   known-answer invariants are not vacuous).  The reference design is Deviations = {}.  No
   deviation of the library from the reference is known for C20.                             *)
EXTENDS Naturals, Sequences, Bitwise, TLC

CONSTANT Deviations
DeviationNames == {"NoSubWord256", "CbcChainPlain", "PadZeroWhenAligned", "SharedWrapperKey"}
ASSUME Deviations \subseteq DeviationNames

a \oplus b == a ^^ b            \* ^^ is not associative in the grammar; \oplus is left-associative

Byte == 0..255
Idx  == 1..16

(* ------------------------------ GF(2^8) ------------------------------ *)
XTime(a) == IF 2 * a >= 256 THEN (2 * a - 256) \oplus 27 ELSE 2 * a     \* times x, mod 0x11B

RECURSIVE GMul(_, _)
GMul(a, b) == IF b = 0 THEN 0
              ELSE (IF b % 2 = 1 THEN a ELSE 0) \oplus GMul(XTime(a), b \div 2)

GInv(a) == IF a = 0 THEN 0 ELSE CHOOSE x \in 1..255 : GMul(a, x) = 1

Bit(x, i) == (x \div (2 ^ i)) % 2

\* FIPS-197 (5.1): b'_i = b_i + b_(i+4) + b_(i+5) + b_(i+6) + b_(i+7) + c_i   with c = 0x63
AffineBit(x, i) == (Bit(x, i) + Bit(x, (i + 4) % 8) + Bit(x, (i + 5) % 8) + Bit(x, (i + 6) % 8)
                    + Bit(x, (i + 7) % 8) + Bit(99, i)) % 2
Affine(x) == AffineBit(x, 0) + 2 * AffineBit(x, 1) + 4 * AffineBit(x, 2) + 8 * AffineBit(x, 3)
             + 16 * AffineBit(x, 4) + 32 * AffineBit(x, 5) + 64 * AffineBit(x, 6) + 128 * AffineBit(x, 7)

\* constant-level, evaluated once by TLC; TLCEval turns the lazy constructor into a table
SBox    == TLCEval([b \in Byte |-> Affine(GInv(b))])
InvSBox == TLCEval([b \in Byte |-> CHOOSE x \in Byte : SBox[x] = b])
Mul2  == TLCEval([b \in Byte |-> GMul(b, 2)])
Mul3  == TLCEval([b \in Byte |-> GMul(b, 3)])
Mul9  == TLCEval([b \in Byte |-> GMul(b, 9)])
Mul11 == TLCEval([b \in Byte |-> GMul(b, 11)])
Mul13 == TLCEval([b \in Byte |-> GMul(b, 13)])
Mul14 == TLCEval([b \in Byte |-> GMul(b, 14)])

RECURSIVE XPow(_)
XPow(n) == IF n = 0 THEN 1 ELSE XTime(XPow(n - 1))
Rcon == TLCEval([j \in 1..10 |-> XPow(j - 1)])     \* 10 = the most any key size uses (Nk = 4)

(* --------------------------- state operators --------------------------- *)
Row(i) == (i - 1) % 4
Col(i) == (i - 1) \div 4

AddRoundKey(s, k) == [i \in Idx |-> s[i] \oplus k[i]]
SubBytes(s)       == [i \in Idx |-> SBox[s[i]]]
InvSubBytes(s)    == [i \in Idx |-> InvSBox[s[i]]]

\* row r is rotated left by r: s'[r, c] = s[r, (c + r) mod 4]
ShiftSrc    == TLCEval([i \in Idx |-> Row(i) + 4 * ((Col(i) + Row(i)) % 4) + 1])
InvShiftSrc == TLCEval([i \in Idx |-> Row(i) + 4 * ((Col(i) + 4 - Row(i)) % 4) + 1])
ShiftRows(s)    == [i \in Idx |-> s[ShiftSrc[i]]]
InvShiftRows(s) == [i \in Idx |-> s[InvShiftSrc[i]]]

\* one column: multiplication by the circulant matrix (02 03 01 01) resp. (0e 0b 0d 09)
MixCol(a) == << Mul2[a[1]] \oplus Mul3[a[2]] \oplus a[3] \oplus a[4],
                a[1] \oplus Mul2[a[2]] \oplus Mul3[a[3]] \oplus a[4],
                a[1] \oplus a[2] \oplus Mul2[a[3]] \oplus Mul3[a[4]],
                Mul3[a[1]] \oplus a[2] \oplus a[3] \oplus Mul2[a[4]] >>
InvMixCol(a) == << Mul14[a[1]] \oplus Mul11[a[2]] \oplus Mul13[a[3]] \oplus Mul9[a[4]],
                   Mul9[a[1]] \oplus Mul14[a[2]] \oplus Mul11[a[3]] \oplus Mul13[a[4]],
                   Mul13[a[1]] \oplus Mul9[a[2]] \oplus Mul14[a[3]] \oplus Mul11[a[4]],
                   Mul11[a[1]] \oplus Mul13[a[2]] \oplus Mul9[a[3]] \oplus Mul14[a[4]] >>
ColOf(s, c) == << s[4 * c + 1], s[4 * c + 2], s[4 * c + 3], s[4 * c + 4] >>       \* c in 0..3
MixColumns(s) ==
    LET c0 == MixCol(ColOf(s, 0))  c1 == MixCol(ColOf(s, 1))
        c2 == MixCol(ColOf(s, 2))  c3 == MixCol(ColOf(s, 3))
    IN  c0 \o c1 \o c2 \o c3
InvMixColumns(s) ==
    LET c0 == InvMixCol(ColOf(s, 0))  c1 == InvMixCol(ColOf(s, 1))
        c2 == InvMixCol(ColOf(s, 2))  c3 == InvMixCol(ColOf(s, 3))
    IN  c0 \o c1 \o c2 \o c3

(* ----------------------------- key schedule ----------------------------- *)
ValidKeyLen(n) == n \in {16, 24, 32}
NkOf(k) == Len(k) \div 4
NrOf(k) == NkOf(k) + 6
NWords(k) == 4 * (NrOf(k) + 1)

RotWord(t) == << t[2], t[3], t[4], t[1] >>
SubWord(t) == << SBox[t[1]], SBox[t[2]], SBox[t[3]], SBox[t[4]] >>
XorWord(a, b) == << a[1] \oplus b[1], a[2] \oplus b[2], a[3] \oplus b[3], a[4] \oplus b[4] >>
KeyWord(k, i) == << k[4 * i + 1], k[4 * i + 2], k[4 * i + 3], k[4 * i + 4] >>     \* i is 0-based

\* FIPS-197 5.2, word i = Len(ww) (0-based) from the words before it
NextWord(ww, nk) ==
    LET i == Len(ww)
        t == ww[i]
        g == IF i % nk = 0 THEN XorWord(SubWord(RotWord(t)), << Rcon[i \div nk], 0, 0, 0 >>)
             ELSE IF nk > 6 /\ i % nk = 4 /\ "NoSubWord256" \notin Deviations THEN SubWord(t)
             ELSE t
    IN  XorWord(ww[i - nk + 1], g)

RoundKey(ww, r) == [i \in Idx |-> ww[4 * r + Col(i) + 1][Row(i) + 1]]             \* r in 0..Nr

(* ----------------------------- step machine ----------------------------- *)
VARIABLES key,   \* the cipher key, a sequence of 16 / 24 / 32 bytes
          w,     \* key schedule: the words produced so far (4-tuples of bytes)
          st,    \* the AES state, 16 bytes
          rnd,   \* index of the round key the next AddRoundKey uses
          ph     \* "idle" | "keyexp" | "ready" | "E_ark" "E_sub" "E_shift" "E_mix" "E_out"
                 \*                             | "D_ark" "D_shift" "D_sub" "D_mix" "D_out"
aesvars == << key, w, st, rnd, ph >>

Zero16 == [i \in Idx |-> 0]
AESInit == key = << >> /\ w = << >> /\ st = Zero16 /\ rnd = 0 /\ ph = "idle"

SetKey(k) ==
    /\ ph \in {"idle", "ready"}
    /\ ValidKeyLen(Len(k))
    /\ key' = k /\ w' = << >> /\ ph' = "keyexp"
    /\ UNCHANGED << st, rnd >>

ExpandWord ==
    /\ ph = "keyexp"
    /\ Len(w) < NWords(key)
    /\ w' = Append(w, IF Len(w) < NkOf(key) THEN KeyWord(key, Len(w)) ELSE NextWord(w, NkOf(key)))
    /\ ph' = (IF Len(w) + 1 = NWords(key) THEN "ready" ELSE "keyexp")
    /\ UNCHANGED << key, st, rnd >>

BeginEnc(b) == /\ ph = "ready" /\ Len(b) = 16
               /\ st' = b /\ rnd' = 0 /\ ph' = "E_ark" /\ UNCHANGED << key, w >>
BeginDec(b) == /\ ph = "ready" /\ Len(b) = 16
               /\ st' = b /\ rnd' = NrOf(key) /\ ph' = "D_ark" /\ UNCHANGED << key, w >>

\* Cipher (FIPS-197 Fig. 5): ARK(0); Nr-1 x (SUB, SHIFT, MIX, ARK(r)); SUB, SHIFT, ARK(Nr)
E_ARK   == /\ ph = "E_ark"
           /\ st' = AddRoundKey(st, RoundKey(w, rnd))
           /\ ph' = (IF rnd = NrOf(key) THEN "E_out" ELSE "E_sub")
           /\ rnd' = (IF rnd = NrOf(key) THEN rnd ELSE rnd + 1)
           /\ UNCHANGED << key, w >>
E_SUB   == ph = "E_sub"   /\ st' = SubBytes(st)   /\ ph' = "E_shift" /\ UNCHANGED << key, w, rnd >>
E_SHIFT == ph = "E_shift" /\ st' = ShiftRows(st)
           /\ ph' = (IF rnd = NrOf(key) THEN "E_ark" ELSE "E_mix") /\ UNCHANGED << key, w, rnd >>
E_MIX   == ph = "E_mix"   /\ st' = MixColumns(st) /\ ph' = "E_ark"   /\ UNCHANGED << key, w, rnd >>

\* InvCipher (Fig. 12): ARK(Nr); Nr-1 x (ISHIFT, ISUB, ARK(r), IMIX); ISHIFT, ISUB, ARK(0)
D_ARK    == /\ ph = "D_ark"
            /\ st' = AddRoundKey(st, RoundKey(w, rnd))
            /\ ph' = (IF rnd = 0 THEN "D_out" ELSE IF rnd = NrOf(key) THEN "D_shift" ELSE "D_mix")
            /\ rnd' = (IF rnd = 0 THEN 0 ELSE rnd - 1)
            /\ UNCHANGED << key, w >>
D_ISHIFT == ph = "D_shift" /\ st' = InvShiftRows(st)  /\ ph' = "D_sub"   /\ UNCHANGED << key, w, rnd >>
D_ISUB   == ph = "D_sub"   /\ st' = InvSubBytes(st)   /\ ph' = "D_ark"   /\ UNCHANGED << key, w, rnd >>
D_IMIX   == ph = "D_mix"   /\ st' = InvMixColumns(st) /\ ph' = "D_shift" /\ UNCHANGED << key, w, rnd >>

BlockStep == E_ARK \/ E_SUB \/ E_SHIFT \/ E_MIX \/ D_ARK \/ D_ISHIFT \/ D_ISUB \/ D_IMIX

BlockDone == ph \in {"E_out", "D_out"}
EndBlock  == BlockDone /\ ph' = "ready" /\ UNCHANGED << key, w, st, rnd >>     \* st keeps the output
=============================================================================
