--------------------------- MODULE DocxWalkCheck ---------------------------
(* TLC theorem for the DOCX walk model: for every document of the DocGen universe (numbered by the
   harness, read from DOCS_FILE) the modelled walk output satisfies Doc!Fidelity.  One state per
   document.  With a pre-fix deviation in WalkDev the invariant must fail (sensitivity).      *)
EXTENDS DocxWalk, Json, IOUtils

Docs == JsonDeserialize(IOEnv.DOCS_FILE)
VARIABLE i
Init == i \in 1..Len(Docs)
Next == UNCHANGED i
Spec == Init /\ [][Next]_i
Inv_WalkOK == WalkOK(Docs[i])
=============================================================================
