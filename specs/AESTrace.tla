------------------------------ MODULE AESTrace ------------------------------
(* C20 -- code -> spec.  Validates what wrappers around the module-level functions of
   _pypdf_aes_fallback.py recorded, at round granularity, against AES.tla / AESModes.tla.

   Events (bytes are ints 0..255, byte strings are JSON arrays):
     Table   {name, v}         one of the code's eight 256-entry tables (+ "RCON": entries 1..10)
     Unit    {op, in, out, k, exc}   one direct call of a round function / padding helper
     Fresh   {ivs}             the IVs of repeated CryptAES.encrypt calls (length + distinctness)
     New     {obj, key}        CryptAES(key) constructed; obj = 1, 2, ... numbers the live wrapper objects
     Call    {fn, obj, data}   wrap_enc / wrap_dec on live object obj (obj = 0: one-shot object, key in the event);
                               a trace may be a HISTORY of several New / Call..Ret on several live objects
     Call    {fn, key, iv, data}     a top-level call:  ecb_enc ecb_dec cbc_enc cbc_dec expand
                                     wrap_enc wrap_dec   (iv / data = [] where not applicable)
     Sub     {fn, key, iv, data}     the CBC call a wrapper call makes
     KW      {w}               the round keys the call obtained (_get_round_keys), one word per event
     Blk     {in}              _aes_encrypt_block / _aes_decrypt_block entered with this block
     ARK {k, s}  SUB SHIFT MIX ISHIFT ISUB IMIX {s}    state AFTER the round function (k = round key used)
     BlkOut  {out}             the block function returned
     SubRet {out} / SubRaise {exc}     the inner CBC call ended
     Ret {out} / Raise {exc}           the top-level call ended
     Perms   {p1, ok}          pypdf's AlgV5.verify_perms answered ok for the expected 12-byte prefix p1
   Calls made through the names patch_pypdf_fallback_aes() binds into pypdf are recorded under the function
   the NAME promises (pypdf._encryption.aes_ecb_decrypt -> fn = "ecb_dec"), whatever object is bound there.
   Every event must be the specification's next step with exactly the logged values; the machine
   state (key schedule w, state st, round rnd, phase ph, chaining block prev, output so far) is
   the specification's, so a logged step is compared with the spec action applied to the previous
   VALIDATED state.  A trace is accepted iff TLC walks it to the end.                          *)
EXTENDS AESModes, Json, IOUtils, TLCExt

Traces == JsonDeserialize(IOEnv.TRACE_FILE)

VARIABLES tid, l
vars == << tid, l, key, w, st, rnd, ph, fn, iv, inp, outp, prev, res, wr, objs >>

Ev == Traces[tid].ev[l]
IsEvent(a) == l <= Len(Traces[tid].ev) /\ Ev.a = a /\ l' = l + 1 /\ UNCHANGED tid

AesSame  == UNCHANGED << key, w, st, rnd, ph >>
ModeSame == UNCHANGED << fn, iv, inp, outp, prev, res >>
AllSame  == AesSame /\ ModeSame /\ UNCHANGED << wr, objs >>

(* ---- tables: exhaustive over the 256 inputs of each ---- *)
SpecTable(name) == CASE name = "SBOX" -> SBox [] name = "INV_SBOX" -> InvSBox
                     [] name = "MUL2" -> Mul2 [] name = "MUL3" -> Mul3 [] name = "MUL9" -> Mul9
                     [] name = "MUL11" -> Mul11 [] name = "MUL13" -> Mul13 [] name = "MUL14" -> Mul14
TableNames == {"SBOX", "INV_SBOX", "MUL2", "MUL3", "MUL9", "MUL11", "MUL13", "MUL14"}
TraceTable ==
    /\ IsEvent("Table")
    /\ IF Ev.name = "RCON" THEN Ev.v = Rcon            \* entries 1..10; higher ones are never used
       ELSE /\ Ev.name \in TableNames
            /\ Len(Ev.v) = 256
            /\ \A b \in Byte : Ev.v[b + 1] = SpecTable(Ev.name)[b]
    /\ AllSame

(* ---- direct calls of the round functions and padding helpers ---- *)
Is16(s) == Len(s) = 16
UnitOK(e) ==
    CASE e.op = "shift"  -> Is16(e.out) /\ e.out = ShiftRows(e.in)
      [] e.op = "ishift" -> Is16(e.out) /\ e.out = InvShiftRows(e.in)
      [] e.op = "mix"    -> Is16(e.out) /\ e.out = MixColumns(e.in)
      [] e.op = "imix"   -> Is16(e.out) /\ e.out = InvMixColumns(e.in)
      [] e.op = "sub"    -> Is16(e.out) /\ e.out = SubBytes(e.in)
      [] e.op = "isub"   -> Is16(e.out) /\ e.out = InvSubBytes(e.in)
      [] e.op = "ark"    -> Is16(e.out) /\ e.out = AddRoundKey(e.in, e.k)
      [] e.op = "pad"    -> e.exc = "" /\ e.out = Pad(e.in)
      \* valid padding is removed exactly; anything else (empty input, invalid padding): DON'T-CARE
      [] e.op = "unpad"  -> ValidPad(e.in) => (e.exc = "" /\ e.out = Unpad(e.in))
TraceUnit == IsEvent("Unit") /\ UnitOK(Ev) /\ AllSame

TraceFresh ==
    /\ IsEvent("Fresh")
    /\ \A i \in 1..Len(Ev.ivs) : Len(Ev.ivs[i]) = 16
    /\ \A i \in 1..Len(Ev.ivs) : \A j \in (i + 1)..Len(Ev.ivs) : Ev.ivs[i] # Ev.ivs[j]
    /\ AllSame

(* ---- calls ---- *)
TraceCall ==
    /\ IsEvent("Call")
    /\ IF Ev.fn \in WrapFns
       THEN /\ IF Ev.obj = 0 THEN WrapCall(Ev.fn, Ev.key, Ev.data)       \* one-shot object, key in the event
                             ELSE ObjCall(Ev.fn, Ev.obj, Ev.data)       \* the key of ITS OWN object (objs)
            /\ AesSame /\ ModeSame
       ELSE /\ wr.ph = "none" /\ Ev.fn \in ModeFns \cup {"expand"}
            /\ ModeCall(Ev.fn, Ev.key, Ev.iv, Ev.data) /\ UNCHANGED << wr, objs >>

TraceNew == IsEvent("New") /\ NewObj(Ev.obj, Ev.key) /\ AesSame /\ ModeSame /\ UNCHANGED wr

TraceSub == IsEvent("Sub") /\ WrapSub(Ev.fn, Ev.key, Ev.iv, Ev.data)

TraceKW ==
    /\ IsEvent("KW")
    /\ ExpandWord /\ w'[Len(w')] = Ev.w
    /\ ModeSame /\ UNCHANGED << wr, objs >>

TraceBlk == IsEvent("Blk") /\ FeedBlock /\ st' = Ev.in /\ UNCHANGED << wr, objs >>

Step(a, A) == IsEvent(a) /\ A /\ st' = Ev.s /\ ModeSame /\ UNCHANGED << wr, objs >>
TraceARK    == Step("ARK", E_ARK \/ D_ARK) /\ Ev.k = RoundKey(w, rnd)
TraceSUB    == Step("SUB", E_SUB)
TraceSHIFT  == Step("SHIFT", E_SHIFT)
TraceMIX    == Step("MIX", E_MIX)
TraceISHIFT == Step("ISHIFT", D_ISHIFT)
TraceISUB   == Step("ISUB", D_ISUB)
TraceIMIX   == Step("IMIX", D_IMIX)

TraceBlkOut == IsEvent("BlkOut") /\ CollectBlock /\ st = Ev.out /\ UNCHANGED << wr, objs >>

TraceSubRet == IsEvent("SubRet") /\ wr.ph = "sub" /\ ModeReturn /\ Ev.out = outp /\ UNCHANGED << wr, objs >>
TraceSubRaise ==
    /\ IsEvent("SubRaise") /\ wr.ph = "sub" /\ res = "ValueError" /\ Ev.exc = "ValueError"
    /\ AllSame

TraceRet ==
    /\ IsEvent("Ret")
    /\ IF wr.ph = "none"
       THEN ModeReturn /\ Ev.out = outp /\ UNCHANGED << wr, objs >>
       ELSE /\ wr.ph \in {"called", "sub"} /\ (wr.ph = "sub" => res # "run")
            /\ WrapOutcomeOK("ret", Ev.out) /\ WrapEnd /\ AesSame /\ ModeSame

TraceRaise ==
    /\ IsEvent("Raise")
    /\ IF wr.ph = "none"
       THEN /\ res = "ValueError" /\ Ev.exc = "ValueError"
            /\ res' = "raised" /\ AesSame /\ UNCHANGED << fn, iv, inp, outp, prev, wr, objs >>
       ELSE /\ wr.ph \in {"called", "sub"}
            /\ WrapOutcomeOK("raise", Ev.exc) /\ WrapEnd /\ AesSame /\ ModeSame

\* end to end through pypdf: AlgV5.verify_perms(key, perms, p, meta) ECB-decrypts the /Perms block (the Call .. Ret
\* before this event, recorded under the NAME pypdf calls) and answers whether the first 12 bytes are
\* p1 = LE32(p) || ff ff ff ff || 'T'/'F' || "adb" (ISO 32000-2 7.6.4.4.12).  outp is the specification's decryption.
TracePerms ==
    /\ IsEvent("Perms")
    /\ wr.ph = "none" /\ res = "ok" /\ Len(outp) = 16 /\ Len(Ev.p1) = 12
    /\ Ev.ok = (SubSeq(outp, 1, 12) = Ev.p1)
    /\ AllSame

TraceInit == tid \in 1..Len(Traces) /\ l = 1 /\ ModeInit /\ wr = WrNone /\ objs = NoObjs

TraceNext == \/ TraceTable \/ TraceUnit \/ TraceFresh
             \/ TraceCall \/ TraceNew \/ TraceSub \/ TraceKW \/ TraceBlk
             \/ TraceARK \/ TraceSUB \/ TraceSHIFT \/ TraceMIX \/ TraceISHIFT \/ TraceISUB \/ TraceIMIX
             \/ TraceBlkOut \/ TraceSubRet \/ TraceSubRaise \/ TraceRet \/ TraceRaise \/ TracePerms

TraceSpec == TraceInit /\ [][TraceNext]_vars

TraceAccept ==
    /\ (l = Len(Traces[tid].ev) + 1) => PrintT(<< "ACCEPT", tid >>)
    /\ (IOEnv.MBV_PROGRESS = "1") => PrintT(<< "AT", tid, l >>)
=============================================================================
