---------------------------- MODULE PptCleanTrace ----------------------------
(* code -> spec binding of PptClean.tla: the lines the real _clean_text returns for a rendered text atom, as word ids,
   are PptClean!Clean of the line kinds (with the deviation of KF-C02-16 while it is open).              *)
EXTENDS PptCleanDefs, Json, IOUtils, TLCExt

Traces == JsonDeserialize(IOEnv.TRACE_FILE)
VARIABLES tid, l
tvars == <<tid, l>>
Ev == Traces[tid].ev[l]
IsEvent(x) == l <= Len(Traces[tid].ev) /\ Ev.a = x /\ l' = l + 1 /\ UNCHANGED tid

TraceClean == IsEvent("Clean") /\ Ev.out = Clean(Ev.lines)

TraceInit == tid \in 1..Len(Traces) /\ l = 1
TraceNext == TraceClean
TraceSpec == TraceInit /\ [][TraceNext]_tvars
TraceAccept ==
    /\ (l = Len(Traces[tid].ev) + 1) => PrintT(<<"ACCEPT", tid>>)
    /\ (IOEnv.MBV_PROGRESS = "1") => PrintT(<<"AT", tid, l>>)
=============================================================================
