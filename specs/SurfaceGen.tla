----------------------------- MODULE SurfaceGen -----------------------------
(* spec -> code for C01: the single-fault behaviours of Surface, enumerated exhaustively.
   Configuration: MaxFaults = 1, AllowLocal = FALSE, Deviations = {}, Mutations = {}.
   Every reachable state with phase = "done" is one CASE: the plan (entry point, layers, extractor
   kind, members), the fault (flog[1]: frame depth, layer, stage, class, results delivered before
   it, members left) or no fault (flog = <<>>), and the specification's OUTCOME for it
   (out, yielded, stdout, stderr, exit).  The driver reads the cases from TLC's state dump,
   concretises each one as exception injections at the real lines of the real layer functions,
   and compares the observed outcome with the dumped one.                                   *)
EXTENDS Surface

GenSpec == Init /\ [][Next]_vars
\* a fault in the internal ArchiveLoop layer has several admissible outcomes (DON'T-CARE inside
\* that layer): all of them are in the dump, the driver accepts any of them
GenTypeOK == TypeOK /\ faults <= 1
=============================================================================
