------------------------------ MODULE SerialGen ------------------------------
(* C05: (1) the theorem run and (2) the value-template enumeration.

   One state = one (hint shape, well-typed abstract value) pair.
   Three steps per state: pick the shape h, pick the value v \in W(h, 1), (meta only) mark it chk -- the
   invariants are guarded by chk so that TLC's workers share their evaluation.
   W(h, lvl) is the set of well-typed values of hint h, containers at nesting level lvl being at most
   Widths[lvl] wide (1 beyond the end of Widths); strings, dict keys and type names come from the
   vocabularies below, which contain the encoder's own markers.

   Mode = "meta":      Shapes are the field hints of the two-class meta schema MetaSchema (one field
                       per shape of hint that occurs in the library's registry); the value is put into
                       that field of a Box instance and the invariants below state C05 for it.
   Mode = "templates": Shapes is the set of generation hints exported from the running code
                       (constant GenShapes of the generated module SerialSchema, see c05.py); dataclass
                       positions are placeholders [t |-> "dcref", i |-> n] which the concretiser expands
                       with the real class.  The states are dumped and replayed; nothing is checked here. *)
EXTENDS Serial, SerialSchema

CONSTANTS Mode, StrVocab, TypeName      \* Widths, KeySeq, GenShapes: module SerialSchema

VARIABLES h, v, chk
vars == <<h, v, chk>>

Wd(lvl) == IF lvl <= Len(Widths) THEN Widths[lvl] ELSE 1
SeqsUpTo(S, n) == UNION { [1..m -> S] : m \in 0..n }
NK == Len(KeySeq)
KVs(S, n) ==
    {<<>>}
    \cup (IF n >= 1 THEN { << <<KeySeq[a], x>> >> : a \in 1..NK, x \in S } ELSE {})
    \cup (IF n >= 2 THEN UNION { { << <<KeySeq[a], x>>, <<KeySeq[b], y>> >> : b \in (a + 1)..NK, x \in S, y \in S } :
                                   a \in 1..NK }
          ELSE {})

BytesIds == {"", "000000"}
StrVals == { Str(s) : s \in StrVocab }
Prim(p) ==
    CASE p = "str"   -> StrVals
      [] p = "int"   -> { [t |-> "int", n |-> "0"], [t |-> "int", n |-> "7"] }
      [] p = "bool"  -> { [t |-> "bool", tf |-> TRUE], [t |-> "bool", tf |-> FALSE] }
      [] p = "float" -> { [t |-> "num", s |-> "1.5"] }
Scalars == {Null, [t |-> "bool", tf |-> TRUE], [t |-> "int", n |-> "0"], [t |-> "num", s |-> "1.5"]} \cup StrVals
\* values of a dict in an Any position: what a marker key would need to be taken for the encoder's wrapper
\* (a type name, valid base64, invalid base64, a non-string) -- kept small, the keys carry the variety
DictVals == {Null, [t |-> "int", n |-> "0"], Str(TypeName), Str("AAAA"), Str("w")}
BytesVals == { [t |-> "bytes", b |-> b] : b \in BytesIds }
Positions == {"start", "mid", "end"}            \* where a caller may have left the stream before to_json
BytesIOVals == { [t |-> "bytesio", b |-> b, pos |-> ps] : b \in BytesIds, ps \in Positions }

(* ---- meta schema: one field per shape of hint found in the registry ---- *)
PStr == [k |-> "prim", p |-> "str"]
LeafDefault == [t |-> "dc", c |-> "Leaf", f |-> << <<"s", Str("")>>, <<"b", [t |-> "bytes", b |-> ""]>>, <<"o", Null>> >>]
LeafHint == [k |-> "dc", c |-> "Leaf"]
EmptyList == [t |-> "list", xs |-> <<>>]
MetaSchema ==
  [ Leaf |-> << <<"s", PStr, [t |-> "required"]>>,
               <<"b", [k |-> "bytes"], [t |-> "bytes", b |-> ""]>>,
               <<"o", [k |-> "opt", of |-> [k |-> "bytesio"]], Null>> >>,
    Box  |-> << <<"s",  PStr, Str("")>>,                                                    \* str
               <<"os", [k |-> "opt", of |-> PStr], Null>>,                                  \* Optional[str]
               <<"us", [k |-> "other", g |-> [k |-> "opt", of |-> PStr]], Null>>,           \* str | None
               <<"n",  [k |-> "opt", of |-> [k |-> "prim", p |-> "int"]], Null>>,          \* Optional[int]
               <<"ls", [k |-> "list", of |-> PStr], EmptyList>>,                            \* List[str]
               <<"t3", [k |-> "list", of |-> [k |-> "list", of |-> [k |-> "list", of |-> PStr]]], EmptyList>>,
               <<"ld", [k |-> "list", of |-> [k |-> "dict", of |-> PStr]], EmptyList>>,     \* List[Dict[str, str]]
               <<"la", [k |-> "list", of |-> [k |-> "dict", of |-> [k |-> "any"]]], EmptyList>>,  \* List[Dict[str, Any]]
               <<"x",  [k |-> "list", of |-> [k |-> "list", of |-> [k |-> "any"]]], EmptyList>>,  \* List[List[Any]]
               <<"b",  [k |-> "bytes"], [t |-> "bytes", b |-> ""]>>,                        \* bytes
               <<"ob", [k |-> "opt", of |-> [k |-> "bytes"]], Null>>,                       \* Optional[bytes]
               <<"o",  [k |-> "opt", of |-> [k |-> "bytesio"]], Null>>,                     \* Optional[io.BytesIO]
               <<"m",  LeafHint, LeafDefault>>,                                             \* nested dataclass
               <<"lm", [k |-> "list", of |-> LeafHint], EmptyList>>,                        \* List[DC]
               <<"p",  [k |-> "list", of |-> [k |-> "other", g |-> LeafHint]], EmptyList>>, \* list[Protocol]
               <<"a",  [k |-> "any"], Null>> >> ]                                           \* Any

MetaE == [ schema |-> MetaSchema,
           enc |-> [b \in BytesIds |-> IF b = "" THEN "" ELSE "AAAA"],
           \* base64.b64decode drops characters outside the alphabet: "_type" decodes like "type"
           dec |-> [s \in StrVocab \cup {"", "AAAA"} |->
                      CASE s = "" -> "" [] s = "AAAA" -> "000000" [] s \in {"_type", "Leaf"} -> "b6ca5e"
                        [] OTHER -> "ERR"] ]

LeafVals == { [t |-> "dc", c |-> "Leaf", f |-> << <<"s", s>>, <<"b", b>>, <<"o", o>> >>] :
                 s \in { Str(TypeName), Str("_bytes") }, b \in BytesVals, o \in {Null} \cup { [t |-> "bytesio", b |-> "000000", pos |-> ps] : ps \in Positions } }
DCVals(c) == IF Mode = "meta" THEN LeafVals ELSE { [t |-> "dcref", i |-> n] : n \in 0..1 }

AnyVals(lvl) ==
    Scalars \cup BytesVals \cup { [t |-> "bytesio", b |-> "000000", pos |-> ps] : ps \in {"start", "end"} } \cup DCVals("")
    \cup { [t |-> "dict", kv |-> kv] : kv \in KVs(DictVals, Wd(lvl)) }
    \cup { [t |-> "list", xs |-> xs] : xs \in SeqsUpTo(Scalars, Wd(lvl)) }

RECURSIVE W(_, _)
W(hh, lvl) ==
    CASE hh.k = "prim"    -> Prim(hh.p)
      [] hh.k = "opt"     -> {Null} \cup W(hh.of, lvl)
      [] hh.k = "list"    -> { [t |-> "list", xs |-> xs] : xs \in SeqsUpTo(W(hh.of, lvl + 1), Wd(lvl)) }
      [] hh.k = "dict"    -> { [t |-> "dict", kv |-> kv] : kv \in KVs(W(hh.of, lvl + 1), Wd(lvl)) }
      [] hh.k = "bytes"   -> BytesVals
      [] hh.k = "bytesio" -> BytesIOVals
      [] hh.k = "dc"      -> DCVals(hh.c)
      [] hh.k = "any"     -> AnyVals(lvl)
      [] hh.k = "other"   -> W(hh.g, lvl)
      [] hh.k = "dflt"    -> {}              \* a hint the concretiser cannot populate: only the empty container

MetaShapes == { MetaSchema.Box[i][2] : i \in DOMAIN MetaSchema.Box }
Shapes == IF Mode = "meta" THEN MetaShapes ELSE GenShapes

\* three steps (pick the shape; pick the value; mark it for checking) so that TLC's workers share the
\* evaluation of the invariants: they are guarded by chk, and the chk step of each value is a separate
\* queue entry
Unset == [t |-> "unset"]
Init == h \in Shapes /\ v = Unset /\ chk = FALSE
Next == \/ v = Unset /\ v' \in W(h, 1) /\ UNCHANGED <<h, chk>>
        \/ Mode = "meta" /\ v # Unset /\ ~chk /\ chk' = TRUE /\ UNCHANGED <<h, v>>
Spec == Init /\ [][Next]_vars

(* ---- the theorem (Mode = "meta") ---- *)
\* every Box instance that has the value in a field of that hint, the other fields at their defaults
Roots == { [t |-> "dc", c |-> "Box",
            f |-> [i \in DOMAIN MetaSchema.Box |->
                     <<MetaSchema.Box[i][1], IF i = q THEN v ELSE MetaSchema.Box[i][3]>>]] :
           q \in { i \in DOMAIN MetaSchema.Box : MetaSchema.Box[i][2] = h } }

Inv_Serialisable   == ~chk \/ \A r \in Roots : Prop_Serialisable(MetaE, r)
Inv_RoundTrip      == ~chk \/ \A r \in Roots : Prop_RoundTrip(MetaE, r)
Inv_BinaryExcluded == ~chk \/ \A r \in Roots : Prop_BinaryExcluded(MetaE, r)
Inv_BinaryWhereDeclared == ~chk \/ \A r \in Roots : Prop_BinaryOnlyInBinaryFields(MetaE, r)   \* W is well-typed
\* units are serialised through serialize_extraction as well: always a JSON object
Inv_Wrap           == ~chk \/ \A r \in Roots : Wrap(Ser(MetaE, r, FALSE)).t \in {"obj", "eobj"}
\* the law outside the domain of the open finding (holds with Deviations = {"NoMarkerEscape"})
Inv_RoundTripOutsideKF == ~chk \/ \A r \in Roots : InDomain_KF_C05_01(MetaE, r) \/ Prop_RoundTrip(MetaE, r)
\* cell normalisation never leaves a value the encoder rejects
CellKinds == {"NoneType", "str", "bool", "int", "float", "datetime", "date", "time", "timedelta"}
Inv_Cell == chk \in BOOLEAN => \A kd \in CellKinds : CellNorm(kd) # "py"
=============================================================================
