---------------------------- MODULE OdsWalkTrace ----------------------------
(* code -> spec binding of the ODS sheet reader MODEL (OdsWalk.tla): for a sheet written with the repeat structure
   src (the ODS writer is the trusted base), the table read_ods returns is exactly OdsWalkDefs!DataOf(src) with the
   reader's threshold Big = 100 and the as-built deviations of the findings that are still open.        *)
EXTENDS OdsWalkDefs, Json, IOUtils, TLCExt

Traces == JsonDeserialize(IOEnv.TRACE_FILE)
VARIABLES tid, l
vars == <<tid, l>>
Ev == Traces[tid].ev[l]
IsEvent(x) == l <= Len(Traces[tid].ev) /\ Ev.a = x /\ l' = l + 1 /\ UNCHANGED tid

TraceSheet == IsEvent("OdsSheet") /\ Ev.data = DataOf(Ev.src)

TraceInit == tid \in 1..Len(Traces) /\ l = 1
TraceNext == TraceSheet
TraceSpec == TraceInit /\ [][TraceNext]_vars
TraceAccept ==
    /\ (l = Len(Traces[tid].ev) + 1) => PrintT(<<"ACCEPT", tid>>)
    /\ (IOEnv.MBV_PROGRESS = "1") => PrintT(<<"AT", tid, l>>)
=============================================================================
