-------------------------------- MODULE Omml --------------------------------
(* C19 -- OMML -> LaTeX conversion is total, order-preserving and balanced.

   Mirrors  sharepoint2text/parsing/extractors/util/omml_to_latex.py : omml_to_latex /
   process_element (with its pending_sqrt_close register and the final flush),
   convert_greek_and_symbols / GREEK_TO_LATEX.

   FORMULA TREE.  A tree is a sequence of nodes (the children of m:oMath).  A "content" is a
   sequence of nodes; a "slot" is the sequence of the role children of that name that are present
   (<<>> = absent, <<c>> = present once, <<c1, c2>> = duplicated), each being a content.
     [k |-> "r",  t |-> text (sequence of character atoms)]                      m:r / m:t
     [k |-> "f",  num, den]           [k |-> "sSup", e, sup]      [k |-> "sSub", e, sub]
     [k |-> "sSubSup", e, sub, sup]   [k |-> "rad", deg, e]       [k |-> "bar", e]
     [k |-> "nary", chr, sub, sup, e] [k |-> "acc", chr, e]       [k |-> "func", fName, e]
     [k |-> "d", beg, end, es |-> sequence of contents (the m:e children)]
     [k |-> "m", rows |-> sequence of rows, a row = sequence of contents (cells)]
     [k |-> "box", kids |-> content]          any element the converter has no template for
   Attribute elements (m:chr, m:begChr, m:endChr inside the element's own *Pr child):
     [st |-> "noel", v |-> ""]   the element is absent     [st |-> "noval", v |-> ""]  no m:val
     [st |-> "val",  v |-> a]    m:val = the character a ("" = empty value)
   Property elements (rPr, fPr, ctrlPr ...) produce no output and are not part of the abstract
   tree; the concretiser interleaves them.  Characters are atoms: an ASCII character is itself,
   any other character is "U+XXXX".  The OUTPUT is a sequence of atoms: characters, LaTeX
   commands ("\\frac"), "\\begin{matrix}", "\\end{matrix}", "\\\\", "\\mathbb{N}".

   DECLARATIVE PART  (what a user relies on; design-neutral, no register):
     Total      the result is a value, never an exception
     Shape      the output, blanks removed, matches Pattern(tree): the documented template of
                every structural element with its operands in place, every run's mapped text
                exactly once and in document order, nothing else
     Balance    for trees without literal braces: brace count never negative, zero at the end
     (function of the tree: the same tree gives the same result whatever was converted before and
      however the element object came to hold it -- checked on recorded call histories, OmmlTrace)
   DON'T-CARE (documentation silent; written as optional / multi-valued pattern items):
     * blanks the TEMPLATES add (after an n-ary operator, around separators ...): any number, anywhere.
       Blanks that are RUN TEXT are text: each must be there (a blank-only run, several blanks,
       leading / trailing blanks of a run, at every position), except where the library normalises
       an operand before it chooses the template and the documentation says nothing about blanks:
       leading / trailing blanks of a radical's degree, a limit / degree that consists of blanks
       only, blanks around a function name that is a table entry, blanks around the lone bracket
       of a malformed radical
     * the separator between the m:e children of a delimiter
     * n-ary operator when m:chr is absent or has no m:val: \sum (library default) or \int (OOXML)
     * accent command when the accent character is absent / has no m:val / is not one of the five
     * a delimiter character whose element has no m:val: the OOXML default or nothing
     * "_{}" / "^{}" / "[]" around a limit / degree that is blank
     * the text of the second of two duplicated role children (schema-invalid): all, part or none
     * a matrix without rows
     * "malformed radical" (documented: the operand is a lone opening bracket; the radical is left
       open and closed at the matching closing bracket or at the end): WHICH later closing
       bracket is consumed -- at most one per such radical -- and where the closing braces go;
       trees containing such a radical are matched with braces removed (Balance still applies)

   ALGORITHMIC PART: process_element transcribed step by step as recursive operators threading the
   pending-sqrt register p.  Deviations (CONSTANT) reproduce today's wrong steps:
     NoneAttrIterated      n-ary m:chr without m:val: None is iterated -> TypeError
     NoneDelimiterPrinted  m:begChr / m:endChr without m:val prints "None"
     OverwritePendingSqrt  the register holds ONE closer: a second lone-bracket radical overwrites it
     RadContentBeforeDeg   m:rad processes m:e before m:deg (a closer in the degree is turned into
                           "}" in front of the brace it closes)
     DescendantPropLookup  m:chr / m:begChr / m:endChr are searched among ALL descendants (".//"),
                           so an element without its own takes a nested element's
   With Deviations = {} this is the reference design (= the repaired code).                  *)
EXTENDS Naturals, Sequences, FiniteSets, TLC

CONSTANT Deviations

DeviationNames == {"NoneAttrIterated", "NoneDelimiterPrinted", "OverwritePendingSqrt",
                   "RadContentBeforeDeg", "DescendantPropLookup"}
Dev(d) == d \in Deviations

\* a conversion result: [x |-> an exception was raised, o |-> output atoms (<<>> when x)]
WS == " "

(* ---- symbol table: the standard LaTeX name of each character (GREEK_TO_LATEX) ---- *)
Sym ==
    ("U+03B1" :> "\\alpha") @@ ("U+03B2" :> "\\beta") @@ ("U+03B3" :> "\\gamma") @@
    ("U+03B4" :> "\\delta") @@ ("U+03B5" :> "\\epsilon") @@ ("U+03B6" :> "\\zeta") @@
    ("U+03B7" :> "\\eta") @@ ("U+03B8" :> "\\theta") @@ ("U+03B9" :> "\\iota") @@
    ("U+03BA" :> "\\kappa") @@ ("U+03BB" :> "\\lambda") @@ ("U+03BC" :> "\\mu") @@
    ("U+03BD" :> "\\nu") @@ ("U+03BE" :> "\\xi") @@ ("U+03BF" :> "o") @@
    ("U+03C0" :> "\\pi") @@ ("U+03C1" :> "\\rho") @@ ("U+03C3" :> "\\sigma") @@
    ("U+03C2" :> "\\varsigma") @@ ("U+03C4" :> "\\tau") @@ ("U+03C5" :> "\\upsilon") @@
    ("U+03C6" :> "\\phi") @@ ("U+03C7" :> "\\chi") @@ ("U+03C8" :> "\\psi") @@
    ("U+03C9" :> "\\omega") @@ ("U+0391" :> "A") @@ ("U+0392" :> "B") @@
    ("U+0393" :> "\\Gamma") @@ ("U+0394" :> "\\Delta") @@ ("U+0395" :> "E") @@
    ("U+0396" :> "Z") @@ ("U+0397" :> "H") @@ ("U+0398" :> "\\Theta") @@
    ("U+0399" :> "I") @@ ("U+039A" :> "K") @@ ("U+039B" :> "\\Lambda") @@
    ("U+039C" :> "M") @@ ("U+039D" :> "N") @@ ("U+039E" :> "\\Xi") @@
    ("U+039F" :> "O") @@ ("U+03A0" :> "\\Pi") @@ ("U+03A1" :> "P") @@
    ("U+03A3" :> "\\Sigma") @@ ("U+03A4" :> "T") @@ ("U+03A5" :> "\\Upsilon") @@
    ("U+03A6" :> "\\Phi") @@ ("U+03A7" :> "X") @@ ("U+03A8" :> "\\Psi") @@
    ("U+03A9" :> "\\Omega") @@ ("U+221E" :> "\\infty") @@ ("U+2202" :> "\\partial") @@
    ("U+2207" :> "\\nabla") @@ ("U+00B1" :> "\\pm") @@ ("U+2213" :> "\\mp") @@
    ("U+00D7" :> "\\times") @@ ("U+00F7" :> "\\div") @@ ("U+00B7" :> "\\cdot") @@
    ("U+2264" :> "\\leq") @@ ("U+2265" :> "\\geq") @@ ("U+2260" :> "\\neq") @@
    ("U+2248" :> "\\approx") @@ ("U+2261" :> "\\equiv") @@ ("U+2208" :> "\\in") @@
    ("U+2209" :> "\\notin") @@ ("U+2282" :> "\\subset") @@ ("U+2283" :> "\\supset") @@
    ("U+2286" :> "\\subseteq") @@ ("U+2287" :> "\\supseteq") @@ ("U+222A" :> "\\cup") @@
    ("U+2229" :> "\\cap") @@ ("U+2227" :> "\\land") @@ ("U+2228" :> "\\lor") @@
    ("U+00AC" :> "\\neg") @@ ("U+2192" :> "\\rightarrow") @@ ("U+2190" :> "\\leftarrow") @@
    ("U+2194" :> "\\leftrightarrow") @@ ("U+21D2" :> "\\Rightarrow") @@ ("U+21D0" :> "\\Leftarrow") @@
    ("U+21D4" :> "\\Leftrightarrow") @@ ("U+2200" :> "\\forall") @@ ("U+2203" :> "\\exists") @@
    ("U+2205" :> "\\emptyset") @@ ("U+2115" :> "\\mathbb{N}") @@ ("U+2124" :> "\\mathbb{Z}") @@
    ("U+211A" :> "\\mathbb{Q}") @@ ("U+211D" :> "\\mathbb{R}") @@ ("U+2102" :> "\\mathbb{C}")

NaryOps == ("U+2211" :> "\\sum") @@ ("U+220F" :> "\\prod") @@ ("U+222B" :> "\\int") @@
           ("U+222C" :> "\\iint") @@ ("U+222D" :> "\\iiint")
AccentOps == ("U+0302" :> "\\hat") @@ ("U+0303" :> "\\tilde") @@ ("U+0304" :> "\\bar") @@
             ("U+20D7" :> "\\vec") @@ ("U+0307" :> "\\dot")
AccentCmds == {"\\hat", "\\tilde", "\\bar", "\\vec", "\\dot", "\\widehat", "\\check", "\\breve",
               "\\acute", "\\grave", "\\ddot", "\\overline"}
FuncCmd == (<<"s", "i", "n">> :> "\\sin") @@ (<<"c", "o", "s">> :> "\\cos") @@
           (<<"t", "a", "n">> :> "\\tan") @@ (<<"l", "o", "g">> :> "\\log") @@
           (<<"l", "n">> :> "\\ln") @@ (<<"l", "i", "m">> :> "\\lim") @@
           (<<"e", "x", "p">> :> "\\exp") @@ (<<"m", "a", "x">> :> "\\max") @@
           (<<"m", "i", "n">> :> "\\min")
Closer == ("(" :> ")") @@ ("[" :> "]") @@ ("{" :> "}")
Braces == {"{", "}"}

(* ---- sequence helpers ---- *)
MapAtom(a) == IF a \in DOMAIN Sym THEN Sym[a] ELSE a
MapText(t) == [i \in 1..Len(t) |-> MapAtom(t[i])]
NoWS(s) == SelectSeq(s, LAMBDA a : a # WS)
Blank(s) == NoWS(s) = <<>>
RECURSIVE TrimL(_), TrimR(_)
TrimL(s) == IF s # <<>> /\ Head(s) = WS THEN TrimL(Tail(s)) ELSE s
TrimR(s) == IF s # <<>> /\ s[Len(s)] = WS THEN TrimR(SubSeq(s, 1, Len(s) - 1)) ELSE s
Trim(s) == TrimR(TrimL(s))                     \* str.strip()
Has(s, a) == \E i \in 1..Len(s) : s[i] = a
IndexOf(s, a) == CHOOSE i \in 1..Len(s) : s[i] = a /\ \A j \in 1..(i - 1) : s[j] # a
Rep(a, n) == [i \in 1..n |-> a]
RECURSIVE Cat(_)
Cat(ss) == IF ss = <<>> THEN <<>> ELSE Head(ss) \o Cat(Tail(ss))

NoEl == [st |-> "noel", v |-> ""]

\* every content below a node, in document order (duplicates included)
Kids(n) ==
    CASE n.k = "r"       -> <<>>
      [] n.k = "f"       -> n.num \o n.den
      [] n.k = "sSup"    -> n.e \o n.sup
      [] n.k = "sSub"    -> n.e \o n.sub
      [] n.k = "sSubSup" -> n.e \o n.sub \o n.sup
      [] n.k = "rad"     -> n.deg \o n.e
      [] n.k = "nary"    -> n.sub \o n.sup \o n.e
      [] n.k = "d"       -> n.es
      [] n.k = "m"       -> Cat(n.rows)
      [] n.k = "func"    -> n.fName \o n.e
      [] n.k = "bar"     -> n.e
      [] n.k = "acc"     -> n.e
      [] n.k = "box"     -> <<n.kids>>

(* ======================= ALGORITHMIC PART (process_element) ======================= *)
\* attribute elements named w ("chr" | "beg" | "end") in the subtree of n, document order
OwnEl(n, w) ==
    IF w = "chr" /\ n.k \in {"nary", "acc"} THEN n.chr
    ELSE IF w = "beg" /\ n.k = "d" THEN n.beg
    ELSE IF w = "end" /\ n.k = "d" THEN n.end
    ELSE NoEl
RECURSIVE Els(_, _), ElsNodes(_, _), ElsContents(_, _)
Els(n, w) == (IF OwnEl(n, w).st = "noel" THEN <<>> ELSE <<OwnEl(n, w)>>) \o ElsContents(Kids(n), w)
ElsNodes(ns, w) == IF ns = <<>> THEN <<>> ELSE Els(Head(ns), w) \o ElsNodes(Tail(ns), w)
ElsContents(cs, w) == IF cs = <<>> THEN <<>> ELSE ElsNodes(Head(cs), w) \o ElsContents(Tail(cs), w)

\* elem.find(".//chr") today; the element's own property child in the reference design
Lookup(n, w) ==
    IF Dev("DescendantPropLookup")
    THEN LET l == Els(n, w) IN IF l = <<>> THEN NoEl ELSE l[1]
    ELSE OwnEl(n, w)

\* the register: sequence of closers still owed (innermost last)
Push(p, c) == IF Dev("OverwritePendingSqrt") THEN <<c>> ELSE Append(p, c)
Top(p) == p[Len(p)]
Pop(p) == SubSeq(p, 1, Len(p) - 1)

Res(o, p, x) == [o |-> o, p |-> p, x |-> x]          \* output atoms, register, exception raised

RECURSIVE ProcNode(_, _), ProcSeq(_, _), ProcEach(_, _, _), ProcRows(_, _)
\* default branch: recurse into the children and concatenate
ProcSeq(ns, p) ==
    IF ns = <<>> THEN Res(<<>>, p, FALSE)
    ELSE LET a == ProcNode(Head(ns), p)
             b == ProcSeq(Tail(ns), a.p)
         IN Res(a.o \o b.o, b.p, a.x \/ b.x)
\* elem.find(role): the first role child, None -> ""
ProcSlot(s, p) == IF s = <<>> THEN Res(<<>>, p, FALSE) ELSE ProcSeq(s[1], p)
\* [process_element(e) for e in elem.findall(role)] joined with sep
ProcEach(cs, sep, p) ==
    IF cs = <<>> THEN Res(<<>>, p, FALSE)
    ELSE LET a == ProcSeq(Head(cs), p)
             b == ProcEach(Tail(cs), sep, a.p)
         IN Res(a.o \o (IF Len(cs) > 1 THEN sep ELSE <<>>) \o b.o, b.p, a.x \/ b.x)

\* rows: cells joined with " & ", rows joined with " \\ "
ProcRows(rs, q) ==
    IF rs = <<>> THEN Res(<<>>, q, FALSE)
    ELSE LET a == ProcEach(Head(rs), <<WS, "&", WS>>, q)
             b == ProcRows(Tail(rs), a.p)
         IN Res(a.o \o (IF Len(rs) > 1 THEN <<WS, "\\\\", WS>> ELSE <<>>) \o b.o, b.p, a.x \/ b.x)

Wrap(s) == <<"{">> \o s \o <<"}">>

DelimAtoms(a, dflt) ==
    IF a.st = "noel" THEN <<dflt>>
    ELSE IF a.st = "noval" THEN (IF Dev("NoneDelimiterPrinted") THEN <<"N", "o", "n", "e">> ELSE <<dflt>>)
    ELSE IF a.v = "" THEN <<>> ELSE <<a.v>>

ProcNode(n, p) ==
    CASE n.k = "r" ->
           LET m == MapText(n.t) IN
           IF p # <<>> /\ Has(m, Top(p))
           THEN LET i == IndexOf(m, Top(p)) IN
                Res(SubSeq(m, 1, i - 1) \o <<"}">> \o SubSeq(m, i + 1, Len(m)), Pop(p), FALSE)
           ELSE Res(m, p, FALSE)
      [] n.k = "f" ->
           LET a == ProcSlot(n.num, p)
               b == ProcSlot(n.den, a.p)
           IN Res(<<"\\frac">> \o Wrap(a.o) \o Wrap(b.o), b.p, a.x \/ b.x)
      [] n.k = "sSup" ->
           LET a == ProcSlot(n.e, p)
               b == ProcSlot(n.sup, a.p)
           IN Res(a.o \o <<"^">> \o Wrap(b.o), b.p, a.x \/ b.x)
      [] n.k = "sSub" ->
           LET a == ProcSlot(n.e, p)
               b == ProcSlot(n.sub, a.p)
           IN Res(a.o \o <<"_">> \o Wrap(b.o), b.p, a.x \/ b.x)
      [] n.k = "sSubSup" ->
           LET a == ProcSlot(n.e, p)
               b == ProcSlot(n.sub, a.p)
               c == ProcSlot(n.sup, b.p)
           IN Res(a.o \o <<"_">> \o Wrap(b.o) \o <<"^">> \o Wrap(c.o), c.p, a.x \/ b.x \/ c.x)
      [] n.k = "rad" ->
           LET swap == Dev("RadContentBeforeDeg")
               first == IF swap THEN ProcSlot(n.e, p) ELSE ProcSlot(n.deg, p)
               second == IF swap THEN ProcSlot(n.deg, first.p) ELSE ProcSlot(n.e, first.p)
               dg == IF swap THEN second ELSE first
               ct == IF swap THEN first ELSE second
               degpart == IF Blank(dg.o) THEN <<>> ELSE <<"[">> \o Trim(dg.o) \o <<"]">>
               c == NoWS(ct.o)
               x == first.x \/ second.x
           IN IF Len(c) = 1 /\ c[1] \in DOMAIN Closer
              THEN Res(<<"\\sqrt">> \o degpart \o <<"{">>, Push(second.p, Closer[c[1]]), x)
              ELSE Res(<<"\\sqrt">> \o degpart \o Wrap(ct.o), second.p, x)
      [] n.k = "nary" ->
           LET at == Lookup(n, "chr")
               boom == at.st = "noval" /\ Dev("NoneAttrIterated")
               op == IF at.st # "val" THEN <<"\\int">>           \* OOXML default operator
                     ELSE IF at.v = "" THEN <<>>
                     ELSE IF at.v \in DOMAIN NaryOps THEN <<NaryOps[at.v]>>
                     ELSE <<MapAtom(at.v)>>
               a == ProcSlot(n.sub, p)
               b == ProcSlot(n.sup, a.p)
               c == ProcSlot(n.e, b.p)
           IN Res(op \o (IF Blank(a.o) THEN <<>> ELSE <<"_">> \o Wrap(a.o))
                     \o (IF Blank(b.o) THEN <<>> ELSE <<"^">> \o Wrap(b.o))
                     \o <<WS>> \o c.o, c.p, boom \/ a.x \/ b.x \/ c.x)
      [] n.k = "d" ->
           LET l == DelimAtoms(Lookup(n, "beg"), "(")
               r == DelimAtoms(Lookup(n, "end"), ")")
               a == ProcEach(n.es, <<",", WS>>, p)
           IN Res(l \o a.o \o r, a.p, a.x)
      [] n.k = "m" ->
           IF n.rows = <<>> THEN Res(<<>>, p, FALSE)
           ELSE LET a == ProcRows(n.rows, p)
                IN Res(<<"\\begin{matrix}">> \o a.o \o <<"\\end{matrix}">>, a.p, a.x)
      [] n.k = "func" ->
           LET a == ProcSlot(n.fName, p)
               b == ProcSlot(n.e, a.p)
               nm == IF Trim(a.o) \in DOMAIN FuncCmd THEN <<FuncCmd[Trim(a.o)]>> ELSE a.o
           IN Res(nm \o Wrap(b.o), b.p, a.x \/ b.x)
      [] n.k = "bar" ->
           LET a == ProcSlot(n.e, p) IN Res(<<"\\overline">> \o Wrap(a.o), a.p, a.x)
      [] n.k = "acc" ->
           LET at == Lookup(n, "chr")
               cmd == IF at.st = "val" /\ at.v \in DOMAIN AccentOps THEN AccentOps[at.v] ELSE "\\hat"
               a == ProcSlot(n.e, p)
           IN Res(<<cmd>> \o Wrap(a.o), a.p, a.x)
      [] n.k = "box" -> ProcSeq(n.kids, p)

\* omml_to_latex: children of m:oMath in order, then flush what the register still owes
Conv(tree) ==
    LET r == ProcSeq(tree, <<>>) IN
    [x |-> r.x, o |-> IF r.x THEN <<>> ELSE r.o \o Rep("}", Len(r.p))]

(* ============================ DECLARATIVE PART ============================ *)
\* pattern item: the output atom must be in `as`; opt: may be missing; bud: may be missing, charged
\* to the budget (consumed closers); br # "": position marker of a malformed radical (its closer)
It(as, opt) == [as |-> as, opt |-> opt, bud |-> FALSE, br |-> ""]
Lit(a) == It({a}, FALSE)
Opt(a) == It({a}, TRUE)
Lits(s) == [i \in 1..Len(s) |-> Lit(s[i])]
OptAll(ps) == [i \in 1..Len(ps) |-> [ps[i] EXCEPT !.opt = TRUE]]
Marker(c) == [as |-> {}, opt |-> TRUE, bud |-> FALSE, br |-> c]
IsBlankItem(it) == it.as = {WS} /\ it.br = ""
\* an operand without required non-blank items: the template around it is DON'T-CARE, and so are its blanks
AllOptional(ps) == \A i \in 1..Len(ps) : ps[i].opt \/ IsBlankItem(ps[i])
RECURSIVE TrimOptL(_)
TrimOptL(ps) == IF ps # <<>> /\ IsBlankItem(Head(ps)) THEN <<[Head(ps) EXCEPT !.opt = TRUE]>> \o TrimOptL(Tail(ps)) ELSE ps
Rev(ps) == [i \in 1..Len(ps) |-> ps[Len(ps) + 1 - i]]
TrimOpt(ps) == Rev(TrimOptL(Rev(TrimOptL(ps))))        \* leading / trailing blanks become DON'T-CARE

RECURSIVE PatNode(_), PatSeq(_), PatJoin(_, _), PatRows(_)
PatSeq(ns) == IF ns = <<>> THEN <<>> ELSE PatNode(Head(ns)) \o PatSeq(Tail(ns))
\* first role child in place; a duplicate's items are DON'T-CARE
PatSlot(s) == IF s = <<>> THEN <<>>
              ELSE PatSeq(s[1]) \o OptAll(Cat([i \in 1..(Len(s) - 1) |-> PatSeq(s[i + 1])]))
PatJoin(cs, sep) == IF cs = <<>> THEN <<>>
                    ELSE PatSeq(Head(cs)) \o (IF Len(cs) > 1 THEN sep ELSE <<>>) \o PatJoin(Tail(cs), sep)
PatRows(rs) == IF rs = <<>> THEN <<>>
               ELSE PatJoin(Head(rs), <<Lit("&")>>)
                    \o (IF Len(rs) > 1 THEN <<Lit("\\\\")>> ELSE <<>>) \o PatRows(Tail(rs))
PWrap(ps) == <<Lit("{")>> \o ps \o <<Lit("}")>>
\* "_{..}", "^{..}", "[..]" : required when the operand has required items, DON'T-CARE when it has none
Limit(open, ps, close) ==
    IF AllOptional(ps) THEN OptAll(Lits(open)) \o OptAll(ps) \o OptAll(Lits(close))
    ELSE Lits(open) \o ps \o Lits(close)

\* the operand of the radical renders to one lone opening bracket: its required items are exactly
\* one bracket (items that are DON'T-CARE -- an empty matrix, a delimiter without m:val -- do not count)
Required(ps) == SelectSeq(ps, LAMBDA it : it.br = "" /\ ~it.opt /\ ~IsBlankItem(it))
Optional(ps) == OptAll(SelectSeq(ps, LAMBDA it : it.br = "" /\ (it.opt \/ IsBlankItem(it))))
LoneBracket(s) ==
    /\ s # <<>>
    /\ LET q == Required(PatSeq(s[1])) IN
       Len(q) = 1 /\ \E b \in DOMAIN Closer : q[1].as = {b}
BracketOf(s) == CHOOSE b \in Required(PatSeq(s[1]))[1].as : TRUE

DelimPat(a, dflt) ==
    IF a.st = "noel" THEN <<Lit(dflt)>>
    ELSE IF a.st = "noval" THEN <<Opt(dflt)>>
    ELSE IF a.v = "" THEN <<>> ELSE <<Lit(a.v)>>

PatNode(n) ==
    CASE n.k = "r" -> Lits(MapText(n.t))
      [] n.k = "f" -> <<Lit("\\frac")>> \o PWrap(PatSlot(n.num)) \o PWrap(PatSlot(n.den))
      [] n.k = "sSup" -> PatSlot(n.e) \o <<Lit("^")>> \o PWrap(PatSlot(n.sup))
      [] n.k = "sSub" -> PatSlot(n.e) \o <<Lit("_")>> \o PWrap(PatSlot(n.sub))
      [] n.k = "sSubSup" -> PatSlot(n.e) \o <<Lit("_")>> \o PWrap(PatSlot(n.sub))
                                       \o <<Lit("^")>> \o PWrap(PatSlot(n.sup))
      [] n.k = "rad" ->
           LET dg == IF n.deg = <<>> THEN <<>>          \* blanks at the edges of the (first) degree: DON'T-CARE
                     ELSE TrimOpt(PatSeq(n.deg[1]))
                          \o OptAll(Cat([i \in 1..(Len(n.deg) - 1) |-> PatSeq(n.deg[i + 1])]))
               dp == Limit(<<"[">>, dg, <<"]">>) IN
           IF LoneBracket(n.e)
           THEN <<Lit("\\sqrt")>> \o dp \o <<Lit("{"), Marker(Closer[BracketOf(n.e)])>>
                \o Optional(PatSeq(n.e[1]))
                \o OptAll(Cat([i \in 1..(Len(n.e) - 1) |-> PatSeq(n.e[i + 1])]))
           ELSE <<Lit("\\sqrt")>> \o dp \o PWrap(PatSlot(n.e))
      [] n.k = "nary" ->
           LET op == IF n.chr.st # "val" THEN <<It({"\\sum", "\\int"}, FALSE)>>
                     ELSE IF n.chr.v = "" THEN <<>>
                     ELSE IF n.chr.v \in DOMAIN NaryOps THEN <<Lit(NaryOps[n.chr.v])>>
                     ELSE <<Lit(MapAtom(n.chr.v))>>
           IN op \o Limit(<<"_", "{">>, PatSlot(n.sub), <<"}">>)
                 \o Limit(<<"^", "{">>, PatSlot(n.sup), <<"}">>) \o PatSlot(n.e)
      [] n.k = "d" ->
           DelimPat(n.beg, "(") \o PatJoin(n.es, <<It({",", ";", "|"}, TRUE)>>) \o DelimPat(n.end, ")")
      [] n.k = "m" ->
           IF n.rows = <<>> THEN <<Opt("\\begin{matrix}"), Opt("\\end{matrix}")>>
           ELSE <<Lit("\\begin{matrix}")>> \o PatRows(n.rows) \o <<Lit("\\end{matrix}")>>
      [] n.k = "func" ->
           LET fp == IF n.fName = <<>> THEN <<>> ELSE PatSeq(n.fName[1])      \* the name: first m:fName child
               dups == IF n.fName = <<>> THEN <<>>
                       ELSE OptAll(Cat([i \in 1..(Len(n.fName) - 1) |-> PatSeq(n.fName[i + 1])]))
               plain == \A i \in 1..Len(fp) : ~fp[i].opt /\ fp[i].br = "" /\ Cardinality(fp[i].as) = 1
               word == Trim([i \in 1..Len(fp) |-> CHOOSE a \in fp[i].as : TRUE])
           IN (IF plain /\ word \in DOMAIN FuncCmd THEN <<Lit(FuncCmd[word])>> ELSE fp) \o dups
              \o PWrap(PatSlot(n.e))
      [] n.k = "bar" -> <<Lit("\\overline")>> \o PWrap(PatSlot(n.e))
      [] n.k = "acc" ->
           (IF n.chr.st = "val" /\ n.chr.v \in DOMAIN AccentOps
            THEN <<Lit(AccentOps[n.chr.v])>> ELSE <<It(AccentCmds, FALSE)>>) \o PWrap(PatSlot(n.e))
      [] n.k = "box" -> PatSeq(n.kids)

RawPattern(tree) == PatSeq(tree)
NumMarkers(ps) == Cardinality({i \in 1..Len(ps) : ps[i].br # ""})

\* malformed radicals present: every closing bracket of a kind owed by an earlier radical becomes
\* budget-optional, markers and brace items are removed
RECURSIVE Resolve(_, _)
Resolve(ps, owed) ==
    IF ps = <<>> THEN <<>>
    ELSE LET it == Head(ps) IN
         IF it.br # "" THEN Resolve(Tail(ps), owed \cup {it.br})
         ELSE IF it.as \subseteq Braces THEN Resolve(Tail(ps), owed)
         ELSE IF ~it.opt /\ Cardinality(it.as) = 1 /\ it.as \subseteq owed
              THEN <<[it EXCEPT !.bud = TRUE]>> \o Resolve(Tail(ps), owed)
              ELSE <<it>> \o Resolve(Tail(ps), owed)

Pattern(tree) == LET raw == RawPattern(tree) IN
                 [items |-> IF NumMarkers(raw) = 0 THEN raw ELSE Resolve(raw, {}),
                  budget |-> NumMarkers(raw)]

\* NFA simulation: J = set of <<atoms of obs matched, budget used>>
\* blanks of the output that no item asks for are template blanks: they may be skipped anywhere
SkipWS(J, obs) == UNION {{<<k, q[2]>> : k \in {k \in q[1]..Len(obs) : \A i \in (q[1] + 1)..k : obs[i] = WS}} : q \in J}
RECURSIVE Run(_, _, _, _)
Run(items, obs, budget, J) ==
    IF items = <<>> \/ J = {} THEN J
    ELSE LET it == Head(items)
             adv == {<<q[1] + 1, q[2]>> : q \in {q \in J : q[1] < Len(obs) /\ obs[q[1] + 1] \in it.as}}
             skip == IF it.opt THEN J ELSE {}
             paid == IF it.bud THEN {<<q[1], q[2] + 1>> : q \in {q \in J : q[2] < budget}} ELSE {}
         IN Run(Tail(items), obs, budget, SkipWS(adv \cup skip \cup paid, obs))

Matches(out, pat) ==
    LET obs == IF pat.budget = 0 THEN out.o ELSE SelectSeq(out.o, LAMBDA a : a \notin Braces)
    IN \E q \in Run(pat.items, obs, pat.budget, SkipWS({<<0, 0>>}, obs)) : q[1] = Len(obs)

RECURSIVE Depth(_, _, _)
\* brace depth after s[i..], -1 once it went negative
Depth(s, i, d) == IF d < 0 THEN 0 - 1 ELSE IF i > Len(s) THEN d
                  ELSE Depth(s, i + 1, IF s[i] = "{" THEN d + 1 ELSE IF s[i] = "}" THEN d - 1 ELSE d)
Balanced(out) == Depth(out.o, 1, 0) = 0

RECURSIVE LiteralBraceN(_), LiteralBraceNodes(_), LiteralBraceContents(_)
LiteralBraceN(n) ==
    \/ n.k = "r" /\ \E i \in 1..Len(n.t) : n.t[i] \in Braces
    \/ n.k = "d" /\ (n.beg.v \in Braces \/ n.end.v \in Braces)
    \/ n.k \in {"nary", "acc"} /\ n.chr.v \in Braces
    \/ LiteralBraceContents(Kids(n))
LiteralBraceNodes(ns) == ns # <<>> /\ (LiteralBraceN(Head(ns)) \/ LiteralBraceNodes(Tail(ns)))
LiteralBraceContents(cs) == cs # <<>> /\ (LiteralBraceNodes(Head(cs)) \/ LiteralBraceContents(Tail(cs)))
HasLiteralBrace(tree) == LiteralBraceNodes(tree)

Total(out) == ~out.x
Shape(tree, out) == Matches(out, Pattern(tree))
Balance(tree, out) == HasLiteralBrace(tree) \/ Balanced(out)

Clauses(tree, out) == Total(out) /\ Shape(tree, out) /\ Balance(tree, out)
NonTrivial(tree) == \E i \in 1..Len(tree) : tree[i].k # "r"
=============================================================================
