------------------------------- MODULE DocGen -------------------------------
(* Enumerates the bounded universe of flow-document SHAPES for the spec -> code replay of
   C02 / C03 / C13.  Token ids are placeholders (0); the harness numbers the leaves in reading
   order (a relabelling, no oracle).  One state = one document body (sequence of blocks).   *)
EXTENDS Naturals, Sequences, FiniteSets, TLC

CONSTANTS MaxBlocks,      \* blocks per document
          Rich,           \* TRUE: the larger shape sets
          Mode            \* "blocks": the block-shape universe; "headings": heading-level sequences with / without payload

VARIABLE blocks

R == <<"r", 0>>
Wrappers == { <<"a", <<R>>>>, <<"ins", <<R>>>>, <<"del", <<R>>>>, <<"isdt", <<R>>>> }
Refs == { <<"fn", 0>>, <<"cm", 0>> }
RX == <<"rx", 0>>      \* one run of two words, the first ending in a non-ASCII letter ("zq3007e' zy3007x")
RN == <<"rn", 0>>      \* a 16-digit number (digits only)

ParaShapes ==
    { <<R>>, <<R, R>>, <<RX>>, <<RX, R>>, <<R, RX>>, <<RN>> }
    \cup { <<R, x, R>> : x \in { <<"tab">>, <<"br">>, <<"sp">> } }
    \cup { <<RX, <<"sp">>, R>>, << <<"a", <<R>>>>, <<"sp">>, <<"a", <<R>>>> >> }     \* a blank text node between two formatted runs / links
    \cup { <<x>> : x \in Wrappers }
    \cup { <<R, x>> : x \in Wrappers \cup Refs }
    \cup { <<x, R>> : x \in Wrappers \cup Refs }
    \cup { << <<w, <<R, b, R>>>> >> : w \in {"a", "ins", "isdt"}, b \in { <<"br">>, <<"tab">> } }   \* break / tab inside a wrapper
    \cup { <<R, <<"itbx", << <<"p", <<R>>>> >>>>, R>>, << <<"itbx", << <<"p", <<R>>>> >>>>, R>>,     \* a text box anchored inside the paragraph,
           <<R, <<"itbx", << <<"p", <<R>>>>, <<"p", <<R>>>> >>>> >> }                                 \* followed / preceded by more runs
    \cup (IF Rich THEN { <<x, y>> : x \in Wrappers, y \in Wrappers } ELSE {})

P1 == <<"p", <<R>>>>
H1 == <<"h", 1, <<R>>>>                                 \* a heading that is not a direct child of the body (list item, cell)
SmallTbl == <<"tbl", << << <<P1>> >> >>>>               \* 1 x 1

PN == <<"p", <<RN>>>>
PX == <<"p", <<RX, R>>>>
SpanTbl == <<"tbl", << << <<P1>>, <<>>, <<P1>> >> >>>>     \* 1 x 3, the middle cell empty (writers render it as a horizontal merge)
Cells == { <<P1>>, <<P1, P1>>, <<>>, <<SmallTbl>>, <<PN>>, <<PX>>, <<H1>>, <<SpanTbl>> }   \* plain, two paragraphs, empty, nested table, number, accented, heading, nested table with a merged cell
Grid(r, c, special, at) ==                               \* all cells plain except cell number `at`
    <<"tbl", [i \in 1..r |-> [j \in 1..c |-> IF (i - 1) * c + j = at THEN special ELSE <<P1>>]]>>
TableShapes ==
    { Grid(r, c, s, at) : r \in 1..2, c \in 1..2, s \in Cells, at \in 1..4 }
    \cup { Grid(2, 3, <<>>, 2) }       \* 2 x 3, the middle cell of the first row empty (writers may render it as a merge)
    \cup { <<"tbl", << << <<P1>>, <<>>, <<P1>> >>, << <<>>, <<>>, <<P1>> >> >>>> }   \* [[A, -, B], [-, -, C]]: HTML writes A as ONE
                                                                                  \* cell spanning two columns AND two rows
    \cup { <<"tbl", << << <<P1>> >>, << <<P1>>, <<P1>>, <<P1>> >> >>>> }      \* ragged: a one-cell first row above a three-cell row
    \cup { <<"tbl", << << <<>>, <<>> >> >>>>,                                  \* blank grids (a form to fill in): tables all the same
           <<"tbl", << << <<>>, <<>> >>, << <<>>, <<>> >> >>>> }

ListShapes ==
    { <<"ul", << <<P1>> >>>>, <<"ul", << <<P1>>, <<P1>> >>>>,
      <<"ul", << <<P1, <<"ul", << <<P1>> >>>> >> >>>>,
      <<"ul", << <<P1>>, <<P1, <<"ul", << <<P1>>, <<P1>> >>>> >> >>>>,
      <<"ul", << <<H1>> >>>>, <<"ul", << <<H1>>, <<P1>> >>>> }        \* numbered headings: a heading inside a list item

BlockShapes ==
    { <<"p", ps>> : ps \in ParaShapes }
    \cup { <<"h", lv, <<R>>>> : lv \in 1..2 }
    \cup ListShapes \cup TableShapes
    \cup { <<"sdt", <<P1>>>>, <<"tbx", <<P1>>>>, <<"sdt", <<P1, P1>>>>,
           <<"sdt", << <<"sdt", <<P1>>>> >>>>,                          \* content control nested in a content control
           <<"sdt", << P1, <<"sdt", <<P1>>>>, P1 >>>>,
           <<"sdt", << SmallTbl >>>>,                                   \* table inside a content control
           <<"sdt", << Grid(1, 2, <<SmallTbl>>, 2) >>>>,               \* ... whose cell holds a nested table
           <<"sdt", << SmallTbl, SmallTbl >>>>,                         \* two adjacent tables in one content control
           <<"sdt", << <<"ul", << <<P1>> >>>> >>>>,
           <<"tbx", <<P1, P1>>>> }                                      \* text box with two paragraphs

\* heading-section documents (C03): every sequence of headings (levels 1..3) and plain paragraphs
HeadingShapes == { <<"h", lv, <<R>>>> : lv \in 1..3 } \cup { P1 }

Init == blocks \in UNION { [1..n -> (IF Mode = "headings" THEN HeadingShapes ELSE BlockShapes)] : n \in 1..MaxBlocks }
Next == UNCHANGED blocks
Spec == Init /\ [][Next]_blocks
=============================================================================
