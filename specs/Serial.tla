------------------------------- MODULE Serial -------------------------------
(* C05 -- to_json is JSON-serialisable and from_json restores the same object.

   Mirrors  sharepoint2text/parsing/extractors/serialization.py:
       Ser    = _serialize_for_json           (value-directed encoder, markers _type/_bytes/_bytesio)
       Deser  = _deserialize_value            (Optional unwrap, marker tests, hint-directed decoding)
       DeserDC= _deserialize_dataclass        (registry lookup by __name__, kwargs from field hints,
                                               defaults for absent fields)
       Wrap   = serialize_extraction          (non-dict result -> {"value": ..})
   and the cell normalisation step of the spreadsheet extractors
       CellNorm = xlsx_extractor.py:_get_cell_value.

   Abstract Python value  v:
       [t |-> "null"] | [t |-> "bool", tf] | [t |-> "int", n (decimal string)] | [t |-> "num", s (repr of a
       finite float)] | [t |-> "str", s] | [t |-> "bytes", b (content id)] |
       [t |-> "bytesio", b, pos ("start" | "mid" | "end": where the stream position stands)] |
       [t |-> "list"|"tuple"|"set", xs] | [t |-> "dict", kv (sequence of <<key, v>>, keys distinct)] |
       [t |-> "dc", c (class __name__), f (sequence of <<field, v>> in dataclasses.fields order)] |
       [t |-> "py", k] (a Python object the JSON encoder rejects: timedelta, Decimal, ...) |
       [t |-> "error"] (an exception left the call).
   Abstract JSON value j: null/bool/int/num/str as above, [t |-> "arr", xs], [t |-> "obj", kv],
       [t |-> "eobj", kv] (reference design only: an object written in an escaped form, any injective
       escaping of a plain dict that has a marker key), and "py" leaves that leaked.
   Environment E = [schema : class -> sequence of <<field, hint, default>>,   (read from the running code)
                    enc    : bytes id -> string (base64 text),   dec : string -> bytes id | "ERR"].
   Hint (what _deserialize_value distinguishes):  [k |-> "prim"|"any"|"other"|"bytes"|"bytesio"],
       [k |-> "opt"|"list"|"dict", of |-> hint], [k |-> "dc", c |-> class].   "other" = anything the
       code treats like a primitive (PEP 604 unions `X | None`, Protocol classes, unregistered classes);
       such a hint carries g = the hint used to GENERATE well-typed values for it (SerialGen).

   Deviations (named wrong steps of today's code; {} = reference design):
     "MarkerBeforeHint"   Deser tests the marker keys before it looks at the hint, so a Dict[...]-typed
                          field whose document-chosen keys contain _type/_bytes/_bytesio is decoded as
                          a dataclass / bytes.  (proposed fix c05-dict-hint-before-markers)
     "NoMarkerEscape"     Ser writes a plain dict with a marker key unescaped, so in an Any-typed
                          position it cannot be told from the encoder's own wrapper objects.
                          (open finding KF-C05-01: repairing it changes the documented wire format)
     "PassThroughNonJson" the cell normalisation passes datetime.timedelta through.
                          (proposed fix c05-xlsx-timedelta, committed)
     "EncodeFromPosition" _bytesio_to_base64 encodes what lies after the current stream position instead
                          of rewinding first (not a step of today's code: kept as the sensitivity
                          witness that the BytesIO position is part of the quantified universe -- a
                          caller may have read the payload before calling to_json).

   DON'T-CARE (documentation silent, never demanded):
     * Python objects other than JSON scalars, bytes, BytesIO, list, dict, registered dataclasses inside
       Any-typed positions of hand-built instances (only extractor outputs must be JSON-serialisable);
     * containers nested inside an Any-typed position that hold bytes/BytesIO/dataclasses;
     * nan/inf floats (Python's encoder writes NaN/Infinity, RFC 8259 has no such token);
     * identity of bytes vs bytearray, tuple/set vs list, dict order; the position of a RESTORED BytesIO
       (content only) -- the position of the ORIGINAL stream is part of the universe: to_json must encode
       the whole content wherever the caller left the stream;
     * the ImageMetadata unit_index/image_index shim (fires only on input not produced by to_json).   *)
EXTENDS Naturals, Sequences, FiniteSets, TLC

CONSTANT Deviations
DeviationNames == {"MarkerBeforeHint", "NoMarkerEscape", "PassThroughNonJson", "EncodeFromPosition"}
Dev(d) == d \in Deviations

Markers == {"_type", "_bytes", "_bytesio"}

Null == [t |-> "null"]
Str(s) == [t |-> "str", s |-> s]
Err == [t |-> "error"]
Obj(kv) == [t |-> "obj", kv |-> kv]
EObj(kv) == [t |-> "eobj", kv |-> kv]
Arr(xs) == [t |-> "arr", xs |-> xs]

Keys(kv) == { kv[i][1] : i \in DOMAIN kv }
Get(kv, k) == kv[CHOOSE i \in DOMAIN kv : kv[i][1] = k][2]

B64Enc(E, b) == IF b \in DOMAIN E.enc THEN E.enc[b] ELSE "?"
\* the bytes a read() from the current position delivers (content ids are opaque: only the two ends are known)
Rest(b, pos) == IF pos = "start" THEN b ELSE IF pos = "end" THEN "" ELSE "rest-of:" \o b
\* _bytesio_to_base64: tell, seek(0), read everything, seek back -- the whole content whatever the position
StreamContent(v) == IF Dev("EncodeFromPosition") THEN Rest(v.b, v.pos) ELSE v.b
B64Dec(E, s) == IF s \in DOMAIN E.dec THEN E.dec[s] ELSE "ERR"

(* ------------------------------------------------------------------ encoder *)
RECURSIVE Ser(_, _, _)
Ser(E, v, ib) ==
    CASE v.t = "bytesio" -> IF ib THEN Obj(<< <<"_bytesio", Str(B64Enc(E, StreamContent(v)))>> >>) ELSE Null
      [] v.t = "bytes"   -> IF ib THEN Obj(<< <<"_bytes", Str(B64Enc(E, v.b))>> >>) ELSE Null
      [] v.t = "dc"      -> Obj(<< <<"_type", Str(v.c)>> >> \o
                                [i \in 1..Len(v.f) |-> <<v.f[i][1], Ser(E, v.f[i][2], ib)>>])
      [] v.t = "dict"    -> LET kv == [i \in 1..Len(v.kv) |-> <<v.kv[i][1], Ser(E, v.kv[i][2], ib)>>] IN
                            IF ~Dev("NoMarkerEscape") /\ Keys(v.kv) \cap Markers # {}
                            THEN EObj(kv) ELSE Obj(kv)
      [] v.t \in {"list", "tuple", "set"} -> Arr([i \in 1..Len(v.xs) |-> Ser(E, v.xs[i], ib)])
      [] OTHER           -> v                                  \* "return value"

Wrap(j) == IF j.t \in {"obj", "eobj"} THEN j ELSE Obj(<< <<"value", j>> >>)     \* serialize_extraction

\* what the standard encoder accepts
RECURSIVE JsonOK(_)
JsonOK(j) ==
    CASE j.t \in {"null", "bool", "int", "num", "str"} -> TRUE
      [] j.t = "arr" -> \A i \in DOMAIN j.xs : JsonOK(j.xs[i])
      [] j.t \in {"obj", "eobj"} -> \A i \in DOMAIN j.kv : JsonOK(j.kv[i][2])
      [] OTHER -> FALSE

\* the binary leaves of v replaced by None, nothing else changed
RECURSIVE NullBinary(_)
NullBinary(v) ==
    CASE v.t \in {"bytes", "bytesio"} -> Null
      [] v.t = "dc"   -> [v EXCEPT !.f = [i \in 1..Len(v.f) |-> <<v.f[i][1], NullBinary(v.f[i][2])>>]]
      [] v.t = "dict" -> [v EXCEPT !.kv = [i \in 1..Len(v.kv) |-> <<v.kv[i][1], NullBinary(v.kv[i][2])>>]]
      [] v.t \in {"list", "tuple", "set"} -> [v EXCEPT !.xs = [i \in 1..Len(v.xs) |-> NullBinary(v.xs[i])]]
      [] OTHER -> v

(* ------------------------------------------------------------------ decoder *)
\* a JSON value handed back unchanged is the Python value json.loads built
RECURSIVE Raw(_)
Raw(j) ==
    CASE j.t = "arr" -> [t |-> "list", xs |-> [i \in 1..Len(j.xs) |-> Raw(j.xs[i])]]
      [] j.t \in {"obj", "eobj"} -> [t |-> "dict", kv |-> [i \in 1..Len(j.kv) |-> <<j.kv[i][1], Raw(j.kv[i][2])>>]]
      [] OTHER -> j

DecBytes(E, tag, j) ==          \* base64.b64decode(x.encode()): x must be a str holding valid base64
    IF j.t # "str" THEN Err
    ELSE LET b == B64Dec(E, j.s) IN
         IF b = "ERR" THEN Err
         ELSE IF tag = "bytesio" THEN [t |-> tag, b |-> b, pos |-> "start"] ELSE [t |-> tag, b |-> b]

Unwrap(h) == IF h.k = "opt" THEN h.of ELSE h
AnyHint == [k |-> "any"]

RECURSIVE Deser(_, _, _), DeserDC(_, _, _)
Deser(E, j, hint) ==
    IF j.t = "null" THEN Null
    ELSE
    LET h == Unwrap(hint)
        isObj == j.t \in {"obj", "eobj"}
        AsDict == [t |-> "dict", kv |-> [i \in 1..Len(j.kv) |-> <<j.kv[i][1], Deser(E, j.kv[i][2], IF h.k = "dict" THEN h.of ELSE AnyHint)>>]]
    IN
    \* reference design: a Dict[...] hint decides before any marker test; an escaped object is a dict
    IF isObj /\ h.k = "dict" /\ ~Dev("MarkerBeforeHint") THEN AsDict
    ELSE IF j.t = "eobj" THEN AsDict
    ELSE IF isObj /\ "_bytesio" \in Keys(j.kv) THEN DecBytes(E, "bytesio", Get(j.kv, "_bytesio"))
    ELSE IF isObj /\ "_bytes" \in Keys(j.kv) THEN DecBytes(E, "bytes", Get(j.kv, "_bytes"))
    ELSE IF isObj /\ "_type" \in Keys(j.kv) THEN DeserDC(E, j, "")
    ELSE IF h.k = "list" THEN
            IF j.t = "arr" THEN [t |-> "list", xs |-> [i \in 1..Len(j.xs) |-> Deser(E, j.xs[i], h.of)]]
            ELSE Raw(j)
    ELSE IF h.k = "dict" THEN (IF isObj THEN AsDict ELSE Raw(j))
    ELSE IF h.k = "bytes" THEN (IF j.t = "str" THEN DecBytes(E, "bytes", j) ELSE Raw(j))
    ELSE IF h.k = "bytesio" THEN (IF j.t = "str" THEN DecBytes(E, "bytesio", j) ELSE Raw(j))
    ELSE IF h.k = "dc" THEN (IF isObj THEN DeserDC(E, j, h.c) ELSE Raw(j))
    ELSE Raw(j)

DeserDC(E, j, expected) ==
    LET tn == IF "_type" \in Keys(j.kv) THEN Get(j.kv, "_type") ELSE Null IN
    IF tn.t \in {"arr", "obj", "eobj"} THEN Err                 \* unhashable `in registry`
    ELSE
    LET cls == IF tn.t = "str" /\ tn.s # "" /\ tn.s \in DOMAIN E.schema THEN tn.s ELSE expected IN
    IF cls = "" THEN Raw(j)                                      \* "can't determine the class"
    ELSE
    LET fs == E.schema[cls]
        FieldVal(fd) == IF fd[1] \in Keys(j.kv) THEN Deser(E, Get(j.kv, fd[1]), fd[2]) ELSE fd[3]
    IN  [t |-> "dc", c |-> cls, f |-> [i \in 1..Len(fs) |-> <<fs[i][1], FieldVal(fs[i])>>]]

RECURSIVE HasErr(_)
HasErr(v) ==
    CASE v.t \in {"error", "required"} -> TRUE        \* "required": cls(**kwargs) misses an argument
      [] v.t = "dc" -> \E i \in DOMAIN v.f : HasErr(v.f[i][2])
      [] v.t = "dict" -> \E i \in DOMAIN v.kv : HasErr(v.kv[i][2])
      [] v.t \in {"list", "tuple", "set"} -> \E i \in DOMAIN v.xs : HasErr(v.xs[i])
      [] OTHER -> FALSE

\* what from_json(json.loads(json.dumps(to_json(v)))) returns;  json round trip is the identity on j
FromJson(E, j) ==
    IF j.t \notin {"obj", "eobj"} \/ "_type" \notin Keys(j.kv) THEN Err          \* deserialize_extraction
    ELSE LET r == DeserDC(E, j, "") IN IF HasErr(r) THEN Err ELSE r

\* tuples and sets come back as lists, a stream comes back rewound (content equality only)
RECURSIVE Canon(_)
Canon(v) ==
    CASE v.t \in {"list", "tuple", "set"} -> [t |-> "list", xs |-> [i \in 1..Len(v.xs) |-> Canon(v.xs[i])]]
      [] v.t = "dc"   -> [v EXCEPT !.f = [i \in 1..Len(v.f) |-> <<v.f[i][1], Canon(v.f[i][2])>>]]
      [] v.t = "dict" -> [v EXCEPT !.kv = [i \in 1..Len(v.kv) |-> <<v.kv[i][1], Canon(v.kv[i][2])>>]]
      [] v.t = "bytesio" -> [v EXCEPT !.pos = "start"]
      [] OTHER -> v

(* ------------------------------------------------------------------ the property *)
Prop_Serialisable(E, v) == JsonOK(Ser(E, v, TRUE)) /\ JsonOK(Ser(E, v, FALSE))
Prop_RoundTrip(E, v)    == FromJson(E, Ser(E, v, TRUE)) = Canon(v)
Prop_BinaryExcluded(E, v) == Ser(E, v, FALSE) = Ser(E, NullBinary(v), TRUE)
Prop_C05(E, v) == Prop_Serialisable(E, v) /\ Prop_RoundTrip(E, v) /\ Prop_BinaryExcluded(E, v)
\* (+ Prop_BinaryOnlyInBinaryFields below, which concerns values an EXTRACTOR puts into a field)

(* ------------------------------------------------------------------ binary values only in binary fields *)
\* "With binary payloads excluded exactly the BINARY FIELDS become null": a bytes / BytesIO value may
\* stand only where the declared type of the position is bytes, io.BytesIO or Any (or a hint the schema
\* export could not classify) -- never in a field declared str / int / a dataclass / a list: such a
\* TEXT field would be written as a base64 wrapper, become null with binaries excluded and come back from
\* from_json as bytes.  None is tolerated everywhere (several str fields default to None).
GenOf(h) == IF h.k = "opt" THEN h.of ELSE IF h.k = "other" THEN (IF h.g.k = "opt" THEN h.g.of ELSE h.g) ELSE h
RECURSIVE BinaryWhereDeclared(_, _, _)
BinaryWhereDeclared(E, v, hint) ==
    LET h == GenOf(hint) IN
    CASE v.t \in {"bytes", "bytesio"} -> h.k \in {"bytes", "bytesio", "any", "dflt"}
      [] v.t = "dc" ->
            \/ v.c \notin DOMAIN E.schema
            \/ \A i \in DOMAIN v.f : \A q \in DOMAIN E.schema[v.c] :
                   E.schema[v.c][q][1] = v.f[i][1] => BinaryWhereDeclared(E, v.f[i][2], E.schema[v.c][q][2])
      [] v.t = "dict" ->
            \A i \in DOMAIN v.kv : BinaryWhereDeclared(E, v.kv[i][2], IF h.k = "dict" THEN h.of ELSE AnyHint)
      [] v.t \in {"list", "tuple", "set"} ->
            \A i \in DOMAIN v.xs : BinaryWhereDeclared(E, v.xs[i], IF h.k = "list" THEN h.of ELSE AnyHint)
      [] OTHER -> TRUE
Prop_BinaryOnlyInBinaryFields(E, v) == BinaryWhereDeclared(E, v, AnyHint)

(* ------------------------------------------------------------------ domain of KF-C05-01 *)
\* v holds a plain dict with a marker key at a position DECLARED Any (a field declared Dict[...] -- or a
\* bare `dict`, which the decoder cannot tell from a primitive -- holds user-keyed data: not in the domain)
RECURSIVE MarkerDictUnderAny(_, _, _)
MarkerDictUnderAny(E, v, hint) ==
    LET h == GenOf(hint) IN
    CASE v.t = "dict" ->
            \/ (h.k # "dict" /\ Keys(v.kv) \cap Markers # {})
            \/ \E i \in DOMAIN v.kv : MarkerDictUnderAny(E, v.kv[i][2], IF h.k = "dict" THEN h.of ELSE AnyHint)
      [] v.t \in {"list", "tuple", "set"} ->
            \E i \in DOMAIN v.xs : MarkerDictUnderAny(E, v.xs[i], IF h.k = "list" THEN h.of ELSE AnyHint)
      [] v.t = "dc" ->
            /\ v.c \in DOMAIN E.schema
            /\ \E i \in DOMAIN v.f : \E q \in DOMAIN E.schema[v.c] :
                   E.schema[v.c][q][1] = v.f[i][1] /\ MarkerDictUnderAny(E, v.f[i][2], E.schema[v.c][q][2])
      [] OTHER -> FALSE
InDomain_KF_C05_01(E, v) == MarkerDictUnderAny(E, v, AnyHint)

(* ------------------------------------------------------------------ cell normalisation *)
\* xlsx_extractor.py:_get_cell_value -- the type of the value stored in sheet.data for a cell whose
\* openpyxl value has the given Python type
CellNorm(kind) ==
    CASE kind = "NoneType" -> "null"
      [] kind \in {"datetime", "date", "time"} -> "str"                  \* isoformat()
      [] kind = "timedelta" -> IF Dev("PassThroughNonJson") THEN "py" ELSE "str"
      [] kind = "str" -> "str"
      [] kind = "bool" -> "bool"
      [] kind = "int" -> "int"
      [] kind = "float" -> "num"
      [] OTHER -> "py"

\* xlsx_extractor.py:_read_sheet_data -- the first row of a sheet becomes the header row of sheet.data.
\* How a typed header cell is rendered is not documented (today: str(value), "Unnamed: i" for empty cells):
\* DON'T-CARE which JSON scalar it becomes, but it must be one.
HeaderCellOK(tag) == tag \in {"null", "str", "bool", "int", "num"}
=============================================================================
