--------------------------- MODULE PipelineTrace ---------------------------
(* code -> spec for the backbone: coarse stage events of real read_file() calls
      Stat, Route, Open, Load, Yield, End(outcome)
   recorded by wrappers on pathlib.Path.stat, the module-level get_extractor, builtins.open / file.read and the
   result generator.  The stages inside the extractor that have no coarse event (Detect, Validate, ReadMember,
   Parse) are silent steps of Pipeline!Next, bounded because every one of them advances the stage or a counter.
   hdr.facts are the facts the harness knows by construction of the input (tooLarge, supported); the others
   are left to TLC (chosen at Init).                                                                        *)
EXTENDS Pipeline, Json, IOUtils, TLCExt

Traces == JsonDeserialize(IOEnv.TRACE_FILE)
VARIABLES tid, l, statSeen, routeSeen   \* the file size was looked at / get_extractor was called (only then can the
tvars == <<tid, l, statSeen, routeSeen>>  \* size guard / the router have decided)
Ev == Traces[tid].ev[l]
Consume(a) == l <= Len(Traces[tid].ev) /\ Ev.a = a /\ l' = l + 1 /\ UNCHANGED <<tid, statSeen, routeSeen>>
Silent == UNCHANGED <<tid, l, statSeen, routeSeen>>
\* the guard can only have decided if the size was looked at, unless the limit is disabled (max_file_size = 0)
GuardPossible == statSeen \/ ~Traces[tid].hdr.limit

TraceInit == /\ tid \in 1..Len(Traces) /\ l = 1 /\ statSeen = FALSE /\ routeSeen = FALSE
             /\ Init
             /\ f.tooLarge = Traces[tid].hdr.tooLarge /\ f.supported = Traces[tid].hdr.supported

TraceNext ==
    \/ (l <= Len(Traces[tid].ev) /\ Ev.a = "Stat" /\ l' = l + 1 /\ statSeen' = TRUE /\ UNCHANGED <<tid, routeSeen, vars>>)   \* a look at the size
    \/ (Silent /\ GuardPossible /\ SizeGuard /\ stage' = "sized")
    \/ (l <= Len(Traces[tid].ev) /\ Ev.a = "Route" /\ stage = "sized" /\ l' = l + 1 /\ routeSeen' = TRUE
          /\ UNCHANGED <<tid, statSeen, vars>>)                                              \* get_extractor is called
    \/ (Silent /\ routeSeen /\ Route /\ stage' = "routed")
    \/ (Consume("Open") /\ Open)
    \/ (Consume("Load") /\ Load)
    \/ (Consume("Yield") /\ Yield)
    \/ (Consume("End") /\ Ev.out = "Done" /\ Finish)
    \/ (Consume("End") /\ Ev.out = "TooLarge" /\ GuardPossible /\ SizeGuard /\ err' = "TooLarge")
    \/ (Consume("End") /\ Ev.out = "NotSupported" /\ routeSeen /\ Route /\ err' = "NotSupported")
    \/ (Consume("End") /\ Ev.out \in {"Encrypted", "ZipBomb", "Failed"}
          /\ (DetectOuter \/ Validate \/ DetectInner \/ Parse) /\ err' = Ev.out)
    \/ (Silent /\ (DetectOuter \/ EnterProbe \/ Validate \/ ReadMember \/ DetectInner \/ Parse) /\ stage' # "failed")

TraceSpec == TraceInit /\ [][TraceNext]_<<vars, tvars>>
TraceAccept ==
    /\ (l = Len(Traces[tid].ev) + 1) => PrintT(<<"ACCEPT", tid>>)
    /\ (IOEnv.MBV_PROGRESS = "1") => PrintT(<<"AT", tid, l>>)
=============================================================================
