------------------------------- MODULE PptSlides -------------------------------
(* Step machine (one step per record) and theorems for the PPT slide list model; definitions: PptSlidesDefs.tla.
   Universe: record sequences that start with a persist atom, up to MaxRecs records.
   Theorems (C03, WalkDev = {}):
       Inv_StepAgreesWithFunction   the machine computes PptSlidesDefs!SlidesOf
       Inv_OneSlidePerPersistAtom   as many slides as persist atoms, in order
       Inv_TextsOnTheirSlide        slide k holds exactly the (non-empty) texts between persist atom k and the next one
       Inv_TitleIsFirstTitle        the title is the first title-typed text of the slide; later ones are "other" text
       Prop_Terminates
   Sensitivity: "Ppt!EmptySlideDropped" violates OneSlidePerPersistAtom.                                   *)
EXTENDS PptSlidesDefs

CONSTANT MaxRecs

VARIABLES recs, k, st, out
vars == <<recs, k, st, out>>
Kinds == { <<"P", 0, 0>>, <<"T", 0, 1>>, <<"T", 1, 1>>, <<"T", 4, 1>>, <<"T", 2, 1>>, <<"T", 1, 0>> }
Number(s) == [j \in DOMAIN s |-> IF s[j][1] = "T" /\ s[j][3] # 0 THEN <<"T", s[j][2], j>> ELSE s[j]]
Init == /\ recs \in {Number(<< <<"P", 0, 0>> >> \o s) : s \in UNION {[1..n -> Kinds] : n \in 0..(MaxRecs - 1)}}
        /\ k = 1 /\ st = S0 /\ out = [done |-> FALSE, slides |-> <<>>]
Rec == k <= Len(recs) /\ st' = Step(st, recs[k]) /\ k' = k + 1 /\ UNCHANGED <<recs, out>>
End == k = Len(recs) + 1 /\ ~out.done /\ out' = [done |-> TRUE, slides |-> Finish(st)] /\ UNCHANGED <<recs, k, st>>
Next == Rec \/ End
Spec == Init /\ [][Next]_vars /\ WF_vars(Next)
GenSpec == Init /\ [][UNCHANGED vars]_vars

Inv_StepAgreesWithFunction == out.done => out.slides = SlidesOf(recs)
Inv_OneSlidePerPersistAtom == out.done => Len(out.slides) = Len(PersistPos(recs))
Inv_TextsOnTheirSlide ==
    out.done /\ Len(out.slides) = Len(PersistPos(recs)) =>
        \A n \in DOMAIN out.slides :
            LET pp == PersistPos(recs)
                lo == pp[n]
                hi == IF n < Len(pp) THEN pp[n + 1] ELSE Len(recs) + 1
            IN TextsOf(out.slides[n]) = {recs[j][3] : j \in {i \in (lo + 1)..(hi - 1) : recs[i][1] = "T" /\ recs[i][3] # 0}}
Inv_TitleIsFirstTitle ==
    out.done /\ Len(out.slides) = Len(PersistPos(recs)) =>
        \A n \in DOMAIN out.slides :
            LET pp == PersistPos(recs)
                lo == pp[n]
                hi == IF n < Len(pp) THEN pp[n + 1] ELSE Len(recs) + 1
                titles == SelectSeq([j \in 1..(hi - lo - 1) |-> IF recs[lo + j][1] = "T" /\ recs[lo + j][2] = 0 /\ recs[lo + j][3] # 0
                                                                  THEN recs[lo + j][3] ELSE 0], LAMBDA x : x # 0)
            IN out.slides[n].title = (IF titles = <<>> THEN <<>> ELSE <<titles[1]>>)
Prop_Terminates == <>(out.done)
=============================================================================
