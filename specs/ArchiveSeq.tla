----------------------------- MODULE ArchiveSeq -----------------------------
(* C09, "results are a function of the archive bytes only": HISTORY INDEPENDENCE.

   One interpreter processes a SEQUENCE of archives (read_archive called again and again, as a service or
   the CLI over a directory does).  What an archive yields must not depend on which archives were processed
   before it: it must equal what the same bytes yield in a fresh process.

     arch   = [fmt, kinds]   kinds: sequence over {"doc", "emptyFile", "dir", "anti"} (anti = 7z anti-item)
     seq    = the archives, in processing order        pos = next one
     leak   = reader state that survives from one archive to the next (reference design: none)
     obs    = per processed archive, what came out:  its own entries (Alone), or something else

   Reference design: every reader object starts from its own fresh registers; obs[i] = Alone(seq[i]).
   DEVIATION "SharedEmptyIndices" (a register of the 7z reader kept at class level, i.e. shared by all
   reader objects of the process): the indices of empty-file entries accumulate; a later 7z archive has the
   entries at those indices replaced by empty files, or fails when an index lies beyond its entry list.

   THEOREM (TLC): Inv_HistoryIndependent over all sequences of <= MaxSeq archives of <= MaxEntries entries.
   The binding runs every sequence in ONE forked child of an import-only zygote process and every archive
   alone in its own forked child; ArchiveSeqTrace compares.                                              *)
EXTENDS Naturals, Sequences, FiniteSets, TLC

CONSTANTS Fmts, MaxEntries, MaxSeq, Deviations
ASSUME Deviations \subseteq {"SharedEmptyIndices"}

VARIABLES seq, pos, leak, obs
vars == <<seq, pos, leak, obs>>

Kinds(f) == IF f = "7z" THEN {"doc", "emptyFile", "dir", "anti"} ELSE {"doc", "emptyFile", "dir"}
Archives == UNION { { [fmt |-> f, kinds |-> ks] : ks \in UNION { [1..n -> Kinds(f)] : n \in 1..MaxEntries } } : f \in Fmts }
Seqs == UNION { [1..n -> Archives] : n \in 1..MaxSeq }

Alone(a) == a.kinds                                   \* abstractly: an archive yields its own entries
Differs == <<"something else">>
Leaked(a, lk) == IF a.fmt # "7z" \/ lk = {} THEN Alone(a)
                 ELSE IF \E k \in lk : k > Len(a.kinds) THEN <<"archive fails">>
                 ELSE [n \in 1..Len(a.kinds) |-> IF n \in lk /\ a.kinds[n] = "doc" THEN "emptied" ELSE a.kinds[n]]

Init == seq \in Seqs /\ pos = 1 /\ leak = {} /\ obs = <<>>
Process == /\ pos <= Len(seq)
           /\ LET a == seq[pos] IN
              IF "SharedEmptyIndices" \in Deviations
              THEN /\ obs' = Append(obs, Leaked(a, leak))
                   /\ leak' = IF a.fmt = "7z" THEN leak \cup { n \in 1..Len(a.kinds) : a.kinds[n] = "emptyFile" } ELSE leak
              ELSE obs' = Append(obs, Alone(a)) /\ leak' = leak
           /\ pos' = pos + 1 /\ UNCHANGED seq
Next == Process
Spec == Init /\ [][Next]_vars
GenSpec == Init /\ [][UNCHANGED vars]_vars

Inv_HistoryIndependent == \A i \in 1..Len(obs) : obs[i] = Alone(seq[i])
=============================================================================
