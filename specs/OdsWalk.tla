------------------------------- MODULE OdsWalk -------------------------------
(* Algorithm-shaped model of the ODS sheet reader  ods_extractor.py:_extract_sheet  as a step machine: one step per
   row element, per cell element, per trimmed row, per scanned row, per built row (the loops of the code), so that
   TLC also shows termination.  Cell algebra, functional form and the position semantics of the file: OdsWalkDefs.

   Theorems (C13; for every sheet of the bounded universe, WalkDev = {}):
       Inv_StepAgreesWithFunction  the machine computes OdsWalkDefs!DataOf
       Inv_NothingLost             every non-empty source position (i, j) is cell (i, j) of the table
       Inv_NothingInvented         every table cell (i, j) is the value of source position (i, j)
       Inv_Rect                    the table is rectangular, ends with the last non-empty row / column
       Prop_Terminates
   With the as-built step "Ods!LargeGapCollapsed" switched on, NothingLost / NothingInvented fail (KF-C13-09): a run
   of more than Big empty cells or rows followed by data moves that data.  OdsWalkTrace.tla binds the real reader to
   the machine's function (Big = 100).                                                                   *)
EXTENDS OdsWalkDefs

CONSTANTS MaxRowElems, MaxCellElems

VARIABLES src, pc, a, b, rowVals, rawRows, lastCol, i, data
vars == <<src, pc, a, b, rowVals, rawRows, lastCol, i, data>>

Vals == {<<"tok", 1>>, <<"num", 0>>}
EmptyReps == {1, 2, Big, Big + 1}
CellElems == {[rep |-> n, v |-> None] : n \in EmptyReps} \cup {[rep |-> n, v |-> x] : n \in {1, 2}, x \in Vals}
CellSeqs == UNION {[1..n -> CellElems] : n \in 0..MaxCellElems}
EmptySeq(cs) == \A k \in DOMAIN cs : ~NonEmpty(cs[k].v)
RowElems == {[rep |-> n, cells |-> cs] : n \in EmptyReps, cs \in {x \in CellSeqs : EmptySeq(x)}}
            \cup {[rep |-> n, cells |-> cs] : n \in {1, 2}, cs \in {x \in CellSeqs : ~EmptySeq(x)}}
\* a token is named after the element it was written in (copies of one element are the same text)
Stamp(g) == [r \in DOMAIN g |-> [g[r] EXCEPT !.cells = [c \in DOMAIN g[r].cells |->
                 IF g[r].cells[c].v[1] = "tok" THEN [g[r].cells[c] EXCEPT !.v = <<"tok", 10 * r + c>>] ELSE g[r].cells[c]]]]

Init == /\ src \in {Stamp(g) : g \in UNION {[1..n -> RowElems] : n \in 0..MaxRowElems}}
        /\ pc = "start" /\ a = 0 /\ b = 0 /\ rowVals = <<>> /\ rawRows = <<>> /\ lastCol = 0 /\ i = 0 /\ data = <<>>

Start == pc = "start" /\ pc' = "row" /\ a' = 1 /\ UNCHANGED <<src, b, rowVals, rawRows, lastCol, i, data>>

\* for row in table.findall("table:table-row")
RowBegin == /\ pc = "row"
            /\ IF a > Len(src) THEN pc' = "trimRows" /\ UNCHANGED <<b, rowVals>>
               ELSE pc' = "cell" /\ b' = 1 /\ rowVals' = <<>>
            /\ UNCHANGED <<src, a, rawRows, lastCol, i, data>>

\* for cell in row: row_values.append((None, "")) | row_values.extend([value] * cell_repeat)
Cell == /\ pc = "cell"
        /\ IF b > Len(src[a].cells) THEN pc' = "rowEnd" /\ UNCHANGED <<b, rowVals>>
           ELSE rowVals' = rowVals \o CellRun(src[a].cells[b]) /\ b' = b + 1 /\ UNCHANGED pc
        /\ UNCHANGED <<src, a, rawRows, lastCol, i, data>>

\* raw_rows.append(row_values) | raw_rows.extend([row_values] * row_repeat)
RowEnd == /\ pc = "rowEnd"
          /\ rawRows' = rawRows \o (IF Collapse /\ src[a].rep > Big /\ AllNone(rowVals) THEN <<rowVals>>
                                    ELSE Copies(rowVals, src[a].rep))
          /\ a' = a + 1 /\ pc' = "row"
          /\ UNCHANGED <<src, b, rowVals, lastCol, i, data>>

\* while raw_rows and all(v[0] is None for v in raw_rows[-1]): raw_rows.pop()
TrimRowsStep == /\ pc = "trimRows"
                /\ IF rawRows # <<>> /\ AllNone(rawRows[Len(rawRows)])
                   THEN rawRows' = SubSeq(rawRows, 1, Len(rawRows) - 1) /\ UNCHANGED <<pc, i>>
                   ELSE pc' = "scanCols" /\ i' = 1 /\ UNCHANGED rawRows
                /\ UNCHANGED <<src, a, b, rowVals, lastCol, data>>

\* last_data_col = max(last_data_col, index of the last non-None value + 1)
ScanCols == /\ pc = "scanCols"
            /\ IF i > Len(rawRows) THEN pc' = "build" /\ i' = 1 /\ UNCHANGED lastCol
               ELSE lastCol' = Max2(lastCol, RowLastCol(rawRows[i])) /\ i' = i + 1 /\ UNCHANGED pc
            /\ UNCHANGED <<src, a, b, rowVals, rawRows, data>>

\* rows_data.append(row padded / cut to max_cols)
Build == /\ pc = "build"
         /\ IF i > Len(rawRows) THEN pc' = "done" /\ UNCHANGED <<i, data>>
            ELSE data' = Append(data, Pad(rawRows[i], lastCol)) /\ i' = i + 1 /\ UNCHANGED pc
         /\ UNCHANGED <<src, a, b, rowVals, rawRows, lastCol>>

Next == Start \/ RowBegin \/ Cell \/ RowEnd \/ TrimRowsStep \/ ScanCols \/ Build
Spec == Init /\ [][Next]_vars /\ WF_vars(Next)
GenSpec == Init /\ [][UNCHANGED vars]_vars          \* the universe of input sheets alone (spec -> code replay)

Inv_StepAgreesWithFunction == pc = "done" => data = DataOf(src)
Inv_NothingLost ==
    pc = "done" => \A r \in 1..SrcRows(src) : \A c \in 1..SrcCols(src) :
                      NonEmpty(SrcAt(src, r, c)) => (r \in DOMAIN data /\ c \in DOMAIN data[r] /\ data[r][c] = SrcAt(src, r, c))
Inv_NothingInvented ==
    pc = "done" => \A r \in DOMAIN data : \A c \in DOMAIN data[r] : data[r][c] = SrcAt(src, r, c)
Inv_Rect ==
    pc = "done" => /\ \A r \in DOMAIN data : Len(data[r]) = lastCol
                   /\ (data # <<>> => ~AllNone(data[Len(data)]) /\ \E r \in DOMAIN data : NonEmpty(data[r][lastCol]))
Prop_Terminates == <>(pc = "done")
=============================================================================
