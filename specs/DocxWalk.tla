------------------------------ MODULE DocxWalk ------------------------------
(* Algorithm-shaped model of the DOCX main-text walk
       docx_extractor.py: _extract_full_text_from_body / _iter_block_elements /
                          _extract_table_text / _extract_paragraph_content / _process_text_element
   over the abstract document of Doc.tla (the writer maps Block/Inline one-to-one onto
   WordprocessingML: p -> w:p, tbl -> w:tbl/w:tr/w:tc, sdt -> w:sdt/w:sdtContent, ul -> list
   paragraphs, tbx -> w:p/w:r/mc:AlternateContent{Choice: wps:txbx, Fallback: v:textbox},
   r -> w:r/w:t, del -> w:del/w:r/w:delText, fn/cm -> reference runs without w:t).

   The model produces the output as a sequence of atoms  <<"t", id>> | <<"ws">> ; TLC checks on
   the whole DocGen universe that the walk satisfies Doc!Fidelity for docx (theorem WalkOK), and
   that each pre-fix step, switched on as a named deviation, violates it (sensitivity runs):
     "Docx!TabBreakDropped"      w:tab / w:br / w:cr emit nothing
     "Docx!BlockSdtLost"         block-level w:sdt children of the body are skipped
     "Docx!NestedTableRepeated"  rows / cells collected with iter(): nested rows and cells too
     "Docx!TextboxParagraphsGlued" paragraphs of a text box concatenated without separator        *)
EXTENDS Doc

CONSTANT WalkDev

WS == << <<"ws">> >>

RECURSIVE WInls(_)
\* _process_text_element on the children of a paragraph
WInl(i) ==
    CASE i[1] = "r"    -> << <<"t", i[2]>> >>
      [] i[1] \in {"tab", "br"} -> IF "Docx!TabBreakDropped" \in WalkDev THEN <<>> ELSE WS
      [] i[1] = "sp"   -> WS                                       \* a w:t that holds a blank
      [] i[1] \in {"a", "ins", "isdt"} -> WInls(i[2])          \* generic recursion into children
      [] i[1] = "del"  -> <<>>                                   \* runs carry w:delText, never w:t
      [] i[1] \in {"fn", "cm"} -> <<>>                           \* reference runs have no w:t
      [] i[1] = "itbx" -> ConcatAll([k \in DOMAIN i[2] |->       \* w:r / AlternateContent / Choice / txbxContent / w:p: each nested
                             WS \o (IF i[2][k][1] = "p" THEN WInls(i[2][k][2]) ELSE <<>>) \o WS])   \* paragraph set apart by line breaks
WInls(is) == ConcatAll([k \in DOMAIN is |-> WInl(is[k])])

\* ---- the XML tree the body walk sees: every block expands to a sequence of body-level elements
\* element:  <<"P", inlineText>>  |  <<"TBL", rows>>  |  <<"SDT", elements>>
\*           where a text box paragraph is a "P" whose text is the concatenation of its inner paragraphs
RECURSIVE Elems(_), AllParasOfElems(_)

\* nested paragraphs are kept apart by newlines ("Docx!TextboxParagraphsGlued": pre-fix, plain concatenation)
ParaTextOfTbx(bs) ==
    LET ps == [k \in DOMAIN bs |-> IF bs[k][1] = "p" THEN WInls(bs[k][2]) ELSE <<>>]
    IN IF "Docx!TextboxParagraphsGlued" \in WalkDev THEN ConcatAll(ps)
       ELSE ConcatAll([k \in DOMAIN ps |-> IF k = 1 THEN ps[k] ELSE WS \o ps[k]])

Elem(b) ==
    CASE b[1] = "p"   -> << <<"P", WInls(b[2])>> >>
      [] b[1] = "h"   -> << <<"P", WInls(b[3])>> >>
      [] b[1] = "ul"  -> ConcatAll([k \in DOMAIN b[2] |-> Elems(b[2][k])])     \* list items are plain paragraphs
      [] b[1] = "tbl" -> << <<"TBL", [r \in DOMAIN b[2] |-> [c \in DOMAIN b[2][r] |-> Elems(b[2][r][c])]]>> >>
      [] b[1] = "sdt" -> << <<"SDT", Elems(b[2])>> >>
      [] b[1] = "tbx" -> << <<"P", ParaTextOfTbx(b[2])>> >>                    \* Choice branch only
Elems(bs) == ConcatAll([k \in DOMAIN bs |-> Elem(bs[k])])

\* all descendant paragraphs (cell.iter(W_P)), document order
AllParas(e) ==
    CASE e[1] = "P"   -> << e[2] >>
      [] e[1] = "SDT" -> AllParasOfElems(e[2])
      [] e[1] = "TBL" -> ConcatAll([r \in DOMAIN e[2] |-> ConcatAll([c \in DOMAIN e[2][r] |-> AllParasOfElems(e[2][r][c])])])
AllParasOfElems(es) == ConcatAll([k \in DOMAIN es |-> AllParas(es[k])])

\* table.iter(W_TR): own rows, and (pre-fix) the rows of nested tables, in document order
RECURSIVE RowsIter(_), RowsIterElems(_)
RowsIter(t) ==
    ConcatAll([r \in DOMAIN t[2] |->
        << t[2][r] >> \o ConcatAll([c \in DOMAIN t[2][r] |-> RowsIterElems(t[2][r][c])])])
RowsIterElems(es) ==
    ConcatAll([k \in DOMAIN es |->
        CASE es[k][1] = "TBL" -> RowsIter(es[k])
          [] es[k][1] = "SDT" -> RowsIterElems(es[k][2])
          [] OTHER -> <<>>])

\* row.iter(W_TC): own cells and (pre-fix) nested cells
RECURSIVE CellsIterElems(_)
CellsIter(row) == ConcatAll([c \in DOMAIN row |-> << row[c] >> \o CellsIterElems(row[c])])
CellsIterElems(es) ==
    ConcatAll([k \in DOMAIN es |->
        CASE es[k][1] = "TBL" -> ConcatAll([r \in DOMAIN es[k][2] |-> CellsIter(es[k][2][r])])
          [] es[k][1] = "SDT" -> CellsIterElems(es[k][2])
          [] OTHER -> <<>>])

JoinWith(parts, sepAtoms) ==          \* " ".join / "\n".join of non-empty parts
    LET ne == SelectSeq(parts, LAMBDA p : p # <<>>) IN
    ConcatAll([k \in DOMAIN ne |-> IF k = 1 THEN ne[k] ELSE sepAtoms \o ne[k]])

NonBlank(p) == \E k \in DOMAIN p : p[k][1] = "t"       \* text.strip() is non-empty

\* _extract_table_text: one output line per cell
TableLines(t) ==
    LET rows  == IF "Docx!NestedTableRepeated" \in WalkDev THEN RowsIter(t) ELSE t[2]
        cells == ConcatAll([r \in DOMAIN rows |->
                    IF "Docx!NestedTableRepeated" \in WalkDev THEN CellsIter(rows[r]) ELSE rows[r]])
        line(cell) == JoinWith(SelectSeq(AllParasOfElems(cell), NonBlank), WS)
    IN SelectSeq([k \in DOMAIN cells |-> line(cells[k])], LAMBDA l : l # <<>>)

\* _iter_block_elements + the loop of _extract_full_text_from_body
RECURSIVE BodyLines(_)
BodyLines(es) ==
    ConcatAll([k \in DOMAIN es |->
        CASE es[k][1] = "P"   -> IF NonBlank(es[k][2]) THEN << es[k][2] >> ELSE <<>>
          [] es[k][1] = "TBL" -> TableLines(es[k])
          [] es[k][1] = "SDT" -> IF "Docx!BlockSdtLost" \in WalkDev THEN <<>> ELSE BodyLines(es[k][2])])

WalkOutput(blocks) == JoinWith(BodyLines(Elems(blocks)), WS)

\* projection of the modelled output, exactly as the harness projects the real text
ObsOf(out) == LET ts == SelectSeq(out, LAMBDA a : a[1] = "t") IN [k \in DOMAIN ts |-> ts[k][2]]
SepOf(out) ==
    LET idx == SelectSeq([k \in DOMAIN out |-> IF out[k][1] = "t" THEN k ELSE 0], LAMBDA k : k # 0)
    IN [j \in 1..(Len(idx) - 1) |-> IF \E m \in (idx[j] + 1)..(idx[j + 1] - 1) : out[m][1] = "ws" THEN 1 ELSE 0]

WalkOK(doc) ==
    LET out == WalkOutput(doc.units[1].blocks)
    IN Fidelity(FlatDoc(doc), "docx", ObsOf(out), SepOf(out), <<>>, {})
=============================================================================
