---------------------------- MODULE SerialSchema ----------------------------
(* C05: placeholder for the module that mbv/props/c05.py GENERATES at check time (into its scratch
   copy of specs/) from the dataclass registry of the running code: GenShapes is the set of distinct
   generation hints of all fields of all registered dataclasses; Widths and KeySeq are the enumeration bounds
   (tuples cannot be written in a cfg file).  This stub only lets SerialGen parse
   and run in Mode = "meta".                                                                    *)
GenShapes == {}
Widths == <<2, 1, 1>>            \* container width per nesting level (1 beyond)
KeySeq == <<"_type", "_bytes", "_bytesio", "text">>     \* dict-key vocabulary, in canonical order
=============================================================================
