----------------------------- MODULE SectionsDefs -----------------------------
(* Heading-section units: the algorithm of  data_types.py: OdtContent.iterate_units / DocxContent.iterate_units
   (heading stack, current path, flush) as a fold over the paragraph list.

   A paragraph is  <<"h", level, tid>>  (a heading; tid = 0: a heading whose text is empty)
                or <<"p", pid>>          (body paragraph; pid = 0: blank).
   Heading texts are small ids that MAY repeat (two headings with the same text); body paragraphs are numbered.
   A unit is [n, level (0 = none), path (heading text ids), lines (paragraph ids)].
   base = the document title as one-element path (<<tid>>) or <<>>.

   Flavour "odt":  a heading with text flushes, pops the stack to below its level and pushes itself; a heading
                   without text is ignored; flush emits a unit only when it has text; the unit path is base + path with
                   ADJACENT equal texts merged; the text before the first heading is a unit of its own.
   Flavour "docx": every heading flushes; flush emits nothing while no heading is open ("Docx!PreambleLost",
                   KF-C03-08: as built) and skips an empty section whose next heading is deeper; the last flush emits
                   even an empty unit; a heading without text is pushed but left out of the path.
   Named deviations: "Docx!PreambleLost", "Odt!EmptyHeadingDropped" (KF-C03-09: an ODT heading whose section has no text
   yields no unit, so its text appears nowhere unless a deeper heading follows).                              *)
EXTENDS Naturals, Sequences, FiniteSets, TLC

CONSTANT WalkDev

RECURSIVE PopTo(_, _)
PopTo(stack, level) == IF stack # <<>> /\ stack[Len(stack)][1] >= level THEN PopTo(SubSeq(stack, 1, Len(stack) - 1), level) ELSE stack
PathOf(stack) == SelectSeq([k \in DOMAIN stack |-> stack[k][2]], LAMBDA t : t # 0)
RECURSIVE MergeAdjacent(_)
MergeAdjacent(s) == IF Len(s) <= 1 THEN s
                    ELSE IF s[1] = s[2] THEN MergeAdjacent(Tail(s)) ELSE <<s[1]>> \o MergeAdjacent(Tail(s))

S0 == [stack |-> <<>>, level |-> 0, path |-> <<>>, lines |-> <<>>, units |-> <<>>, any |-> FALSE, open |-> FALSE]

Unit(st, n, path) == [n |-> n, level |-> st.level, path |-> path, lines |-> st.lines]

\* ---- odt
OdtFlush(st, base) ==
    IF st.lines = <<>> /\ ~(~("Odt!EmptyHeadingDropped" \in WalkDev) /\ st.open)
    THEN [st EXCEPT !.lines = <<>>]
    ELSE [st EXCEPT !.units = Append(@, Unit(st, Len(st.units) + 1, MergeAdjacent(base \o st.path))), !.lines = <<>>, !.open = FALSE]
OdtStep(st, para, base) ==
    IF para[1] = "h" THEN
        IF para[3] = 0 THEN st
        ELSE LET f == OdtFlush(st, base)
                 stk == Append(PopTo(f.stack, para[2]), <<para[2], para[3]>>)
             IN [f EXCEPT !.stack = stk, !.level = para[2], !.path = PathOf(stk), !.any = TRUE, !.open = TRUE]
    ELSE IF para[2] = 0 THEN st ELSE [st EXCEPT !.lines = Append(@, para[2])]

\* ---- docx
DocxFlush(st, nextLevel) ==          \* nextLevel = 0: the final flush
    IF st.path = <<>> /\ ("Docx!PreambleLost" \in WalkDev \/ (st.lines = <<>> /\ ~st.open)) THEN st
    ELSE IF st.lines = <<>> /\ nextLevel # 0 /\ st.level # 0 /\ nextLevel > st.level THEN st
    ELSE [st EXCEPT !.units = Append(@, Unit(st, Len(st.units) + 1, st.path))]
DocxStep(st, para) ==
    IF para[1] = "h" THEN
        LET f == DocxFlush(st, para[2])
            stk == Append(PopTo(f.stack, para[2]), <<para[2], para[3]>>)
        IN [f EXCEPT !.stack = stk, !.level = para[2], !.path = PathOf(stk), !.lines = <<>>, !.any = TRUE, !.open = TRUE]
    ELSE IF para[2] = 0 THEN st ELSE [st EXCEPT !.lines = Append(@, para[2])]

Step(flavour, st, para, base) == IF flavour = "odt" THEN OdtStep(st, para, base) ELSE DocxStep(st, para)
RECURSIVE Fold(_, _, _, _)
Fold(flavour, st, paras, base) == IF paras = <<>> THEN st ELSE Fold(flavour, Step(flavour, st, Head(paras), base), Tail(paras), base)

BodyIds(paras) == SelectSeq([k \in DOMAIN paras |-> IF paras[k][1] = "p" THEN paras[k][2] ELSE 0], LAMBDA x : x # 0)
\* no heading at all: one unit holding the whole text (path = base for odt, none for docx)
Whole(flavour, paras, base) == << [n |-> 1, level |-> IF flavour = "odt" /\ base # <<>> THEN 1 ELSE 0,
                                   path |-> IF flavour = "odt" THEN base ELSE <<>>, lines |-> BodyIds(paras)] >>
Finish(flavour, st, paras, base) ==
    IF ~st.any THEN Whole(flavour, paras, base)
    ELSE IF flavour = "odt" THEN OdtFlush(st, base).units
    ELSE IF paras = <<>> THEN st.units ELSE DocxFlush(st, 0).units
UnitsOf(flavour, paras, base) == Finish(flavour, Fold(flavour, S0, paras, base), paras, base)

(* ---- declarative meaning: the chain of open headings at a position ---- *)
Heads(paras, k) == SelectSeq([j \in 1..k |-> j], LAMBDA j : paras[j][1] = "h" /\ (paras[j][3] # 0))
\* heading at j is open at position k iff every heading in (j, k] is deeper than it  (headings without text: the odt
\* flavour ignores them altogether, the docx flavour lets them close shallower-or-equal headings)
OpenChain(flavour, paras, k) ==
    LET hs == SelectSeq([j \in 1..k |-> j], LAMBDA j : paras[j][1] = "h" /\ (flavour = "docx" \/ paras[j][3] # 0))
        open(j) == \A m \in (j + 1)..k : (paras[m][1] = "h" /\ (flavour = "docx" \/ paras[m][3] # 0)) => paras[m][2] > paras[j][2]
    IN SelectSeq([i \in DOMAIN hs |-> IF open(hs[i]) THEN paras[hs[i]][3] ELSE 0], LAMBDA t : t # 0)
=============================================================================
