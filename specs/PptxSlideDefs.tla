---------------------------- MODULE PptxSlideDefs ----------------------------
(* Model of the PPTX slide reader  pptx_extractor.py:_process_slide_from_context  (+ _get_shape_position).

   A slide's shape tree is a sequence of SHAPES in document (XML) order:
       [kind |-> "sp" | "pic" | "gf",        text shape / picture / graphic frame (table)
        g    |-> nesting depth in group shapes (p:grpSp),
        has  |-> 0 | 1, y, x                 an explicit offset (a:off of the shape's xfrm) or none
        ph   |-> "none" | "title" | "ctrTitle" | "body" | "subTitle" | "idx" | "ftr" | "dt" | "sldNum" | "chart"
                                             placeholder type ("idx": a p:ph without type but with an idx; "chart": a
                                             type the reader has no rule for; "none": an ordinary text box)
        idx  |-> n                           the placeholder's idx (0: no idx attribute)
        id   |-> n                           the text / the table cell / the picture (0: empty text, a frame that is
                                             no table, a picture without embedded data)
        alt  |-> n]                          pic: the alternative text (0: none)
   What the slide MEANS (the reader's documented rule): content is read in the order of its position, top to bottom
   then left to right; a placeholder without an offset of its own inherits it from the layout and is placed by its
   role: title first (0, 0), body / indexed placeholders next (1 + idx, 0), footer and slide number at the bottom,
   everything else last.  Group shapes are a drawing aid.  Date and header placeholders carry no content; the
   footer is reported in its own field and is not part of the slide text.

   The reader: (1) collects the shapes in three passes over the whole tree -- text shapes, pictures, graphic frames
   --, (2) sorts them by position (stable), (3) walks them.
   Deviations (sensitivity only; none is open):
     "Pptx!XmlOrder"       no sort
     "Pptx!GroupSkipped"   shapes inside group shapes are not collected
     "Pptx!FirstTitleWins" (not a defect: documents that the title FIELD is the last title-typed text)      *)
EXTENDS Naturals, Sequences, FiniteSets, TLC

CONSTANT WalkDev
Dev(d) == d \in WalkDev

Big == 999999999
TitleTypes == {"title", "ctrTitle"}
BodyTypes == {"body", "subTitle"}

\* ---------------------------------------------------------------- position (_get_shape_position)
PosOf(s) ==
    IF s.has = 1 THEN <<s.y, s.x>>
    ELSE IF s.kind # "sp" \/ s.ph = "none" THEN <<Big, Big>>
    ELSE IF s.ph \in TitleTypes THEN <<0, 0>>
    ELSE IF s.ph \in BodyTypes \/ (s.ph = "idx" /\ s.idx # 0) THEN <<1 + s.idx, 0>>
    ELSE IF s.ph \in {"ftr", "sldNum"} THEN <<Big - 1, 0>>
    ELSE <<Big, Big>>
PosLeq(a, b) == a[1] < b[1] \/ (a[1] = b[1] /\ a[2] <= b[2])
PosLess(a, b) == a[1] < b[1] \/ (a[1] = b[1] /\ a[2] < b[2])

\* ---------------------------------------------------------------- (1) collect: three passes
Visible(s) == ~(Dev("Pptx!GroupSkipped") /\ s.g > 0)
OfKind(shapes, k) == SelectSeq([i \in DOMAIN shapes |-> i], LAMBDA i : shapes[i].kind = k /\ Visible(shapes[i]))
Collected(shapes) == OfKind(shapes, "sp") \o OfKind(shapes, "pic") \o OfKind(shapes, "gf")

\* ---------------------------------------------------------------- (2) stable sort
RECURSIVE Insert(_, _, _)
Insert(shapes, sorted, i) ==
    IF sorted = <<>> THEN <<i>>
    ELSE IF PosLeq(PosOf(shapes[Head(sorted)]), PosOf(shapes[i])) THEN <<Head(sorted)>> \o Insert(shapes, Tail(sorted), i)
    ELSE <<i>> \o sorted
RECURSIVE SortIdx(_, _)
SortIdx(shapes, idxs) == IF idxs = <<>> THEN <<>>
                         ELSE Insert(shapes, SortIdx(shapes, SubSeq(idxs, 1, Len(idxs) - 1)), idxs[Len(idxs)])
Sorted(shapes) == IF Dev("Pptx!XmlOrder") THEN Collected(shapes) ELSE SortIdx(shapes, Collected(shapes))

\* ---------------------------------------------------------------- (3) walk
W0(n0) == [title |-> 0, footer |-> 0, content |-> <<>>, other |-> <<>>, tables |-> <<>>, images |-> <<>>,
           ordered |-> <<>>, n |-> n0]
\* an entry of the ordered content: <<what, id>>
ShapeStep(st, s) ==
    CASE s.kind = "pic" ->
            IF s.id = 0 THEN st
            ELSE LET s1 == [st EXCEPT !.images = Append(@, <<st.n + 1, s.id>>), !.n = st.n + 1] IN
                 IF s.alt # 0 THEN [s1 EXCEPT !.ordered = Append(@, <<"cap", s.alt>>)] ELSE s1
      [] s.kind = "gf" ->
            IF s.id = 0 THEN st
            ELSE [st EXCEPT !.tables = Append(@, s.id), !.ordered = Append(@, <<"table", s.id>>)]
      [] s.kind = "sp" ->
            IF s.id = 0 THEN st
            ELSE IF s.ph \in TitleTypes
                 THEN [st EXCEPT !.title = IF Dev("Pptx!FirstTitleWins") /\ st.title # 0 THEN @ ELSE s.id,
                                 !.ordered = Append(@, <<"title", s.id>>)]
            ELSE IF s.ph = "ftr" THEN [st EXCEPT !.footer = s.id]
            ELSE IF s.ph = "dt" THEN st
            ELSE IF s.ph \in BodyTypes \/ (s.ph = "idx" /\ s.idx # 0)
                 THEN [st EXCEPT !.content = Append(@, s.id), !.ordered = Append(@, <<"content", s.id>>)]
            ELSE [st EXCEPT !.other = Append(@, s.id), !.ordered = Append(@, <<"other", s.id>>)]
RECURSIVE Run(_, _, _)
Run(st, shapes, idxs) == IF idxs = <<>> THEN st ELSE Run(ShapeStep(st, shapes[Head(idxs)]), shapes, Tail(idxs))

Ids(es) == [k \in DOMAIN es |-> es[k][2]]
BaseKinds == {"title", "content", "other", "table"}
Finish(st) == [title |-> st.title, footer |-> st.footer, content |-> st.content, other |-> st.other,
               tables |-> st.tables, images |-> st.images,
               text |-> Ids(st.ordered),
               base |-> Ids(SelectSeq(st.ordered, LAMBDA e : e[1] \in BaseKinds))]
SlideOf(shapes, n0) == Finish(Run(W0(n0), shapes, Sorted(shapes)))

\* ---------------------------------------------------------------- the meaning (no algorithm)
\* the content items of the slide: <<shape index, id>> of everything that is slide text
IsText(s) == s.kind = "sp" /\ s.id # 0 /\ s.ph \notin {"ftr", "dt"}
IsTable(s) == s.kind = "gf" /\ s.id # 0
IsPicture(s) == s.kind = "pic" /\ s.id # 0
ContentIdx(shapes) == {i \in DOMAIN shapes : IsText(shapes[i]) \/ IsTable(shapes[i])}
\* a sequence of ids is in reading order iff positions never decrease and shapes of one kind at one position keep
\* their document order (which of a text and a table lying exactly on top of each other comes first is open)
IndexOfId(shapes, id) == CHOOSE i \in DOMAIN shapes : shapes[i].id = id
InReadingOrder(shapes, ids) ==
    \A a, b \in DOMAIN ids : a < b =>
        LET i == IndexOfId(shapes, ids[a])
            j == IndexOfId(shapes, ids[b])
        IN /\ ~PosLess(PosOf(shapes[j]), PosOf(shapes[i]))
           /\ (PosOf(shapes[i]) = PosOf(shapes[j]) /\ shapes[i].kind = shapes[j].kind) => i < j
=============================================================================
