----------------------------- MODULE MboxTrace -----------------------------
(* code -> spec for the mailbox part of C16.  One trace = one concrete mailbox built from a
   line-class sequence (every line carries a unique token naming its index) with header
     hdr = [lines |-> <<class, ...>>, fin |-> BOOLEAN, eol |-> "LF" | "CRLF"]
   and two recorded observations:
     "Split"  mbox_email_extractor._split_mbox_messages(data): for every returned block the
              indices of the lines it consists of (projection: line text -> index; an escaped
              and an un-escaped spelling of the same line have the same index; -1 = a line the
              projection does not know)
     "Read"   read_mbox_format_mail(BytesIO(data)): n = number of results ("-1" = raised),
              toks[k] = indices of the line tokens visible in result k (subject + bodies),
              units[k] = number of units of result k
   TLC recomputes Messages(lines) from the declarative part of Mbox.tla.                     *)
EXTENDS Mbox, Json, IOUtils, TLCExt

Traces == JsonDeserialize(IOEnv.TRACE_FILE)

VARIABLES tid, l, msgs          \* msgs = Messages(hdr.lines), fixed at Init
\* Mbox's own variables are pinned: lines/fin = the header, the machine at rest in "done"
tvars == <<tid, l, msgs, vars>>

Ev == Traces[tid].ev[l]
IsEvent(a) == l <= Len(Traces[tid].ev) /\ Ev.a = a /\ l' = l + 1 /\ UNCHANGED <<tid, msgs, vars>>

Range(s) == { s[k] : k \in DOMAIN s }

\* boundaries exactly at separator lines, messages in order, nothing lost, nothing added
TraceSplit == /\ IsEvent("Split")
              /\ Ev.split = msgs

\* one result per message, in order; what result k shows comes from message k only
TraceRead == /\ IsEvent("Read")
             /\ Ev.n = Len(msgs)
             /\ Len(Ev.toks) = Len(msgs)
             /\ \A k \in DOMAIN msgs : Range(Ev.toks[k]) \subseteq Range(msgs[k])
             /\ \A k \in DOMAIN Ev.units : Ev.units[k] >= 1     \* every message has at least one unit (C03),
                                                                \* also one made of header lines only

TraceInit == /\ tid \in 1..Len(Traces) /\ l = 1
             /\ msgs = Messages(Traces[tid].hdr.lines)
             /\ lines = Traces[tid].hdr.lines /\ fin = Traces[tid].hdr.fin
             /\ pc = "done" /\ i = 0 /\ matches = <<>> /\ out = msgs
TraceNext == TraceSplit \/ TraceRead
TraceSpec == TraceInit /\ [][TraceNext]_tvars

TraceAccept ==
    /\ (l = Len(Traces[tid].ev) + 1) => PrintT(<<"ACCEPT", tid>>)
    /\ (IOEnv.MBV_PROGRESS = "1") => PrintT(<<"AT", tid, l>>)
=============================================================================
