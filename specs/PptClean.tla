------------------------------- MODULE PptClean -------------------------------
(* Line-level model of  ppt_extractor.py:_clean_text  (applied to every text atom of a legacy PPT deck).
   A text atom is a sequence of lines <<kind, id>> separated by \r, \n, vertical tab or form feed:
      "W"       a word                          "WW"      two words separated by several blanks / a tab
      "CTRL"    a word with a control character inside (the control character is dropped, the word stays)
      "BLANK"   an empty / white-space-only line
      "CLICK"   a line of user text that happens to start with "Click to edit"
      "PPTMARK" a line starting with "___PPT"            "STAR" the line "*"       "STARW" the line "* <word>"
      "OUTLINE" a line ending in "Outline Level"
   Output: the kept lines, each the sequence of its word ids.
   Theorem (C02, WalkDev = {}): Inv_NothingLost -- the words of every line come out exactly once, in order.
   As built ("Ppt!PlaceholderLineFilter", KF-C02-16): CLICK, PPTMARK, STAR and OUTLINE lines are deleted -- a filter meant
   for the prompts of master slides ("Click to edit Master title style", "Second Outline Level") that is applied to
   every slide's own text as well.                                                                   *)
EXTENDS PptCleanDefs

CONSTANT MaxLines

VARIABLES lines, k, out
vars == <<lines, k, out>>
Number(s) == [j \in DOMAIN s |-> <<s[j], j>>]
Init == lines \in {Number(s) : s \in UNION {[1..n -> Kinds] : n \in 0..MaxLines}} /\ k = 1 /\ out = <<>>
Line == /\ k <= Len(lines)
        /\ out' = IF Dropped(lines[k]) \/ WordsOfLine(lines[k]) = <<>> THEN out ELSE Append(out, WordsOfLine(lines[k]))
        /\ k' = k + 1 /\ UNCHANGED lines
Spec == Init /\ [][Line]_vars /\ WF_vars(Line)
GenSpec == Init /\ [][UNCHANGED vars]_vars

RECURSIVE Cat(_)
Cat(ss) == IF ss = <<>> THEN <<>> ELSE Head(ss) \o Cat(Tail(ss))
Inv_StepAgreesWithFunction == k = Len(lines) + 1 => out = Clean(lines)
Inv_NothingLost == k = Len(lines) + 1 => Cat(out) = Cat([j \in DOMAIN lines |-> WordsOfLine(lines[j])])
Prop_Terminates == <>(k = Len(lines) + 1)
=============================================================================
