---------------------------- MODULE XlsWalkTrace ----------------------------
(* code -> spec binding of XlsWalk.tla: for the grid xlrd reports for a written sheet, XlsSheet.get_table() of the real
   reader is XlsWalkDefs!TableOf(grid) (with the deviations of the findings still open).                    *)
EXTENDS XlsWalkDefs, Json, IOUtils, TLCExt
Traces == JsonDeserialize(IOEnv.TRACE_FILE)
VARIABLES tid, l
tvars == <<tid, l>>
Ev == Traces[tid].ev[l]
IsEvent(x) == l <= Len(Traces[tid].ev) /\ Ev.a = x /\ l' = l + 1 /\ UNCHANGED tid
TraceXls == IsEvent("XlsSheet") /\ Ev.table = TableOf(Ev.grid)
TraceInit == tid \in 1..Len(Traces) /\ l = 1
TraceNext == TraceXls
TraceSpec == TraceInit /\ [][TraceNext]_tvars
TraceAccept ==
    /\ (l = Len(Traces[tid].ev) + 1) => PrintT(<<"ACCEPT", tid>>)
    /\ (IOEnv.MBV_PROGRESS = "1") => PrintT(<<"AT", tid, l>>)
=============================================================================
