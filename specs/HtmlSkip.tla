------------------------------ MODULE HtmlSkip ------------------------------
(* C17 -- removed markup is removed completely and takes nothing else with it.

   WHAT IS MODELLED
   A document body is a string of TOKENS  [k |-> kind, n |-> element name]:
       "T" text word             "A" text word whose run ends in a dangling '&' ("w R&D")
       "S" start tag <n>         "E" end tag </n>          "X" self-closing form <n/>
       "C" comment <!-- w -->    "D" marked section <![CDATA[ w ]]>
   Words are unique per position, so an observation is the SET OF POSITIONS whose word shows up
   in the extracted text.

   1. DECLARATIVE PART  Class(toks): position -> "MUST" | "MUSTNOT" | "DC" | "-"
      A reference parse with an explicit stack of open elements (no counter):
      an element named in the removal list reaches from its start tag to the end tag that
      balances it; raw-text elements (script, style) contain no markup; void elements and
      self-closing void forms open nothing; comments are hidden everywhere.
        MUSTNOT  text / CDATA words inside a removable element that is closed properly,
                 comment words;
        MUST     text words outside every removable element, as long as nothing ambiguous
                 has happened before them;
        DC       (DON'T-CARE, the documentation and HTML itself are silent or contradictory)
                 - everything inside a removable element that is never (cleanly) closed, and
                   everything after it                                   [unclosed element]
                 - everything after a mis-nesting inside a removable element: an end tag
                   that does not match the innermost open element, the element's own end tag
                   while children are still open, a stray end tag whose name was opened
                   OUTSIDE a <noscript> (HTML5 would close the noscript with it), a <p>/<div>
                   start tag inside a <noscript> while a <p> was opened outside (HTML5 closes
                   that <p> and the noscript with it).  Inside iframe (raw text in HTML5) and
                   object / applet (scope barriers in HTML5) such tags close NOTHING outside:
                   the text after the element, still inside the enclosing <div>/<body>, is MUST
                                                                         [mis-nested]
                 - in the HTML dialect everything after a self-closing form of a non-void element
                   (<div/>, <noscript/>: an open tag in HTML); in the XML dialect (EPUB chapters,
                   application/xhtml+xml) <script/>, <noscript/>, <iframe/>, <object/> are complete
                   empty elements: nothing is removed and everything after them stays MUST
                 - everything after a top-level </body> (content after the end of the body)
                 - script / style / iframe start tags inside an iframe (raw text in HTML5,
                   ordinary elements for html.parser)
                 - words in a CDATA section outside removable elements (text in XHTML,
                   a bogus comment in HTML).
         ORDER (OrderOK): the MUST words that occur in the main text occur there in the order of the
      token string -- removing an element must not move the text that follows it.
      CONTEXTS: the harness wraps the enumerated string in context frames whose tags are tokens of
      the validated string (<body>, <table><tr><td|th>, <ul><li>, <h2>, <a>, a closed <b>T</b> sibling
      in front); an observation is the union of every text-bearing accessor of the result (main text,
      unit texts, table cells, heading and link lists, title), so "MUSTNOT" means: in none of them.
   The token string is assumed to be rendered in BODY context (the harness puts a text
      word or an explicit <body> in front): <noscript> in <head> follows other HTML5 rules.

   2. ALGORITHM PART  the skip counter of
        html_extractor.py:_HtmlTreeBuilder.handle_starttag/handle_endtag/handle_data
        epub_extractor.py:_XhtmlTextExtractor.handle_starttag/handle_endtag/handle_data
      driven by the tokenizer of html.parser.HTMLParser (CDATA mode for script/style,
      handle_startendtag = start + end, text held back at end of input while a trailing '&'
      could still become a character reference, close() flushing it).
      One token = one action.  With Deviations = {} this is the REFERENCE design (count only
      tags of the skipped element's own name, never open a skip for a void element, call
      close()); each named deviation re-introduces one step of the as-built code:
        CountVoidStartTag        a void start tag (<img>, <br>, ...) increments while skipping
        AnyStartTagIncrements    a non-void start tag of ANOTHER name increments while skipping
        AnyEndTagDecrements      an end tag of ANOTHER name decrements while skipping
        VoidRemovableNeverCloses <embed> (void and in the removal list) opens a skip
        NoClose                  HTMLParser.close() is never called
      All five on = the code as found at the pinned commit.  Three more deviations are not as-built;
      they name regression classes the bounded universe must contain a witness for:
        StartEndTagOnlyStarts    handle_startendtag calls handle_starttag only (<script/>T loses T)
        EndTagFallsThrough       an end tag of another name inside the skipped element reaches the
                                 tree builder and closes the enclosing <body>, whose tail text is
                                 dropped (<body><iframe></body></iframe>T loses T)
        FirstEndTagCloses        the first end tag of the skipped element's name resets the counter
                                 to 0 (<object><object></object>T</object> leaks T)

   THEOREM (TLC, every token string over Alphabet up to MaxLen, both end-of-input modes):
      Deviations = {}  =>  Inv_AlgMeetsVisible
   SENSITIVITY: with any single deviation on TLC finds a counterexample.

   CONSTANTS  Deviations (subset of DeviationNames), Alphabet (set of tokens; the named
   alphabets below are chosen in the cfg with  Alphabet <- AlphaQ1 ...), MaxLen.            *)
EXTENDS Naturals, Sequences, FiniteSets

CONSTANTS Deviations, Alphabet, MaxLen

AsBuilt == {"CountVoidStartTag", "AnyStartTagIncrements", "AnyEndTagDecrements",
            "VoidRemovableNeverCloses", "NoClose"}
DeviationNames == AsBuilt \cup {"FirstEndTagCloses", "StartEndTagOnlyStarts", "EndTagFallsThrough"}
ASSUME Deviations \subseteq DeviationNames

(* ------------------------------------------------------------------ token universe *)
Removable == {"script", "style", "noscript", "iframe", "object", "embed", "applet"}   \* README / REMOVE_TAGS
RawText   == {"script", "style"}                       \* HTMLParser.CDATA_CONTENT_ELEMENTS
Void      == {"br", "hr", "img", "input", "meta", "link", "area", "base", "col", "embed",
              "param", "source", "track", "wbr"}       \* HTML void elements
Plain     == {"div", "p", "span", "body",                \* ordinary containers of the universe
              "b", "a", "h2", "ul", "li", "table", "tr", "td", "th",   \* + the context frames of the harness
              "title"}                                 \* only meaningful inside a removed element (see RefTop)
Barrier   == {"iframe", "object", "applet"}            \* raw text / scope barriers: tags inside reach nothing outside
PClosers  == {"div", "p", "h2", "ul", "li", "table"}   \* start tags that close an open <p> in HTML5
Names     == Removable \cup Void \cup Plain
Kinds     == {"T", "A", "S", "E", "X", "C", "D"}

Tk(k, n) == [k |-> k, n |-> n]
Txt == Tk("T", "")
Amp == Tk("A", "")
Com == Tk("C", "")
Cds == Tk("D", "")
St(n) == Tk("S", n)
En(n) == Tk("E", n)
Sc(n) == Tk("X", n)

IsWord(t) == t.k \in {"T", "A", "C", "D"}
IsText(t) == t.k \in {"T", "A"}
WellFormedTok(t) == /\ t.k \in Kinds
                    /\ IF IsWord(t) THEN t.n = "" ELSE t.n \in Names
WellFormed(toks) == \A i \in 1..Len(toks) : WellFormedTok(toks[i])

Last(s) == s[Len(s)]
Front(s) == SubSeq(s, 1, Len(s) - 1)
Range(s) == { s[i] : i \in 1..Len(s) }

(* named alphabets (cfg:  Alphabet <- AlphaQ1) *)
AlphaQ1 == {Txt, St("noscript"), En("noscript"), St("img"), St("embed"), St("div"), En("div"),
            St("script"), En("script"), Com}
AlphaQ2 == {Txt, Amp, St("object"), En("object"), St("iframe"), En("iframe"), Sc("br"), St("p"),
            En("p"), St("style"), En("style")}
AlphaQ3 == {Txt, St("noscript"), En("noscript"), St("img"), St("div"), En("div")}     \* deep, few tokens
AlphaQ4 == {Txt, St("object"), En("object"), St("noscript"), En("noscript"), St("p")}   \* same-name nesting + inner text
AlphaQ5 == {Txt, St("iframe"), En("iframe"), St("object"), En("object"), En("body"), St("div"), En("div")}
AlphaQ5B == AlphaQ5 \cup {St("body")}                 \* theorem / sensitivity only: the doc frame's <body> as a token
AlphaQ6 == {Txt, Sc("script"), Sc("style"), Sc("noscript"), Sc("iframe"), Sc("object"), Sc("applet"),
            St("div"), En("noscript")}
AlphaQ7 == {Txt, St("span"), En("span"), St("embed"), St("script"), En("script")}   \* inline sibling, then a removed element, then text
AlphaQ8 == {Txt, St("object"), En("object"), St("title"), En("title"), Sc("title")}   \* specially handled elements inside a removed one
AlphaQ9 == {Txt, Com, St("script"), En("script")}      \* raw-text element, then text and a comment (the text of the script
                                                        \* element is also spelled "<!--word": a comment opener that is DATA there)
AlphaT3 == {Txt, St("object"), En("object"), St("noscript"), En("noscript"), St("title"), En("title"),
            St("td"), En("td"), St("a"), En("a"), St("h2"), En("h2"), St("li"), Sc("br"), St("img")}
AlphaT  == {Txt, Amp, Com, Cds,
            St("noscript"), En("noscript"), St("object"), En("object"), St("iframe"), En("iframe"),
            St("script"), En("script"), St("div"), En("div"), St("p"), En("p"),
            St("img"), St("embed"), Sc("br"), Sc("div")}
AlphaT2 == {Txt, Amp, St("applet"), En("applet"), St("style"), En("style"), St("noscript"),
            En("noscript"), St("span"), En("span"), St("param"), St("input"), St("source"),
            Sc("img"), Sc("embed"), Sc("noscript")}

(* ------------------------------------------------------------------ 1. declarative part *)
AMB == 99            \* zone marker: after something ambiguous (zones: 0 = outside, k = inside region k)

R0(xml) == [E |-> "", inner |-> <<>>, raw |-> "", outer |-> {}, amb |-> FALSE, reg |-> 0,
            closed |-> {}, z |-> <<>>, xml |-> xml,    \* xml: XML dialect (EPUB chapter)
            starts |-> <<>>,                           \* position of the start tag of region k
            gone |-> {},                               \* single tokens that are removed elements by themselves
            ts |-> "none",                             \* top-level table structure: none / table / row / cell
            cell |-> 0, cbad |-> {}]                   \* current cell number; cells ended by a malformed table tag

Ambiguous(r) == [r EXCEPT !.amb = TRUE]
\* text directly inside <table> / <tr> (outside every cell) is not cell text: where it ends up is open (DC)
\* text in a cell that a malformed table tag cuts short (<td> inside an open <td> ...) is DC as well: zone 100 + cell
ZoneOf(r) == IF r.amb \/ (r.E = "" /\ r.ts \in {"table", "row"}) THEN AMB
             ELSE IF r.E # "" THEN r.reg
             ELSE IF r.ts = "cell" THEN 100 + r.cell ELSE 0
TableNames == {"table", "tr", "td", "th"}
\* the only table shape in the universe: <table><tr><td|th> ... </td|/th></tr></table>; anything else is DC from there on
TableStep(r, t) ==
    LET nx == IF r.ts = "none" /\ t.k = "S" /\ t.n = "table" THEN "table"
              ELSE IF r.ts = "table" /\ t.k = "S" /\ t.n = "tr" THEN "row"
              ELSE IF r.ts = "row" /\ t.k = "S" /\ t.n \in {"td", "th"} THEN "cell"
              ELSE IF r.ts = "cell" /\ t.k = "E" /\ t.n \in {"td", "th"} THEN "row"
              ELSE IF r.ts = "row" /\ t.k = "E" /\ t.n = "tr" THEN "table"
              ELSE IF r.ts = "table" /\ t.k = "E" /\ t.n = "table" THEN "none"
              ELSE "bad"
    IN IF nx = "bad" THEN [r EXCEPT !.amb = TRUE, !.cbad = IF r.ts = "cell" THEN @ \cup {r.cell} ELSE @]
       ELSE [r EXCEPT !.ts = nx, !.outer = @ \cup {t.n}, !.cell = IF nx = "cell" THEN @ + 1 ELSE @]
InIframe(r) == r.E = "iframe" \/ "iframe" \in Range(r.inner)
CloseRegion(r) == [r EXCEPT !.E = "", !.raw = "", !.inner = <<>>, !.closed = @ \cup {r.reg}]

\* effect of one token on the reference parse (r.amb = FALSE)
RefTop(r, t) ==                                        \* outside every removable element
    IF t.n \in TableNames THEN TableStep(r, t)
    ELSE IF t.k = "S" THEN
        IF t.n \in RawText THEN [r EXCEPT !.E = t.n, !.raw = t.n, !.reg = @ + 1, !.starts = Append(@, Len(r.z))]
        ELSE IF t.n \in Removable \ Void THEN [r EXCEPT !.E = t.n, !.inner = <<>>, !.reg = @ + 1,
                                                         !.starts = Append(@, Len(r.z))]
        ELSE IF t.n = "title" THEN Ambiguous(r)        \* document title: not body text; which accessor holds it is open
        ELSE IF t.n \in Plain THEN [r EXCEPT !.outer = @ \cup {t.n}]
        ELSE IF t.n \in Removable THEN [r EXCEPT !.gone = @ \cup {Len(r.z)}]   \* <embed>: a removed element without content
        ELSE r                                         \* other void elements: open nothing
    ELSE IF t.k = "X" THEN
        IF t.n \in Removable \ Void THEN (IF r.xml THEN [r EXCEPT !.gone = @ \cup {Len(r.z)}] ELSE Ambiguous(r))
                                                       \* <noscript/>: HTML opens, XML: an empty removed element
        ELSE IF t.n = "title" THEN Ambiguous(r)
        ELSE IF t.n \in Removable THEN [r EXCEPT !.gone = @ \cup {Len(r.z)}]   \* <embed/>
        ELSE IF t.n \in Plain THEN [r EXCEPT !.outer = @ \cup {t.n}]
        ELSE r
    ELSE IF t.k = "E" /\ t.n = "body" THEN Ambiguous(r) \* after the end of the body
    ELSE r                                             \* words, other end tags: no effect on visibility

RefRaw(r, t) ==                                        \* inside script / style: only its own end tag counts
    IF t.k = "E" /\ t.n = r.raw
    THEN IF r.E \in RawText THEN CloseRegion(r) ELSE [r EXCEPT !.raw = ""]
    ELSE r

RefIn(r, t) ==                                         \* inside a removable, non-raw element r.E
    IF t.k = "S" THEN
        IF t.n \in Void THEN r
        ELSE IF t.n \in RawText THEN (IF InIframe(r) THEN Ambiguous(r) ELSE [r EXCEPT !.raw = t.n])
        ELSE IF t.n = "iframe" /\ InIframe(r) THEN Ambiguous(r)
        ELSE IF t.n \in PClosers /\ "p" \in r.outer /\ r.E \notin Barrier THEN Ambiguous(r)
        ELSE [r EXCEPT !.inner = Append(@, t.n)]
    ELSE IF t.k = "X" THEN
        IF t.n \in Void \/ r.xml THEN r ELSE Ambiguous(r)   \* XML: any <x/> is a complete empty element
    ELSE IF t.k = "E" THEN
        IF r.inner # <<>> THEN
            IF t.n = Last(r.inner) THEN [r EXCEPT !.inner = Front(@)] ELSE Ambiguous(r)
        ELSE IF t.n = r.E THEN CloseRegion(r)
        ELSE IF t.n \in r.outer /\ r.E \notin Barrier THEN Ambiguous(r)
        ELSE r                                         \* stray end tag: ignored
    ELSE r

RefStep(r, t) ==
    LET m == [r EXCEPT !.z = Append(@, ZoneOf(r))] IN  \* the token's own zone: judged before its effect
    IF r.amb THEN m
    ELSE IF r.raw # "" THEN RefRaw(m, t)
    ELSE IF r.E = "" THEN
        LET n == RefTop(m, t) IN                       \* a cell in which something ambiguous happens: its fate is open
        IF n.amb /\ r.ts = "cell" THEN [n EXCEPT !.cbad = @ \cup {r.cell}] ELSE n
    ELSE RefIn(m, t)

RECURSIVE RefScan(_, _, _)
RefScan(toks, i, r) == IF i > Len(toks) THEN r ELSE RefScan(toks, i + 1, RefStep(r, toks[i]))

ClassOf(t, z, closed, cbad) ==
    IF ~IsWord(t) THEN "-"
    ELSE IF t.k = "C" THEN "MUSTNOT"
    ELSE IF z = AMB THEN "DC"
    ELSE IF z >= 100 THEN (IF t.k = "D" \/ (z - 100) \in cbad THEN "DC" ELSE "MUST")
    ELSE IF z = 0 THEN (IF t.k = "D" THEN "DC" ELSE "MUST")
    ELSE IF z \in closed THEN "MUSTNOT"
    ELSE "DC"

ClassX(toks, xml) == LET r == RefScan(toks, 1, R0(xml)) IN
                     [i \in 1..Len(toks) |-> ClassOf(toks[i], r.z[i], r.closed, r.cbad)]
Class(toks) == ClassX(toks, FALSE)                     \* HTML dialect

Conforms(cls, seen) == \A i \in DOMAIN cls : (cls[i] = "MUST" => i \in seen)
                                              /\ (cls[i] = "MUSTNOT" => i \notin seen)
\* two observation sets: body = words in the body-text accessors (main text, table cells), any = words in ANY
\* text-bearing accessor (also title, heading and link lists).  Visible text must stay body text -- a word that
\* moved into the title because of a removed element has been taken along; removed content must be nowhere.
Conforms2(cls, body, any) == \A i \in DOMAIN cls : (cls[i] = "MUST" => i \in body)
                                                    /\ (cls[i] = "MUSTNOT" => i \notin any)

\* METAMORPHIC CLAUSE ("takes nothing else with it"): Del(toks, xml) = the tokens that make up the properly closed
\* removed elements, the contentless removed elements (<embed>, XML: <script/> ...) and the comments.  When every
\* word of the string is decided (no DC), extracting the string and extracting it with exactly these tokens
\* deleted must give the same body text (compared by the harness modulo white space: event field `same`).
DelX(toks, xml) == LET r == RefScan(toks, 1, R0(xml)) IN
    { i \in 1..Len(toks) : \/ r.z[i] \in r.closed
                            \/ (\E k \in r.closed : r.starts[k] = i)
                            \/ i \in r.gone
                            \/ (toks[i].k = "C" /\ (r.z[i] = 0 \/ r.z[i] >= 100)) }
AllDecided(cls) == \A i \in DOMAIN cls : cls[i] # "DC"
ConformsRaw(cls, seen) == \A i \in DOMAIN cls : cls[i] = "MUST" => i \in seen   \* documented raw-HTML output

\* ORDER: removing an element must not rearrange the text around it.  seq = the positions of the words
\* found in the MAIN text, in the order in which they occur there; the MUST words among them keep the
\* order of the token string.  (Declarative only: the step machine below emits a set, it has no tree.)
OrderOK(cls, seq) == \A i \in 1..Len(seq) : \A j \in 1..Len(seq) :
                        (i < j /\ cls[seq[i]] = "MUST" /\ cls[seq[j]] = "MUST") => seq[i] < seq[j]

NonTrivial(cls) == (\E i \in DOMAIN cls : cls[i] = "MUST") /\ (\E i \in DOMAIN cls : cls[i] = "MUSTNOT")

(* ------------------------------------------------------------------ 2. algorithm part *)
VARIABLES toks,      \* the token string fed so far
          cdata,     \* HTMLParser.cdata_elem ("" = None)
          h,         \* handler state [skip |-> skip_depth, tag |-> name whose end tag closes the skip]
          out        \* positions whose word reached handle_data while skip_depth = 0
vars == <<toks, cdata, h, out>>

Dev(d) == d \in Deviations
H0 == [skip |-> 0, tag |-> "", body |-> FALSE, dead |-> FALSE]   \* body: <body> seen; dead: body closed early (deviation only)

HStart(hh, n) ==                                       \* handle_starttag
    IF hh.skip > 0 THEN
        IF \/ (n = hh.tag /\ n \notin Void)
           \/ (n \in Void /\ Dev("CountVoidStartTag"))
           \/ (n \notin Void /\ n # hh.tag /\ Dev("AnyStartTagIncrements"))
        THEN [hh EXCEPT !.skip = @ + 1] ELSE hh
    ELSE IF n \in Removable /\ (n \notin Void \/ Dev("VoidRemovableNeverCloses"))
        THEN [hh EXCEPT !.skip = 1, !.tag = n]
    ELSE IF n = "body" THEN [hh EXCEPT !.body = TRUE]
    ELSE hh

HEnd(hh, n) ==                                         \* handle_endtag
    IF hh.skip > 0 /\ (n = hh.tag \/ Dev("AnyEndTagDecrements"))
    THEN [hh EXCEPT !.skip = IF n = hh.tag /\ Dev("FirstEndTagCloses") THEN 0 ELSE @ - 1]
    ELSE IF hh.skip > 0 /\ n = "body" /\ hh.body /\ Dev("EndTagFallsThrough")
    THEN [hh EXCEPT !.dead = TRUE]                      \* the tree builder pops <body>: later text is its tail, dropped
    ELSE hh

\* HTMLParser.goahead on one more token (position i): parser state p = [cdata, h, out] -> new state
AlgStep(p, t, i) ==
    IF p.cdata # "" THEN                               \* CDATA mode: everything but </cdata> is data
        IF t.k = "E" /\ t.n = p.cdata
        THEN [p EXCEPT !.h = HEnd(p.h, t.n), !.cdata = ""]
        ELSE IF IsWord(t) /\ p.h.skip = 0 THEN [p EXCEPT !.out = @ \cup {i}] ELSE p
    ELSE IF IsText(t) THEN                             \* handle_data
        IF p.h.skip = 0 /\ ~p.h.dead THEN [p EXCEPT !.out = @ \cup {i}] ELSE p
    ELSE IF t.k \in {"C", "D"} THEN p                  \* handle_comment / unknown_decl: dropped
    ELSE IF t.k = "S" THEN                             \* handle_starttag, then set_cdata_mode
        [p EXCEPT !.h = HStart(p.h, t.n), !.cdata = IF t.n \in RawText THEN t.n ELSE ""]
    ELSE IF t.k = "X" THEN                             \* handle_startendtag = start + end, no CDATA mode
        [p EXCEPT !.h = IF Dev("StartEndTagOnlyStarts") THEN HStart(p.h, t.n) ELSE HEnd(HStart(p.h, t.n), t.n)]
    ELSE [p EXCEPT !.h = HEnd(p.h, t.n)]               \* handle_endtag

Feed(t) ==
    LET q == AlgStep([cdata |-> cdata, h |-> h, out |-> out], t, Len(toks) + 1) IN
    /\ toks' = Append(toks, t)
    /\ cdata' = q.cdata /\ h' = q.h /\ out' = q.out

Init == toks = <<>> /\ cdata = "" /\ h = H0 /\ out = {}
Next == \E t \in Alphabet : Len(toks) < MaxLen /\ Feed(t)
Spec == Init /\ [][Next]_vars

\* the trailing text run (maximal suffix of text tokens)
RECURSIVE TailRun(_, _)
TailRun(s, i) == IF i >= 1 /\ IsText(s[i]) THEN {i} \cup TailRun(s, i - 1) ELSE {}

\* what has reached the output when the input ends here.  eof = TRUE: the token string is flush
\* with the end of the input (nothing, not even a newline, follows it).
FinalOutOf(s, p, eof) ==
    IF eof /\ Dev("NoClose") /\ p.cdata = "" /\ s # <<>> /\ Last(s).k = "A"
    THEN p.out \ TailRun(s, Len(s))                    \* goahead(0) waits for the rest of "&D"; nobody calls close()
    ELSE p.out
FinalOut(eof) == FinalOutOf(toks, [cdata |-> cdata, h |-> h, out |-> out], eof)

\* the whole run as a function of the token string (used by HtmlSkipTrace's model-agreement mode)
RECURSIVE AlgScan(_, _, _)
AlgScan(s, i, p) == IF i > Len(s) THEN p ELSE AlgScan(s, i + 1, AlgStep(p, s[i], i))
AlgOut(s, eof) == FinalOutOf(s, AlgScan(s, 1, [cdata |-> "", h |-> H0, out |-> {}]), eof)

Inv_AlgMeetsVisible == \A eof \in BOOLEAN : \A xml \in BOOLEAN : Conforms(ClassX(toks, xml), FinalOut(eof))
TypeOK == /\ WellFormed(toks) /\ h.skip \in 0..MaxLen /\ out \subseteq 1..Len(toks)
          /\ cdata \in RawText \cup {""}
\* the reference counter is exactly "1 + nested same-name elements": it never goes wrong on DC either
Inv_SkipImpliesTag == h.skip > 0 => h.tag \in Removable
=============================================================================
