----------------------------- MODULE OdsWalkDefs -----------------------------
(* Cell algebra and functional form of the ODS sheet reader model (ods_extractor.py:_extract_sheet).
   A sheet in the file is a sequence of ROW ELEMENTS, each with a repeat count and a sequence of CELL ELEMENTS,
   each with a repeat count and a value:
       [rep |-> n, cells |-> << [rep |-> m, v |-> cell] .. >>]
   (table:number-rows-repeated / table:number-columns-repeated; a covered cell is an empty cell).
   A cell is <<"none", 0>> | <<"tok", id>> | <<"num", n2>>  (typed value None / a string / a number).

   What the file MEANS (OpenDocument): element k stands for rep copies, so the source grid is the full expansion.
   What the reader does (as built, deviation "Ods!LargeGapCollapsed"): a run of more than Big (= 100) EMPTY cells
   is kept as ONE cell, a run of more than Big empty rows as ONE row -- a guard against sheets padded to 1024
   columns / a million rows (C12), harmless when the run is trailing (it is trimmed anyway) but it moves every
   cell behind it when data follows.                                                              *)
EXTENDS Naturals, Sequences, FiniteSets, TLC

CONSTANTS WalkDev,      \* as-built deviations switched on
          Big           \* the reader's threshold (100 in the code)

None == <<"none", 0>>
NonEmpty(c) == c[1] # "none"
Max2(a, b) == IF a >= b THEN a ELSE b
Copies(x, n) == [k \in 1..n |-> x]
RECURSIVE ConcatAll(_)
ConcatAll(ss) == IF ss = <<>> THEN <<>> ELSE Head(ss) \o ConcatAll(Tail(ss))
Collapse == "Ods!LargeGapCollapsed" \in WalkDev

\* one row element -> the values of one copy of that row
CellRun(ce) == IF Collapse /\ ~NonEmpty(ce.v) /\ ce.rep > Big THEN <<None>> ELSE Copies(ce.v, ce.rep)
RowVals(re) == ConcatAll([k \in DOMAIN re.cells |-> CellRun(re.cells[k])])
AllNone(vals) == \A k \in DOMAIN vals : ~NonEmpty(vals[k])
RowRun(re) == LET vals == RowVals(re) IN
              IF Collapse /\ re.rep > Big /\ AllNone(vals) THEN <<vals>> ELSE Copies(vals, re.rep)
RawRows(src) == ConcatAll([k \in DOMAIN src |-> RowRun(src[k])])

RECURSIVE TrimRows(_)
TrimRows(rs) == IF rs # <<>> /\ AllNone(rs[Len(rs)]) THEN TrimRows(SubSeq(rs, 1, Len(rs) - 1)) ELSE rs
RowLastCol(row) == IF \E j \in DOMAIN row : NonEmpty(row[j])
                   THEN CHOOSE j \in DOMAIN row : NonEmpty(row[j]) /\ \A k \in (j + 1)..Len(row) : ~NonEmpty(row[k])
                   ELSE 0
RECURSIVE MaxLastCol(_)
MaxLastCol(rs) == IF rs = <<>> THEN 0 ELSE Max2(RowLastCol(Head(rs)), MaxLastCol(Tail(rs)))
Pad(row, n) == [j \in 1..n |-> IF j <= Len(row) THEN row[j] ELSE None]

\* the table the reader returns
DataOf(src) == LET rs == TrimRows(RawRows(src))
                   n  == MaxLastCol(rs)
               IN [i \in DOMAIN rs |-> Pad(rs[i], n)]

(* ---- the meaning of the file, by positions (prefix sums of the repeat counts; independent of the expansion) ---- *)
RECURSIVE SumRows(_, _), SumCells(_, _)
SumRows(src, a) == IF a = 0 THEN 0 ELSE SumRows(src, a - 1) + src[a].rep          \* rows before element a + 1
SumCells(cells, b) == IF b = 0 THEN 0 ELSE SumCells(cells, b - 1) + cells[b].rep
\* value of source position (i, j), 1-based
SrcAt(src, i, j) ==
    IF \E a \in DOMAIN src : SumRows(src, a - 1) < i /\ i <= SumRows(src, a)
    THEN LET a == CHOOSE a \in DOMAIN src : SumRows(src, a - 1) < i /\ i <= SumRows(src, a)
             cs == src[a].cells
         IN IF \E b \in DOMAIN cs : SumCells(cs, b - 1) < j /\ j <= SumCells(cs, b)
            THEN cs[CHOOSE b \in DOMAIN cs : SumCells(cs, b - 1) < j /\ j <= SumCells(cs, b)].v
            ELSE None
    ELSE None
SrcRows(src) == SumRows(src, Len(src))
SrcCols(src) == LET widths == {SumCells(src[a].cells, Len(src[a].cells)) : a \in DOMAIN src}
                IN IF widths = {} THEN 0 ELSE CHOOSE w \in widths : \A x \in widths : x <= w
=============================================================================
