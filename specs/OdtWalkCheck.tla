--------------------------- MODULE OdtWalkCheck ---------------------------
(* TLC theorem for the ODT walk model: for every odt-expressible document of the DocGen universe (numbered by the
   harness, read from DOCS_FILE) the modelled walk output satisfies Doc!Fidelity.  One state per document.  With a
   deviation in WalkDev the invariant must fail (sensitivity).      *)
EXTENDS OdtWalk, Json, IOUtils

Docs == JsonDeserialize(IOEnv.DOCS_FILE)
VARIABLE i
Init == i \in 1..Len(Docs)
Next == UNCHANGED i
Spec == Init /\ [][Next]_i
Inv_WalkOK == WalkOK(Docs[i])
=============================================================================
