--------------------------- MODULE ArchiveSeqTrace ---------------------------
(* code -> spec for history independence (C09).  A trace = one sequence of archives processed by ONE
   forked child of an import-only zygote process:
     hdr  seq: [{fmt, kinds, iso}]   iso = id of the observation of that archive processed ALONE in its own
                                     forked child (results [(filename, file_path, digest)] + how the generator ended)
     Run  {i, obs}                   the i-th archive of the sequence was processed; obs = id of its observation
   (equal id <=> equal sha256).  TLC keeps ArchiveSeq's variables and demands Inv_HistoryIndependent.     *)
EXTENDS ArchiveSeq, Json, IOUtils, TLCExt

Traces == JsonDeserialize(IOEnv.TRACE_FILE)
VARIABLES tid, l
tvars == <<tid, l, vars>>
Hdr == Traces[tid].hdr
Ev == Traces[tid].ev[l]

TraceRun == /\ l <= Len(Traces[tid].ev) /\ Ev.a = "Run" /\ l' = l + 1 /\ UNCHANGED <<tid, seq, leak>>
            /\ Ev.i = pos /\ pos <= Len(seq)
            /\ obs' = Append(obs, IF Ev.obs = Hdr.seq[pos].iso THEN Alone(seq[pos]) ELSE Differs)
            /\ pos' = pos + 1

TraceInit == /\ tid \in 1..Len(Traces) /\ l = 1
             /\ seq = [i \in 1..Len(Hdr.seq) |-> [fmt |-> Hdr.seq[i].fmt, kinds |-> Hdr.seq[i].kinds]]
             /\ pos = 1 /\ leak = {} /\ obs = <<>>
TraceNext == TraceRun /\ Inv_HistoryIndependent'
TraceSpec == TraceInit /\ [][TraceNext]_tvars
TraceAccept ==
    /\ (l = Len(Traces[tid].ev) + 1) => PrintT(<<"ACCEPT", tid>>)
    /\ (IOEnv.MBV_PROGRESS = "1") => PrintT(<<"AT", tid, l>>)
=============================================================================
