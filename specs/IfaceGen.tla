----------------------------- MODULE IfaceGen -----------------------------
(* Bounded instance of Iface.tla for C04.  One state = one case; `tlc -dump` hands the states to
   the concretiser (mbv/c04_lib.py).  Three universes, selected by Mode:

   "paths"  every abstract path with <= MaxDirs directory segments + the file name (MaxDirs = 2:
            up to 3 segments), all existence combinations, plus NoPath.  TLC checks the FromPath
            laws on each of them (the Inv_ invariants); each path is also replayed through a real
            extractor (the format is a concretisation choice).
   "cases"  (path form x property value x format): the eight designated path forms (None, plain
            relative, relative in non-existent folders, absolute existing, absolute non-existent,
            unicode, archive!/member, folder exists but file does not) x property values = all
            token strings of length 1..MaxVal over the alphabet (letter, Latin-1 letter, Cyrillic
            letter, astral character, double / single quote, braces, ampersand, less-than,
            backslash, blank) x the generated formats.  Full = TRUE: the whole product;
            Full = FALSE: every (format, value) with the form chosen by the value + every
            (format, form) with the default value.  Formats whose metadata type carries no
            textual property get the default value only.
   "heads"  every layout of an HTML / MHTML head (optional tags omitted or not, title before / after the meta
            elements, letter case of tag and metadata names, attribute order) x 3 property values.
   "opfs"   every layout of an EPUB package document (prefixed / default namespace, title first / last, dc
            elements with attributes, version 2 / 3) x 3 property values.
   "alts"   pictures' alternative texts: (format x name x title x description), each absent / empty / blank / text.
   "members" archive members: (zip / tar / tgz / 7z) x member name form (plain, nested, dotted, unicode, absolute) x
            archive path form; TLC checks the member-path law (Inv_Member).
   "picexts" picture parts with extensions outside the extractors' tables (svg, webp, jp2, none, upper case, unknown).
   "multis" archives with 2..3 members: every result reports its own member's path.
   "structs" heading structures of DOCX / ODT: every sequence of <= MaxStruct items over h1 h2 h3 paragraph empty table,
            with and without pictures.
   "degens" degenerate-but-accepted inputs (no html part, no body, empty sheet, zero pages, ...) x every path form.
   "names"  naming attributes of the containers of units (sheet / page / slide / chapter), absent ... non-ASCII.
   "srcs"   where a picture's bytes come from: (format x first / middle / last picture x http / https / dangling /
            outside the package).
   "lens"   picture geometry: ODF frames with every kind of length value for width / height / x / y, OOXML extents
            with odd EMU values.
   "pdfs"   tagged PDFs whose figure caption / description strings hold a byte of PdfBytes (or an unpaired UTF-16
            surrogate), in every place the extractor reads them from.
   "ncrs"   HTML numeric character references that denote no character, in title / meta / body / alt / cell.
   "units"  every run of <= MaxUnits RTF \uN code units over {A, e-acute, a high surrogate, a low
            surrogate}: TLC checks that the reference decoding is always well-formed Unicode and
            inverts ToUnits; each run is written into an RTF title and body.                     *)
EXTENDS Iface

CONSTANTS Mode, MaxDirs, MaxVal, MaxUnits, Full, Formats, PdfBytes, MaxStruct

VARIABLE c
vars == <<c>>

SeqsUpTo(S, n) == UNION { [1..k -> S] : k \in 0..n }

(* ---- paths ---- *)
SegTok  == {"d", "u", "z", "x.y"}          \* plain, unicode, "archive.zip!", dotted directory
StemTok == {"s", "u", "b"}                 \* plain, unicode, with a blank inside
ExtTok  == {"docx", "gz", "UP"}            \* lower-case, compression, upper-case
Exist   == {<<FALSE, FALSE>>, <<FALSE, TRUE>>, <<TRUE, TRUE>>}     \* <<file, folder>>; file => folder

Paths ==
    { [root |-> r, dirs |-> d, stem |-> s, exts |-> e, fexists |-> x[1], dexists |-> x[2]] :
        r \in {"rel", "cwd", "nx"}, d \in SeqsUpTo(SegTok, MaxDirs), s \in StemTok,
        e \in SeqsUpTo(ExtTok, 2), x \in Exist }
PathWF(p) ==
    /\ (p.root = "nx" => ~p.fexists /\ ~p.dexists)               \* nothing exists below a missing root
    /\ (p.dirs = <<>> /\ p.root # "nx" => p.dexists)             \* the working directory exists
PathUniverse == { p \in Paths : PathWF(p) } \cup {NoPath}

(* ---- designated path forms ---- *)
P(r, d, s, e, fx, dx) == [root |-> r, dirs |-> d, stem |-> s, exts |-> e, fexists |-> fx, dexists |-> dx]
Forms ==
  << NoPath,
     P("rel", <<>>, "s", <<"docx">>, TRUE, TRUE),
     P("rel", <<"d", "d">>, "s", <<"docx">>, FALSE, FALSE),
     P("cwd", <<"d">>, "b", <<"docx">>, TRUE, TRUE),
     P("nx", <<"d">>, "s", <<"UP">>, FALSE, FALSE),
     P("rel", <<"u">>, "u", <<"docx">>, TRUE, TRUE),
     P("rel", <<"z", "d">>, "s", <<"docx">>, FALSE, FALSE),
     P("rel", <<"d">>, "s", <<"gz", "docx">>, FALSE, TRUE) >>

(* ---- property values ---- *)
\* (nl / tb / ds: a token spelled as two letters with a newline / a tab / two blanks BETWEEN them -- interior white space)
Alphabet == <<"a", "e1", "cy", "em", "dq", "sq", "lb", "rb", "am", "lt", "bs", "sp", "nl", "tb", "ds">>
WsClasses == {"nl", "tb", "ds"}
\* formats whose properties are XML element text (white space inside is content, kept by every XML parser); in HTML / RTF /
\* PDF sources interior white space is markup-level (collapsible / ignored) and is not generated
WsExact == {"docx", "xlsx", "pptx", "odt", "ods", "odp", "odg"}
AlphaSet == Range(Alphabet)
Idx(t) == CHOOSE i \in DOMAIN Alphabet : Alphabet[i] = t
Vals == SeqsUpTo(AlphaSet, MaxVal) \ {<<>>}
DefaultVal == <<"a", "e1">>
RECURSIVE Code(_)
Code(v) == IF v = <<>> THEN 0 ELSE Idx(v[1]) + 5 * Code(Tail(v))
FormOf(v) == (Code(v) % Len(Forms)) + 1
HasProps(f) == f \in DOMAIN MetaTypeOf /\ f \in DOMAIN Stores /\ (Carries[MetaTypeOf[f]] \cap Stores[f]) # {}

Cases ==
    { [fmt |-> f, form |-> k, val |-> v] : f \in Formats, k \in DOMAIN Forms, v \in Vals \cup {DefaultVal} }
CaseWanted(x) ==
    /\ (x.val # DefaultVal => HasProps(x.fmt))
    /\ ((Range(x.val) \cap WsClasses # {}) => x.fmt \in WsExact)
    /\ (Full \/ x.val = DefaultVal \/ x.form = FormOf(x.val))

(* ---- RTF \uN runs ---- *)
UnitTok == {65, 233, 55357, 56832}
UnitRuns == SeqsUpTo(UnitTok, MaxUnits) \ {<<>>}
AstralSamples == {<<128512>>, <<65, 128512>>, <<128512, 233, 65536>>, <<1114111>>}

(* ---- markup layouts of the stored document properties (HTML / MHTML head, EPUB package document) ---- *)
\* HTML5 lets the <html>, <head> and <body> tags be omitted; <title> may stand before or after the <meta>
\* elements; tag names and the standard metadata names (author, description, keywords) are matched
\* case-insensitively; attribute order and quoting are free
HeadLayouts ==
    { [html |-> h, head |-> hd, body |-> b, titlepos |-> t, namecase |-> n, tagcase |-> g, attr |-> a] :
        h \in BOOLEAN, hd \in BOOLEAN, b \in BOOLEAN, t \in {"first", "last"},
        n \in {"lower", "title", "upper"}, g \in {"lower", "upper"}, a \in {"name-first", "content-first"} }
\* OPF: package elements in the default namespace or prefixed, dc:title first or last, dc elements with
\* or without attributes (id / opf:role / xml:lang), EPUB 2 or 3
\* package namespace: IDPF 2007 as default namespace / with the opf: prefix, NO namespace at all, or the OEB 1.x
\* package namespace (old converters); the dc elements directly below <metadata> or (OEB 1.x style) inside a
\* <dc-metadata> wrapper followed by an <x-metadata> block
OpfLayouts ==
    { [prefix |-> p, titlepos |-> t, attrs |-> a, version |-> v, wrapper |-> w] :
        p \in {"default", "opf", "none", "oeb1"}, t \in {"first", "last"}, a \in BOOLEAN, v \in {"2.0", "3.0"},
        w \in {"plain", "dc-metadata"} }
LayoutVals == { <<"a", "e1">>, <<"am", "lt", "a">>, <<"dq", "a", "sq">> }

(* ---- alternative texts of pictures ---- *)
\* svg:title / svg:desc children of draw:frame (ODF), title / descr attributes of docPr / cNvPr (OOXML),
\* and the frame / shape name: each absent, empty, blank or a text
AltKinds == {"absent", "empty", "blank", "text"}
AltFormats == {"odt", "ods", "odp", "odg", "docx", "pptx", "xlsx"}
Alts == { [fmt |-> f, name |-> n, title |-> t, desc |-> d] :
            f \in AltFormats \cap Formats, n \in {"absent", "text"}, t \in AltKinds, d \in AltKinds }

(* ---- where a picture's bytes come from ---- *)
\* embedded (the writers' default), linked by an http / https URL (ODF xlink:href, OOXML external relationship +
\* r:link), a package path that does not exist, a relative path outside the package; for the first, a middle
\* and the last picture of a document with four pictures
SrcKinds == {"http", "https", "dangling", "outside"}
Srcs == { [fmt |-> f, pos |-> p, src |-> k] : f \in AltFormats \cap Formats, p \in {"first", "middle", "last"}, k \in SrcKinds }

(* ---- picture geometry ---- *)
\* ODF length attributes svg:width / svg:height / svg:x / svg:y of a picture frame in every unit and shape;
\* OOXML extents (EMU integers) cx / cy with odd values
LenKinds == {"cm", "mm", "in", "pt", "px", "pc", "percent", "comma", "exponent", "negative", "empty", "garbage",
             "missing", "nounit", "spaced", "huge", "zero", "dotonly", "nan", "unitonly", "twounits"}
EmuKinds == {"zero", "negative", "huge", "nonnumeric", "empty", "missing", "float", "plus"}
Lens == { [fmt |-> f, attr |-> a, len |-> k] : f \in {"odt", "ods", "odp", "odg"} \cap Formats,
                                                a \in {"width", "height", "x", "y", "both"}, k \in LenKinds }
        \cup { [fmt |-> f, attr |-> a, len |-> k] : f \in {"docx", "pptx", "xlsx"} \cap Formats,
                                                    a \in {"cx", "cy", "both"}, k \in EmuKinds }

(* ---- strings that are not Unicode text in the file ---- *)
\* PDF: a byte 127..255 inside the string that becomes a picture's caption / description: the caption paragraph
\* after the figure (next MCID), text in the figure's own MCID, a TJ array, an /ActualText property, the /Alt
\* entry of the image; written as a literal string (octal escape) or as a hex string.  "utf16" = a UTF-16BE
\* text string with an unpaired surrogate (only where a PDF text string is allowed: ActualText, Alt)
PdfPlaces == {"caption", "same", "tjarray", "actualtext", "alt"}
PdfCases == { [byte |-> b, place |-> pl, enc |-> e] : b \in PdfBytes, pl \in PdfPlaces, e \in {"literal", "hex"} }
             \cup { [byte |-> b, place |-> pl, enc |-> "utf16"] : b \in {55357, 56832}, pl \in {"actualtext", "alt"} }
\* HTML numeric character references that do not denote a character: lone surrogates, a pair written as two
\* references, beyond U+10FFFF, NUL -- in the title, a meta element, the body, an img alt text, a table cell
NcrRefs == {"hi", "lo", "pair", "beyond", "nul", "c1"}
Ncrs == { [fmt |-> f, place |-> pl, ref |-> r] : f \in {"html", "mhtml"} \cap Formats,
                                                 pl \in {"title", "meta", "body", "alt", "cell"}, r \in NcrRefs }

(* ---- archive members ---- *)
\* member names: plain, nested, dotted folder and two extensions, unicode, absolute (tar -P / hand-written ZipInfo),
\* absolute and nested; in a zip, tar, tar.gz or 7z archive; the archive read with each kind of path argument
M(a, d, s, e) == [abs |-> a, dirs |-> d, stem |-> s, exts |-> e]
MemberForms == << M(FALSE, <<>>, "s", <<"txt">>), M(FALSE, <<"d", "d">>, "s", <<"txt">>),
                  M(FALSE, <<"x.y">>, "s", <<"gz", "txt">>), M(FALSE, <<"u">>, "u", <<"txt">>),
                  M(TRUE, <<"d">>, "s", <<"txt">>), M(TRUE, <<"d", "u">>, "b", <<"UP", "txt">>) >>
ArchivePathForms == {1, 2, 3, 4, 5, 6}       \* indices into Forms: None, relative, relative in missing folders, absolute, nx, unicode
Members == { [arch |-> a, member |-> k, form |-> f] : a \in {"zip", "tar", "tgz", "7z"}, k \in DOMAIN MemberForms, f \in ArchivePathForms }

(* ---- picture parts whose file extension is outside the extractors' content-type tables ---- *)
PicExtKinds == {"svg", "webp", "jp2", "none", "upper", "unknown", "dotted"}
PicExts == { [fmt |-> f, ext |-> e] : f \in (AltFormats \cup {"epub"}) \cap Formats, e \in PicExtKinds }

(* ---- archives with several members: the member rule holds for every result ---- *)
MultiMembers == { [arch |-> a, n |-> n, form |-> f] : a \in {"zip", "tar", "tgz", "7z"}, n \in {2, 3}, f \in ArchivePathForms }

(* ---- heading structures of the flow formats ---- *)
\* every sequence of <= MaxStruct items over heading levels 1..3, body paragraph, empty paragraph, table -- including
\* a trailing heading, trailing empty paragraphs, no level-1 heading, no text before the first heading -- with and
\* without pictures (which the writers append after the body)
StructItems == {"h1", "h2", "h3", "p", "e", "t"}
Structs == { [fmt |-> f, items |-> q, pics |-> b] : f \in {"docx", "odt"} \cap Formats,
                                                    q \in SeqsUpTo(StructItems, MaxStruct) \ {<<>>}, b \in BOOLEAN }

(* ---- degenerate-but-accepted inputs: containers without the main part the extractor looks for ---- *)
\* every one is run with every designated path form: the path clause holds for EVERY result
DegenInputs == {"mhtml-nohtml", "mhtml-onlyimage", "eml-nobody", "eml-onlyattachment", "xlsx-emptysheet", "ods-emptysheet",
                "pdf-zeropages", "pdf-emptypage", "docx-nobody", "odt-nobody", "pptx-noslides", "odp-nopages",
                "html-empty", "html-onlyhead", "rtf-empty", "txt-newline", "csv-empty", "json-empty", "md-blank",
                "epub-nochapters", "zip-emptymember", "mbox-onemessage-nobody",
                \* inputs that yield MORE THAN ONE result: the path clause holds for every one of them
                "mbox-two", "mbox-three"}
Degens == { [input |-> d, form |-> k] : d \in DegenInputs, k \in DOMAIN Forms }

(* ---- names of the containers of units ---- *)
\* optional naming attributes absent / empty / blank / 1 character / 31 characters / non-ASCII:
\* ODS table:name, ODP / ODG draw:page draw:name, XLSX sheet name, PPTX p:cSld name, EPUB chapter <title>
NameKinds == {"absent", "empty", "blank", "one", "long31", "nonascii"}
Names == { [fmt |-> f, which |-> w, name |-> k] : f \in {"ods", "odp", "odg", "xlsx", "pptx", "epub"} \cap Formats,
                                                  w \in {"first", "all"}, k \in NameKinds }

Init ==
    CASE Mode = "members" -> c \in { [kind |-> "member", arch |-> a.arch, member |-> MemberForms[a.member], mform |-> a.member,
                                        path |-> Forms[a.form], form |-> a.form] : a \in Members }
      [] Mode = "picexts" -> c \in { [kind |-> "picext", x |-> a] : a \in PicExts }
      [] Mode = "multis" -> c \in { [kind |-> "multi", arch |-> a.arch, n |-> a.n, path |-> Forms[a.form], form |-> a.form,
                                     members |-> [i \in 1..a.n |-> MemberForms[((i + a.form) % Len(MemberForms)) + 1]]] : a \in MultiMembers }
      [] Mode = "structs" -> c \in { [kind |-> "struct", x |-> a] : a \in Structs }
      [] Mode = "degens" -> c \in { [kind |-> "degen", input |-> a.input, form |-> a.form, path |-> Forms[a.form]] : a \in Degens }
      [] Mode = "names" -> c \in { [kind |-> "name", x |-> a] : a \in Names }
      [] Mode = "srcs" -> c \in { [kind |-> "src", x |-> a] : a \in Srcs }
      [] Mode = "lens" -> c \in { [kind |-> "len", x |-> a] : a \in Lens }
      [] Mode = "pdfs" -> c \in { [kind |-> "pdf", x |-> a] : a \in PdfCases }
      [] Mode = "ncrs" -> c \in { [kind |-> "ncr", x |-> a] : a \in Ncrs }
      [] Mode = "heads" -> c \in { [kind |-> "head", fmt |-> f, layout |-> y, val |-> v] :
                                     f \in {"html", "mhtml"} \cap Formats, y \in HeadLayouts, v \in LayoutVals }
      [] Mode = "opfs" -> c \in { [kind |-> "opf", fmt |-> "epub", layout |-> y, val |-> v] :
                                     y \in OpfLayouts, v \in LayoutVals }
      [] Mode = "alts" -> c \in { [kind |-> "alt", alt |-> a] : a \in Alts }
      [] Mode = "paths" -> c \in { [kind |-> "path", path |-> p] : p \in PathUniverse }
      [] Mode = "cases" -> c \in { [kind |-> "case", fmt |-> x.fmt, path |-> Forms[x.form], form |-> x.form, val |-> x.val] :
                                     x \in { y \in Cases : CaseWanted(y) } }
      [] Mode = "units" -> c \in { [kind |-> "units", units |-> u] : u \in UnitRuns }
Next == UNCHANGED c
Spec == Init /\ [][Next]_vars

(* ---- theorems ---- *)
Inv_NoneWhenNoPath == Law_NoneWhenNoPath
Inv_Acceptable     == c.kind = "path" => Law_Acceptable(c.path)
Inv_Suffix         == c.kind = "path" => Law_Suffix(c.path)
Inv_Idempotent     == c.kind = "path" => Law_Idempotent(c.path)
Inv_FolderOfFile   == c.kind = "path" => Law_FolderOfFile(c.path)
Inv_NameOnly       == (c.kind = "path" /\ c.path # NoPath) =>
    \A r \in {"rel", "cwd", "nx"}, d \in SeqsUpTo(SegTok, 1), x \in Exist :
        Law_NameOnly(c.path, [c.path EXCEPT !.root = r, !.dirs = d, !.fexists = x[1], !.dexists = x[2]])
Inv_FormsInUniverse == \A k \in DOMAIN Forms : Forms[k] = NoPath \/ PathWF(Forms[k])

Inv_Member == c.kind = "member" =>
    Law_Member(c.path, [k |-> "member", archseg |-> "a.zip!", dirs |-> c.member.dirs, stem |-> c.member.stem, exts |-> c.member.exts])
Inv_ReportedUnchanged == c.kind = "opf" => Law_ReportedUnchanged(<<116, 233>>, c.layout.wrapper = "dc-metadata")
Inv_DecodeWellFormed == c.kind = "units" => Utf8OK(DecodeUnits(c.units))
Inv_DecodeInvertsToUnits == c.kind = "units" =>
    /\ (WellPaired(c.units) => ToUnits(DecodeUnits(c.units)) = c.units)
    /\ \A s \in AstralSamples : DecodeUnits(ToUnits(s)) = s /\ WellPaired(ToUnits(s))
=============================================================================
