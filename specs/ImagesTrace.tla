----------------------------- MODULE ImagesTrace -----------------------------
(* code -> spec for C14.  One trace = one generated (or fixture) document extracted by the real library.
   hdr = the case (Images.tla) exactly as it was rendered; events carry the projected observation:
     Doc     D = iterate_images()                         -> Prop_Doc   (reached 0 = document-level mismatch)
     Units   D, U = unit views from iterate_units()        -> Prop_Images (reached 1 = unit-level mismatch)
     Fixture D, U of a repository fixture (no ground truth) -> Prop_Fixture
   Dev = {} is the strict property; rejected traces are re-validated with the deviations of OPEN
   findings (as-built model) by the driver.                                                       *)
EXTENDS Images, Json, IOUtils, TLCExt

CONSTANT Dev

Traces == JsonDeserialize(IOEnv.TRACE_FILE)
VARIABLES tid, l
vars == <<tid, l>>

Case == Traces[tid].hdr
Ev == Traces[tid].ev[l]
IsEvent(a) == l <= Len(Traces[tid].ev) /\ Ev.a = a /\ l' = l + 1 /\ UNCHANGED tid

TraceDoc == IsEvent("Doc") /\ Prop_Doc(Case, Ev.D, Dev)
TraceUnits == IsEvent("Units") /\ Prop_Images(Case, Ev.D, Ev.U, Dev)
TraceFixture == IsEvent("Fixture") /\ Prop_Fixture(Case.fmt, Ev.D, Ev.U, Dev)

TraceInit == tid \in 1..Len(Traces) /\ l = 1
TraceNext == TraceDoc \/ TraceUnits \/ TraceFixture
TraceSpec == TraceInit /\ [][TraceNext]_vars
TraceAccept ==
    /\ (l = Len(Traces[tid].ev) + 1) => PrintT(<<"ACCEPT", tid>>)
    /\ (IOEnv.MBV_PROGRESS = "1") => PrintT(<<"AT", tid, l>>)
=============================================================================
