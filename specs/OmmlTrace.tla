----------------------------- MODULE OmmlTrace -----------------------------
(* code -> spec for C19.  One trace = one formula tree (header) and what the real code did with it:
     hdr.tree   the abstract tree (Omml.tla vocabulary; JSON arrays = sequences, objects = records)
     events, in this order, each carrying the tokenised observations:
       Total     out = [x |-> raised, o |-> atoms of omml_to_latex(tree)]
       Shape     (same out) matches Pattern(tree)
       Balance   (same out) brace-balanced unless the tree has literal braces
       Again     out2 = a second conversion of a freshly parsed copy (deterministic)
       Alternate same = the SAME element object converted a second time; alt = that object converted
                 once more after another tree's object was converted in between (A, A, B, A)
       History   the same element object is then edited IN PLACE (a run's text changed / a child
                 appended / a child removed; tree2 = the abstract tree after the edit) and converted
                 again: out = that result, fresh = conversion of a freshly parsed copy of the edited
                 element's serialisation.  The result is a function of the tree, not of the call
                 history: out = fresh, and out satisfies the clauses for tree2
       Docx      doc  = what read_docx printed for the formula embedded in a paragraph
                        [st |-> "ok" | "absent" (nothing printed) | "exc" | "na" (channel not run), o |-> atoms]
       Pptx      ppt  = PptxSlide.formulas of a slide whose shape holds the formula (same encoding)
   The header's pattern is computed once (TraceInit) -- TLC decides order, multiplicity, balance
   and templates; Python only tokenises.  The index of the first unmatched event names the clause.
   A "Symbols" trace (hdr.tree = one run) records convert_greek_and_symbols(text) the same way.  *)
EXTENDS Omml, Json, IOUtils, TLCExt

\* A definition  Traces == JsonDeserialize(IOEnv.TRACE_FILE)  is re-evaluated (the file re-parsed) at
\* every use -- measured: 75 ms per trace.  So the file is parsed ONCE into TLC register 7 while the
\* initial states are computed (-workers 1), each trace is copied into the state variable tr, and
\* everything else reads tr (measured: 400 traces in under a second).
VARIABLES tid, l, tr, pat
tvars == <<tid, l, tr, pat>>

Tree == tr.hdr.tree
Ev == tr.ev[l]
IsEvent(a) == l <= Len(tr.ev) /\ Ev.a = a /\ l' = l + 1 /\ UNCHANGED <<tid, tr, pat>>

\* a call site prints the same formula, or nothing when it is blank; it never fails the document
SameOrAbsent(ch, out) ==
    \/ ch.st = "na"
    \/ ch.st = "ok" /\ ~out.x /\ ch.o = out.o              \* verbatim, blanks included
    \/ ch.st = "absent" /\ ~out.x /\ Blank(out.o)

TraceTotal   == IsEvent("Total") /\ Total(Ev.out)
TraceShape   == IsEvent("Shape") /\ Matches(Ev.out, pat)
TraceBalance == IsEvent("Balance") /\ Balance(Tree, Ev.out)
TraceAgain   == IsEvent("Again") /\ Ev.out2 = Ev.out
TraceAlternate == IsEvent("Alternate") /\ Ev.same = Ev.out /\ Ev.alt = Ev.out
TraceHistory == /\ IsEvent("History")
                /\ Ev.out = Ev.fresh
                /\ Total(Ev.out)
                /\ ("tree2" \in DOMAIN Ev) =>          \* thorough tier: also the clauses for the edited tree
                       (Matches(Ev.out, Pattern(Ev.tree2)) /\ Balance(Ev.tree2, Ev.out))
TraceDocx    == IsEvent("Docx") /\ SameOrAbsent(Ev.doc, Ev.out)
TracePptx    == IsEvent("Pptx") /\ SameOrAbsent(Ev.ppt, Ev.out)

TraceInit == /\ TLCSet(7, JsonDeserialize(IOEnv.TRACE_FILE))
             /\ \E i \in 1..Len(TLCGet(7)) :
                   tid = i /\ l = 1 /\ tr = TLCGet(7)[i] /\ pat = Pattern(TLCGet(7)[i].hdr.tree)
TraceNext == TraceTotal \/ TraceShape \/ TraceBalance \/ TraceAgain \/ TraceAlternate \/ TraceHistory
             \/ TraceDocx \/ TracePptx
TraceSpec == TraceInit /\ [][TraceNext]_tvars

TraceAccept ==
    /\ (l = Len(tr.ev) + 1) => PrintT(<<"ACCEPT", tid>>)
    /\ (IOEnv.MBV_PROGRESS = "1") => PrintT(<<"AT", tid, l>>)
=============================================================================
