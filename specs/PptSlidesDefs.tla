---------------------------- MODULE PptSlidesDefs ----------------------------
(* Record-level model of the legacy PPT slide list:  ppt_extractor.py:_parse_slide_list_container  (one pass over the
   records of a SlideListWithText container) followed by  _build_slides_from_text_blocks.
   Records: <<"P", 0, 0>>  a SlidePersistAtom (a slide starts)
            <<"T", type, id>>  a text atom of text type 0 (title) | 1 (body) | 4 (other) | 2 (notes); id = 0: the text is
            empty after cleaning (nothing is recorded for it).
   A slide is [title, body, other, notes], each a sequence of text ids (title: at most one; further titles go to other).
   As built ("Ppt!EmptySlideDropped", KF-C03-11): at a slide boundary the finished slide is kept only if it has text --
   but only once ANY text has been seen in the container; slides without text before the first text are kept.   *)
EXTENDS Naturals, Sequences, FiniteSets, TLC

CONSTANT WalkDev

EmptySlide == [title |-> <<>>, body |-> <<>>, other |-> <<>>, notes |-> <<>>]
AddText(sl, type, id) ==
    CASE type = 0 -> IF sl.title = <<>> THEN [sl EXCEPT !.title = <<id>>] ELSE [sl EXCEPT !.other = Append(@, id)]
      [] type = 1 -> [sl EXCEPT !.body = Append(@, id)]
      [] type = 2 -> [sl EXCEPT !.notes = Append(@, id)]
      [] OTHER    -> [sl EXCEPT !.other = Append(@, id)]
HasText(sl) == sl # EmptySlide

S0 == [started |-> FALSE, any |-> FALSE, cur |-> EmptySlide, slides |-> <<>>]
Keep(st) == IF "Ppt!EmptySlideDropped" \in WalkDev /\ st.any /\ ~HasText(st.cur) THEN st.slides ELSE Append(st.slides, st.cur)
Step(st, rec) ==
    IF rec[1] = "P"
    THEN [st EXCEPT !.slides = IF st.started THEN Keep(st) ELSE @, !.started = TRUE, !.cur = EmptySlide]
    ELSE IF rec[3] = 0 THEN st
    ELSE [st EXCEPT !.any = TRUE, !.cur = AddText(@, rec[2], rec[3])]
RECURSIVE Run(_, _)
Run(st, recs) == IF recs = <<>> THEN st ELSE Run(Step(st, Head(recs)), Tail(recs))
Finish(st) == IF st.started THEN Keep(st) ELSE st.slides
SlidesOf(recs) == Finish(Run(S0, recs))

\* declarative meaning: the k-th slide holds the texts between the k-th persist atom and the next one
PersistPos(recs) == SelectSeq([j \in DOMAIN recs |-> IF recs[j][1] = "P" THEN j ELSE 0], LAMBDA x : x # 0)
TextsOf(sl) == {sl.title[j] : j \in DOMAIN sl.title} \cup {sl.body[j] : j \in DOMAIN sl.body}
               \cup {sl.other[j] : j \in DOMAIN sl.other} \cup {sl.notes[j] : j \in DOMAIN sl.notes}
=============================================================================
