---------------------------- MODULE ZipGuardGen ----------------------------
(* Enumerates the boundary lattice for the spec -> code replay of C11 (part i).
   One state = one test case: a vector of entries <<fs, cs, dirbit>>, the limits as a tuple
   <<maxEntries, maxSingle, maxTotal, trNum, trDen, erNum, erDen>>, and the specification's
   three-valued expectation ZipGuard!Class ("reject" | "accept" | "dontcare") with the set of
   clauses that fire.  Dumped with `tlc -dump`; the state variables of ZipGuard are not needed here,
   so the module is instantiated with them replaced by constants (keeps the dump small).       *)
EXTENDS Naturals, Sequences, FiniteSets

CONSTANTS FS, CS, MaxN, LimitTuples

ZG == INSTANCE ZipGuard WITH Deviations <- {}, LimitSets <- {}, AttrBits <- {FALSE},
          es <- <<>>, L <- 0, pc <- "", i <- 0, totU <- 0, totC <- 0, verdict <- "", why <- "",
          objs <- <<>>, vb <- {}, held <- {}, okb <- {}, cpos <- 0, call <- 0

TupleOf(l) == <<l.maxEntries, l.maxSingle, l.maxTotal, l.trNum, l.trDen, l.erNum, l.erDen>>
LimOf(t)   == ZG!Lim(t[1], t[2], t[3], t[4], t[5], t[6], t[7])
\* named limit sets of ZipGuard, as tuples (cfg:  LimitTuples <- LT_Quick)
LT_Base     == { TupleOf(l) : l \in ZG!LS_Base }
LT_Quick    == { TupleOf(l) : l \in ZG!LS_Quick }
LT_Variants == { TupleOf(l) : l \in ZG!LS_Variants }
LT_Alone    == { TupleOf(l) : l \in ZG!LS_Alone }
LT_L3       == { TupleOf(ZG!L3) }
LT_Three    == { TupleOf(l) : l \in ZG!LS_Three }      \* three entries at / above the count limit

VARIABLES v, lt, exp, fired

EntryTuples == FS \X CS \X {0, 1}
VecOf(x) == [k \in DOMAIN x |-> ZG!E(x[k][1], x[k][2], x[k][3] = 1)]

Init == /\ v \in UNION { [1..n -> EntryTuples] : n \in 0..MaxN }
        /\ lt \in LimitTuples
        /\ exp = ZG!Class(VecOf(v), LimOf(lt))
        /\ fired = ZG!Fired(VecOf(v), LimOf(lt))
Next == UNCHANGED <<v, lt, exp, fired>>
Spec == Init /\ [][Next]_<<v, lt, exp, fired>>
=============================================================================
