----------------------------- MODULE ArchiveTrace -----------------------------
(* code -> spec for C09 and C10 (member part).  A trace = one archive pushed through read_archive in a
   sandboxed worker under one consumer history, recorded from outside (sys.addaudithook, the generator
   protocol, a directory listing).  The monitor keeps Archive.tla's observable variables (gen, tmp,
   fs, results, got, cause) and accepts a step only if every invariant of Archive.tla holds afterwards.

     hdr    fmt, apath, hist {t, k}, members [{kind, nc, comps, direct}]
            comps  = the member name split at "/" (labels are checked for MUST members only);
            ncomps = comps without "." components (DON'T-CARE: file_path may or may not keep a "./")
            direct = digest ids of extracting that member's bytes on their own (equal id <=> equal sha256
                     of the canonical to_json without the four file-label fields)
     Fs     {op, cls}      one file-system effect, cls = class of os.path.realpath(path) against the
                           private directories created through tempfile under the worker's TMPDIR
     CNext  {out: "item" | "stop" | "raise", m, fn, path, dg, canary, own}   next(gen); m = member whose
                           archive!/member path the result carries (0 = no member has that path);
                           own = members whose unique token words occur in the result's to_json
     CClose {out} CThrow {out, ...item fields} CDrop      gen.close() / gen.throw(RuntimeError) / del + gc
     Final  {left, hostchg}    entries left under TMPDIR, host canary files changed

   Mode = "confine": C09 only (Inv_Confined, Inv_Cleanup, Inv_SkipRules, Inv_Closed); labels, content and
   completeness of the results are C10's subject and not demanded.
   Mode = "property": C09 + C10 as stated.  Mode = "asbuilt": Inv_Isolation is replaced by
   Inv_IsolationAsBuilt (OPEN finding KF-C10-01); used only to decide whether a rejected trace is exactly
   what the as-built model predicts.                                                                *)
EXTENDS Archive, Json, IOUtils, TLCExt

CONSTANT Mode

Traces == JsonDeserialize(IOEnv.TRACE_FILE)

VARIABLES tid, l, H
tvars == <<tid, l, H, vars>>

Ev == Traces[tid].ev[l]
IsEvent(a) == l <= Len(Traces[tid].ev) /\ Ev.a = a /\ l' = l + 1 /\ UNCHANGED <<tid, H, fmt, ms, hist, pc, idx>>

RECURSIVE Join(_)
Join(c) == IF Len(c) = 1 THEN c[1] ELSE c[1] \o "/" \o Join(Tail(c))
ExpBase(j) == H.members[j].comps[Len(H.members[j].comps)]          \* filename = basename of the member
ExpPath(j) == H.apath \o "!/" \o Join(H.members[j].comps)          \* file_path = archive!/member
NormPath(j) == H.apath \o "!/" \o Join(H.members[j].ncomps)        \* ... or with "./" components dropped

(* one result handed to the consumer *)
ItemOK(e) ==
  IF Mode = "confine" THEN e.m \in 0..Len(ms) ELSE
    /\ e.m \in 1..Len(ms)                                          \* it carries some member's path
    /\ \/ e.m >= LastM                                             \* archive order
       \/ /\ ContribAt(ms, e.m) # "must"                            \* (entries of one name that are DON'T-CARE
          /\ LastSameName(ms, e.m) >= LastM                         \*  cannot be told apart by their label)
    /\ ContribAt(ms, e.m) = "must" =>
         /\ Count(e.m) < nd[e.m]                                   \* not duplicated
         /\ e.fn = ExpBase(e.m) /\ e.path \in {ExpPath(e.m), NormPath(e.m)}    \* labelled as itself
         /\ e.dg = H.members[e.m].direct[Count(e.m) + 1]           \* identical to extracting it directly
Deliver(e) == /\ ItemOK(e)
              /\ results' = Append(results, [m |-> e.m, src |-> IF e.canary = 1 THEN "host" ELSE "archive",
                                             own |-> { e.own[q] : q \in DOMAIN e.own }])
              /\ got' = got + 1 /\ gen' = "suspended"

Live == gen \in {"fresh", "suspended"}
FailCause == IF HostileFail(fmt, ms) THEN "hostileName" ELSE "corruptMember"

TraceNext_ ==
    /\ IsEvent("CNext") /\ Live
    /\ CASE Ev.out = "item"  -> Deliver(Ev) /\ UNCHANGED <<tmp, fs, cause, nd>>
         [] Ev.out = "stop"  -> gen' = "exhausted" /\ UNCHANGED <<tmp, fs, cause, nd, results, got>>
         [] Ev.out = "raise" -> gen' = "failed" /\ cause' = FailCause /\ UNCHANGED <<tmp, fs, nd, results, got>>

TraceFs == /\ IsEvent("Fs")
           /\ fs' = fs \cup {<<Ev.op, Ev.cls>>}
           /\ tmp' = IF Ev.cls = "TmpRootItself" /\ Ev.op = "mkdir" THEN "created"
                     ELSE IF Ev.cls = "TmpRootItself" /\ Ev.op = "rmtree" THEN "removed" ELSE tmp
           /\ UNCHANGED <<gen, results, got, cause, nd>>

TraceClose == /\ IsEvent("CClose") /\ Ev.out = "ok"
              /\ gen' = IF gen \in Finished THEN gen ELSE "closed"
              /\ UNCHANGED <<tmp, fs, results, got, cause, nd>>
TraceDrop == /\ IsEvent("CDrop")
             /\ gen' = IF gen \in Finished THEN gen ELSE "collected"
             /\ UNCHANGED <<tmp, fs, results, got, cause, nd>>
(* consumer exception: propagate or swallow (DON'T-CARE); after a swallow the interrupted member's
   remaining results are not demanded *)
Forgive == nd' = IF LastM = 0 THEN nd ELSE [nd EXCEPT ![LastM] = Count(LastM)]
TraceThrow ==
    /\ IsEvent("CThrow") /\ Live
    /\ CASE Ev.out = "raise" -> gen' = "failed" /\ cause' = "consumer" /\ UNCHANGED <<tmp, fs, nd, results, got>>
         [] Ev.out = "item"  -> Forgive /\ Deliver(Ev) /\ UNCHANGED <<tmp, fs, cause>>
         [] Ev.out = "stop"  -> Forgive /\ gen' = "exhausted" /\ UNCHANGED <<tmp, fs, cause, results, got>>

TraceFinal == /\ IsEvent("Final")
              /\ tmp' = IF Ev.left > 0 THEN "created" ELSE IF tmp = "created" THEN "removed" ELSE tmp
              /\ fs' = IF Ev.hostchg = 1 THEN fs \cup {<<"write", "Outside">>} ELSE fs
              /\ UNCHANGED <<gen, results, got, cause, nd>>

InvAll == /\ Inv_Confined /\ Inv_Cleanup /\ Inv_SkipRules /\ Inv_Closed
          /\ Mode # "confine" => /\ Inv_Members /\ Inv_OwnContent
                                 /\ IF Mode = "asbuilt" THEN Inv_IsolationAsBuilt ELSE Inv_Isolation

TraceInit == /\ tid \in 1..Len(Traces) /\ l = 1 /\ H = Traces[tid].hdr
             /\ fmt = H.fmt
             /\ ms = [j \in 1..Len(H.members) |-> [kind |-> H.members[j].kind, nc |-> H.members[j].nc]]
             /\ nd = [j \in 1..Len(H.members) |-> Len(H.members[j].direct)]
             /\ hist = [t |-> H.hist.t, k |-> H.hist.k]
             /\ gen = "fresh" /\ tmp = "none" /\ fs = {} /\ results = <<>> /\ got = 0
             /\ pc = "start" /\ idx = 1 /\ cause = "none"
TraceNext == (TraceNext_ \/ TraceFs \/ TraceClose \/ TraceDrop \/ TraceThrow \/ TraceFinal) /\ InvAll'
TraceSpec == TraceInit /\ [][TraceNext]_tvars

TraceAccept ==
    /\ (l = Len(Traces[tid].ev) + 1) => PrintT(<<"ACCEPT", tid>>)
    /\ (IOEnv.MBV_PROGRESS = "1") => PrintT(<<"AT", tid, l>>)
=============================================================================
