------------------------------ MODULE DocTrace ------------------------------
(* code -> spec for C02 (and the shared part of C03 / C13): each trace is one generated document
   rendered to one format and extracted by the real library; events carry the projected
   observation.  TLC flattens the abstract document and decides.                             *)
EXTENDS Doc, Json, IOUtils, TLCExt

CONSTANT Dev          \* set of deviation names switched on (strict validation: {})

Traces == JsonDeserialize(IOEnv.TRACE_FILE)
VARIABLES tid, l
vars == <<tid, l>>

Ev == Traces[tid].ev[l]
IsEvent(a) == l <= Len(Traces[tid].ev) /\ Ev.a = a /\ l' = l + 1 /\ UNCHANGED tid

\* get_full_text() of the whole document
TraceText ==
    /\ IsEvent("Text")
    /\ Fidelity(FlatDoc(Traces[tid].hdr.doc), Traces[tid].hdr.fmt, Ev.obs, Ev.sep, Ev.residue, Dev)

\* iterate_units(): numbers, per-unit texts, heading paths, unit tables; join law
TraceUnits ==
    /\ IsEvent("Units")
    /\ Units(Traces[tid].hdr.doc, Traces[tid].hdr.fmt, Ev.units, Ev.full, Ev.joinok, Dev)

\* iterate_tables(): grids and dimensions
TraceTables ==
    /\ IsEvent("Tables")
    /\ TablesOK(Traces[tid].hdr.doc, Traces[tid].hdr.fmt, Ev.tables, Dev)

\* typed data row of a generated sheet (second row of the sheet's table)
TraceTyped == IsEvent("Typed") /\ TypedRowOK(Ev.kinds, Ev.row, Traces[tid].hdr.fmt, Dev)

TraceTypedGrid == IsEvent("TypedGrid") /\ TypedGridOK(Ev.kinds, Ev.grid, Traces[tid].hdr.fmt, Dev)

\* the text line of a typed data row (words of the last line of get_full_text(); token words as "<token>")
TraceTypedText == IsEvent("TypedText") /\ TypedTextOK(Ev.kinds, Ev.words)

TraceInit == tid \in 1..Len(Traces) /\ l = 1
TraceTypedHeader == IsEvent("TypedHeader") /\ TypedHeaderOK(Ev.kinds, Ev.row)

TraceNext == TraceText \/ TraceUnits \/ TraceTables \/ TraceTyped \/ TraceTypedGrid \/ TraceTypedText \/ TraceTypedHeader
TraceSpec == TraceInit /\ [][TraceNext]_vars
TraceAccept ==
    /\ (l = Len(Traces[tid].ev) + 1) => PrintT(<<"ACCEPT", tid>>)
    /\ (IOEnv.MBV_PROGRESS = "1") => PrintT(<<"AT", tid, l>>)
=============================================================================
