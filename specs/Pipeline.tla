------------------------------ MODULE Pipeline ------------------------------
(* Backbone of one read_file() call: the composition of the stage machines that the property modules
   specify in isolation (Router / Limits / Encryption / ZipGuard / Surface).

       SizeGuard -> Route -> Open -> Load -> [extractor:] Detect* -> Validate -> ReadMember* -> Yield* -> Done
                                                    any stage may end the call with an error of the family

   The environment fixes the FACTS of the input (too large?, supported?, encrypted?, zip container?,
   bomb?, parses?); the machine is the order in which the implementation may learn and act on them.
   Cross-property invariants (none of them is owned by a single property module):
     Inv_GuardFirst        nothing is routed, opened or loaded before the size decision        (C12 x C07)
     Inv_RouteBeforeOpen   an unsupported path is refused without touching the file            (C07 x C12)
     Inv_DetectBeforeYield an encrypted input never yields, whatever else is true of it        (C08 x C01)
     Inv_ValidBeforeRead   no member of a ZIP container is decompressed before the bomb guard  (C11 x C08:
                           also holds for the ODF encryption probe, which reads the manifest)
     Inv_FamilyOnly        the call ends normally or with one error of the ExtractionError family (C01)
     Inv_ErrorPriority     TooLarge wins over everything, NotSupported over the content errors,
                           Encrypted / ZipBomb over parse failures
   Trace validation (PipelineTrace.tla) replays recorded stage events of real calls.               *)
EXTENDS Naturals, Sequences, FiniteSets, TLC

CONSTANT MaxYield

Facts == [tooLarge : BOOLEAN, supported : BOOLEAN, zip : BOOLEAN, encrypted : BOOLEAN, bomb : BOOLEAN,
          parses : BOOLEAN, encViaZip : BOOLEAN]   \* encViaZip: encryption is declared inside the ZIP (ODF manifest, EPUB)

Stages == {"start", "sized", "routed", "opened", "loaded", "probing", "validated", "detected", "parsing", "done", "failed"}
Errors == {"TooLarge", "NotSupported", "Encrypted", "ZipBomb", "Failed"}

VARIABLES f, stage, validated, reads, yields, err, log
vars == <<f, stage, validated, reads, yields, err, log>>

Init == /\ f \in {x \in Facts : (x.encViaZip => x.zip /\ x.encrypted) /\ (x.bomb => x.zip)}
        /\ stage = "start" /\ validated = FALSE /\ reads = 0 /\ yields = 0 /\ err = "" /\ log = <<>>

Fail(e) == stage' = "failed" /\ err' = e /\ log' = Append(log, e)
Step(s, a) == stage' = s /\ log' = Append(log, a) /\ UNCHANGED err

SizeGuard == /\ stage = "start"
             /\ (IF f.tooLarge THEN Fail("TooLarge") ELSE Step("sized", "SizeGuard"))
             /\ UNCHANGED <<f, validated, reads, yields>>
Route == /\ stage = "sized"
         /\ (IF ~f.supported THEN Fail("NotSupported") ELSE Step("routed", "Route"))
         /\ UNCHANGED <<f, validated, reads, yields>>
Open == stage = "routed" /\ Step("opened", "Open") /\ UNCHANGED <<f, validated, reads, yields>>
Load == stage = "opened" /\ Step("loaded", "Load") /\ UNCHANGED <<f, validated, reads, yields>>

\* detection that needs no ZIP access (OLE wrapper, legacy flags, PDF): straight after loading
DetectOuter == /\ stage = "loaded" /\ ~f.encViaZip
               /\ (IF f.encrypted THEN Fail("Encrypted") ELSE Step(IF f.zip THEN "probing" ELSE "detected", "Detect"))
               /\ UNCHANGED <<f, validated, reads, yields>>
\* detection that reads the package (ODF manifest, EPUB encryption.xml): the probe itself opens the ZIP
EnterProbe == /\ stage = "loaded" /\ f.encViaZip /\ Step("probing", "Probe")
              /\ UNCHANGED <<f, validated, reads, yields>>
Validate == /\ stage = "probing" /\ ~validated
            /\ (IF f.bomb THEN Fail("ZipBomb") /\ UNCHANGED validated
                ELSE Step("probing", "Validate") /\ validated' = TRUE)
            /\ UNCHANGED <<f, reads, yields>>
ReadMember == /\ stage \in {"probing", "parsing"} /\ validated /\ reads < 3
              /\ reads' = reads + 1 /\ log' = Append(log, "Read") /\ UNCHANGED <<f, stage, validated, yields, err>>
DetectInner == /\ stage = "probing" /\ validated
               /\ (IF f.encViaZip THEN Fail("Encrypted") ELSE Step("detected", "DetectInner"))
               /\ UNCHANGED <<f, validated, reads, yields>>
Parse == /\ stage = "detected" /\ (f.zip => validated)
         /\ (IF f.parses THEN Step("parsing", "Parse") ELSE Fail("Failed"))
         /\ UNCHANGED <<f, validated, reads, yields>>
Yield == /\ stage = "parsing" /\ yields < MaxYield /\ yields' = yields + 1 /\ log' = Append(log, "Yield")
         /\ UNCHANGED <<f, stage, validated, reads, err>>
Finish == stage = "parsing" /\ yields >= 1 /\ Step("done", "Done") /\ UNCHANGED <<f, validated, reads, yields>>

Next == SizeGuard \/ Route \/ Open \/ Load \/ DetectOuter \/ EnterProbe \/ Validate \/ ReadMember \/ DetectInner
        \/ Parse \/ Yield \/ Finish
Spec == Init /\ [][Next]_vars /\ WF_vars(Next)

Before(a, b) == \A j \in DOMAIN log : log[j] = b => \E i \in 1..(j - 1) : log[i] = a
Has(a) == \E i \in DOMAIN log : log[i] = a

Inv_GuardFirst == (Has("Route") \/ Has("Open") \/ Has("Load")) => log[1] = "SizeGuard"
Inv_RouteBeforeOpen == Before("Route", "Open") /\ Before("Open", "Load")
Inv_DetectBeforeYield == f.encrypted => yields = 0
Inv_ValidBeforeRead == Before("Validate", "Read")
Inv_FamilyOnly == (stage = "failed" => err \in Errors) /\ (stage # "failed" => err = "")
Inv_ErrorPriority ==
    stage = "failed" =>
        /\ (f.tooLarge => err = "TooLarge")
        /\ (~f.tooLarge /\ ~f.supported => err = "NotSupported")
        /\ (~f.tooLarge /\ f.supported /\ f.encrypted /\ ~f.bomb => err = "Encrypted")
        /\ (~f.tooLarge /\ f.supported /\ f.bomb /\ ~(f.encrypted /\ ~f.encViaZip) => err = "ZipBomb")
Prop_Terminates == <>(stage \in {"done", "failed"})
=============================================================================
