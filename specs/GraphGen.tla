------------------------------ MODULE GraphGen ------------------------------
(* C18 -- enumerates the cases of the spec -> code replay; one state = one case (tlc -dump).

   Mode = "walk" (or its factors "cases" x "faults"):
                    (server, job, fault) = the initial states of Graph!MCSpec over a richer job
                    universe (all five listing calls, folder targets); fault positions range over
                    0 .. NReq(srv, job) - 1, the request count the specification computes.
                    Names, dates, the filter and the drive id are concretised by the driver
                    (VERIF_SEED) and travel in the trace header; TLC decides on the trace.
   Mode = "filter": job = [call |-> "match", F |-> filter, file |-> file] over the date lattice
                    {A-1, A, A+1} x {B-1, B, B+1} + missing + unparsable, extension case variants,
                    patterns over name / full path, parent depth 0..2.                        *)
EXTENDS Graph

CONSTANT Mode

A == 100
B == 200
Dates == { [t |-> "ok", v |-> x] : x \in {A - 1, A, A + 1, B - 1, B, B + 1} }
           \cup { [t |-> "missing", v |-> 0], [t |-> "garbage", v |-> 0] }
BoundsA == { NoBound, [set |-> TRUE, v |-> A] }
BoundsB == { NoBound, [set |-> TRUE, v |-> B] }

\* code points:  a=97 b=98 d=100 e=101 f=102 k=107 o=111 p=112 x=120 c=99  R=82 P=80 D=68 F=70
S(str) == str            \* (documentation only)
n_a_pdf    == <<97, 46, 112, 100, 102>>               \* a.pdf
n_a_PDF    == <<97, 46, 80, 68, 70>>                  \* a.PDF
n_a_Pdf    == <<97, 46, 80, 100, 102>>                \* a.Pdf
n_bak      == <<97, 46, 112, 100, 102, 46, 98, 97, 107>>   \* a.pdf.bak
n_apdf     == <<97, 112, 100, 102>>                   \* apdf
n_dotpdf   == <<46, 112, 100, 102>>                   \* .pdf
n_docx     == <<98, 46, 100, 111, 99, 120>>           \* b.docx
Names == { n_a_pdf, n_a_PDF, n_a_Pdf, n_bak, n_apdf, n_dotpdf, n_docx }

e_pdf  == <<46, 112, 100, 102>>                       \* .pdf
e_PDF  == <<46, 80, 68, 70>>                          \* .PDF
e_docx == <<46, 100, 111, 99, 120>>                   \* .docx
e_bare == <<112, 100, 102>>                           \* pdf  (no dot: DON'T-CARE)
ExtLists == { <<>>, <<e_pdf>>, <<e_PDF>>, <<e_docx, e_pdf>>, <<e_bare>> }

d_Re == <<82, 101>>                                   \* Re
d_x  == <<120>>                                       \* x
Parents == { <<>>, <<d_Re>>, <<d_Re, d_x>> }

p_starpdf == <<42, 46, 112, 100, 102>>                \* *.pdf
p_Re_star == <<82, 101, 47, 42>>                      \* Re/*
p_star_a  == <<42, 47, 97, 46, 112, 100, 102>>        \* */a.pdf
p_a       == <<97, 46, 112, 100, 102>>                \* a.pdf
p_Rq      == <<82, 63, 47, 42, 46, 112, 100, 102>>    \* R?/*.pdf
p_re_star == <<114, 101, 47, 42>>                     \* re/*   (case differs: DON'T-CARE where it matters)
p_Rex     == <<82, 101, 47, 120, 47, 42>>             \* Re/x/*
PatLists == { <<>>, <<p_starpdf>>, <<p_Re_star>>, <<p_star_a>>, <<p_a>>, <<p_Rq>>, <<p_re_star>>, <<p_Rex>>,
              <<p_a, p_Rex>> }

OkD(x) == [t |-> "ok", v |-> x]
Flt(ca, cb, ma, mb, ex, pa) == [ca |-> ca, cb |-> cb, ma |-> ma, mb |-> mb, exts |-> ex, pats |-> pa]
File(nm, pp, cr, mo) == [name |-> nm, pp |-> pp, cr |-> cr, mo |-> mo]

\* block 1: both date criteria, full cross (the other criteria at two settings)
FilterCases1 ==
    { [call |-> "match", F |-> Flt(ca, cb, ma, mb, ex, <<>>), file |-> File(n_a_PDF, <<d_Re>>, cr, mo)] :
        ca \in BoundsA, cb \in BoundsB, ma \in BoundsA, mb \in BoundsB, cr \in Dates, mo \in Dates,
        ex \in { <<>>, <<e_docx>> } }
\* block 2: extension x name x pattern x parent, full cross (dates at three settings)
FilterCases2 ==
    { [call |-> "match", F |-> Flt(NoBound, NoBound, ma, NoBound, ex, pa), file |-> File(nm, pp, OkD(A), mo)] :
        ex \in ExtLists, nm \in Names, pa \in PatLists, pp \in Parents,
        ma \in BoundsA, mo \in { OkD(A), OkD(A - 1) } }
FilterCases == FilterCases1 \cup FilterCases2

GenJobs(s) ==
    { JobOf("all", <<>>) : c \in {"all"} \cap Calls }
    \cup { JobOf(c, t) : c \in {"filtered", "modsince", "crsince"} \cap Calls, t \in TargetChoices(s) }
    \cup { JobOf("infolder", t) : t \in IF "infolder" \in Calls
                                       THEN { <<PathTo(s, i)>> : i \in { g \in 0..s.n : IsFolder(s, g) } } \cup { <<MissingPath>> }
                                       ELSE {} }

EmptySrv == SrvOf([n |-> 0, parent |-> <<>>, kind |-> <<>>], 1, FALSE, FALSE)

\* Mode "walk" enumerates the full product; "cases" + "faults" enumerate its two factors (the driver
\* forms the product: fault f applies at request index k iff k < NReq and (f.at < 0 or k <= f.at))
GenInit ==
    /\ CASE Mode = "walk" ->
              /\ srv \in Servers
              /\ job \in GenJobs(srv)
              /\ fault \in { f \in Faults(srv, job) : FaultOK(f) }
         [] Mode = "cases" ->
              /\ srv \in Servers
              /\ job \in GenJobs(srv)
              /\ fault = [at |-> NReq(srv, job), kind |-> "nreq", code |-> 0]
         [] Mode = "faults" ->
              /\ srv = EmptySrv
              /\ job = JobOf("all", <<>>)
              /\ fault \in { [f EXCEPT !.at = IF f.kind = "nofield" THEN 1 ELSE -1] : f \in InjectChoices }
         [] OTHER ->
              /\ srv = EmptySrv
              /\ job \in FilterCases
              /\ fault = NoFault
    /\ budget = 1
    /\ ClientInit
GenNext == UNCHANGED vars
GenSpec == GenInit /\ [][GenNext]_vars
=============================================================================
