----------------------------- MODULE RouterMeta -----------------------------
(* Meta-theorem for C07, checked by TLC over ALL routing tables on a small token universe:
   the two entry points agree on every path and every MIME guess  <=>  the tables are
   well-formed (alias, compound and MIME targets are registry keys).
   One state = one choice of tables; there are no transitions.                              *)
EXTENDS Router

CONSTANTS Tok, Mimes, Guesses

VARIABLES T, guess
vars == <<T, guess>>

PFun(D, R) == UNION { [X -> R] : X \in SUBSET D }

Tables == { [reg |-> [t \in R |-> t], alias |-> a, comp |-> c, mime |-> m] :
              R \in SUBSET Tok, a \in PFun(Tok, Tok),
              c \in PFun({<<"a", "b">>}, Tok), m \in PFun(Mimes, Tok) }

Tails == {"", ".", " ", "?q", "/b"}
ExtSeqs == {<<>>} \cup {<<x>> : x \in Tok} \cup {<<x, y>> : x \in Tok, y \in Tok}
Paths == { [exts |-> e, hidden |-> h, tail |-> t] : e \in ExtSeqs, h \in BOOLEAN, t \in Tails }

Init == T \in Tables /\ guess \in Guesses
Next == UNCHANGED vars
Spec == Init /\ [][Next]_vars

AllEquiv(TT) == \A p \in Paths : \A g \in Guesses : Equiv(p, TT, g)

Inv_WFImpliesEquiv == WF(T) => \A p \in Paths : Equiv(p, T, guess)
Inv_EquivIffWF     == WF(T) <=> AllEquiv(T)
Inv_MimeIndependent == \A p \in Paths : \A g2 \in Guesses : WF(T) => MimeIndependent(p, T, guess, g2)
\* sensitivity: without well-formedness the equivalence must FAIL (expected counterexample)
Sens_EquivWithoutWF == \A p \in Paths : Equiv(p, T, guess)
=============================================================================
