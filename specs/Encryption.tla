----------------------------- MODULE Encryption -----------------------------
(* C08 -- "Encrypted input is rejected as encrypted, plain input never is."

   WHAT IS MODELLED
   An abstract container  c  (a record with field `kind`) per container kind, a DECLARATIVE
   three-valued classification taken from the format documents
        Class(c) \in { "MUST", "MUSTNOT", "DONTCARE" }
          MUST     : the format says the content is encrypted / needs a non-empty password
          MUSTNOT  : the format says it is not
          DONTCARE : the property / the format documents do not decide (reasons below)
   next to a detector ALGORITHM per kind (transcribing the code step by step: loops become
   recursive walks over the same sequences the code walks), and the extraction PIPELINE
   (open -> detect -> extract/yield ... -> done) in which the detector sits.

   CODE MIRRORED (sharepoint2text/parsing/extractors/...)
     ooxml : util/encryption.py:is_ooxml_encrypted / _has_ole_encryption_stream, called first in
             ms_modern/{docx,xlsx,pptx}_extractor.py:read_*
     ppt   : util/encryption.py:is_ppt_encrypted              (ms_legacy/ppt_extractor.py:read_ppt)
     xls   : util/encryption.py:is_xls_encrypted  (record walk) (ms_legacy/xls_extractor.py:read_xls)
     doc   : ms_legacy/doc_extractor.py:_DocReader._parse_content  (FIB flags at 0x0A, bit 0x0100)
     odf   : util/encryption.py:is_odf_encrypted              (open_office/od{t,s,p,g,f}_extractor.py)
     pdf   : pdf/pdf_extractor.py:_open_pdf_reader, read_pdf  (is_encrypted, decrypt(""))
     zip   : archive_extractor.py:_extract_from_zip_optimized (flag pass, then member loop)
     sevenz: archive_extractor.py:_extract_from_7z_optimized, util/sevenzip.py:needs_password,
             _parse_encoded_header/_apply_decoder
     epub  : epub_extractor.py:_is_epub_encrypted, read_epub

   ABSTRACT CONTAINERS  (stream names are tokens; the harness maps them to the real spellings:
   "DataSpaces6" = "\x06DataSpaces", "DRMContent9" = "\x09DRMContent", "CurrentUser" = "Current User")
     [kind |-> "ooxml", wrap \in {"zip","ole"} (fixture traces also "other"), names \subseteq OleNames]
     [kind |-> "ppt",   names \subseteq PptNames, token \in {"plain","enc","absent"}]
                         token = CurrentUserAtom.headerToken ([MS-PPT] 2.3.2: 0xE391C05F / 0xF3D1C4DF)
     [kind |-> "xls",   stream \in {"Workbook","Book","none"}, recs \in Seq(RecKinds)]
                         BOF | FP (FILEPASS 0x002F) | X (other record) | X2F (other record whose
                         payload contains the bytes 2F 00) | OVR (record whose length field
                         overruns the end of the stream: what follows is inside its payload)
     [kind |-> "doc",   magic \in {"w97", "w95"}, fEncrypted, fObfuscated \in BOOLEAN]
                         [MS-DOC] FibBase: wIdent 0xA5EC (Word 97-2003) or 0xA5DC (Word 6 / 95) -- both accepted by
                         the reader -- and the flag bits 0x0100 / 0x8000, which sit at the same place in both
     [kind |-> "odf",   enc \in OdfEncs, prefix \in {"manifest","m"}, doctype \in OdfDoctypes,
                        prolog \in OdfProlog, order \in OdfOrders,
                        entries \in Seq([name : OdfNames, ed : BOOLEAN])]   ed = has an encryption-data child
                         enc = encoding named in the XML declaration (UTF-8, UTF-16 with BOM, ISO-8859-1,
                         Shift_JIS); doctype = none | external ("Manifest.dtd", what OpenOffice.org wrote) |
                         internal (subset declaring an entity); prolog = comment + processing instruction
                         before the root or not; order = attribute order of the file entries.  All of them are
                         well-formed XML: the spelling of a manifest does not change whether it is encrypted.
     [kind |-> "pdf",   alg \in PdfAlgs, userEmpty \in BOOLEAN, owner \in {"same", "distinct"},
                        flate \in BOOLEAN, slen, strlen \in {0, 1, 15}]
                         flate / slen / strlen = layout of the plaintexts the security handler works on: page
                         content streams Flate-compressed or not, their length mod 16, and the length mod 16 of
                         the strings (/Info, page dictionary).  AES pads to the 16-byte block: residue 0 gives a
                         full padding block, 15 a single padding byte.  The layout is an input dimension only:
                         neither Class nor MustEqualPlain depends on it -- whatever the lengths, the
                         empty-password document extracts like its original.
                         owner = "same": the owner password equals the user password (also what a writer
                         produces when no owner password is given); "distinct": another, non-empty one
     [kind |-> "zip",   members \in Seq([fc, fl, dir : BOOLEAN, err : {"none","unsupported","badcrc"}])]
                         fc / fl = general purpose bit 0 in the central directory / local header
     [kind |-> "sevenz", hdr \in HdrKinds, folders \in Seq(Seq(CoderIds))]
     [kind |-> "epub",  encxml \in EncXml, rights \in BOOLEAN]
     [kind |-> "plain"]  a format without any encryption mechanism (txt, html, rtf, eml, tar, ...):
                         only used for recorded fixture traces -- never rejected as encrypted

   DON'T-CAREs (the check demands nothing there)
     ooxml : an OLE file with none of EncryptionInfo / EncryptedPackage but with a data-spaces or DRM
             entry (IRM-protected documents: the property does not name them; a literal "DataSpaces").
     ppt   : headerToken says "not encrypted" but an encryption-looking stream is present (inconsistent).
     xls   : FILEPASS bytes only inside the payload of an overrunning record; no workbook stream.
     doc   : fObfuscated without fEncrypted (MUST NOT occur per [MS-DOC]).
     zip   : bit 0 differs between local header and central directory; bit 0 on a directory entry.
     sevenz: coder ids 06F107xx other than 06F10701 (7zAES), which no document describes.
     epub  : encryption.xml that only obfuscates fonts (IDPF / Adobe algorithms) or does not parse:
             the documentation does not decide font obfuscation.
     everywhere: WHICH non-encrypted error a broken plain container gets, and whether it yields.

   CONSTANT Deviations \subseteq DeviationNames: {} = reference design (TLC proves the Inv_ invariants), {d} = as-built step d on
   (TLC prints the counterexample).  The bounded universes and their size constants are in EncryptionGen.tla.

   DEVIATIONS (as-built behaviour, off in the reference design; each one is a named disjunct)
     "Odf!SubstringDetector"            is_odf_encrypted searched the manifest TEXT for substrings
     "Zip!AnyRuntimeErrorIsEncrypted"   every RuntimeError of ZipFile.read() was "encrypted"
     "SevenZ!EncryptedHeaderIsInvalid"  an AES-coded (encrypted) 7z header surfaced as Bad7zFile -> failed
     "Ppt!StreamNamesOnly"              is_ppt_encrypted never looked at CurrentUserAtom.headerToken
     "Odf!FallbackSubstring"            for a manifest the hardened XML parser refuses (entity declaration in an
                                        internal subset, Shift_JIS) the detector searched the text for the
                                        substring "encryption-data" (a file name was enough) instead of a start tag
     "Pdf!AesFallbackOnlyAtOpen"        the pure-Python AES fallback was installed only when PdfReader() itself
                                        failed; an AES-128 (V4) document opens and verifies "" without AES, so
                                        its page streams could not be decrypted (first AES document of a process)
*)
EXTENDS Naturals, Sequences, FiniteSets, TLC

CONSTANT Deviations

DeviationNames == { "Odf!SubstringDetector", "Zip!AnyRuntimeErrorIsEncrypted",
                    "SevenZ!EncryptedHeaderIsInvalid", "Ppt!StreamNamesOnly", "Pdf!AesFallbackOnlyAtOpen",
                    "Odf!FallbackSubstring" }
ASSUME Deviations \subseteq DeviationNames

Range(s) == { s[i] : i \in DOMAIN s }
SeqsUpTo(S, n) == UNION { [1..k -> S] : k \in 0..n }

(* ======================================================================== OLE / OOXML ==== *)
OleNames == { "EncryptionInfo", "EncryptedPackage", "DataSpaces6", "DataSpaces", "DRMContent9",
              "WordDocument", "Workbook", "SummaryInformation" }

\* _has_ole_encryption_stream: for stream in (...): if ole.exists(stream): return True
RECURSIVE AnyExists(_, _)
AnyExists(wanted, names) ==
    IF wanted = <<>> THEN FALSE
    ELSE IF Head(wanted) \in names THEN TRUE
    ELSE AnyExists(Tail(wanted), names)

HasOleEncryptionStream(names) == AnyExists(<<"EncryptionInfo", "EncryptedPackage", "DataSpaces">>, names)

DetectOoxml(c) == IF c.wrap = "ole" THEN HasOleEncryptionStream(c.names) ELSE FALSE

\* [MS-OFFCRYPTO] 2.3.4.4 (\EncryptedPackage stream), 2.3.4.5 (\EncryptionInfo stream)
ClassOoxml(c) ==
    IF c.wrap # "ole" THEN "MUSTNOT"
    ELSE IF {"EncryptionInfo", "EncryptedPackage"} \cap c.names # {} THEN "MUST"
    ELSE IF {"DataSpaces6", "DataSpaces", "DRMContent9"} \cap c.names # {} THEN "DONTCARE"
    ELSE "MUSTNOT"

(* ================================================================================ PPT ==== *)
PptNames == { "EncryptionInfo", "EncryptedPackage", "DataSpaces", "DataSpaces6",
              "EncryptedSummary", "EncryptedSummaryInformation", "Pictures" }
PptTokens == { "plain", "enc", "absent" }

DetectPpt(c, D) ==
    IF HasOleEncryptionStream(c.names) THEN TRUE
    ELSE IF "EncryptedSummary" \in c.names \/ "EncryptedSummaryInformation" \in c.names THEN TRUE
    ELSE IF "Ppt!StreamNamesOnly" \in D THEN FALSE
    ELSE c.token = "enc"

\* [MS-PPT] 2.3.2 CurrentUserAtom.headerToken = 0xF3D1C4DF: "the file contains an encrypted document";
\* the "EncryptedSummary" stream (encrypted summary info stream) exists only in encrypted documents
\* whose document properties are encrypted too -- it is optional, the token is not.
ClassPpt(c) ==
    IF c.token = "enc" \/ {"EncryptionInfo", "EncryptedPackage"} \cap c.names # {} THEN "MUST"
    ELSE IF {"EncryptedSummary", "EncryptedSummaryInformation", "DataSpaces", "DataSpaces6"} \cap c.names # {}
         THEN "DONTCARE"
    ELSE "MUSTNOT"

(* ================================================================================ XLS ==== *)
RecKinds == { "BOF", "FP", "X", "X2F", "OVR" }
XlsStreams == { "Workbook", "Book", "none" }

\* while offset + 4 <= len: read id, len; if id == FILEPASS: return True; offset += 4 + len
RECURSIVE XlsWalk(_, _)
XlsWalk(recs, i) ==
    IF i > Len(recs) THEN FALSE                      \* offset + 4 > data_len
    ELSE IF recs[i] = "FP" THEN TRUE
    ELSE IF recs[i] = "OVR" THEN FALSE               \* offset jumps past the end of the data
    ELSE XlsWalk(recs, i + 1)                        \* BOF / X / X2F: skipped by their length field

DetectXls(c) == IF c.stream = "none" THEN FALSE ELSE XlsWalk(c.recs, 1)

\* [MS-XLS] 2.4.117 FilePass: the record exists iff the workbook is encrypted/obfuscated.  The
\* records of a BIFF stream are the ones the length fields delimit.
FirstOvr(recs) == IF \E i \in DOMAIN recs : recs[i] = "OVR"
                  THEN CHOOSE i \in DOMAIN recs : recs[i] = "OVR" /\ \A j \in 1..(i - 1) : recs[j] # "OVR"
                  ELSE Len(recs) + 1
ClassXls(c) ==
    IF c.stream = "none" THEN (IF "FP" \in Range(c.recs) THEN "DONTCARE" ELSE "MUSTNOT")
    ELSE IF \E i \in DOMAIN c.recs : c.recs[i] = "FP" /\ i < FirstOvr(c.recs) THEN "MUST"
    ELSE IF "FP" \in Range(c.recs) THEN "DONTCARE"
    ELSE "MUSTNOT"

(* ================================================================================ DOC ==== *)
DocMagics == { "w97", "w95" }
DetectDoc(c) == c.magic \in DocMagics /\ c.fEncrypted    \* magic validated, then flags & 0x0100 -- for either magic
ClassDoc(c) == IF c.fEncrypted THEN "MUST" ELSE IF c.fObfuscated THEN "DONTCARE" ELSE "MUSTNOT"

(* ================================================================================ ODF ==== *)
OdfNames == { "content.xml", "Pictures/encryption-data.png", "manifest:algorithm.txt", "manifest:encrypted.bin" }
TrickySubstrings == <<"encryption-data", "manifest:encrypted", "manifest:algorithm">>

\* does the file NAME contain the substring (decided here by table: the names are tokens)
NameContains(name, sub) ==
    \/ name = "Pictures/encryption-data.png" /\ sub = "encryption-data"
    \/ name = "manifest:algorithm.txt"       /\ sub = "manifest:algorithm"
    \/ name = "manifest:encrypted.bin"       /\ sub = "manifest:encrypted"

\* the manifest as TEXT decoded as UTF-8 with errors ignored: a UTF-16 manifest is NUL-interleaved,
\* no ASCII substring of length >= 2 survives.  An encryption-data child contributes the substrings
\* "<prefix>:encryption-data" and "<prefix>:algorithm".
OdfEncs     == { "utf8", "utf16", "latin1", "sjis" }
OdfDoctypes == { "none", "external", "internal" }
OdfProlog   == { "none", "comment-pi" }
OdfOrders   == { "path-first", "type-first" }
\* defusedxml / expat refuse these well-formed manifests (EntitiesForbidden; "multi-byte encodings are not supported")
ParserRefuses(c) == c.doctype = "internal" \/ c.enc = "sjis"

TextContains(c, sub) ==
    /\ c.enc # "utf16"                                   \* the ASCII-compatible encodings keep the substrings
    /\ \/ \E i \in DOMAIN c.entries : NameContains(c.entries[i].name, sub)
       \/ \E i \in DOMAIN c.entries : c.entries[i].ed /\
             (sub = "encryption-data" \/ (sub = "manifest:algorithm" /\ c.prefix = "manifest"))

\* reference: walk the parsed manifest, look for an encryption-data ELEMENT of the manifest namespace
RECURSIVE OdfWalk(_, _)
OdfWalk(entries, i) ==
    IF i > Len(entries) THEN FALSE
    ELSE IF entries[i].ed THEN TRUE
    ELSE OdfWalk(entries, i + 1)

DetectOdf(c, D) ==
    IF "Odf!SubstringDetector" \in D
    THEN \E k \in DOMAIN TrickySubstrings : TextContains(c, TrickySubstrings[k])
    ELSE IF "Odf!FallbackSubstring" \in D /\ ParserRefuses(c)
    THEN TextContains(c, "encryption-data")          \* textual fallback: substring anywhere
    ELSE OdfWalk(c.entries, 1)                       \* element walk / start-tag search: the elements decide

\* ODF 1.2 part 3, 4.4 <manifest:encryption-data>: present for every encrypted file entry
\* -- whatever the spelling of the manifest (encoding, DOCTYPE, prolog, attribute order, file names)
ClassOdf(c) == IF \E i \in DOMAIN c.entries : c.entries[i].ed THEN "MUST" ELSE "MUSTNOT"

(* ================================================================================ PDF ==== *)
PdfAlgs == { "none", "RC4-40", "RC4-128", "AES-128", "AES-256-R5", "AES-256" }

\* reader.decrypt(""): 0 = NOT_DECRYPTED, 1 = USER_PASSWORD, 2 = OWNER_PASSWORD.  pypdf tries the owner
\* password first: "" matches the owner entry whenever the owner password is the (empty) user password.
\* (An empty owner password next to a non-empty user password is not in the universe.)
PdfOwners == { "same", "distinct" }
DecryptEmpty(c) == IF ~c.userEmpty THEN 0
                   ELSE IF c.owner = "same" THEN 2 ELSE 1
\* if decrypt_result == 0: raise ExtractionFileEncryptedError   -- both 1 and 2 open the document
DetectPdf(c) == IF c.alg = "none" THEN FALSE          \* not reader.is_encrypted
                ELSE DecryptEmpty(c) = 0
\* ISO 32000-1 7.6.3.4: a document whose user password is the empty string opens without a password
ClassPdf(c) == IF c.alg # "none" /\ ~c.userEmpty THEN "MUST" ELSE "MUSTNOT"
\* "a PDF encrypted with the empty user password extracts the same content as its original"
MustEqualPlain(c) == c.kind = "pdf" /\ c.alg # "none" /\ c.userEmpty

(* ================================================================================ ZIP ==== *)
ZipErrs == { "none", "unsupported", "badcrc" }
ZipMembers == { m \in [fc : BOOLEAN, fl : BOOLEAN, dir : BOOLEAN, err : ZipErrs] :
                  m.dir => (m.err = "none" /\ m.fl = m.fc) }

\* first pass over infolist(): skip directories; flag_bits & 0x1 -> encrypted
RECURSIVE ZipFlagPass(_, _)
ZipFlagPass(ms, i) ==
    IF i > Len(ms) THEN FALSE
    ELSE IF ms[i].dir THEN ZipFlagPass(ms, i + 1)
    ELSE IF ms[i].fc THEN TRUE
    ELSE ZipFlagPass(ms, i + 1)

DetectZip(c) == ZipFlagPass(c.members, 1)

\* what ZipFile.read(info) does with member m ("password": RuntimeError 'is encrypted, password
\* required'; "unsupported": NotImplementedError, a subclass of RuntimeError; "badcrc": BadZipFile)
ReadErr(m) == IF m.fc THEN "password" ELSE m.err

\* APPNOTE 4.4.4: bit 0 set = the file is encrypted (both headers carry the flags)
ClassZip(c) ==
    LET ms == c.members IN
    IF \E i \in DOMAIN ms : ~ms[i].dir /\ ms[i].fc /\ ms[i].fl THEN "MUST"
    ELSE IF \E i \in DOMAIN ms : ms[i].fc \/ ms[i].fl THEN "DONTCARE"
    ELSE "MUSTNOT"

(* ================================================================================= 7z ==== *)
CoderIds == { "COPY", "LZMA", "LZMA2", "BCJ", "AES", "AESX" }    \* AES = 06F10701, AESX = 06F107xx other
HdrKinds == { "plain", "lzma", "aes", "lzma+aes" }
IsAesPrefix(id) == id \in {"AES", "AESX"}                         \* coder_id.startswith(06 F1 07)

\* needs_password: any(coder_id.startswith(AES_PREFIX) for folder in folders for coder in folder)
RECURSIVE AnyAesCoder(_, _)
AnyAesCoder(coders, j) ==
    IF j > Len(coders) THEN FALSE
    ELSE IF IsAesPrefix(coders[j]) THEN TRUE
    ELSE AnyAesCoder(coders, j + 1)
RECURSIVE AnyAesFolder(_, _)
AnyAesFolder(folders, i) ==
    IF i > Len(folders) THEN FALSE
    ELSE IF AnyAesCoder(folders[i], 1) THEN TRUE
    ELSE AnyAesFolder(folders, i + 1)

DetectSevenZ(c) == AnyAesFolder(c.folders, 1)
HdrEncrypted(c) == c.hdr \in {"aes", "lzma+aes"}                  \* -mhe=on: the header folder is 7zAES-coded

\* 7zFormat.txt / Methods.txt: 06F10701 = 7zAES (AES-256 + SHA-256): the streams need a password
ClassSevenZ(c) ==
    IF HdrEncrypted(c) \/ \E i \in DOMAIN c.folders : "AES" \in Range(c.folders[i]) THEN "MUST"
    ELSE IF \E i \in DOMAIN c.folders : "AESX" \in Range(c.folders[i]) THEN "DONTCARE"
    ELSE "MUSTNOT"

(* =============================================================================== EPUB ==== *)
EncXml == { "absent", "empty", "fonts-idpf", "fonts-adobe", "content", "malformed" }

\* _is_epub_encrypted: encryption.xml exists and has any EncryptedData element (a parse error is
\* swallowed) -> True; META-INF/rights.xml exists -> True
DetectEpub(c) ==
    IF c.encxml \in {"fonts-idpf", "fonts-adobe", "content"} THEN TRUE
    ELSE c.rights

\* OCF 3.x 3.5.2 (encryption.xml: EncryptedData per encrypted resource), 3.5.6 rights.xml
ClassEpub(c) ==
    IF c.encxml = "content" \/ c.rights THEN "MUST"
    ELSE IF c.encxml \in {"absent", "empty"} THEN "MUSTNOT"
    ELSE "DONTCARE"

(* =========================================================================== dispatch ==== *)
Kinds == { "ooxml", "ppt", "xls", "doc", "odf", "pdf", "zip", "sevenz", "epub", "plain" }

Class(c) ==
    CASE c.kind = "ooxml"  -> ClassOoxml(c)
      [] c.kind = "ppt"    -> ClassPpt(c)
      [] c.kind = "xls"    -> ClassXls(c)
      [] c.kind = "doc"    -> ClassDoc(c)
      [] c.kind = "odf"    -> ClassOdf(c)
      [] c.kind = "pdf"    -> ClassPdf(c)
      [] c.kind = "zip"    -> ClassZip(c)
      [] c.kind = "sevenz" -> ClassSevenZ(c)
      [] c.kind = "epub"   -> ClassEpub(c)
      [] c.kind = "plain"  -> "MUSTNOT"

Must(c)    == Class(c) = "MUST"
MustNot(c) == Class(c) = "MUSTNOT"

Detector(c, D) ==
    CASE c.kind = "ooxml"  -> DetectOoxml(c)
      [] c.kind = "ppt"    -> DetectPpt(c, D)
      [] c.kind = "xls"    -> DetectXls(c)
      [] c.kind = "doc"    -> DetectDoc(c)
      [] c.kind = "odf"    -> DetectOdf(c, D)
      [] c.kind = "pdf"    -> DetectPdf(c)
      [] c.kind = "zip"    -> DetectZip(c)
      [] c.kind = "sevenz" -> DetectSevenZ(c)
      [] c.kind = "epub"   -> DetectEpub(c)
      [] c.kind = "plain"  -> FALSE

\* Detector(c) = Encrypted(c), three-valued: equality wherever the documents decide
DetectorAgrees(c, D) == /\ Must(c)    => Detector(c, D)
                        /\ MustNot(c) => ~Detector(c, D)

MultiResult(c) == c.kind \in {"zip", "sevenz"}

(* ============================================================================ calls ===== *)
(* Every detector / extractor call takes a STREAM whose read position the caller may have left anywhere
   (header sniffing, a previous read, a detector that ran first).  The docstrings of the read_* extractors say
   "the stream position is reset to the beginning before reading", and the property quantifies over INPUTS: neither
   Class(c) nor Detector(c, D) nor the pipeline below has a position argument -- the verdict and the outcome are
   functions of the container alone.  The harness therefore repeats the direct call with the stream at every
   position of Positions, and in mode "after-detector" (the kind's detector function called first on the same
   stream object, at a non-zero position, the extractor straight afterwards without rewinding); the traces of all
   these calls are validated against the same, position-free specification.                                  *)
Positions == { "start", "middle", "end" }
CallModes == { "fresh", "after-detector" }

(* =========================================================================== pipeline ==== *)
(* One extraction of one container through any entry point (the direct extractor; read_file and the
   CLI only forward).  err: "none" | "Encrypted" (ExtractionFileEncryptedError) | "Other".        *)
VARIABLES c, pc, k, yielded, err
vars == <<c, pc, k, yielded, err>>

PipeInit(universe) == /\ c \in universe
                      /\ pc = "open" /\ k = 1 /\ yielded = 0 /\ err = "none"

Finish(e) == /\ err' = e /\ pc' = "done" /\ UNCHANGED <<c, k, yielded>>

\* opening the container: a 7z archive whose header is AES-coded cannot even be listed
Open ==
    /\ pc = "open"
    /\ IF c.kind = "sevenz" /\ HdrEncrypted(c)
       THEN IF "SevenZ!EncryptedHeaderIsInvalid" \in Deviations
            THEN Finish("Other")                      \* Bad7zFile -> ExtractionFailedError
            ELSE Finish("Encrypted")
       ELSE pc' = "detect" /\ UNCHANGED <<c, k, yielded, err>>

Detect ==
    /\ pc = "detect"
    /\ IF Detector(c, Deviations)
       THEN Finish("Encrypted")
       ELSE pc' = "extract" /\ UNCHANGED <<c, k, yielded, err>>

\* single-result kinds: the parse succeeds and yields one result, or fails with another error.
\* An empty-password PDF is a readable document (its original extracts): it must yield.
StreamsUndecryptable == /\ "Pdf!AesFallbackOnlyAtOpen" \in Deviations
                        /\ c.kind = "pdf" /\ c.alg = "AES-128"
ExtractSingle ==
    /\ pc = "extract" /\ ~MultiResult(c)
    /\ \/ /\ ~StreamsUndecryptable
          /\ yielded' = yielded + 1 /\ pc' = "done" /\ UNCHANGED <<c, k, err>>
       \/ /\ ~MustEqualPlain(c) \/ StreamsUndecryptable
          /\ Finish("Other")

Skip == k' = k + 1 /\ UNCHANGED <<c, pc, yielded, err>>

ExtractZipMember ==
    /\ pc = "extract" /\ c.kind = "zip" /\ k <= Len(c.members)
    /\ LET m == c.members[k] IN
       IF m.dir THEN Skip
       ELSE CASE ReadErr(m) = "password"    -> Finish("Encrypted")
              [] ReadErr(m) = "unsupported" -> IF "Zip!AnyRuntimeErrorIsEncrypted" \in Deviations
                                               THEN Finish("Encrypted")
                                               ELSE Finish("Other") \/ Skip      \* member failure
              [] ReadErr(m) = "badcrc"      -> Finish("Other") \/ Skip
              [] ReadErr(m) = "none"        -> \/ yielded' = yielded + 1 /\ k' = k + 1 /\ UNCHANGED <<c, pc, err>>
                                               \/ Skip                           \* unsupported member type

ExtractSevenZMember ==
    /\ pc = "extract" /\ c.kind = "sevenz" /\ k <= Len(c.folders)
    /\ \/ yielded' = yielded + 1 /\ k' = k + 1 /\ UNCHANGED <<c, pc, err>>
       \/ Skip
       \/ Finish("Other")

ExtractEnd ==
    /\ pc = "extract" /\ MultiResult(c)
    /\ k > (IF c.kind = "zip" THEN Len(c.members) ELSE Len(c.folders))
    /\ pc' = "done" /\ UNCHANGED <<c, k, yielded, err>>

Next == Open \/ Detect \/ ExtractSingle \/ ExtractZipMember \/ ExtractSevenZMember \/ ExtractEnd

(* ---- the property ---- *)
\* (a 7z archive with an encrypted header never reaches the detector: Open decides)
Inv_DetectorAgrees      == (pc = "detect") => DetectorAgrees(c, Deviations)
Inv_NoYieldBeforeReject == (err = "Encrypted") => (yielded = 0)
Inv_EncryptedRejected   == (pc = "done" /\ Must(c)) => (err = "Encrypted")
Inv_EncryptedNeverYields == Must(c) => (yielded = 0)
Inv_PlainNeverEncrypted == MustNot(c) => (err # "Encrypted")
Inv_EmptyPasswordExtracts == (pc = "done" /\ MustEqualPlain(c)) => (yielded = 1 /\ err = "none")
=============================================================================
