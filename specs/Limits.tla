------------------------------- MODULE Limits -------------------------------
(* C12 -- "Extraction cost is bounded by input size; explicit limits hold".

   PART (a)  explicit limits and guard order -- decided completely by TLC.
     read_file      sharepoint2text/__init__.py:read_file
                    Stat -> (max > 0 /\ size > max ? Refuse(TooLarge) : Route -> Open -> Load -> Extract)
                    max_file_size = 0 disables the check (no Stat needed).
     sevenz_size    archive_extractor.py:_extract_from_7z_optimized
                    Size -> (size > MAX_7Z_FILE_SIZE ? Refuse(TooLarge) : ParseHeader -> ...)
     members        archive_extractor.py:_extract_from_zip_optimized / _extract_from_tar_optimized /
                    _extract_from_7z_optimized + sevenzip.py:SevenZipReader.extractall
                    per member:  size > lim ? Skip : Decompress -> (size > lim2 ? Drop : Extract)
                    lim  = _config.max_memory_size (default MAX_MEMORY_SIZE = 10 MiB, configurable through
                           configure_archive_extraction), comparison ">" (a member of exactly lim bytes is kept)
                    lim2 = MAX_ARCHIVE_FILE_SIZE (50 MiB), checked on the decompressed bytes in
                           _process_archive_entry, comparison ">".
                    7z: all members are filtered first, then the folders are decompressed and written to a
                    temporary directory, then the kept members are read back and extracted.
     Properties: Inv_NoLoadBeforeGuard, Inv_SkippedNeverDecompressed, Inv_Boundary (exact semantics at
     limit-1 / limit / limit+1), Inv_Complete (what passes the guards is extracted).

   PART (b)  amplification -- a cost-accounting model.  `work` (KiB, a LOWER bound of the bytes the
     expansion algorithm has to materialise) is increased by each expanding step of the algorithms that
     exist in the code (ODS repeat expansion: ods_extractor.py:_extract_sheet; ODF text:s count:
     open_office/_shared.py:_append_element_text; XLSX row padding: xlsx_extractor.py (list(ws.iter_rows));
     OLE property vectors: olefile get_metadata() reached from doc/ppt/xls extractors; 7z folder
     decompression: sevenzip.py:_decompress_lzma2/extractall; entity expansion; nesting; mbox splitting;
     PDF xref chain), next to the declarative bound
                 cost <= A + B * inputSize        A = 32 MiB, B = 64
     (engineering constants: A is >= 10x the largest tracemalloc peak minus 64*size over the repository's
     fixtures of the formats used here; they are not derived).  Every expanding step adds to TWO counters:
     workLo (KiB the step certainly materialises: 8 bytes per list slot, 1 byte per character / decompressed
     byte) and workHi (a generous ceiling: 1 KiB per slot / nesting level, 8 bytes per byte, 8 KiB per
     message).  The expectation is three-valued:
         workHi <= Bound   -> the implementation MUST stay within the bound                   ("within")
         workLo >  Bound   -> the modelled algorithm cannot stay within it                    ("exceeds")
         otherwise         -> DON'T-CARE ("either"): the measurement decides nothing.

   Deviations (CONSTANT Deviations \subseteq DeviationNames).  {} = reference design; TLC proves the
   invariants.  As-built deviations (each one an OPEN finding in findings/c12.json):
       UncappedNonEmptyRepeat      ODS: repeats of non-empty cells / rows are materialised without a cap
       UnboundedVectorCount        olefile: VT_VECTOR element count not checked against the data length
       UncappedSpaceCount          ODF: <text:s text:c="N"/> materialises N spaces
       DenseGridFromSparseCells    XLSX: rows/cells between sparse cells are padded (rows x columns)
       XrefPrevLoop                pypdf: an xref /Prev cycle is followed for ever
       (repaired, now sensitivity-only: /repo a25ab31 and 0121224, KF-C12-08 / KF-C12-09)
       FromLineNestedQuantifier    mbox: MBOX_FROM_PATTERN (a non-space run followed by an any-run) needs quadratic time on a long unmatched "From xxxx" line
       CoderSizeFromOtherCoder     7z: an LZMA2 coder in a chain is limited by the LARGEST declared coder size of its folder,
                                   not by its own
       PngScanRestartsInsideImage  doc: the PNG scan resumes one byte after a signature, also after an accepted picture,
                                   so nested signatures yield n overlapping copies
   Sensitivity-only deviations (mutations the check must catch; never as-built):
       FlipCompare (> becomes >=), GuardAfterLoad, DecompressBeforeCheck, NoEmptyCap, PlainXmlParser,
       NoOutputLimit (7z: LZMA2 folder decompressed without output limit -- the behaviour before
       proposed_fixes/c12-7z-lzma2-output-limit.diff), GuardOnLinkSize (read_file compares the size of a
       symbolic link instead of the file it names), FollowLinksUnchecked (tar link entries pass the member
       guard with their own size 0 and are followed to bytes above the limit), ReadByNameLast (a member is
       checked as an entry but read by NAME, which resolves to the last entry of that name),
       EmptyFileTakesSizeSlot (7z: an empty-file entry consumes a slot of the per-stream size table, so later
       members are filtered with their successor's size), ConfigureForgetsLimit (a configuration call that does
       not mention max_memory_size resets it to the 50 MiB constant), ImageScanNoProgress (a picture-header
       scanner that does not advance over a zero-length segment), ExtractAllIgnoresFilter (7z: extractall()
       decompresses and writes every folder / member -- the behaviour before /repo 62243a0, KF-C12-02 fixed),
       DibScanAdvancesByHeader (doc: the bitmap scan advances by the 40-byte header instead of the bitmap),
       FromLineSecondStar (mbox: a second any-run after the year in the separator pattern),
       DeclaredZeroMeansUnknown (7z: an LZMA folder declared with size 0 is decoded "until the end marker").

   DON'T-CAREs: max_file_size < 0; whether read_file stats the file when max_file_size = 0; the attributes
   of the TooLarge exception; in-memory decompression of a skipped member that shares a solid 7z folder with
   a kept member (the folder has to be decoded once), and of a member with lim2 < size <= lim (non-default
   configuration: the caller asked for in-memory processing up to lim); exceptions that are not
   ExtractionError subclasses (C01 decides those); time (only a CPU budget backstop, 30x the slowest
   conforming case).                                                                              *)
EXTENDS Naturals, Sequences, FiniteSets, TLC

CONSTANT Deviations

AsBuiltDeviations == {"UncappedNonEmptyRepeat", "CoderSizeFromOtherCoder",
                      "UnboundedVectorCount", "UncappedSpaceCount", "DenseGridFromSparseCells", "XrefPrevLoop"}
SensitivityDeviations == {"FlipCompare", "GuardAfterLoad", "DecompressBeforeCheck", "NoEmptyCap", "PlainXmlParser",
                          "NoOutputLimit", "GuardOnLinkSize", "FollowLinksUnchecked", "ReadByNameLast",
                          "EmptyFileTakesSizeSlot", "ConfigureForgetsLimit", "ImageScanNoProgress",
                          "ExtractAllIgnoresFilter", "DibScanAdvancesByHeader", "FromLineSecondStar",
                          "DeclaredZeroMeansUnknown", "FromLineNestedQuantifier", "PngScanRestartsInsideImage"}
DeviationNames == AsBuiltDeviations \cup SensitivityDeviations
ASSUME Deviations \subseteq DeviationNames

Dev(d) == d \in Deviations
Min(a, b) == IF a <= b THEN a ELSE b
Max(a, b) == IF a >= b THEN a ELSE b

(* ------------------------------------------------------------------ explicit constants of the code *)
MiB == 1024 * 1024
DefaultMaxFileSize == 100 * MiB        \* read_file(max_file_size=...)
Max7zFileSize      == 100 * MiB        \* MAX_7Z_FILE_SIZE
MaxMemorySize      == 10 * MiB         \* MAX_MEMORY_SIZE (default of _config.max_memory_size)
MaxArchiveFileSize == 50 * MiB         \* MAX_ARCHIVE_FILE_SIZE

\* the comparison every guard uses: strictly greater
Over(size, limit) == IF Dev("FlipCompare") THEN size >= limit ELSE size > limit

(* ------------------------------------------------------------------ declarative part (a) *)
MustRefuseFile(max, size) == max > 0 /\ size > max
MustRefuse7z(size)        == size > Max7zFileSize
MustSkip(size, lim)       == size > lim                         \* not decompressed, not extracted
MustExtract(size, lim, lim2) == size <= lim /\ size <= lim2
\* lim < size is MustSkip; lim2 < size <= lim: not extracted, decompression DON'T-CARE

(* ------------------------------------------------------------------ cost arithmetic (KiB, saturating) *)
SAT == 1073741824                       \* 2^30 KiB = 1 TiB: "unbounded"
SatAdd(a, b) == IF a >= SAT \/ b >= SAT THEN SAT ELSE IF a + b >= SAT THEN SAT ELSE a + b
SatMul(a, b) == IF a = 0 \/ b = 0 THEN 0 ELSE IF a > SAT \div b THEN SAT ELSE a * b

A_KiB == 32 * 1024
B     == 64
BoundKiB(sizeKiB) == SatAdd(A_KiB, SatMul(B, sizeKiB))

\* n elements of `bytes` bytes each (bytes a power of two), in KiB, saturating
KiBOf(n, bytes) == IF bytes >= 1024 THEN SatMul(n, bytes \div 1024) ELSE n \div (1024 \div bytes)

Classify(lo, hi, sizeKiB) ==
    IF hi <= BoundKiB(sizeKiB) THEN "within"
    ELSE IF lo > BoundKiB(sizeKiB) THEN "exceeds" ELSE "either"

SlotLo == 8       \* a list slot is a pointer
SlotHi == 1024    \* ... to an object of at most this many bytes (cell tuple, row list, text, tree node)
ByteLo == 1
ByteHi == 8       \* bytes -> BytesIO copy -> decoded str -> result copy

\* caps of the reference design (any documented cap of this order makes the design bounded)
RepeatCap == 100           \* ODS: repeats beyond this are not materialised (100 x 100 slots per row element pair)
SpaceCap  == 4096          \* ODF: text:c beyond this is not materialised
EmptyRepeatCollapse == 100 \* as built: an EMPTY cell / row repeated more than this collapses to one

(* ------------------------------------------------------------------ scenarios *)
\* one record shape for everything (unused fields have neutral values)
Scn(k) == [k |-> k, kind |-> "", max |-> 0, size |-> 0, via |-> 0, lsize |-> 0, lim |-> 0, lim2 |-> 0, calls |-> <<>>, members |-> <<>>,
           c |-> "", mag |-> 0, pos |-> "", skib |-> 0]

\* read_file: `via` = number of symbolic links between the path handed to read_file and the file (0 = the
\* file itself); `size` is the size of the FILE (what open/read load), `lsize` the size lstat reports for the link.
\* members: sequence of [size, folder, name, type, target]
\*   folder  only matters for 7z (zip/tar use 1..n)
\*   name    name index: two entries may carry the SAME name (zip/tar/7z all allow it)
\*   type    "reg" | "sparse" (GNU sparse: size = logical size) | "pax" (pax extended header)   -- data entries
\*           | "hard" | "sym" (tar link entries: size 0, their bytes are those of `target`) | "fifo" | "chr"
\*   target  entry index a link points at (0 = the target is not in the archive)
Mem(size, folder, name, type, target) == [size |-> size, folder |-> folder, name |-> name, type |-> type, target |-> target]
\*           | "empty" | "anti" (7z entries without a data stream: empty file, anti item) | "dir"   -- size 0, folder 0
\* calls: the configure_archive_extraction(...) calls made before the extraction, in order; a call is
\*   [mm |-> max_memory_size given (0 = not mentioned / None), opt |-> "" or the name of ONE other option given]
\* lim: the per-member limit in force after those calls -- the DECLARATIVE meaning of the history:
\*   an option a call does not mention keeps its value (LimitAfter); the machine replays the calls one by one.
DataTypes == {"reg", "sparse", "pax"}
LinkTypes == {"hard", "sym"}
Call(mm, opt) == [mm |-> mm, opt |-> opt]
RECURSIVE LimitAfterFrom(_, _, _)
LimitAfterFrom(calls, i, lim) ==
    IF i > Len(calls) THEN lim ELSE LimitAfterFrom(calls, i + 1, IF calls[i].mm > 0 THEN calls[i].mm ELSE lim)
LimitAfter(calls) == LimitAfterFrom(calls, 1, MaxMemorySize)
CallsFor(lim) == IF lim = MaxMemorySize THEN <<>> ELSE <<Call(lim, "")>>

(* ------------------------------------------------------------------ part (b): cases and their items *)
\* The ODS sheet of a case: rows of [rep, cells]; a cell is [rep, empty]
Cell(rep, empty) == [rep |-> rep, empty |-> empty]
Row(rep, cells)  == [rep |-> rep, cells |-> cells]
Ord == Cell(1, FALSE)

\* positions of the typed-but-empty families carry the markup variant: "<variant>.<first|last>"
IsFirst(pos) == pos \in {"first", "string_p.first", "string_nop.first", "string_attr.first", "string_span.first", "covered.first"}
OdsSheet(c, mag, pos) ==
    CASE c = "ods_cell_repeat" ->
           <<Row(1, IF IsFirst(pos) THEN <<Cell(mag, FALSE), Ord, Ord, Ord>> ELSE <<Ord, Ord, Ord, Cell(mag, FALSE)>>),
             Row(1, <<Ord, Ord, Ord>>)>>
      [] c \in {"ods_cell_repeat_empty", "ods_cell_repeat_typed_empty"} ->   \* typed (value-type string) but no text: empty
           <<Row(1, IF IsFirst(pos) THEN <<Cell(mag, TRUE), Ord, Ord, Ord>> ELSE <<Ord, Ord, Ord, Cell(mag, TRUE)>>),
             Row(1, <<Ord, Ord, Ord>>)>>
      [] c = "ods_row_repeat" ->
           IF IsFirst(pos) THEN <<Row(mag, <<Ord, Ord>>), Row(1, <<Ord, Ord>>), Row(1, <<Ord, Ord>>)>>
                            ELSE <<Row(1, <<Ord, Ord>>), Row(1, <<Ord, Ord>>), Row(mag, <<Ord, Ord>>)>>
      [] c \in {"ods_row_repeat_empty", "ods_row_repeat_typed_empty"} ->
           IF IsFirst(pos) THEN <<Row(mag, <<Cell(1, TRUE), Cell(1, TRUE)>>), Row(1, <<Ord, Ord>>), Row(1, <<Ord, Ord>>)>>
                            ELSE <<Row(1, <<Ord, Ord>>), Row(1, <<Ord, Ord>>), Row(mag, <<Cell(1, TRUE), Cell(1, TRUE)>>)>>
      [] c = "ods_cell_x_row" ->
           IF IsFirst(pos) THEN <<Row(mag, <<Cell(mag, FALSE)>>), Row(1, <<Ord>>)>>
                            ELSE <<Row(1, <<Ord>>), Row(mag, <<Cell(mag, FALSE)>>)>>
      [] OTHER -> <<>>

IsOds(c) == c \in {"ods_cell_repeat", "ods_cell_repeat_empty", "ods_row_repeat", "ods_row_repeat_empty", "ods_cell_x_row",
                   "ods_cell_repeat_typed_empty", "ods_row_repeat_typed_empty"}

\* what one cell element adds to the current row (ods_extractor.py:_extract_sheet, lines "if typed_value is
\* None and cell_repeat > 100 ... else row_values.extend([...] * cell_repeat)")
CellSlots(cell) ==
    IF cell.empty THEN (IF cell.rep > EmptyRepeatCollapse /\ ~Dev("NoEmptyCap") THEN 1 ELSE cell.rep)
    ELSE IF Dev("UncappedNonEmptyRepeat") THEN cell.rep ELSE Min(cell.rep, RepeatCap)
RowAllEmpty(row) == \A i \in DOMAIN row.cells : row.cells[i].empty
RowCopies(row) ==
    IF RowAllEmpty(row) THEN (IF row.rep > EmptyRepeatCollapse /\ ~Dev("NoEmptyCap") THEN 1 ELSE row.rep)
    ELSE IF Dev("UncappedNonEmptyRepeat") THEN row.rep ELSE Min(row.rep, RepeatCap)

\* Generic expansion items of the other constructs:
\*   n    declared number of elements,  lo / hi  bytes per element (certain / ceiling),
\*   cap  what the reference design limits n to,  dev  the deviation that removes the cap ("" = none)
Item(n, lo, hi, cap, dev) == [n |-> n, lo |-> lo, hi |-> hi, cap |-> cap, dev |-> dev]
XlsxRows(mag) == Min(mag, 1048576)
XlsxCols(mag) == Min(mag, 16384)

\* as built (From, non-space run, any-run, four digits, end of line): quadratic when a long run of non-space characters follows "From " and the
\* line does not match; sensitivity (a second any-run after the year): quadratic on many 4-digit runs without newline
LongLineDev(pos) ==
    IF pos \in {"digits.eof.last", "digits.eof.only", "nonspace.nl.last", "nonspace.nl.only", "nonspace.eof.last",
                "nonspace.eof.only"} THEN "FromLineNestedQuantifier"
    ELSE IF pos \in {"years.eof.last", "years.eof.only"} THEN "FromLineSecondStar" ELSE ""

\* pos = "<coder>.<declared>.<end marker>"; declared: zero | smaller (16 bytes) | larger (8 MiB declared, the stream
\* holds 1 KiB) | firstbig (BCJ coder declares mag, the compressor and the member 16 bytes)
DeclZero == {"copy.zero.na", "lzma.zero.end", "lzma2.zero.end", "lzma2.zero.noend", "bcj+lzma.zero.end", "bcj+lzma2.zero.end"}
DeclSmaller == {"copy.smaller.na", "lzma.smaller.end", "lzma2.smaller.end", "lzma2.smaller.noend", "bcj+lzma.smaller.end",
                "bcj+lzma2.smaller.end"}
DeclLarger == {"copy.larger.na", "lzma.larger.end", "lzma2.larger.end", "lzma2.larger.noend", "bcj+lzma.larger.end",
               "bcj+lzma2.larger.end"}
DeclFirstBig == {"bcj+lzma.firstbig.end", "bcj+lzma2.firstbig.end"}
DeclaredCap(pos, mag) ==
    IF pos \in {"copy.zero.na", "copy.smaller.na", "copy.larger.na"} THEN mag      \* Copy: the bytes are in the file
    ELSE IF pos \in DeclZero THEN 0 ELSE IF pos \in DeclSmaller \cup DeclFirstBig THEN 16 ELSE 1024
DeclaredDev(pos) ==
    IF pos \in {"lzma.zero.end", "bcj+lzma.zero.end"} THEN "DeclaredZeroMeansUnknown"
    ELSE IF pos = "bcj+lzma2.firstbig.end" THEN "CoderSizeFromOtherCoder"
    ELSE IF pos \in {"lzma2.zero.end", "lzma2.zero.noend", "lzma2.smaller.end", "lzma2.smaller.noend",
                     "bcj+lzma2.zero.end", "bcj+lzma2.smaller.end"} THEN "NoOutputLimit"
    ELSE ""

Items(c, mag, pos, skib) ==
    CASE c = "odf_space_count" -> <<Item(mag, ByteLo, ByteHi, SpaceCap, "UncappedSpaceCount")>>
      [] c = "xlsx_dimension" ->
           IF pos = "declared" THEN <<Item(2, SlotLo, SlotHi, 2, "")>>          \* read-only mode ignores <dimension>
           ELSE IF pos = "farrow" THEN <<Item(XlsxRows(mag), SlotLo, SlotHi, 2, "DenseGridFromSparseCells")>>
           ELSE IF pos = "farcol" THEN <<Item(2 * XlsxCols(mag), SlotLo, SlotHi, 2, "DenseGridFromSparseCells")>>
           ELSE <<Item(SatMul(XlsxRows(mag), XlsxCols(mag)), SlotLo, SlotHi, 2, "DenseGridFromSparseCells")>>
      [] c = "xml_entity" -> <<Item(mag, ByteLo, ByteHi, 0, "PlainXmlParser")>>      \* reference: declaration rejected
      [] c = "nesting" -> <<Item(mag, SlotLo, SlotHi, mag, "")>>                     \* linear in the input, no cap needed
      [] c = "ole_vector_count" -> <<Item(mag, SlotLo, SlotHi, SatMul(skib, 256), "UnboundedVectorCount")>>
                                   \* reference: a vector cannot have more elements than the stream has words
      [] c = "sevenz_ratio" ->
           IF pos = "honest" THEN <<Item(mag, ByteLo, ByteHi, 0, "ExtractAllIgnoresFilter")>>   \* above the limit: skipped
           ELSE IF pos = "lying" THEN <<Item(mag, ByteLo, ByteHi, 16, "NoOutputLimit")>>        \* declared 16 bytes
           ELSE <<Item(mag, ByteLo, ByteHi, mag, "")>>                              \* admitted: counted in the input size
      \* 7z, one member: the header's declared sizes against what the packed stream yields (mag bytes).  What is
      \* produced is bounded by what is DECLARED for the coder that produces it (and the stream's own end),
      \* never by another coder's size and never "unknown" because a size is 0.
      [] c = "sevenz_declared" ->
           <<Item(mag, ByteLo, ByteHi, DeclaredCap(pos, mag), DeclaredDev(pos))>>
      [] c \in {"targz_ratio", "zip_ratio"} ->
           IF pos = "skipped" THEN <<Item(mag, ByteLo, ByteHi, 0, "")>> ELSE <<Item(mag, ByteLo, ByteHi, mag, "")>>
      [] c = "mbox_from" -> <<Item(mag, 64, 8192, mag, "")>>
      \* n bitmap headers / PNG signatures in a Word binary stream followed by 128 KiB of pixel data: every input
      \* byte belongs to at most ONE picture (reference), so nested headers cost one tail, not n tails
      [] c = "doc_dib_headers" ->
           IF pos = "nested" THEN <<Item(mag, 131072, 1048576, 1, "DibScanAdvancesByHeader")>>
           ELSE <<Item(mag, 128, 1024, mag, "")>>
      [] c = "doc_png_signatures" ->
           IF pos = "nested" THEN <<Item(mag, 131072, 1048576, 1, "PngScanRestartsInsideImage")>>
           ELSE <<Item(mag, 128, 1024, mag, "")>>
      \* one "From " line of mag bytes: the separator scan visits every byte a bounded number of times (reference);
      \* a pattern with two adjacent unbounded quantifiers needs ~ mag^2 / 16 steps when the line does not match
      [] c = "mbox_longline" -> <<Item(SatMul(mag, mag \div 16), ByteLo, ByteHi, mag, LongLineDev(pos))>>
      [] c = "image_header" -> <<Item(SAT, 1024, 1024, 2000, "ImageScanNoProgress")>>   \* a header scan visits each segment once
      [] c = "pdf_loop" -> IF pos = "prev_loop" THEN <<Item(SAT, 1024, 1024, 1, "XrefPrevLoop")>>
                           ELSE <<Item(mag, SlotLo, SlotHi, 1, "")>>
      [] OTHER -> <<>>

ItemN(it) == IF it.dev # "" /\ Dev(it.dev) THEN it.n ELSE Min(it.n, it.cap)

\* the deviation that governs a case ("" = none): used for the KNOWN-FINDING domains
Governs(c, mag, pos) ==
    IF c \in {"ods_cell_repeat", "ods_row_repeat", "ods_cell_x_row"} THEN "UncappedNonEmptyRepeat"
    ELSE IF IsOds(c) THEN ""
    ELSE LET its == Items(c, mag, pos, 0) IN
         IF Len(its) = 0 THEN "" ELSE IF its[1].dev \in AsBuiltDeviations THEN its[1].dev ELSE ""

\* entity constructs: the reference design never hands the expansion to the extractor
EntityMustNotExpand(c) == c = "xml_entity"

(* ------------------------------------------------------------------ the machine *)
VARIABLES scn,      \* the scenario (fixed in Init)
          pc,       \* control state
          hist,     \* observable events so far: sequence of [a, m]
          st,       \* members: m -> "new" | "skipped" | "mem" | "dropped" | "extracted"
          inmem,    \* members whose bytes were decompressed into memory
          ondisk,   \* members written to disk
          io,       \* members: [got |-> m -> entry whose bytes are in memory for m (0 = none),
                    \*           delivered |-> entries whose bytes reached an extractor]
          outcome,  \* "" | "Ok" | "TooLarge"
          work,     \* part (b): <<workLo, workHi>> KiB materialised so far
          cur       \* part (b): cursor <<row, cell, slots, nrows, maxc>> (ODS) or item index;
                    \* members: <<next configuration call, per-member limit in force, 0, 0, 0>>

vars == <<scn, pc, hist, st, inmem, ondisk, io, outcome, work, cur>>

E(a, m) == [a |-> a, m |-> m]
Say(a, m) == hist' = Append(hist, E(a, m))
Members == DOMAIN scn.members
Size(m) == scn.members[m].size
Folder(m) == scn.members[m].folder
Folders == {Folder(m) : m \in {x \in Members : scn.members[x].type \in DataTypes}}
Wanted(m) == st[m] = "kept"
MType(m) == scn.members[m].type
IsData(m) == MType(m) \in DataTypes
IsLink(m) == MType(m) \in LinkTypes
SameName(a, b) == scn.members[a].name = scn.members[b].name
\* an entry through which no bytes can be reached: devices, fifos, links whose target is not in the archive
NoData(m) == ~IsData(m) /\ ~(IsLink(m) /\ scn.members[m].target \in Members)
\* the data entry whose bytes one gets by reading entry m (tarfile.extractfile follows hard and symbolic links)
Src(m) == IF IsLink(m) THEN scn.members[m].target ELSE m
LastSameName(m) == CHOOSE o \in Members : SameName(o, m) /\ \A x \in Members : SameName(x, m) => x <= o
\* what a read of entry m actually decompresses: the entry itself -- or, when the archive is asked BY NAME
\* (ZipFile.read(name), NameToInfo), the last entry carrying that name
DataOf(m) == IF Dev("ReadByNameLast") THEN LastSameName(Src(m)) ELSE Src(m)
\* the size the per-member guard looks at: the size of the bytes that would be read -- or the link entry's own 0
GuardedSize(m) == IF IsLink(m) /\ Dev("FollowLinksUnchecked") THEN Size(m) ELSE Size(Src(m))
\* 7z: the size the reader reports for a data entry comes from a per-STREAM table; entries without a stream
\* (empty files, directories, anti items) have no slot in it.  The deviation gives them one, so every later data
\* entry is reported with its successor's size and the last one with 0.
DataBefore(m) == Cardinality({x \in Members : x < m /\ IsData(x)})
StreamlessFilesBefore(m) == Cardinality({x \in Members : x < m /\ MType(x) \in {"empty", "anti"}})
NthDataSize(n) == IF \E x \in Members : IsData(x) /\ DataBefore(x) = n - 1
                  THEN Size(CHOOSE x \in Members : IsData(x) /\ DataBefore(x) = n - 1) ELSE 0
SizeSeen(m) == IF Dev("EmptyFileTakesSizeSlot") THEN NthDataSize(DataBefore(m) + StreamlessFilesBefore(m) + 1) ELSE Size(m)
LastOnDisk(m) == CHOOSE o \in ondisk : SameName(o, m) /\ \A x \in ondisk : SameName(x, m) => x <= o

InitWith(s) ==
    /\ scn = s
    /\ pc = "start"
    /\ hist = <<>>
    /\ st = [m \in DOMAIN s.members |-> "new"]
    /\ inmem = {} /\ ondisk = {}
    /\ io = [got |-> [m \in DOMAIN s.members |-> 0], delivered |-> {}]
    /\ outcome = ""
    /\ work = <<0, 0>>
    /\ cur = IF s.k = "members" THEN <<1, MaxMemorySize, 0, 0, 0>> ELSE <<1, 1, 0, 0, 0>>

(* ---- read_file ---- *)
RF == scn.k = "read_file"
\* the size the guard compares: that of the file that open() would read (stat follows links) -- the deviation
\* compares the size of the link itself (lstat)
RFGuardSize == IF Dev("GuardOnLinkSize") /\ scn.via > 0 THEN scn.lsize ELSE scn.size
RF_Stat ==
           /\ RF /\ pc = "start" /\ scn.max > 0 /\ ~Dev("GuardAfterLoad")
           /\ Say("Stat", 0) /\ pc' = "guard" /\ UNCHANGED <<scn, st, inmem, ondisk, io, outcome, work, cur>>
RF_Disabled ==
           /\ RF /\ pc = "start" /\ (scn.max = 0 \/ Dev("GuardAfterLoad"))
           /\ pc' = "route" /\ UNCHANGED <<scn, hist, st, inmem, ondisk, io, outcome, work, cur>>
RF_Refuse ==
           /\ RF /\ pc = "guard" /\ Over(RFGuardSize, scn.max)
           /\ Say("Refuse", 0) /\ pc' = "done" /\ outcome' = "TooLarge"
           /\ UNCHANGED <<scn, st, inmem, ondisk, io, work, cur>>
RF_Pass ==
           /\ RF /\ pc = "guard" /\ ~Over(RFGuardSize, scn.max)
           /\ pc' = "route" /\ UNCHANGED <<scn, hist, st, inmem, ondisk, io, outcome, work, cur>>
RF_Open ==
           /\ RF /\ pc = "route" /\ Say("Open", 0) /\ pc' = "opened"
           /\ UNCHANGED <<scn, st, inmem, ondisk, io, outcome, work, cur>>
RF_Load ==
           /\ RF /\ pc = "opened" /\ Say("Load", 0)
           /\ pc' = (IF Dev("GuardAfterLoad") /\ scn.max > 0 THEN "lateguard" ELSE "loaded")
           /\ UNCHANGED <<scn, st, inmem, ondisk, io, outcome, work, cur>>
RF_LateGuard ==
           /\ RF /\ pc = "lateguard"
           /\ IF Over(RFGuardSize, scn.max)
              THEN Say("Refuse", 0) /\ pc' = "done" /\ outcome' = "TooLarge"
              ELSE pc' = "loaded" /\ UNCHANGED <<hist, io, outcome>>
           /\ UNCHANGED <<scn, st, inmem, ondisk, io, work, cur>>
RF_Extract ==
           /\ RF /\ pc = "loaded" /\ Say("Extract", 0) /\ pc' = "done" /\ outcome' = "Ok"
           /\ UNCHANGED <<scn, st, inmem, ondisk, io, work, cur>>

(* ---- read_archive on a 7z of a given size ---- *)
SZ == scn.k = "sevenz_size"
SZ_Size ==
           /\ SZ /\ pc = "start" /\ Say("Size", 0)
           /\ pc' = (IF Dev("GuardAfterLoad") THEN "parse" ELSE "guard")
           /\ UNCHANGED <<scn, st, inmem, ondisk, io, outcome, work, cur>>
SZ_Refuse ==
           /\ SZ /\ pc = "guard" /\ Over(scn.size, Max7zFileSize)
           /\ Say("Refuse", 0) /\ pc' = "done" /\ outcome' = "TooLarge"
           /\ UNCHANGED <<scn, st, inmem, ondisk, io, work, cur>>
SZ_Pass ==
           /\ SZ /\ pc = "guard" /\ ~Over(scn.size, Max7zFileSize)
           /\ pc' = "parse" /\ UNCHANGED <<scn, hist, st, inmem, ondisk, io, outcome, work, cur>>
SZ_Parse ==
           /\ SZ /\ pc = "parse" /\ Say("ParseHeader", 0)
           /\ pc' = (IF Dev("GuardAfterLoad") THEN "lateguard" ELSE "parsed")
           /\ UNCHANGED <<scn, st, inmem, ondisk, io, outcome, work, cur>>
SZ_LateGuard ==
           /\ SZ /\ pc = "lateguard"
           /\ IF Over(scn.size, Max7zFileSize)
              THEN Say("Refuse", 0) /\ pc' = "done" /\ outcome' = "TooLarge"
              ELSE pc' = "parsed" /\ UNCHANGED <<hist, io, outcome>>
           /\ UNCHANGED <<scn, st, inmem, ondisk, io, work, cur>>
SZ_Finish ==
           /\ SZ /\ pc = "parsed" /\ pc' = "done" /\ outcome' = "Ok"      \* members: see the member machine
           /\ UNCHANGED <<scn, hist, st, inmem, ondisk, io, work, cur>>

(* ---- member loops ---- *)
MB == scn.k = "members"
Streaming == scn.kind \in {"zip", "tar"}
\* configure_archive_extraction(...): one call per step; an option that is not mentioned keeps its value
Configured == cur[1] > Len(scn.calls)
LimNow == cur[2]
MB_Configure ==
           /\ MB /\ ~Configured
           /\ LET c == scn.calls[cur[1]] IN
              cur' = <<cur[1] + 1,
                       IF c.mm > 0 THEN c.mm ELSE IF Dev("ConfigureForgetsLimit") THEN scn.lim2 ELSE cur[2], 0, 0, 0>>
           /\ UNCHANGED <<scn, pc, hist, st, inmem, ondisk, io, outcome, work>>
\* zip / tar: check a member, then decompress it into memory, then extract it (any member order)
\* an entry may always be left out when it is not a data entry (links, devices: the code skips everything
\* that is not a regular file); a data entry only when it is above the limit
MB_Skip(m) ==
           /\ MB /\ Configured /\ Streaming /\ st[m] = "new" /\ ~Dev("DecompressBeforeCheck")
           /\ (~IsData(m) \/ Over(Size(m), LimNow))
           /\ st' = [st EXCEPT ![m] = "skipped"] /\ Say("Skip", m)
           /\ UNCHANGED <<scn, pc, inmem, ondisk, io, outcome, work, cur>>
\* reading entry m decompresses DataOf(m); following a link to bytes within the limit is not forbidden
MB_Decompress(m) ==
           /\ MB /\ Configured /\ Streaming /\ st[m] = "new" /\ ~NoData(m)
           /\ (~Over(GuardedSize(m), LimNow) \/ Dev("DecompressBeforeCheck"))
           /\ st' = [st EXCEPT ![m] = IF Over(GuardedSize(m), LimNow) THEN "skipped" ELSE "mem"]
           /\ inmem' = inmem \cup {DataOf(m)}
           /\ io' = [io EXCEPT !.got[m] = DataOf(m)]
           /\ Say("Decompress", DataOf(m))
           /\ UNCHANGED <<scn, pc, ondisk, outcome, work, cur>>
MB_Drop(m) ==
           /\ MB /\ st[m] = "mem" /\ Over(Size(io.got[m]), scn.lim2)
           /\ st' = [st EXCEPT ![m] = "dropped"] /\ Say("Drop", m)
           /\ UNCHANGED <<scn, pc, inmem, ondisk, io, outcome, work, cur>>
MB_Extract(m) ==
           /\ MB /\ st[m] = "mem" /\ ~Over(Size(io.got[m]), scn.lim2)
           /\ st' = [st EXCEPT ![m] = "extracted"] /\ Say("Extract", io.got[m])
           /\ io' = [io EXCEPT !.delivered = @ \cup {io.got[m]}]
           /\ UNCHANGED <<scn, pc, inmem, ondisk, outcome, work, cur>>
\* 7z: filter everything (pc "start"), decompress folders and write members (pc "unpack"), read back (pc "read")
MB7_Filter(m) ==
           /\ MB /\ Configured /\ scn.kind = "7z" /\ pc = "start" /\ st[m] = "new"
           /\ st' = [st EXCEPT ![m] = IF ~IsData(m) \/ Over(SizeSeen(m), LimNow) THEN "skipped" ELSE "kept"]
           /\ UNCHANGED <<scn, pc, hist, inmem, ondisk, io, outcome, work, cur>>
MB7_Filtered ==
           /\ MB /\ scn.kind = "7z" /\ pc = "start" /\ \A m \in Members : st[m] # "new"
           /\ pc' = "unpack" /\ UNCHANGED <<scn, hist, st, inmem, ondisk, io, outcome, work, cur>>
FolderWanted(f) == \E m \in Members : Folder(m) = f /\ st[m] = "kept"
FolderDone(f) == \E i \in DOMAIN hist : hist[i] = E("DecompressFolder", f)
MB7_Folder(f) ==
           /\ MB /\ scn.kind = "7z" /\ pc = "unpack" /\ ~FolderDone(f)
           /\ (FolderWanted(f) \/ Dev("ExtractAllIgnoresFilter"))
           /\ inmem' = inmem \cup {m \in Members : Folder(m) = f}
           /\ ondisk' = ondisk \cup {m \in Members : Folder(m) = f /\ (st[m] = "kept" \/ Dev("ExtractAllIgnoresFilter"))}
           /\ Say("DecompressFolder", f)
           /\ UNCHANGED <<scn, pc, st, io, outcome, work, cur>>
MB7_Unpacked ==
           /\ MB /\ scn.kind = "7z" /\ pc = "unpack"
           /\ (\A f \in Folders : FolderDone(f) \/ ~(FolderWanted(f) \/ Dev("ExtractAllIgnoresFilter")))
           /\ pc' = "read" /\ UNCHANGED <<scn, hist, st, inmem, ondisk, io, outcome, work, cur>>
\* the kept member is read back from the temporary directory BY NAME: it gets its own bytes, or -- two
\* entries of one name were written to one path -- those of the last entry written under that name
\* (which of two kept entries comes out is C10's business; a skipped entry's bytes can only come out when
\* skipped entries are written, i.e. under ExtractAllIgnoresFilter)
MB7_Read(m, e) ==
           /\ MB /\ scn.kind = "7z" /\ pc = "read" /\ st[m] = "kept" /\ m \in ondisk
           /\ e \in {m, LastOnDisk(m)}
           /\ st' = [st EXCEPT ![m] = "mem"]
           /\ io' = [io EXCEPT !.got[m] = e]
           /\ UNCHANGED <<scn, pc, hist, inmem, ondisk, outcome, work, cur>>
MB_Finish ==
           /\ MB /\ Configured /\ pc \in (IF scn.kind = "7z" THEN {"read"} ELSE {"start"})
           /\ (\A m \in Members : st[m] \in {"skipped", "dropped", "extracted"})
           /\ pc' = "done" /\ outcome' = "Ok" /\ UNCHANGED <<scn, hist, st, inmem, ondisk, io, work, cur>>

(* ---- part (b): cost accounting ---- *)
CB == scn.k = "cost"
Add(w, slots) == <<SatAdd(w[1], KiBOf(slots, SlotLo)), SatAdd(w[2], KiBOf(slots, SlotHi))>>
Sheet == OdsSheet(scn.c, scn.mag, scn.pos)
\* cur = <<row index, cell index, slots of the current row, rows so far, widest row>>
CB_OdsCell ==
           /\ CB /\ IsOds(scn.c) /\ pc = "start" /\ cur[1] <= Len(Sheet) /\ cur[2] <= Len(Sheet[cur[1]].cells)
           /\ LET k == CellSlots(Sheet[cur[1]].cells[cur[2]]) IN
              /\ work' = Add(work, k)
              /\ cur' = <<cur[1], cur[2] + 1, SatAdd(cur[3], k), cur[4], cur[5]>>
           /\ UNCHANGED <<scn, pc, hist, st, inmem, ondisk, io, outcome>>
CB_OdsRowEnd ==
           /\ CB /\ IsOds(scn.c) /\ pc = "start" /\ cur[1] <= Len(Sheet) /\ cur[2] > Len(Sheet[cur[1]].cells)
           /\ LET k == RowCopies(Sheet[cur[1]]) IN
              /\ work' = Add(work, k)
              /\ cur' = <<cur[1] + 1, 1, 0, SatAdd(cur[4], k), Max(cur[5], cur[3])>>
           /\ UNCHANGED <<scn, pc, hist, st, inmem, ondisk, io, outcome>>
CB_OdsSheetEnd ==
           /\ CB /\ IsOds(scn.c) /\ pc = "start" /\ cur[1] > Len(Sheet)
           /\ work' = Add(work, SatMul(cur[4], cur[5]))                   \* rows_data: one padded list per row
           /\ pc' = "done" /\ outcome' = "Ok"
           /\ UNCHANGED <<scn, hist, st, inmem, ondisk, io, cur>>
TheItems == Items(scn.c, scn.mag, scn.pos, scn.skib)
CB_Expand ==
           /\ CB /\ ~IsOds(scn.c) /\ pc = "start" /\ cur[1] <= Len(TheItems)
           /\ LET it == TheItems[cur[1]] IN
              work' = <<SatAdd(work[1], KiBOf(ItemN(it), it.lo)), SatAdd(work[2], KiBOf(ItemN(it), it.hi))>>
           /\ cur' = <<cur[1] + 1, 1, 0, 0, 0>>
           /\ UNCHANGED <<scn, pc, hist, st, inmem, ondisk, io, outcome>>
CB_Finish ==
           /\ CB /\ ~IsOds(scn.c) /\ pc = "start" /\ cur[1] > Len(TheItems)
           /\ pc' = "done" /\ outcome' = "Ok" /\ UNCHANGED <<scn, hist, st, inmem, ondisk, io, work, cur>>

Next == \/ RF_Stat \/ RF_Disabled \/ RF_Refuse \/ RF_Pass \/ RF_Open \/ RF_Load \/ RF_LateGuard \/ RF_Extract
        \/ SZ_Size \/ SZ_Refuse \/ SZ_Pass \/ SZ_Parse \/ SZ_LateGuard \/ SZ_Finish
        \/ \E m \in Members : MB_Skip(m) \/ MB_Decompress(m) \/ MB_Drop(m) \/ MB_Extract(m) \/ MB7_Filter(m)
        \/ \E m \in Members : \E e \in Members : MB7_Read(m, e)
        \/ MB_Configure
        \/ \E f \in Folders : MB7_Folder(f)
        \/ MB7_Filtered \/ MB7_Unpacked \/ MB_Finish
        \/ CB_OdsCell \/ CB_OdsRowEnd \/ CB_OdsSheetEnd \/ CB_Expand \/ CB_Finish

(* ------------------------------------------------------------------ properties *)
LoadEvents == {"Open", "Load", "ParseHeader"}
Refused == \/ (scn.k = "read_file" /\ MustRefuseFile(scn.max, scn.size))
           \/ (scn.k = "sevenz_size" /\ MustRefuse7z(scn.size))

\* a refused input is never opened / read / parsed; nothing is loaded before the guard has been evaluated
Inv_NoLoadBeforeGuard == Refused => \A i \in DOMAIN hist : hist[i].a \notin LoadEvents

\* exact boundary semantics: the outcome is TooLarge exactly when the documented predicate says so
Inv_Boundary == (pc = "done" /\ scn.k \in {"read_file", "sevenz_size"}) => ((outcome = "TooLarge") <=> Refused)

\* a solid folder that also holds a kept member has to be decoded: in-memory decompression of its skipped
\* members is DON'T-CARE; writing them to disk is not.  "Skipped" is about the BYTES: a data entry above the
\* limit is not decompressed, not written and its bytes reach no extractor -- whichever way they are reached
\* (directly, through a tar link entry, through a second entry of the same name)
SharesFolderWithKept(m) == scn.kind = "7z" /\ \E o \in Members : o # m /\ Folder(o) = Folder(m) /\ ~MustSkip(Size(o), scn.lim)
Inv_SkippedNeverDecompressed ==
    scn.k = "members" =>
        \A m \in Members : (IsData(m) /\ MustSkip(Size(m), scn.lim)) =>
            /\ m \notin ondisk
            /\ (m \in inmem => SharesFolderWithKept(m))
            /\ m \notin io.delivered
            /\ st[m] # "extracted"

\* what passes both limits is extracted, what does not is not (limit itself passes: ">" not ">=");
\* link entries: following them is DON'T-CARE, but only bytes within the limits may come out of them
Inv_MemberBoundary ==
    (scn.k = "members" /\ pc = "done") =>
        \A m \in Members :
            /\ IsData(m) => ((st[m] = "extracted") <=> MustExtract(Size(m), scn.lim, scn.lim2))
            /\ (~IsData(m) /\ st[m] = "extracted") => (~NoData(m) /\ MustExtract(Size(Src(m)), scn.lim, scn.lim2))
            /\ \A e \in io.delivered : MustExtract(Size(e), scn.lim, scn.lim2)

\* the limit the machine ends up with is what the history of calls means
Inv_ConfigMeaning == (scn.k = "members" /\ Configured) => (LimNow = LimitAfter(scn.calls) /\ scn.lim = LimitAfter(scn.calls))

\* part (b): even the ceiling of the model's cost stays within A + B * size  (reference design)
Class == Classify(work[1], work[2], scn.skib)
Inv_Bounded == (scn.k = "cost" /\ pc = "done") => Class = "within"
\* weaker form used for the as-built sensitivity runs: the model does not certainly exceed
Inv_NotExceeding == (scn.k = "cost" /\ pc = "done") => Class # "exceeds"

\* entity / DTD constructs: the reference design rejects the declaration, nothing is expanded
Inv_EntitiesNotExpanded ==
    (scn.k = "cost" /\ EntityMustNotExpand(scn.c)) => \A i \in DOMAIN TheItems : ItemN(TheItems[i]) = 0

\* every scenario terminates in "done" (checked as: no deadlock state other than done)
Inv_Progress == (~ENABLED Next) => pc = "done"
=============================================================================
