---------------------------- MODULE LimitsTrace ----------------------------
(* code -> spec for C12.  A trace = header {scn: the scenario record that was concretised, with the REAL
   sizes; valid: 7z buffer is a valid archive; stub: ...} + the events recorded from the real library by
   mbv/c12_worker.py:

     Stat | Open | Load(n) | Extract(m, n) | Size(n) | ParseHeader | Decompress(m) | DecompressFolder(f)
     | Write(m) | End(outcome)                                            -- part (a)
     Cost(peak KiB, outcome class, expanded)                               -- part (b)

   Each logged event must be a step of the machine of Limits.tla (silent steps -- the guard evaluation, the
   7z filter pass, Skip, Drop -- are interleaved freely); with Deviations = {} the invariants are conjoined
   PRIMED, so a step that violates the property is not enabled and the trace is rejected there.  The same
   module with Deviations = AsBuiltDeviations is the as-built model: a trace the reference rejects and the
   as-built model accepts, inside the deviation's domain, is a KNOWN finding.                        *)
EXTENDS Limits, Json, IOUtils, TLCExt

Traces == JsonDeserialize(IOEnv.TRACE_FILE)

VARIABLES tid, l
tvars == <<vars, tid, l>>

Hdr == Traces[tid].hdr
Ev == Traces[tid].ev[l]
IsEvent(a) == l <= Len(Traces[tid].ev) /\ Ev.a = a /\ l' = l + 1 /\ UNCHANGED tid
Silent == UNCHANGED <<tid, l>>
Same == UNCHANGED vars

ScnOf(h) == [k |-> h.k, kind |-> h.kind, max |-> h.max, size |-> h.size, via |-> h.via, lsize |-> h.lsize,
             lim |-> h.lim, lim2 |-> h.lim2, calls |-> [i \in DOMAIN h.calls |-> Call(h.calls[i].mm, h.calls[i].opt)],
             members |-> [i \in DOMAIN h.members |-> Mem(h.members[i].size, h.members[i].folder, h.members[i].name,
                                                         h.members[i].type, h.members[i].target)],
             c |-> h.c, mag |-> h.mag, pos |-> h.pos, skib |-> h.skib]

(* ---- read_file ---- *)
T_Stat == IsEvent("Stat") /\ (RF_Stat \/ (RF /\ pc # "start" /\ Same) \/ (RF /\ scn.max = 0 /\ Same))
T_Open == IsEvent("Open") /\ RF_Open
T_Load == IsEvent("Load") /\ RF_Load /\ Ev.n = scn.size
T_ExtractFile == IsEvent("Extract") /\ RF /\ RF_Extract /\ Ev.n = scn.size
T_EndFile == IsEvent("End") /\ RF
             /\ \/ (Ev.outcome = "TooLarge" /\ (RF_Refuse \/ RF_LateGuard) /\ outcome' = "TooLarge")
                \/ (pc = "done" /\ outcome = Ev.outcome /\ Same)
(* ---- 7z archive size ---- *)
T_Size == IsEvent("Size") /\ SZ_Size /\ Ev.n = scn.size
T_Parse == IsEvent("ParseHeader") /\ SZ_Parse
T_End7z == IsEvent("End") /\ SZ
           /\ \/ (Ev.outcome = "TooLarge" /\ (SZ_Refuse \/ SZ_LateGuard) /\ outcome' = "TooLarge")
              \/ (Ev.outcome # "TooLarge" /\ SZ_Finish /\ (Hdr.valid => Ev.outcome = "Ok" /\ Ev.results = 1))
(* ---- members ---- *)
\* (reading a kept member / decoding a wanted folder a second time is not forbidden)
\* Ev.m is the DATA entry whose bytes are decompressed (identified by the archive's own entry object, never by
\* name): it must be what a read of some pending entry yields
T_Decompress == IsEvent("Decompress") /\ Ev.m \in Members
                /\ \/ \E m \in Members : MB_Decompress(m) /\ DataOf(m) = Ev.m
                   \/ (MB /\ Ev.m \in inmem /\ ~MustSkip(Size(Ev.m), scn.lim) /\ Same)
T_Folder == IsEvent("DecompressFolder") /\ Ev.f \in Folders
            /\ (MB7_Folder(Ev.f) \/ (MB /\ FolderDone(Ev.f) /\ FolderWanted(Ev.f) /\ Same))
\* a disk write: 7z -- the member must have been released to disk by the folder step;
\* zip/tar -- only a member that passes the limit (writing kept members is not forbidden)
T_Write == IsEvent("Write") /\ MB /\ Ev.m \in Members
           /\ (IF scn.kind = "7z" THEN Ev.m \in ondisk
               ELSE IsData(Ev.m) /\ ~MustSkip(Size(Ev.m), scn.lim))
           /\ Same
\* Ev.m is the entry whose BYTES reached the extractor (every entry is filled with its own byte value)
T_ExtractMember == IsEvent("Extract") /\ MB /\ Ev.m \in Members /\ Ev.n = Size(Ev.m)
                   /\ \E m \in Members : io.got[m] = Ev.m /\ MB_Extract(m)
\* an entry without data stream (7z empty file / anti item) may reach an extractor with 0 bytes: DON'T-CARE
T_ExtractEmpty == IsEvent("Extract") /\ MB /\ Ev.n = 0 /\ (\E m \in Members : MType(m) \in {"empty", "anti"}) /\ Same
T_EndMembers == IsEvent("End") /\ MB /\ Ev.outcome = "Ok" /\ MB_Finish
(* ---- cost ---- *)
ObservedExceeds(e) == e.peak > BoundKiB(scn.skib) \/ e.outcome \in {"MemoryError", "CpuBudget", "Killed"}
T_Cost == IsEvent("Cost") /\ CB /\ pc = "done"
          /\ (Class = "within" => ~ObservedExceeds(Ev))
          /\ (Class = "exceeds" => ObservedExceeds(Ev))
          /\ (EntityMustNotExpand(scn.c) /\ ~Dev("PlainXmlParser") => ~Ev.expanded)
          /\ Same

\* how the size is obtained is not prescribed (Path.stat, os.path.getsize, fstat ...): the Stat event is optional
RF_NoStat == /\ RF /\ pc = "start" /\ scn.max > 0 /\ pc' = "guard"
             /\ UNCHANGED <<scn, hist, st, inmem, ondisk, io, outcome, work, cur>>

SilentStep == /\ Silent
              /\ \/ RF_Disabled \/ RF_Pass \/ SZ_Pass \/ RF_NoStat
                 \/ \E m \in Members : MB_Skip(m) \/ MB_Drop(m) \/ MB7_Filter(m)
                 \/ \E m \in Members : \E e \in Members : MB7_Read(m, e)
                 \/ MB7_Filtered \/ MB7_Unpacked \/ MB_Configure
                 \/ CB_OdsCell \/ CB_OdsRowEnd \/ CB_OdsSheetEnd \/ CB_Expand \/ CB_Finish

CheckInv == Deviations = {}
Invs == Inv_NoLoadBeforeGuard /\ Inv_Boundary /\ Inv_SkippedNeverDecompressed /\ Inv_MemberBoundary /\ Inv_ConfigMeaning

TraceInit == tid \in 1..Len(Traces) /\ l = 1 /\ InitWith(ScnOf(Traces[tid].hdr))
TraceNext == /\ \/ T_Stat \/ T_Open \/ T_Load \/ T_ExtractFile \/ T_EndFile
                \/ T_Size \/ T_Parse \/ T_End7z
                \/ T_Decompress \/ T_Folder \/ T_Write \/ T_ExtractMember \/ T_ExtractEmpty \/ T_EndMembers
                \/ T_Cost
                \/ SilentStep
             /\ (CheckInv => Invs')
TraceSpec == TraceInit /\ [][TraceNext]_tvars

TraceAccept ==
    /\ (l = Len(Traces[tid].ev) + 1) => PrintT(<<"ACCEPT", tid>>)
    /\ (IOEnv.MBV_PROGRESS = "1") => PrintT(<<"AT", tid, l>>)
=============================================================================
