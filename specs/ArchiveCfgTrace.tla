--------------------------- MODULE ArchiveCfgTrace ---------------------------
(* code -> spec for configuration histories.  A trace = one forked child of an import-only zygote:
     Configure {buffer_size, max_memory_size, max_workers, enable_parallel}   0 = parameter not passed
     Probe     {fmt, sizes, yielded}   an archive with one member per size was read; yielded[i] = 1 iff the
                                       member of sizes[i] bytes produced a result
   TLC keeps ArchiveCfg's cfg and demands  yielded[i] = 1  <=>  Yields(sizes[i])  and Inv_LimitKept.       *)
EXTENDS ArchiveCfg, Json, IOUtils, TLCExt

Traces == JsonDeserialize(IOEnv.TRACE_FILE)
VARIABLES tid, l
tvars == <<tid, l, vars>>
Ev == Traces[tid].ev[l]
IsEvent(a) == l <= Len(Traces[tid].ev) /\ Ev.a = a /\ l' = l + 1 /\ UNCHANGED tid

TraceConfigure == /\ IsEvent("Configure")
                  /\ LET a == [buffer_size |-> Ev.buffer_size, max_memory_size |-> Ev.max_memory_size,
                               max_workers |-> Ev.max_workers, enable_parallel |-> Ev.enable_parallel]
                     IN cfg' = Apply(cfg, a) /\ calls' = Append(calls, a)
TraceProbe == /\ IsEvent("Probe") /\ UNCHANGED vars
              /\ Len(Ev.sizes) = Len(Ev.yielded)
              /\ \A i \in 1..Len(Ev.sizes) : (Ev.yielded[i] = 1) <=> Yields(Ev.sizes[i])

TraceInit == tid \in 1..Len(Traces) /\ l = 1 /\ Init
TraceNext == (TraceConfigure \/ TraceProbe) /\ Inv_LimitKept'
TraceSpec == TraceInit /\ [][TraceNext]_tvars
TraceAccept ==
    /\ (l = Len(Traces[tid].ev) + 1) => PrintT(<<"ACCEPT", tid>>)
    /\ (IOEnv.MBV_PROGRESS = "1") => PrintT(<<"AT", tid, l>>)
=============================================================================
