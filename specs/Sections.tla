------------------------------- MODULE Sections -------------------------------
(* Step machine (one step per paragraph) and theorems for the heading-section units of ODT and DOCX results;
   definitions: SectionsDefs.tla.  Universe: all paragraph lists up to MaxLen over headings of level 1..3 with text
   ids {0 (empty), 1, 2} (texts may repeat) and body paragraphs (blank / numbered), with and without a document title
   equal to heading text 1.  Theorems (C03, WalkDev = {}):
       Inv_StepAgreesWithFunction  the machine computes SectionsDefs!UnitsOf
       Inv_EveryParagraphOnce      the unit texts, in order, are exactly the non-blank body paragraphs
       Inv_PathIsOpenChain         a unit's heading path is the chain of headings open at its first paragraph
       Inv_Numbered                unit numbers are 1, 2, 3, ...
       Inv_HeadingTextKept         the text of every heading occurs in the path of some unit
       Prop_Terminates
   Sensitivity: "Docx!PreambleLost" violates EveryParagraphOnce, "Odt!EmptyHeadingDropped" violates HeadingTextKept.  *)
EXTENDS SectionsDefs

CONSTANT MaxLen

VARIABLES flavour, base, paras, k, st, out
vars == <<flavour, base, paras, k, st, out>>

Items == { <<"h", l, t>> : l \in 1..3, t \in 0..2 } \cup { <<"p", 0>>, <<"p", 1>> }
Number(s) == [j \in DOMAIN s |-> IF s[j][1] = "p" /\ s[j][2] # 0 THEN <<"p", 10 + j>> ELSE s[j]]

Init == /\ flavour \in {"odt", "docx"} /\ base \in {<<>>, <<1>>}
        /\ paras \in {Number(s) : s \in UNION {[1..n -> Items] : n \in 0..MaxLen}}
        /\ k = 1 /\ st = S0 /\ out = [done |-> FALSE, units |-> <<>>]
Para == k <= Len(paras) /\ st' = Step(flavour, st, paras[k], base) /\ k' = k + 1 /\ UNCHANGED <<flavour, base, paras, out>>
End == /\ k = Len(paras) + 1 /\ ~out.done
       /\ out' = [done |-> TRUE, units |-> Finish(flavour, st, paras, base)]
       /\ UNCHANGED <<flavour, base, paras, k, st>>
Next == Para \/ End
Spec == Init /\ [][Next]_vars /\ WF_vars(Next)
GenSpec == Init /\ [][UNCHANGED vars]_vars

RECURSIVE Cat(_)
Cat(ss) == IF ss = <<>> THEN <<>> ELSE Head(ss) \o Cat(Tail(ss))
AnyHeading == \E j \in DOMAIN paras : paras[j][1] = "h" /\ (flavour = "docx" \/ paras[j][3] # 0)
PosOf(pid) == CHOOSE j \in DOMAIN paras : paras[j] = <<"p", pid>>

Inv_StepAgreesWithFunction == out.done => out.units = UnitsOf(flavour, paras, base)
Inv_EveryParagraphOnce == out.done => Cat([u \in DOMAIN out.units |-> out.units[u].lines]) = BodyIds(paras)
Inv_PathIsOpenChain ==
    out.done /\ AnyHeading =>
        \A u \in DOMAIN out.units : out.units[u].lines # <<>> =>
            LET chain == OpenChain(flavour, paras, PosOf(out.units[u].lines[1]))
            IN out.units[u].path = (IF flavour = "odt" THEN MergeAdjacent(base \o chain) ELSE chain)
Inv_Numbered == out.done => \A u \in DOMAIN out.units : out.units[u].n = u
Inv_HeadingTextKept ==
    out.done => \A j \in DOMAIN paras : (paras[j][1] = "h" /\ paras[j][3] # 0) =>
                    \E u \in DOMAIN out.units : \E m \in DOMAIN out.units[u].path : out.units[u].path[m] = paras[j][3]
Prop_Terminates == <>(out.done)
=============================================================================
