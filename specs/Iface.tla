------------------------------- MODULE Iface -------------------------------
(* C04 -- every result honours the common interface, for any input.

   What is modelled.  The common interface of data_types.py (ExtractionInterface, UnitInterface,
   ImageInterface, TableInterface, FileMetadataInterface.populate_from_path) as a set of
   OBSERVER CALLS on a result object graph.  For every accessor this module states what a
   conforming return looks like in abstract terms ("...OK" operators below); IfaceTrace.tla has one
   action per accessor whose guard is that operator and NO action for a non-conforming return or
   for an exception, so a recorded call that does not conform is simply not a behaviour.

   Code mirrored:
     data_types.py:FileMetadataInterface.populate_from_path        -> FromPath / Acceptable
     data_types.py:TableData.get_dim (and the other get_dim)       -> Shape
     data_types.py:*Image.get_bytes / size_bytes                   -> StreamOK
     data_types.py:*Metadata dataclasses (which fields they carry) -> Carries, MetaTypeOf
     rtf_extractor.py:_strip_rtf_simple/_strip_rtf_full_with_pages/_extract_metadata (\uN)
                                                                   -> DecodeUnits (reference: pair
                                                                      surrogates, lone one -> U+FFFD)

   ABSTRACT PATHS.  NoPath, or a record
       [root    : "rel" (relative to the working directory) | "cwd" (absolute, inside the working
                  directory) | "nx" (absolute, below a root that does not exist),
        dirs    : sequence of directory segments (any strings: "d", unicode, "a.zip!", "x.y"),
        stem    : first dot-free piece of the last component (not empty: hidden files are DON'T-CARE),
        exts    : sequence of the further dot-separated pieces of the last component,
        fexists : the file exists,   dexists : its parent directory exists]
   The form "archive.zip!/dir/member.docx" that the archive extractor hands to the member
   extractors is the relative path with dirs = <<"archive.zip!", "dir">>.
   A reported path string is projected to [k |-> "none" | "str", root, segs] (split at "/"), a
   reported file name / extension to its dot-separated pieces (".gz" = <<"", "gz">>, "" = <<"">>).

   DON'T-CAREs (the property statement / documentation is silent):
     * whether folder / file path are reported as given or made absolute (populate_from_path
       resolves when the file / folder exists): both forms of the SAME directory are accepted;
     * hidden files (empty stem) and a trailing dot: pathlib's suffix rules, not stated anywhere;
     * metadata of results that come out of an archive read WITHOUT an archive path (root "dc"); with an archive
       path the member rule below (MemberPath) applies;  which members are extracted is C10's business;
     * detected_encoding;  the numeric / date fields of the metadata objects;
     * a document property for which the metadata type of the format has no field
       (PdfMetadata has no title/author/...; HtmlMetadata no subject; EpubMetadata no keywords;
       XlsxMetadata no subject; plain text none);
     * leading / trailing blanks of a property value;  interior runs of blanks are not generated;
     * image unit numbers may be None (documented: formats without pages), image size when the
       image type has no size field (PdfImage, RtfImage);
     * the VALUE of an image's pixel width / height (C14): only "None or a number" is demanded (SizeOK);
     * WHAT the text is (C02); only its type and well-formedness are demanded here;
     * \uN sequences that are not well paired in the file: the result must be well-formed
       Unicode, which replacement character is used is not demanded.

   Deviations (CONSTANT Deviations, {} = reference design):
     "SuffixFromFirstDot"   extension = everything after the first dot of the name (".tar.gz")
     "Rtf!UnitsUnpaired"    \uN decoded as chr(N & 0xFFFF) one by one (the pinned tree)
     "Epub!DcMetadataWrapperIgnored"   as built (finding KF-C04-01): epub_extractor._parse_metadata looks for the dc
                            elements among the CHILDREN of <metadata> only; in an OEB 1.x style package document
                            (<metadata><dc-metadata>dc:...</dc-metadata><x-metadata/></metadata>, deprecated in OPF 2.0
                            but to be processed by reading systems) every property is reported as ""          *)
EXTENDS Naturals, Sequences, FiniteSets, TLC

CONSTANT Deviations

DeviationNames == {"SuffixFromFirstDot", "Rtf!UnitsUnpaired", "Epub!DcMetadataWrapperIgnored"}

Last(s) == s[Len(s)]
Front(s) == SubSeq(s, 1, Len(s) - 1)
SetMax(S) == IF S = {} THEN 0 ELSE CHOOSE m \in S : \A x \in S : x <= m
Range(s) == { s[i] : i \in DOMAIN s }

(* ------------------------------------------------------------------ text *)
IsHigh(c) == c >= 55296 /\ c <= 56319
IsLow(c)  == c >= 56320 /\ c <= 57343
IsSurrogate(c) == c >= 55296 /\ c <= 57343
\* a sequence of code points is well-formed Unicode (encodable as UTF-8) iff it has no surrogate
Utf8OK(cps) == \A i \in DOMAIN cps : ~IsSurrogate(cps[i])

\* a text accessor: returns str, and the str encodes to UTF-8
TextOK(cls, utf8) == cls = "str" /\ utf8 = TRUE

\* UTF-16 code units  <->  code points
RECURSIVE ToUnits(_)
ToUnits(cps) ==
    IF cps = <<>> THEN <<>>
    ELSE (IF cps[1] >= 65536
          THEN <<55296 + ((cps[1] - 65536) \div 1024), 56320 + ((cps[1] - 65536) % 1024)>>
          ELSE <<cps[1]>>) \o ToUnits(Tail(cps))

\* reference decoding of a run of RTF \uN escapes (N already taken modulo 2^16)
RECURSIVE DecodeUnits(_)
DecodeUnits(u) ==
    IF u = <<>> THEN <<>>
    ELSE IF "Rtf!UnitsUnpaired" \in Deviations THEN u
    ELSE IF IsHigh(u[1]) /\ Len(u) >= 2 /\ IsLow(u[2])
         THEN <<65536 + (u[1] - 55296) * 1024 + (u[2] - 56320)>> \o DecodeUnits(SubSeq(u, 3, Len(u)))
    ELSE IF IsSurrogate(u[1]) THEN <<65533>> \o DecodeUnits(Tail(u))
    ELSE <<u[1]>> \o DecodeUnits(Tail(u))

RECURSIVE WellPaired(_)
WellPaired(u) ==
    IF u = <<>> THEN TRUE
    ELSE IF IsHigh(u[1]) THEN Len(u) >= 2 /\ IsLow(u[2]) /\ WellPaired(SubSeq(u, 3, Len(u)))
    ELSE ~IsLow(u[1]) /\ WellPaired(Tail(u))

(* ------------------------------------------------------------------ numbers *)
\* unit numbers and image numbers: int (not bool), >= 1
NumberOK(cls, n) == cls = "int" /\ n >= 1
\* the unit number of an image may be None
OptNumberOK(cls, n) == cls = "none" \/ NumberOK(cls, n)

\* pixel width / height in an image's metadata: None or a number
SizeOK(cls) == cls \in {"none", "int", "float"}

(* ------------------------------------------------------------------ streams *)
\* get_bytes(): binary stream, positioned at 0, readable to the end; its length equals the size
\* the image reports (when its type has a size field); a second call is again at position 0
StreamOK(s) ==
    /\ s.cls = "binary" /\ s.bytes = TRUE
    /\ s.pos = 0 /\ s.pos2 = 0
    /\ s.len2 = s.len
    /\ (s.hassize => s.size = s.len)

(* ------------------------------------------------------------------ tables *)
\* shape of get_table(): number of rows, width of the widest row (widths = the set of row lengths)
Shape(rows, widths) == <<rows, SetMax(widths)>>
DimOK(t) ==
    /\ t.gridcls = "list" /\ t.dimcls = "dim"
    /\ <<t.dimrows, t.dimcols>> = Shape(t.rows, Range(t.widths))
    /\ t.cellsutf8 = TRUE

(* ------------------------------------------------------------------ file metadata from the path *)
NoPath == [root |-> "none", dirs |-> <<>>, stem |-> "", exts |-> <<>>, fexists |-> FALSE, dexists |-> FALSE]
DontCarePath(p) == p.root = "dc"

NoneField == [k |-> "none", root |-> "", segs |-> <<>>]
Str(root, segs) == [k |-> "str", root |-> root, segs |-> segs]

NamePieces(p) == <<p.stem>> \o p.exts
ExtPieces(p) ==
    IF p.exts = <<>> THEN <<"">>
    ELSE IF "SuffixFromFirstDot" \in Deviations THEN <<"">> \o p.exts
    ELSE <<"", Last(p.exts)>>

\* the parent directory, as given and made absolute; the whole path likewise (last segment = name pieces
\* are kept apart: a path value is [root, segs] of DIRECTORY segments, the name is compared separately)
GivenDir(p) == IF p.root = "rel" /\ p.dirs = <<>> THEN Str("rel", <<".">>) ELSE Str(p.root, p.dirs)
AbsDir(p)   == Str(IF p.root = "rel" THEN "cwd" ELSE p.root, p.dirs)
GivenFileDir(p) == Str(p.root, p.dirs)             \* directory part of str(path)
AbsFileDir(p)   == AbsDir(p)

\* reference (what populate_from_path documents by its code: resolve when it exists)
FromPath(p) ==
    IF p = NoPath
    THEN [fn |-> <<>>, fnk |-> "none", ext |-> <<>>, extk |-> "none", dir |-> NoneField, fdir |-> NoneField,
          fpn |-> <<>>]
    ELSE [fn |-> NamePieces(p), fnk |-> "str", ext |-> ExtPieces(p), extk |-> "str", fpn |-> NamePieces(p),
          dir  |-> IF p.dexists THEN AbsDir(p) ELSE GivenDir(p),
          fdir |-> IF p.fexists THEN AbsFileDir(p) ELSE GivenFileDir(p)]

\* what the property demands of an observed metadata m for path argument p
Acceptable(p, m) ==
    IF DontCarePath(p) THEN m.fnk \in {"none", "str"} /\ m.extk \in {"none", "str"}
    ELSE IF p = NoPath
    THEN m.fnk = "none" /\ m.extk = "none" /\ m.dir.k = "none" /\ m.fdir.k = "none"
    ELSE /\ m.fnk = "str" /\ m.fn = NamePieces(p)
         /\ m.extk = "str" /\ m.ext = ExtPieces(p)
         /\ m.dir \in {GivenDir(p), AbsDir(p)}
         /\ m.fdir \in {GivenFileDir(p), AbsFileDir(p)} /\ m.fpn = NamePieces(p)

\* the path a caller obtains by feeding the reported file path back in
AsPath(p, m) ==
    IF m.fnk = "none" THEN NoPath
    ELSE [root |-> m.fdir.root, dirs |-> m.fdir.segs, stem |-> m.fn[1], exts |-> Tail(m.fn),
          fexists |-> p.fexists, dexists |-> p.dexists]

(* results that come out of an archive.  archive_extractor._process_archive_entry hands every member to its extractor
   with "a path that includes archive context": <archive path>!/<member name> (the repository's own test asserts
   "test_archive.zip!/" in file_path; the property lists the "archive!/member" form).  So the member's metadata is
   FromPath of that string: the archive's file name + "!" (archseg) becomes one more folder segment, the member's
   folders follow, file name and extension are the member's.  A leading "/" of an absolute member name (tar -P)
   changes nothing: the member stays below the archive.  Without an archive path the documentation is silent
   (the code passes the bare member name): DON'T-CARE, the driver sets root "dc".
   m = [k |-> "member", archseg, dirs, stem, exts] *)
MemberPath(p, m) == [root |-> p.root, dirs |-> p.dirs \o <<m.archseg>> \o m.dirs, stem |-> m.stem, exts |-> m.exts,
                     fexists |-> FALSE, dexists |-> FALSE]
EffectivePath(p, m) == IF m.k = "member" /\ p.root \notin {"none", "dc"} THEN MemberPath(p, m) ELSE p
Law_Member(p, m) == (p # NoPath /\ p.root # "dc") =>
    LET q == MemberPath(p, m)  f == FromPath(q) IN
    /\ Acceptable(q, f)
    /\ f.fn = <<m.stem>> \o m.exts
    /\ f.dir.segs = p.dirs \o <<m.archseg>> \o m.dirs /\ f.dir.root = p.root      \* never resolved: nothing exists there
    /\ f.fdir = f.dir

(* laws of FromPath, checked by TLC on every abstract path (IfaceGen) *)
Law_NoneWhenNoPath == LET m == FromPath(NoPath) IN
    m.fnk = "none" /\ m.extk = "none" /\ m.dir = NoneField /\ m.fdir = NoneField
Law_Acceptable(p) == Acceptable(p, FromPath(p))
\* name = stem + suffix; the suffix is the LAST dotted part (or empty)
Law_Suffix(p) == p # NoPath =>
    LET m == FromPath(p) IN
    /\ Len(m.ext) <= 2
    /\ (Len(m.fn) = 1 => m.ext = <<"">>)
    /\ (Len(m.fn) > 1 => m.ext = <<"", Last(m.fn)>> /\ Front(m.fn) \o Tail(m.ext) = m.fn)
Law_Idempotent(p) == FromPath(AsPath(p, FromPath(p))) = FromPath(p)
\* name and extension depend on the last component only
Law_NameOnly(p, q) == (p # NoPath /\ q # NoPath /\ p.stem = q.stem /\ p.exts = q.exts)
                         => (FromPath(p).fn = FromPath(q).fn /\ FromPath(p).ext = FromPath(q).ext)
\* the folder is the directory of the file path
Law_FolderOfFile(p) == p # NoPath =>
    LET m == FromPath(p) IN
    (IF m.dir.root = "rel" THEN AbsDir(p) ELSE m.dir) = (IF m.fdir.root = "rel" THEN AbsFileDir(p) ELSE m.fdir)

(* ------------------------------------------------------------------ document properties *)
Fields == {"title", "author", "subject", "keywords", "description"}
\* which of the five textual properties a metadata type has a field for (transcribed from data_types.py;
\* author = author | creator, description = description | comments | doc_comment)
Carries ==
  [ DocxMetadata |-> Fields, PptxMetadata |-> Fields, RtfMetadata |-> Fields,
    OpenDocumentMetadata |-> Fields,
    XlsxMetadata |-> Fields \ {"subject"},
    HtmlMetadata |-> Fields \ {"subject"},
    EpubMetadata |-> Fields \ {"keywords"},
    XlsMetadata |-> {"title", "author", "subject"},
    PdfMetadata |-> {}, FileMetadataInterface |-> {} ]
\* the metadata type each generated format must come back with
MetaTypeOf ==
  [ docx |-> "DocxMetadata", pptx |-> "PptxMetadata", xlsx |-> "XlsxMetadata", rtf |-> "RtfMetadata",
    odt |-> "OpenDocumentMetadata", odp |-> "OpenDocumentMetadata", ods |-> "OpenDocumentMetadata",
    odg |-> "OpenDocumentMetadata", html |-> "HtmlMetadata", mhtml |-> "HtmlMetadata",
    epub |-> "EpubMetadata", pdf |-> "PdfMetadata", xls |-> "XlsMetadata", txt |-> "FileMetadataInterface",
    md |-> "FileMetadataInterface", csv |-> "FileMetadataInterface", tsv |-> "FileMetadataInterface",
    json |-> "FileMetadataInterface" ]
\* which properties the WRITER of a format stores at all (mbv/writers): html has no subject element,
\* the OPF writer no keywords, the PDF /Info writer no description, the BIFF writer none.
\* A format that is in neither table (added to mbv/docrun.py later) is replayed with every property DON'T-CARE.
Stores ==
  [ f \in DOMAIN MetaTypeOf |->
      CASE f \in {"html", "mhtml"} -> Fields \ {"subject"}
        [] f = "epub" -> Fields \ {"keywords"}
        [] f = "pdf" -> Fields \ {"description"}
        [] f \in {"txt", "md", "csv", "tsv", "json", "xls"} -> {}
        [] OTHER -> Fields ]

Blank == {9, 10, 13, 32}
RECURSIVE LStrip(_)
LStrip(s) == IF s # <<>> /\ s[1] \in Blank THEN LStrip(Tail(s)) ELSE s
RECURSIVE RStrip(_)
RStrip(s) == IF s # <<>> /\ Last(s) \in Blank THEN RStrip(Front(s)) ELSE s
Strip(s) == RStrip(LStrip(s))

\* a stored textual property is reported unchanged (values are code point sequences)
\* what a stored value is reported as; wrapped = the dc elements sit in an OEB 1.x <dc-metadata> wrapper
Reported(stored, wrapped) ==
    IF wrapped /\ "Epub!DcMetadataWrapperIgnored" \in Deviations THEN <<>> ELSE Strip(stored)
Law_ReportedUnchanged(stored, wrapped) == Reported(stored, wrapped) = Strip(stored)

PropOK(fmt, mtype, field, has, cls, stored, got, wrapped) ==
    /\ (fmt \in DOMAIN MetaTypeOf => mtype = MetaTypeOf[fmt])
    /\ IF mtype \in DOMAIN Carries /\ field \in Carries[mtype]
       THEN /\ has = TRUE /\ cls = "str" /\ Utf8OK(got)
            /\ ((fmt \in DOMAIN Stores /\ field \in Stores[fmt]) => Strip(got) = Reported(stored, wrapped))
       ELSE has = TRUE => (cls = "str" => Utf8OK(got))        \* DON'T-CARE: no such field in the type
=============================================================================
