------------------------------- MODULE RtfStrip -------------------------------
(* Step machine (one step per token) and theorems for the RTF body stripper model; definitions: RtfStripDefs.tla.

   Universe: token streams  prefix . group . suffix  and group-free streams (see Streams); words are numbered by
   position.  Theorems (C02 / C03 for rtf; WalkDev = {}):
       Inv_StepAgreesWithFunction   the machine computes RtfStripDefs!Strip
       Inv_HiddenNeverShown         a word inside a skipped destination (at any depth) is not in the output
       Inv_VisibleOnceInOrder       the visible words appear exactly once, in source order (result and pages)
       Inv_SeparatorsFaithful       two consecutive visible words touch in the output iff no visible text / separator
                                    token lies between them in the source
       Inv_PagesPartition           the pages are the non-empty \page / \sbkpage segments, in order
       Prop_Terminates
   Sensitivity: "Rtf!NestedDestinationEndsSkip" violates HiddenNeverShown, "Rtf!RawNewlineIsText" and
   "Rtf!UControlWordLeaks" violate SeparatorsFaithful / the output alphabet.                                                                              *)
EXTENDS RtfStripDefs

CONSTANT Rich        \* TRUE: larger token alphabet

VARIABLES toks, k, st, res
vars == <<toks, k, st, res>>

T(x) == <<x, 0>>
Base == {T("W"), T("SP"), T("LF"), T("PAR"), T("PAGE"), T("CWN"), T("HEX"), T("ESCB"), T("HEXBAD"), T("UL"), T("UC")}
        \cup (IF Rich THEN {T("CR"), T("LINE"), T("TAB"), T("SBK"), T("CW"), T("CWNEG"), T("UNI")} ELSE {})
Seqs(S, n) == UNION {[1..m -> S] : m \in 0..n}
OpenKinds == {"OPEN", "OPENCW", "OPENSTAR", "OPENNAMED"}
Inner == { <<T(o), T("W"), T("CLOSE")>> : o \in OpenKinds }                       \* a group holding one word
GroupItems == { <<T("W")>>, <<T("SP")>>, <<T("PAR")>> } \cup Inner
RECURSIVE Flat(_)
Flat(ss) == IF ss = <<>> THEN <<>> ELSE Head(ss) \o Flat(Tail(ss))
Groups == { <<T(o)>> \o Flat(c) \o <<T("CLOSE")>> : o \in OpenKinds, c \in Seqs(GroupItems, 2) }
Streams == { p \o g \o s : p \in {<<>>, <<T("W")>>}, g \in Groups, s \in Seqs(Base, IF Rich THEN 2 ELSE 1) }
           \cup Seqs(Base, 3)
\* number the words by position
Number(s) == [j \in DOMAIN s |-> IF s[j][1] = "W" THEN <<"W", j>> ELSE s[j]]

Init == toks \in {Number(s) : s \in Streams} /\ k = 1 /\ st = St0 /\ res = [result |-> <<>>, pages |-> <<>>, done |-> FALSE]
Token == /\ k <= Len(toks) /\ st' = Step(st, toks[k]) /\ k' = k + 1 /\ UNCHANGED <<toks, res>>
End == /\ k = Len(toks) + 1 /\ ~res.done
       /\ res' = [result |-> Finish(st).result, pages |-> Finish(st).pages, done |-> TRUE]
       /\ UNCHANGED <<toks, k, st>>
Next == Token \/ End
Spec == Init /\ [][Next]_vars /\ WF_vars(Next)
GenSpec == Init /\ [][UNCHANGED vars]_vars

Joined(pages) == Flat([j \in DOMAIN pages |-> IF j = 1 THEN pages[j] ELSE << <<"n", 0>> >> \o pages[j]])
VisPos == SelectSeq([j \in DOMAIN toks |-> IF toks[j][1] = "W" /\ ~Hidden(toks, j) THEN j ELSE 0], LAMBDA x : x # 0)
PosIn(atoms, id) == CHOOSE j \in DOMAIN atoms : atoms[j] = <<"w", id>>

Inv_StepAgreesWithFunction == res.done => (res.result = Strip(toks).result /\ res.pages = Strip(toks).pages)
Inv_HiddenNeverShown ==
    res.done => \A j \in DOMAIN toks : (toks[j][1] = "W" /\ Hidden(toks, j)) =>
                    /\ <<"w", j>> \notin {res.result[m] : m \in DOMAIN res.result}
                    /\ \A p \in DOMAIN res.pages : <<"w", j>> \notin {res.pages[p][m] : m \in DOMAIN res.pages[p]}
Inv_VisibleOnceInOrder ==
    res.done => /\ WordsOf(res.result) = VisibleWords(toks)
                /\ WordsOf(Joined(res.pages)) = VisibleWords(toks)
Inv_SeparatorsFaithful ==
    res.done /\ WordsOf(Joined(res.pages)) = VisibleWords(toks) =>
        LET all == Joined(res.pages) IN
        \A n \in 1..(Len(VisPos) - 1) :
            LET ja == VisPos[n]
                jb == VisPos[n + 1]
                touch == PosIn(all, jb) = PosIn(all, ja) + 1
                between == \E m \in (ja + 1)..(jb - 1) : Separating(toks[m][1]) /\ ~Hidden(toks, m)
            IN touch <=> ~between
\* page segments of the source: split at visible PAGE / SBK tokens; a segment counts when it shows a word or character
SegOfPos(j) == Cardinality({m \in 1..(j - 1) : toks[m][1] \in {"PAGE", "SBK"} /\ ~Hidden(toks, m)})
Inv_PagesPartition ==
    res.done => \A a, b \in DOMAIN VisPos :
                   LET pa == CHOOSE p \in DOMAIN res.pages : <<"w", VisPos[a]>> \in {res.pages[p][m] : m \in DOMAIN res.pages[p]}
                       pb == CHOOSE p \in DOMAIN res.pages : <<"w", VisPos[b]>> \in {res.pages[p][m] : m \in DOMAIN res.pages[p]}
                   IN (WordsOf(Joined(res.pages)) = VisibleWords(toks)) =>
                        ((SegOfPos(VisPos[a]) = SegOfPos(VisPos[b])) <=> (pa = pb))
\* the output holds nothing but words, the characters of HEX / UNI / ESCB tokens and white space
Inv_NothingInvented == res.done => \A m \in DOMAIN res.result : res.result[m][1] \in {"w", "s", "n"} \/ res.result[m] \in {<<"c", 1>>, <<"c", 2>>}
Prop_Terminates == <>(res.done)
=============================================================================
