---------------------------- MODULE SheetWalkDefs ----------------------------
(* Cell algebra and functional form of the XLSX sheet reader model (see SheetWalk.tla for the step machine and
   the theorems; SheetWalkTrace.tla binds the real code to AllRowsOf / DataOf).                          *)
EXTENDS Naturals, Sequences, FiniteSets, TLC

CONSTANT WalkDev       \* set of as-built deviations switched on

None == <<"none", 0>>
NonEmpty(c) == c[1] \notin {"none", "ws"}                 \* _is_cell_non_empty
Meaningful(c) == c[1] \notin {"none", "ws", "unn"}        \* _is_meaningful_value

\* _get_cell_value: the kinds modelled here are returned as they are
Conv(c) == c
\* header cell j (1-based) of the first row
Hdr(c, j) ==
    CASE ~NonEmpty(c)     -> IF "Xlsx!HeaderPlaceholder" \in WalkDev THEN <<"unn", j - 1>> ELSE None
      [] c[1] = "num"     -> <<"numstr", c[2]>>            \* str(val)
      [] c[1] = "bool"    -> <<"boolstr", c[2]>>
      [] OTHER            -> c

Max2(a, b) == IF a >= b THEN a ELSE b
RowLastCol(row) == IF \E j \in DOMAIN row : NonEmpty(row[j])
                   THEN CHOOSE j \in DOMAIN row : NonEmpty(row[j]) /\ \A k \in (j + 1)..Len(row) : ~NonEmpty(row[k])
                   ELSE 0
Take(s, n) == SubSeq(s, 1, IF n <= Len(s) THEN n ELSE Len(s))
NameRow(row) == Len(row) > 1 /\ Cardinality({j \in DOMAIN row : Meaningful(row[j])}) = 1   \* _is_table_name_row

(* ------------------------------ functional form (used by the trace specification) ------------------------------ *)
LastRow(src) == IF \E i \in DOMAIN src : \E j \in DOMAIN src[i] : NonEmpty(src[i][j])
                THEN CHOOSE i \in DOMAIN src : (\E j \in DOMAIN src[i] : NonEmpty(src[i][j]))
                        /\ \A k \in (i + 1)..Len(src) : \A j \in DOMAIN src[k] : ~NonEmpty(src[k][j])
                ELSE 0
RECURSIVE MaxLastCol(_)
MaxLastCol(rs) == IF rs = <<>> THEN 0 ELSE Max2(RowLastCol(Head(rs)), MaxLastCol(Tail(rs)))

AllRowsOf(src) ==
    LET r1 == Take(src, LastRow(src))
        lc == MaxLastCol(r1)
        r2 == [i \in DOMAIN r1 |-> Take(r1[i], lc)]
    IN IF r1 = <<>> THEN <<>>
       ELSE [i \in DOMAIN r2 |-> IF i = 1 THEN [j \in DOMAIN r2[1] |-> Hdr(r2[1][j], j)]
                                          ELSE [j \in DOMAIN r2[i] |-> Conv(r2[i][j])]]
DataOf(all) == IF all # <<>> /\ "Xlsx!TableNameRowSkipped" \in WalkDev /\ NameRow(all[1]) THEN Tail(all) ELSE all

=============================================================================
