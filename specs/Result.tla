------------------------------- MODULE Result -------------------------------
(* C06 -- extraction is a deterministic, side-effect-free function; observing a result is idempotent.

   State:   digest   = abstract identity of json.dumps(result.to_json(), sort_keys=True) (with binary)
            input    = abstract identity of the caller's buffer content
            hist     = observer calls made so far (history variable, bounded by MaxHist)
            vals     = for every observer kind, the abstract identity of WHAT the call returned (the text, the
                       unit texts, the bytes read from every picture's stream, the tables, ...)
   Actions: Obs(k)         one observer call of kind k on the result (full text, unit iteration,
                           deep unit access, image iteration, image bytes, tables, metadata, to_json)
            Other          an extraction of ANOTHER input (or of the same bytes under another path) in the same
                           process while the result is held: it changes nothing of the held result
            Reextract(m,s) the same bytes extracted again: m = "same" process or a "fresh" process
                           started with hash seed s
   Properties (action formulas): no action changes digest or input.

   Named deviations reproduce what the pinned tree did before the "fix:" commits; they exist so
   that TLC exhibits the counterexample (sensitivity run) and to explain a regression precisely:
     "Odt!UnitIteratorWritesImageUnitName"  Obs("Units") on an ODT result with images changes digest
     "StylesFromSet"                        digest of DOCX/ODT results depends on the hash seed
     "Image!StreamNotRewound"               the second Obs("ImageBytes") reads nothing from the picture streams
     "SharedDefaultObject"                  results of two extractions share a mutable default object (metadata of
                                            a package without a metadata part): Other changes the held result     *)
EXTENDS Naturals, Sequences, FiniteSets, TLC

CONSTANTS Types,          \* result kinds, e.g. {"odt", "docx", "pdf"}
          Seeds,          \* hash seeds of fresh processes
          MaxHist,
          Deviations

Observers == {"FullText", "Units", "UnitDeep", "Images", "ImageBytes", "Tables", "Metadata", "ToJson"}

VARIABLES type, digest, input, hist, vals, seen
vars == <<type, digest, input, hist, vals, seen>>

\* digest is abstract: 0 = the digest of the first extraction; any other number = "something else"
Init == type \in Types /\ digest = 0 /\ input = 0 /\ hist = <<>> /\ vals = [k \in Observers |-> 0] /\ seen = {}

Obs(k) ==
    /\ Len(hist) < MaxHist
    /\ hist' = Append(hist, k)
    /\ digest' = IF "Odt!UnitIteratorWritesImageUnitName" \in Deviations /\ type = "odt" /\ k \in {"Units", "UnitDeep"}
                 THEN 1 ELSE digest
    /\ vals' = IF "Image!StreamNotRewound" \in Deviations /\ k = "ImageBytes" /\ k \in seen
               THEN [vals EXCEPT !["ImageBytes"] = 1] ELSE vals
    /\ seen' = seen \cup {k}
    /\ UNCHANGED <<type, input>>

Reextract(m, s) ==
    /\ Len(hist) < MaxHist
    /\ hist' = Append(hist, <<m, s>>)
    /\ digest' = IF "StylesFromSet" \in Deviations /\ type \in {"docx", "odt"} /\ m = "fresh" /\ s # 0
                 THEN 2 ELSE digest
    /\ UNCHANGED <<type, input, vals, seen>>

Other ==
    /\ Len(hist) < MaxHist
    /\ hist' = Append(hist, <<"other", 0>>)
    /\ digest' = IF "SharedDefaultObject" \in Deviations THEN 3 ELSE digest
    /\ UNCHANGED <<type, input, vals, seen>>

Next == (\E k \in Observers : Obs(k)) \/ (\E s \in Seeds : Reextract("fresh", s)) \/ Reextract("same", 0) \/ Other
Spec == Init /\ [][Next]_vars

Prop_DigestStable == [][digest' = digest]_vars        \* idempotent observers, deterministic re-extraction
Prop_InputUntouched == [][input' = input]_vars
Prop_ValuesStable == [][vals' = vals]_vars            \* the same observation returns the same thing every time
Inv_Digest == digest = 0
=============================================================================
