------------------------------- MODULE Result -------------------------------
(* C06 -- extraction is a deterministic, side-effect-free function; observing a result is idempotent.

   State:   digest   = abstract identity of json.dumps(result.to_json(), sort_keys=True) (with binary)
            input    = abstract identity of the caller's buffer content
            hist     = observer calls made so far (history variable, bounded by MaxHist)
   Actions: Obs(k)         one observer call of kind k on the result (full text, unit iteration,
                           deep unit access, image iteration, image bytes, tables, metadata, to_json)
            Reextract(m,s) the same bytes extracted again: m = "same" process or a "fresh" process
                           started with hash seed s
   Properties (action formulas): no action changes digest or input.

   Named deviations reproduce what the pinned tree did before the "fix:" commits; they exist so
   that TLC exhibits the counterexample (sensitivity run) and to explain a regression precisely:
     "Odt!UnitIteratorWritesImageUnitName"  Obs("Units") on an ODT result with images changes digest
     "StylesFromSet"                        digest of DOCX/ODT results depends on the hash seed     *)
EXTENDS Naturals, Sequences, FiniteSets, TLC

CONSTANTS Types,          \* result kinds, e.g. {"odt", "docx", "pdf"}
          Seeds,          \* hash seeds of fresh processes
          MaxHist,
          Deviations

Observers == {"FullText", "Units", "UnitDeep", "Images", "ImageBytes", "Tables", "Metadata", "ToJson"}

VARIABLES type, digest, input, hist
vars == <<type, digest, input, hist>>

\* digest is abstract: 0 = the digest of the first extraction; any other number = "something else"
Init == type \in Types /\ digest = 0 /\ input = 0 /\ hist = <<>>

Obs(k) ==
    /\ Len(hist) < MaxHist
    /\ hist' = Append(hist, k)
    /\ digest' = IF "Odt!UnitIteratorWritesImageUnitName" \in Deviations /\ type = "odt" /\ k \in {"Units", "UnitDeep"}
                 THEN 1 ELSE digest
    /\ UNCHANGED <<type, input>>

Reextract(m, s) ==
    /\ Len(hist) < MaxHist
    /\ hist' = Append(hist, <<m, s>>)
    /\ digest' = IF "StylesFromSet" \in Deviations /\ type \in {"docx", "odt"} /\ m = "fresh" /\ s # 0
                 THEN 2 ELSE digest
    /\ UNCHANGED <<type, input>>

Next == (\E k \in Observers : Obs(k)) \/ (\E s \in Seeds : Reextract("fresh", s)) \/ Reextract("same", 0)
Spec == Init /\ [][Next]_vars

Prop_DigestStable == [][digest' = digest]_vars        \* idempotent observers, deterministic re-extraction
Prop_InputUntouched == [][input' = input]_vars
Inv_Digest == digest = 0
=============================================================================
