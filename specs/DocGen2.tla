------------------------------- MODULE DocGen2 -------------------------------
(* Enumerates multi-unit document shapes (decks of slides, workbooks of sheets, paged documents)
   for the spec -> code replay of C02 / C03 / C13.  Token ids are placeholders (0); the harness
   numbers the leaves in reading order.  One state = one document.                          *)
EXTENDS Naturals, Sequences, FiniteSets, TLC

CONSTANTS Kind,        \* "deck" | "book" | "pages" | "typed"
          MaxUnits

VARIABLE units

R == <<"r", 0>>
Para1 == <<R>>
ParaBr == <<R, <<"br">>, R>>
ParaLink == <<R, <<"a", <<R>>>>>>

(* slide = [shapes |-> <<shape..>>, notes |-> <<inline..>>] *)
Tbl22 == <<"tbl", << << <<Para1>>, <<Para1>> >>, << <<Para1>>, <<Para1>> >> >>>>
TblMulti == <<"tbl", << << <<Para1, Para1>>, <<Para1>> >> >>>>          \* 1 x 2, first cell two paragraphs
TblEmptyCell == <<"tbl", << << <<Para1>>, <<>> >>, << <<>>, <<Para1>> >> >>>>
\* a row whose middle cell is empty (a writer may render it as the covered cell of a horizontal merge)
TblSpan == <<"tbl", << << <<Para1>>, <<>>, <<Para1>> >>, << <<Para1>>, <<Para1>>, <<Para1>> >> >>>>
ShapeLists ==
    { <<>>,
      << <<"title", Para1>> >>,
      << <<"title", Para1>>, <<"body", <<Para1, Para1>>>> >>,
      << <<"body", <<ParaBr>>>> >>,
      << <<"text", <<ParaLink>>>> >>,
      << <<"title", Para1>>, Tbl22 >>,
      << TblMulti, <<"text", <<Para1>>>> >>,
      << TblEmptyCell >>,
      << TblSpan >>,
      << <<"text", <<Para1>>>>, <<"text", <<Para1>>>> >>,
      << <<"title", Para1>>, <<"title", Para1>>, <<"text", <<Para1>>>> >>,      \* comparison layout: two title frames
      << <<"title", Para1>>, <<"text", <<Para1>>>>, <<"body", <<Para1>>>> >>,    \* a free text box between title and body placeholder
      << <<"text", <<Para1>>>>, <<"body", <<Para1>>>> >> }
Slides == { [shapes |-> s, notes |-> n] : s \in ShapeLists, n \in { <<>>, <<R>> } }

(* sheet = rows of cells; a cell is 1 (token string) or 0 (empty) *)
SheetGrids ==
    { <<>>, << <<1>> >>, << <<1, 1>>, <<1, 1>> >>, << <<1, 0, 1>>, <<0, 1, 1>> >>,
      << <<1, 1>>, <<0, 0>>, <<1, 1>> >>, << <<1>>, <<1>>, <<1>> >>, << <<0, 1>>, <<1, 1>> >>,
      << <<0, 0, 1>>, <<1, 1, 1>> >>,                       \* two empty header cells (header names collide)
      << <<1, 1, 1>>, <<1, 1, 1>>, <<1, 0, 0>> >> }          \* the last row is narrower than the rows above it (a short totals row)

(* page = lines of token counts *)
Pages == { <<>>, <<1>>, <<2, 1>>, <<1, 1, 1>>, <<99>> }     \* <<99>>: a position that holds no unit of this kind (gap)

(* typed sheet = the kinds of the two cells of its single data row (below a header row of two strings) *)
TypedKinds == {"n", "nf", "z", "b", "bf", "d", "date", "t", "e", "f", "s", "empty"}
TypedRows == { <<a, b>> : a \in TypedKinds, b \in TypedKinds }

(* header-less typed grid: two rows, second column holds possibly falsy values (0, FALSE, empty) *)
TailKinds == {"z", "bf", "empty", "n", "b"}
TypedGrids == { << <<"s", a>>, <<"s", b>> >> : a \in TailKinds, b \in TailKinds }

Universe == CASE Kind = "deck"  -> Slides
              [] Kind = "typedgrid" -> TypedGrids
              [] Kind = "typed" -> TypedRows
              [] Kind = "book"  -> SheetGrids
              [] Kind = "pages" -> Pages

Init == units \in UNION { [1..n -> Universe] : n \in 1..MaxUnits }
Next == UNCHANGED units
Spec == Init /\ [][Next]_units
=============================================================================
