------------------------------ MODULE OmmlGen ------------------------------
(* Bounded instances of Omml for (a) the TLC theorem run: on every tree of the universe the
   algorithmic part (process_element, Deviations = {}) satisfies the declarative clauses, and
   (b) enumerating the trees (tlc -dump) that are replayed into the real converter.

   SpecEnum:  one state = one tree.  Universe(Profile):
     wideN/O one structural element (N: n-ary, O: the others) with every slot absent / present (every leaf text) / duplicated
             and every attribute state, alone or followed by a run that may close a radical
     deep1-3 depth 2: one slot of the outer element holds a (narrow) structural element,
             alone or followed by a closing run
     pairs / triples   two / three narrow top-level elements / runs in sequence
     blanks  blank-only runs and runs with leading / trailing blanks at every position of every element
     symbols every character of the symbol / operator / accent tables as text, operand, attribute,
             and inside the run that closes a malformed radical (before and after the closer)
     The run that follows the trees of the other parts mixes a mapped symbol, plain characters and
     the closer, so that positions in the raw and in the mapped text differ.
   SpecBuild: a bottom-up tree builder for `tlc -simulate` (deeper, random trees): stk is a stack of
             contents; every content of the stack is checked as a tree of its own.           *)
EXTENDS Omml

CONSTANTS Profile,          \* "quick" | "thorough"
          Part,             \* subset of {"wideN", "wideO", "pairs", "triples", "deep1", "deep2", "deep3", "symbols", "blanks", "all"}
          MaxStack, MaxLen  \* SpecBuild bounds

VARIABLES tree, stk
vars == <<tree, stk>>

R(t) == [k |-> "r", t |-> t]
Val(a) == [st |-> "val", v |-> a]
NoVal == [st |-> "noval", v |-> ""]

Thorough == Profile = "thorough"

(* ---- leaves ---- *)
Is(ps) == (ps \cap Part) # {} \/ "all" \in Part
TextsWide == {<<>>, <<"a">>, <<"(">>, <<")">>, <<"U+03B1">>, <<WS>>}
             \cup (IF Thorough THEN {<<"a", ")">>, <<"[">>, <<"]">>, <<"{">>, <<"}">>, <<"(", WS>>} ELSE {})
TextsNarrow == {<<"(">>, <<")">>} \cup (IF Thorough THEN {<<"a">>} ELSE {})
\* the closing run mixes a mapped symbol, plain characters and the closer: the closer's position in
\* the MAPPED text differs from its position in the raw text
MixedClose == R(<<"U+03B1", "a", ")", "b">>)
Closing == {<<>>, << MixedClose >>}
           \cup (IF Thorough THEN {<< R(<<")">>), R(<<")">>) >>, << R(<<"]", ")">>) >>} ELSE {})
Closing2 == {<<>>, << MixedClose >>}

Contents(T) == {<<>>} \cup {<<R(t)>> : t \in T}
DupSlots == { << <<R(<<"a">>)>>, <<R(<<"b">>)>> >>, << <<R(<<"(">>)>>, <<R(<<")">>)>> >> }
Slots(C) == {<<>>} \cup {<<c>> : c \in C}

ChrNary == {NoEl, NoVal, Val("U+2211"), Val("U+222B"), Val(""), Val("U+22C3")}
ChrAcc == {NoEl, NoVal, Val("U+0303"), Val("?")}
BegSet == {NoEl, NoVal, Val("["), Val("")}
EndSet == {NoEl, NoVal, Val("]"), Val("")}
FNames == {<<>>, << <<R(<<"s", "i", "n">>)>> >>, << <<R(<<"f">>)>> >>, << <<R(<<"l", "i", "m">>), R(<<WS>>)>> >>}

\* function names for the wide part: table entries, proper extensions of entries (the whole name must
\* survive), prefixes of entries, unknown names, names split over two runs, structured m:fName content
\* (m:limLow / m:limUpp = an element without template, scripts inside the name)
W(s) == << <<R(s)>> >>
FNamesWide == FNames \cup
    {W(<<"s", "i", "n", "h">>), W(<<"c", "o", "s", "h">>), W(<<"t", "a", "n", "h">>),
     W(<<"a", "r", "c", "s", "i", "n">>), W(<<"l", "o", "g", "i", "t">>), W(<<"l", "i", "m", "s", "u", "p">>),
     W(<<"m", "a", "x", "i">>), W(<<"e", "x", "p", "o">>), W(<<"m", "i", "n", "u", "s">>),
     W(<<"s", "i">>), W(<<"l", "o">>), W(<<"l", "n">>), W(<<"l", "n", "x">>), W(<<"g">>),
     << <<R(<<"s", "i", "n">>), R(<<"h">>)>> >>,
     << <<[k |-> "box", kids |-> <<R(<<"l", "i", "m">>), R(<<"x", "U+2192", "0">>)>>]>> >>,
     << <<[k |-> "box", kids |-> <<R(<<"l", "i", "m">>)>>]>> >>,
     << <<[k |-> "sSub", e |-> W(<<"l", "o", "g">>), sub |-> W(<<"2">>)]>> >>,
     << <<[k |-> "sSup", e |-> W(<<"s", "i", "n">>), sup |-> W(<<"2">>)]>> >>}

\* structural elements whose slots range over S, e-lists over contents C, attributes over the given sets
Struct(S, C, chrN, chrA, begs, ends, fns) ==
    {[k |-> "f", num |-> a, den |-> b] : a \in S, b \in S}
    \cup {[k |-> "sSup", e |-> a, sup |-> b] : a \in S, b \in S}
    \cup {[k |-> "sSub", e |-> a, sub |-> b] : a \in S, b \in S}
    \cup {[k |-> "sSubSup", e |-> a, sub |-> b, sup |-> c] : a \in S, b \in S, c \in S}
    \cup {[k |-> "rad", deg |-> a, e |-> b] : a \in S, b \in S}
    \cup {[k |-> "nary", chr |-> h, sub |-> a, sup |-> b, e |-> c] : h \in chrN, a \in S, b \in S, c \in S}
    \cup {[k |-> "d", beg |-> x, end |-> y, es |-> es] : x \in begs, y \in ends,
              es \in {<<>>} \cup {<<c>> : c \in C} \cup {<<c, <<R(<<"b">>)>> >> : c \in C}}
    \cup {[k |-> "m", rows |-> rs] : rs \in {<<>>} \cup {<< <<c>> >> : c \in C}
              \cup {<< <<c, <<R(<<"b">>)>> >>, << <<R(<<"a">>)>>, c >> >> : c \in C}}
    \cup {[k |-> "func", fName |-> f, e |-> a] : f \in fns, a \in S}
    \cup {[k |-> "bar", e |-> a] : a \in S}
    \cup {[k |-> "acc", chr |-> h, e |-> a] : h \in chrA, a \in S}
    \cup {[k |-> "box", kids |-> c] : c \in C}

CW == Contents(TextsWide)
WideAll == IF ~Is({"wideN", "wideO"}) THEN {} ELSE Struct(Slots(CW) \cup DupSlots, CW, ChrNary, ChrAcc, BegSet, EndSet, FNamesWide)
Wide == {n \in WideAll : (n.k = "nary" /\ Is({"wideN"})) \/ (n.k # "nary" /\ Is({"wideO"}))}

CN == Contents(TextsNarrow)
NarrowAttrN == {NoEl, Val("U+2211")} \cup (IF Thorough THEN {NoVal} ELSE {})
NarrowAttrA == {NoEl, Val("U+0303")}
Narrow == {n \in Struct(Slots(CN), CN, NarrowAttrN, NarrowAttrA,
                           {NoEl, Val("[")} \cup (IF Thorough THEN {NoVal} ELSE {}),
                           {NoEl} \cup (IF Thorough THEN {Val("]")} ELSE {}), FNames) : Thorough \/ n.k # "sSub"}

\* depth 2: exactly one slot holds a narrow element (thorough: optionally with a run before /
\* after), the other slots are tiny
Inner == {<<n>> : n \in Narrow}
         \cup (IF Thorough THEN {<<R(<<"(">>), n>> : n \in Narrow} \cup {<<n, R(<<")">>)>> : n \in Narrow} ELSE {})
Tiny == {<<>>, << <<R(<<")">>)>> >>} \cup (IF Thorough THEN {<< <<R(<<"a">>)>> >>} ELSE {})
DeepS == {<<c>> : c \in Inner}
Deep1 == IF ~Is({"deep1"}) THEN {} ELSE
    {[k |-> "f", num |-> a, den |-> b] : a \in DeepS, b \in Tiny}
    \cup {[k |-> "f", num |-> b, den |-> a] : a \in DeepS, b \in Tiny}
    \cup {[k |-> "sSup", e |-> a, sup |-> b] : a \in DeepS, b \in Tiny}
    \cup {[k |-> "sSubSup", e |-> b, sub |-> a, sup |-> c] : a \in DeepS, b \in Tiny, c \in Tiny}
Deep2 == IF ~Is({"deep2"}) THEN {} ELSE
    {[k |-> "rad", deg |-> a, e |-> b] : a \in DeepS, b \in Tiny \cup {<< <<R(<<"(">>)>> >>}}
    \cup {[k |-> "rad", deg |-> b, e |-> a] : a \in DeepS, b \in Tiny}
    \cup {[k |-> "d", beg |-> x, end |-> NoEl, es |-> <<c>>] : x \in {NoEl, NoVal, Val("|")}, c \in Inner}
    \cup {[k |-> "m", rows |-> << <<c, <<R(<<"b">>)>> >> >>] : c \in Inner}
    \cup {[k |-> "func", fName |-> f, e |-> a] : f \in {<< <<R(<<"s", "i", "n">>)>> >>}, a \in DeepS}
    \cup {[k |-> "func", fName |-> a, e |-> b] : a \in DeepS, b \in Tiny}
    \cup {[k |-> "bar", e |-> a] : a \in DeepS}
    \cup {[k |-> "acc", chr |-> h, e |-> a] : h \in {NoEl, NoVal, Val("U+0304")}, a \in DeepS}
    \cup {[k |-> "box", kids |-> c] : c \in Inner}
Deep3 == IF ~Is({"deep3"}) THEN {} ELSE
    {[k |-> "nary", chr |-> h, sub |-> a, sup |-> <<>>, e |-> b] : h \in NarrowAttrN, a \in DeepS, b \in Tiny}
    \cup {[k |-> "nary", chr |-> h, sub |-> b, sup |-> <<>>, e |-> a] : h \in NarrowAttrN, a \in DeepS, b \in Tiny}

\* sequences of narrow elements: the register is shared by everything that follows a radical
PairSet == {n \in Narrow : n.k \in {"rad", "d", "f"} \cup (IF Thorough THEN {"sSup", "func", "acc", "bar", "box", "m"} ELSE {})}
           \cup (IF Thorough THEN {n \in Narrow : n.k = "nary" /\ n.sup = <<>>} ELSE {})
Rads == {n \in Narrow : n.k = "rad"}
Pairs == IF ~Is({"pairs"}) THEN {} ELSE {<<a, b>> : a \in PairSet, b \in PairSet}
RadsT == IF Thorough THEN Rads ELSE {n \in Rads : n.deg = <<>>}
Triples == IF Is({"triples"})
           THEN {<<a, b, c>> : a \in Rads, b \in RadsT \cup {R(<<"a", ")">>)}, c \in RadsT} ELSE {}

\* every character of the symbol table (and of the operator / accent tables) in a run, next to a
\* letter, as operand and as attribute value
SymChars == DOMAIN Sym \cup DOMAIN NaryOps \cup DOMAIN AccentOps
Symbols == IF ~Is({"symbols"}) THEN {} ELSE
    {<<R(<<a>>)>> : a \in SymChars} \cup {<<R(<<a, "a", a>>)>> : a \in SymChars}
    \cup {<<[k |-> "f", num |-> << <<R(<<a>>)>> >>, den |-> << <<R(<<"b", a>>)>> >>]>> : a \in SymChars}
    \cup {<<[k |-> "nary", chr |-> Val(a), sub |-> << <<R(<<a>>)>> >>, sup |-> <<>>, e |-> << <<R(<<"x">>)>> >>]>> : a \in SymChars}
    \cup {<<[k |-> "acc", chr |-> Val(a), e |-> << <<R(<<a>>)>> >>]>> : a \in SymChars}
    \cup {<<[k |-> "d", beg |-> Val(a), end |-> Val(a), es |-> << <<R(<<"x">>)>> >>]>> : a \in SymChars}
    \* malformed radical (both bracket kinds, with / without degree) continued by a run that holds
    \* the symbol before and after the closer
    \cup {<<[k |-> "rad", deg |-> dg, e |-> << <<R(<<b>>)>> >>], R(<<a, "+", a, Closer[b], a>>)>> :
             a \in SymChars, b \in {"(", "["}, dg \in {<<>>, << <<R(<<"3">>)>> >>}}
    \cup {<<[k |-> "f", num |-> << <<[k |-> "rad", deg |-> <<>>, e |-> << <<R(<<b>>)>> >>]>> >>,
                        den |-> << <<R(<<a, Closer[b], "x">>)>> >>]>> : a \in SymChars, b \in {"(", "["}}

\* blanks as run text at every position: blank-only runs (one / several blanks) between runs, first and
\* last in an operand, runs with leading / trailing blanks -- in every kind of element
CB == {<<R(<<"a">>), R(<<WS>>), R(<<"b">>)>>, <<R(<<WS, WS>>)>>, <<R(<<WS, "a">>)>>, <<R(<<"a", WS>>)>>,
       <<R(<<WS>>), R(<<"a">>)>>, <<R(<<"a">>), R(<<WS, WS>>)>>, <<R(<<"x">>), R(<<WS>>), R(<<"m", "o", "d">>), R(<<WS>>), R(<<"n">>)>>}
Blanks == IF ~Is({"blanks"}) THEN {} ELSE
    LET B == Struct({<<c>> : c \in CB}, CB, {NoEl, Val("U+2211")}, {Val("U+0303")}, {NoEl, Val("[")}, {NoEl}, FNames)
    IN {<<n>> : n \in B} \cup {c : c \in CB} \cup {<<R(<<"a">>), n, R(<<WS>>), R(<<"b">>)>> : n \in {m \in B : m.k \in {"f", "d", "bar"}}}

Universe == Symbols \cup Blanks \cup
    {<<n>> \o c : n \in Wide, c \in Closing}
    \cup (IF Is({"wideO"}) THEN {<<R(t)>> : t \in TextsWide} \cup {<<>>} ELSE {})
    \cup {<<n>> \o c : n \in Deep1 \cup Deep2 \cup Deep3, c \in Closing2}
    \cup {p \o c : p \in Pairs \cup Triples, c \in Closing2}

InitEnum == tree \in Universe /\ stk = <<>>
SpecEnum == InitEnum /\ [][UNCHANGED vars]_vars

\* THEOREM (reference design): total, documented shape, balanced -- on every tree
Inv_Clauses == Clauses(tree, Conv(tree))
Inv_Total == Total(Conv(tree))
Inv_Shape == Total(Conv(tree)) => Shape(tree, Conv(tree))
Inv_Balance == Total(Conv(tree)) => Balance(tree, Conv(tree))

(* ---- SpecBuild: random deeper trees for -simulate ---- *)
BTexts == TextsWide \cup {<<"[">>, <<"]">>, <<"x", "U+2264", "b">>, <<"U+03B1", ")", "b">>, <<"U+2264", "x", "]">>}
Top2 == stk[Len(stk)]
Below(k) == SubSeq(stk, 1, Len(stk) - k)
\* replace the k top contents by one content holding node n appended to the content below them
Fold(k, n) == LET base == Below(k + 1) IN
              Append(base, Append(stk[Len(stk) - k], n))
SlotOf(c, mode) == IF mode = 0 THEN <<>> ELSE IF mode = 1 THEN <<c>> ELSE <<c, <<R(<<"b">>)>> >>

InitBuild == tree = <<>> /\ stk = << <<>> >>
AddRun == /\ Len(Top2) < MaxLen
          /\ \E t \in BTexts : stk' = [stk EXCEPT ![Len(stk)] = Append(@, R(t))]
OpenContent == Len(stk) < MaxStack /\ stk' = Append(stk, <<>>)
Make1 == /\ Len(stk) >= 2 /\ Len(stk[Len(stk) - 1]) < MaxLen
         /\ \E m \in {0, 1, 2} : LET s == SlotOf(Top2, m) IN
            \E n \in {[k |-> "bar", e |-> s], [k |-> "box", kids |-> Top2]}
                     \cup {[k |-> "acc", chr |-> h, e |-> s] : h \in ChrAcc}
                     \cup {[k |-> "d", beg |-> x, end |-> y, es |-> IF m = 0 THEN <<>> ELSE IF m = 1 THEN <<Top2>> ELSE <<Top2, Top2>>]
                              : x \in BegSet, y \in EndSet}
                     \cup {[k |-> "m", rows |-> << <<Top2, <<R(<<"b">>)>> >>, <<Top2>> >>]} :
               stk' = Fold(1, n)
Make2 == /\ Len(stk) >= 3 /\ Len(stk[Len(stk) - 2]) < MaxLen
         /\ \E m1 \in {0, 1, 2}, m2 \in {0, 1, 2} :
            LET a == SlotOf(stk[Len(stk) - 1], m1)
                b == SlotOf(Top2, m2) IN
            \E n \in {[k |-> "f", num |-> a, den |-> b], [k |-> "sSup", e |-> a, sup |-> b],
                      [k |-> "sSub", e |-> a, sub |-> b], [k |-> "rad", deg |-> a, e |-> b],
                      [k |-> "func", fName |-> a, e |-> b]}
                     \cup {[k |-> "nary", chr |-> h, sub |-> a, sup |-> <<>>, e |-> b] : h \in ChrNary}
                     \cup {[k |-> "nary", chr |-> h, sub |-> <<>>, sup |-> a, e |-> b] : h \in ChrNary}
                     \cup {[k |-> "sSubSup", e |-> a, sub |-> b, sup |-> a]} :
               stk' = Fold(2, n)
NextBuild == (AddRun \/ OpenContent \/ Make1 \/ Make2) /\ UNCHANGED tree
SpecBuild == InitBuild /\ [][NextBuild]_vars
Inv_BuildClauses == \A i \in 1..Len(stk) : Clauses(stk[i], Conv(stk[i]))
=============================================================================
