------------------------------- MODULE MailGen -------------------------------
(* Enumerates the abstract messages replayed for C16 (one state = one message, `tlc -dump`) and
   checks on every one of them the body-selection theorem of Mail.tla.

   The full product of the dimensions is ~10^13; the generator is a COVER, stated exactly:
     for each base message b \in Bases (a minimal one, a rich one):
       K >= 1:  b with ONE dimension set to each value of its FULL domain
       K  = 2:  additionally b with every PAIR of dimensions set to every pair of values of
                their SMALL domains (pairwise cover around b)
   Dimensions: subj, from, to, cc, bcc, rt, date, mid, irt, bs (structure), bp (plain charset x
   CTE), bh (html charset x CTE), pf, att1, att2, nest, ser.                                  *)
EXTENDS Mail

CONSTANT K

VARIABLE m
gvars == <<m>>

SeqsUpTo(S, n) == UNION { [1..j -> S] : j \in 0..n }

ValidAtt(a) == (a.pl = "bin" => ~a.known)          \* no known MIME type stands for arbitrary bytes
NoAtt == [p |-> FALSE, fn |-> "none", ns |-> "plain", nx |-> "ext", known |-> FALSE, pl |-> "bin", cte |-> "base64"]
BaseAtt == [p |-> TRUE, fn |-> "ascii", ns |-> "plain", nx |-> "ext", known |-> TRUE, pl |-> "csv", cte |-> "base64"]
\* the attachment dimension is itself a cover (the product has ~10^4 values):
AttVals ==
    LET A1 == { [BaseAtt EXCEPT !.pl = x, !.nx = y] : x \in DocPayloads, y \in NameExts }        \* type x extension
        A2 == { [BaseAtt EXCEPT !.fn = f, !.ns = s] : f \in FnKinds \ {"none"}, s \in NameShapes } \* form x shape
        A3 == { [BaseAtt EXCEPT !.fn = "none", !.pl = x, !.known = k] : x \in Payloads, k \in BOOLEAN }
        A4 == { [BaseAtt EXCEPT !.known = FALSE, !.pl = x, !.nx = y] : x \in Payloads, y \in {"ext", "noext"} }
        A5 == { [BaseAtt EXCEPT !.cte = "qp", !.pl = x, !.fn = f] : x \in Payloads, f \in {"ascii", "rfc2231"} }
        A6 == { [BaseAtt EXCEPT !.ns = s, !.nx = y, !.pl = x] : s \in {"slash", "drive", "dot"}, y \in {"noext", "wrongext"},
                                                               x \in {"ods", "pdf"} }
    IN { a \in A1 \cup A2 \cup A3 \cup A4 \cup A5 \cup A6 : ValidAtt(a) }
AttSmall == { BaseAtt,
              [BaseAtt EXCEPT !.fn = "none", !.pl = "txt", !.cte = "qp"],
              [BaseAtt EXCEPT !.fn = "rfc2231", !.ns = "slash", !.pl = "docx"],
              [BaseAtt EXCEPT !.fn = "rfc2047", !.ns = "drive", !.known = FALSE, !.pl = "html"],
              [BaseAtt EXCEPT !.nx = "noext", !.pl = "ods"],
              [BaseAtt EXCEPT !.fn = "none", !.known = FALSE, !.pl = "bin"] }

Dims == {"subj", "from", "to", "cc", "bcc", "rt", "date", "mid", "irt", "bs", "bp", "bh", "pf",
         "att1", "att2", "nest", "ser"}

Full(d) ==
    CASE d = "subj" -> { [k |-> "none", e |-> "raw"] } \cup [k : TextKinds, e : Encs]
      [] d = "from" -> SeqsUpTo(NameKinds, 1)
      [] d = "to"   -> SeqsUpTo(NameKinds, 3)
      [] d \in {"cc", "bcc", "rt"} -> SeqsUpTo(NameKinds, 2)
      [] d = "date" -> { [p |-> FALSE, z |-> "utc", wd |-> TRUE] } \cup [p : {TRUE}, z : Zones, wd : BOOLEAN]
      [] d = "mid"  -> {"none", "plain", "folded"}
      [] d = "irt"  -> {"none", "plain", "folded"}
      [] d = "bs"   -> Structs
      [] d \in {"bp", "bh"} -> [c : Charsets, e : CTEs]
      [] d = "pf"   -> BOOLEAN
      [] d \in {"att1", "att2"} -> {NoAtt} \cup AttVals
      [] d = "nest" -> BOOLEAN
      [] d = "ser"  -> Sers

Small(d) ==
    CASE d = "subj" -> { [k |-> "none", e |-> "raw"], [k |-> "ascii", e |-> "folded"], [k |-> "latin1", e |-> "q"],
                         [k |-> "utf8", e |-> "raw"], [k |-> "cjk", e |-> "b"], [k |-> "utf8", e |-> "folded"] }
      [] d = "from" -> { <<>>, <<"none">>, <<"quoted">>, <<"encb">> }
      [] d = "to"   -> { <<>>, <<"none", "quoted">>, <<"encq", "atom", "encb">> }
      [] d \in {"cc", "bcc", "rt"} -> { <<>>, <<"quoted", "none">>, <<"encb">> }
      [] d = "date" -> { [p |-> FALSE, z |-> "utc", wd |-> TRUE], [p |-> TRUE, z |-> "west", wd |-> FALSE],
                         [p |-> TRUE, z |-> "half", wd |-> TRUE] }
      [] d = "mid"  -> {"none", "folded"}
      [] d = "irt"  -> {"none", "plain"}
      [] d = "bs"   -> Structs
      [] d \in {"bp", "bh"} -> { [c |-> "ascii", e |-> "7bit"], [c |-> "utf8", e |-> "base64"],
                                 [c |-> "latin1", e |-> "qp"], [c |-> "koi8r", e |-> "7bit"] }
      [] d = "pf"   -> BOOLEAN
      [] d \in {"att1", "att2"} -> {NoAtt} \cup AttSmall
      [] d = "nest" -> BOOLEAN
      [] d = "ser"  -> Sers

With(b, d, x) ==
    CASE d = "subj" -> [b EXCEPT !.subj = x]
      [] d = "from" -> [b EXCEPT !.from = x]
      [] d = "to"   -> [b EXCEPT !.to = x]
      [] d = "cc"   -> [b EXCEPT !.cc = x]
      [] d = "bcc"  -> [b EXCEPT !.bcc = x]
      [] d = "rt"   -> [b EXCEPT !.rt = x]
      [] d = "date" -> [b EXCEPT !.date = x]
      [] d = "mid"  -> [b EXCEPT !.mid = x]
      [] d = "irt"  -> [b EXCEPT !.irt = x]
      [] d = "bs"   -> [b EXCEPT !.body.s = x]
      [] d = "bp"   -> [b EXCEPT !.body.pc = x.c, !.body.pe = x.e]
      [] d = "bh"   -> [b EXCEPT !.body.hc = x.c, !.body.he = x.e]
      [] d = "pf"   -> [b EXCEPT !.body.pf = x]
      [] d = "att1" -> [b EXCEPT !.att1 = x]
      [] d = "att2" -> [b EXCEPT !.att2 = x]
      [] d = "nest" -> [b EXCEPT !.nest = x]
      [] d = "ser"  -> [b EXCEPT !.ser = x]

BaseSimple ==
    [ subj |-> [k |-> "ascii", e |-> "raw"], from |-> <<"atom">>, to |-> <<"none">>,
      cc |-> <<>>, bcc |-> <<>>, rt |-> <<>>,
      date |-> [p |-> TRUE, z |-> "utc", wd |-> TRUE], mid |-> "plain", irt |-> "none",
      body |-> [s |-> "plain", pc |-> "ascii", pe |-> "7bit", hc |-> "ascii", he |-> "7bit", pf |-> FALSE],
      att1 |-> NoAtt, att2 |-> NoAtt, nest |-> FALSE, ser |-> "hand" ]

BaseRich ==
    [ subj |-> [k |-> "utf8", e |-> "b"], from |-> <<"encq">>, to |-> <<"quoted", "encb">>,
      cc |-> <<"atom">>, bcc |-> <<"none">>, rt |-> <<"quoted">>,
      date |-> [p |-> TRUE, z |-> "east", wd |-> TRUE], mid |-> "plain", irt |-> "plain",
      body |-> [s |-> "altrel", pc |-> "utf8", pe |-> "qp", hc |-> "latin1", he |-> "base64", pf |-> TRUE],
      att1 |-> BaseAtt,
      att2 |-> [BaseAtt EXCEPT !.fn = "rfc2231", !.known = FALSE, !.pl = "bin"],
      nest |-> FALSE, ser |-> "handcrlf" ]

Bases == {BaseSimple, BaseRich}

One(b) == UNION { { With(b, d, x) : x \in Full(d) } : d \in Dims }
Two(b) == UNION { UNION { { With(With(b, d1, x), d2, y) : x \in Small(d1), y \in Small(d2) }
                          : d2 \in Dims \ {d1} } : d1 \in Dims }

Cases == UNION { One(b) \cup (IF K >= 2 THEN Two(b) ELSE {}) : b \in Bases }

Init == m \in Cases
Next == UNCHANGED m
Spec == Init /\ [][Next]_gvars

\* theorem: the transcribed body-selection walk returns the declared bodies on every message
Inv_BodySelection == BodySelectionCorrect(m)
=============================================================================
