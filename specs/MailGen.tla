------------------------------- MODULE MailGen -------------------------------
(* Enumerates the abstract messages replayed for C16 (one state = one message, `tlc -dump`) and
   checks on every one of them the body-selection theorem of Mail.tla.

   The full product of the dimensions is ~10^13; the generator is a COVER, stated exactly:
     for each base message b \in Bases (a minimal one, a rich one):
       K >= 1:  b with ONE dimension set to each value of its FULL domain
       K  = 2:  additionally b with every PAIR of dimensions set to every pair of values of
                their SMALL domains (pairwise cover around b)
   Dimensions: subj, from, to, cc, bcc, rt, date, mid, irt, bs (structure), bp (plain charset x
   CTE), bh (html charset x CTE), pf, bx (further plain-text body candidates), att1, att2, att3, nest, ser;
   + Mix: up to three attachments, supported and unsupported ones in every order.
   The attachment dimension is itself a cover (AttVals); messages that Mail!ValidBody / ValidAtt
   exclude are dropped.                                  *)
EXTENDS Mail

CONSTANT K

VARIABLE m
gvars == <<m>>

SeqsUpTo(S, n) == UNION { [1..j -> S] : j \in 0..n }

NoAtt == [p |-> FALSE, fn |-> "none", ns |-> "plain", nx |-> "ext", mt |-> "invented", pl |-> "bin", cte |-> "base64",
          disp |-> "attachment", cid |-> FALSE, desc |-> FALSE, xid |-> FALSE, loc |-> FALSE]
BaseAtt == [p |-> TRUE, fn |-> "ascii", ns |-> "plain", nx |-> "ext", mt |-> "official", pl |-> "csv", cte |-> "base64",
            disp |-> "attachment", cid |-> FALSE, desc |-> FALSE, xid |-> FALSE, loc |-> FALSE]
\* the attachment dimension is itself a cover (the product has ~10^6 values):
AttVals ==
    LET A1 == { [BaseAtt EXCEPT !.pl = x, !.nx = y] : x \in SuppPayloads, y \in NameExts }       \* type x extension
        A2 == { [BaseAtt EXCEPT !.fn = f, !.ns = s] : f \in FnKinds \ {"none"}, s \in NameShapes } \* form x shape
        A3 == { [BaseAtt EXCEPT !.fn = "none", !.pl = x, !.mt = t] : x \in Payloads, t \in {"official", "invented"} }
        \* declared type x payload (x own / no extension for the types the table maps)
        A4 == { [BaseAtt EXCEPT !.mt = t, !.pl = x, !.nx = y] : t \in {"alias", "cross"}, x \in Payloads, y \in {"ext", "noext"} }
              \cup { [BaseAtt EXCEPT !.mt = t, !.pl = x] : t \in {"octet", "plausible", "invented"}, x \in Payloads }
        A5 == { [BaseAtt EXCEPT !.cte = "qp", !.pl = x, !.fn = f] : x \in Payloads, f \in {"ascii", "rfc2231"} }
        A6 == { [BaseAtt EXCEPT !.ns = s, !.nx = y, !.pl = x] : s \in {"slash", "drive", "dot"}, y \in {"noext", "wrongext"},
                                                               x \in {"ods", "pdf"} }
        \* optional part headers, drawn independently
        A7 == { [BaseAtt EXCEPT !.disp = d, !.cid = c, !.desc = e, !.xid = i, !.loc = l] :
                  d \in Disps, c \in BOOLEAN, e \in BOOLEAN, i \in BOOLEAN, l \in BOOLEAN }
        A8 == { [BaseAtt EXCEPT !.pl = x, !.cid = TRUE, !.disp = d] : x \in {"docx", "pdf", "zip"}, d \in Disps }
    IN { a \in A1 \cup A2 \cup A3 \cup A4 \cup A5 \cup A6 \cup A7 \cup A8 : ValidAtt(a) }
AttSmall == { BaseAtt,
              [BaseAtt EXCEPT !.fn = "none", !.pl = "txt", !.cte = "qp"],
              [BaseAtt EXCEPT !.fn = "rfc2231", !.ns = "slash", !.pl = "docx", !.cid = TRUE],
              [BaseAtt EXCEPT !.fn = "rfc2047", !.ns = "drive", !.mt = "invented", !.pl = "html"],
              [BaseAtt EXCEPT !.nx = "noext", !.pl = "ods", !.disp = "inline"],
              [BaseAtt EXCEPT !.mt = "alias", !.pl = "zip", !.xid = TRUE],
              [BaseAtt EXCEPT !.fn = "none", !.mt = "octet", !.pl = "bin"] }

Dims == {"subj", "from", "to", "cc", "bcc", "rt", "date", "mid", "irt", "bs", "bp", "bh", "pf", "bx",
         "att1", "att2", "att3", "nest", "ser"}

Full(d) ==
    CASE d = "subj" -> { [k |-> "none", e |-> "raw"] } \cup [k : TextKinds, e : Encs]
      [] d = "from" -> SeqsUpTo(NameKinds, 1)
      [] d = "to"   -> SeqsUpTo(NameKinds, 3)
      [] d \in {"cc", "bcc", "rt"} -> SeqsUpTo(NameKinds, 2)
      [] d = "date" -> { [p |-> FALSE, z |-> "utc", wd |-> TRUE] } \cup [p : {TRUE}, z : Zones, wd : BOOLEAN]
      [] d = "mid"  -> {"none", "plain", "folded"}
      [] d = "irt"  -> {"none", "plain", "folded"}
      [] d = "bs"   -> Structs
      [] d \in {"bp", "bh"} -> [c : Charsets, e : CTEs]
      [] d = "pf"   -> BOOLEAN
      [] d = "bx"   -> Extras
      [] d \in {"att1", "att2"} -> {NoAtt} \cup AttVals
      [] d = "att3" -> {NoAtt} \cup AttSmall
      [] d = "nest" -> BOOLEAN
      [] d = "ser"  -> Sers

Small(d) ==
    CASE d = "subj" -> { [k |-> "none", e |-> "raw"], [k |-> "ascii", e |-> "folded"], [k |-> "latin1", e |-> "q"],
                         [k |-> "utf8", e |-> "raw"], [k |-> "cjk", e |-> "b"], [k |-> "utf8", e |-> "folded"] }
      [] d = "from" -> { <<>>, <<"none">>, <<"quoted">>, <<"encb">> }
      [] d = "to"   -> { <<>>, <<"none", "quoted">>, <<"encq", "atom", "encb">> }
      [] d \in {"cc", "bcc", "rt"} -> { <<>>, <<"quoted", "none">>, <<"encb">> }
      [] d = "date" -> { [p |-> FALSE, z |-> "utc", wd |-> TRUE], [p |-> TRUE, z |-> "west", wd |-> FALSE],
                         [p |-> TRUE, z |-> "half", wd |-> TRUE] }
      [] d = "mid"  -> {"none", "folded"}
      [] d = "irt"  -> {"none", "plain"}
      [] d = "bs"   -> Structs
      [] d \in {"bp", "bh"} -> { [c |-> "ascii", e |-> "7bit"], [c |-> "utf8", e |-> "base64"],
                                 [c |-> "latin1", e |-> "qp"], [c |-> "koi8r", e |-> "7bit"] }
      [] d = "pf"   -> BOOLEAN
      [] d = "bx"   -> Extras
      [] d \in {"att1", "att2", "att3"} -> {NoAtt} \cup AttSmall
      [] d = "nest" -> BOOLEAN
      [] d = "ser"  -> Sers

With(b, d, x) ==
    CASE d = "subj" -> [b EXCEPT !.subj = x]
      [] d = "from" -> [b EXCEPT !.from = x]
      [] d = "to"   -> [b EXCEPT !.to = x]
      [] d = "cc"   -> [b EXCEPT !.cc = x]
      [] d = "bcc"  -> [b EXCEPT !.bcc = x]
      [] d = "rt"   -> [b EXCEPT !.rt = x]
      [] d = "date" -> [b EXCEPT !.date = x]
      [] d = "mid"  -> [b EXCEPT !.mid = x]
      [] d = "irt"  -> [b EXCEPT !.irt = x]
      [] d = "bs"   -> [b EXCEPT !.body.s = x]
      [] d = "bp"   -> [b EXCEPT !.body.pc = x.c, !.body.pe = x.e]
      [] d = "bh"   -> [b EXCEPT !.body.hc = x.c, !.body.he = x.e]
      [] d = "pf"   -> [b EXCEPT !.body.pf = x]
      [] d = "bx"   -> [b EXCEPT !.body.x = x]
      [] d = "att1" -> [b EXCEPT !.att1 = x]
      [] d = "att2" -> [b EXCEPT !.att2 = x]
      [] d = "att3" -> [b EXCEPT !.att3 = x]
      [] d = "nest" -> [b EXCEPT !.nest = x]
      [] d = "ser"  -> [b EXCEPT !.ser = x]

BaseSimple ==
    [ subj |-> [k |-> "ascii", e |-> "raw"], from |-> <<"atom">>, to |-> <<"none">>,
      cc |-> <<>>, bcc |-> <<>>, rt |-> <<>>,
      date |-> [p |-> TRUE, z |-> "utc", wd |-> TRUE], mid |-> "plain", irt |-> "none",
      body |-> [s |-> "plain", pc |-> "ascii", pe |-> "7bit", hc |-> "ascii", he |-> "7bit", pf |-> FALSE, x |-> "none"],
      att1 |-> NoAtt, att2 |-> NoAtt, att3 |-> NoAtt, nest |-> FALSE, ser |-> "hand" ]

BaseRich ==
    [ subj |-> [k |-> "utf8", e |-> "b"], from |-> <<"encq">>, to |-> <<"quoted", "encb">>,
      cc |-> <<"atom">>, bcc |-> <<"none">>, rt |-> <<"quoted">>,
      date |-> [p |-> TRUE, z |-> "east", wd |-> TRUE], mid |-> "plain", irt |-> "plain",
      body |-> [s |-> "altrel", pc |-> "utf8", pe |-> "qp", hc |-> "latin1", he |-> "base64", pf |-> TRUE, x |-> "none"],
      att1 |-> BaseAtt,
      att2 |-> [BaseAtt EXCEPT !.fn = "rfc2231", !.mt = "invented", !.pl = "bin"], att3 |-> NoAtt,
      nest |-> FALSE, ser |-> "handcrlf" ]

Bases == {BaseSimple, BaseRich}

One(b) == UNION { { With(b, d, x) : x \in Full(d) } : d \in Dims }
          \cup { With(With(b, "bs", s), "bx", x) : s \in Structs, x \in Extras }       \* structure x extra candidates
          \cup { With(With(b, "bx", x), "att1", a) : x \in Extras \ {"none"},            \* extras x text attachments
                  a \in { [BaseAtt EXCEPT !.pl = "txt"], [BaseAtt EXCEPT !.pl = "txt", !.fn = "none"],
                          [BaseAtt EXCEPT !.pl = "html"] } }
Two(b) == UNION { UNION { { With(With(b, d1, x), d2, y) : x \in Small(d1), y \in Small(d2) }
                          : d2 \in Dims \ {d1} } : d1 \in Dims }

ValidMsg(c) == ValidBody(c.body) /\ ValidAtt(c.att1) /\ ValidAtt(c.att2) /\ ValidAtt(c.att3)
\* supported and unsupported attachments in every order: (u, s), (s, u), (s, u, s), (u, s, u), ...
SuppMix == { BaseAtt, [BaseAtt EXCEPT !.pl = "docx", !.fn = "rfc2231"], [BaseAtt EXCEPT !.pl = "zip", !.mt = "alias", !.nx = "noext"] }
UnsuppMix == { [BaseAtt EXCEPT !.pl = "bin", !.mt = "octet"], [BaseAtt EXCEPT !.pl = "pdf", !.mt = "plausible"],
               [BaseAtt EXCEPT !.pl = "html", !.mt = "invented", !.fn = "none"] }
Mix(b) == { [b EXCEPT !.att1 = x, !.att2 = y, !.att3 = z] :
              x \in SuppMix \cup UnsuppMix, y \in SuppMix \cup UnsuppMix, z \in {NoAtt} \cup SuppMix \cup UnsuppMix }

Cases == { c \in UNION { One(b) \cup Mix(b) \cup (IF K >= 2 THEN Two(b) ELSE {}) : b \in Bases } : ValidMsg(c) }

Init == m \in Cases
Next == UNCHANGED m
Spec == Init /\ [][Next]_gvars

\* theorem: the transcribed body-selection walk returns the declared bodies on every message
Inv_BodySelection == BodySelectionCorrect(m)
=============================================================================
