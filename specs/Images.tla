------------------------------- MODULE Images -------------------------------
(* C14 -- images are returned bit-exact, numbered, on the right unit.

   CASE (what the document is; the harness renders exactly this, TLC reads it as the trace header):
     [fmt     |-> "pptx",
      base    |-> <<"ppt", "slides">>,          directory (path segments) of the part that carries the
                                                relationships / hrefs of the anchors
      media   |-> << [part |-> <<"ppt","media","i1.png">>, kind |-> "png", w |-> 5, h |-> 4,
                      fill |-> FALSE (JPEG with 0xFF fill bytes before markers), noext |-> FALSE (name without extension)] .. >>,
                                                the image parts present in the package; the index in this
                                                sequence is the "media index" the projection maps sha256 to
      anchors |-> << [unit  |-> 1,              page / slide / sheet the anchor sits on (1 for flow formats)
                      cands |-> << T .. >>,     the relationship(s) carrying the anchor's id: exactly one, or
                                                two for a duplicated rId (invalid package: either may win)
                      nest |-> "g",             grouping construct around the anchor ("" = none): never changes the result
                      ref |-> 1,                identity of the reference (relationship id / href / manifest item):
                                                anchors with equal ref share ONE reference
                      fw |-> 40, fh |-> 24]     display size of the frame in CSS px (ODF, XLSX extent), 0 elsewhere
                     .. >>,                     in DOCUMENT ORDER
      order   |-> <<2, 1>>]                     anchor indices in CONTAINER order (relationship file /
                                                OPF manifest order); only deviations read it
     T = [mode |-> "embed" | "external" | "inline", abs |-> BOOLEAN, segs |-> <<segment ..>>, to |-> n]
         embed   : a relative (abs = FALSE) or absolute (abs = TRUE, "/a/b") reference made of path segments
         external: TargetMode="External" / http(s) href: the bytes are not in the document
         inline  : the format embeds the bytes at the anchor (PDF XObject, RTF \pict): to = media index
   A "missing" image is an embed whose path denotes no part.

   OBSERVATION (projection of the real result; sha256 of get_bytes() mapped to the media index in Python):
     rec = [m |-> media index | 0 (bytes equal to no part), e |-> TRUE iff no bytes at all,
            ct |-> content type, w |-> width | 0, h |-> height | 0 (0 = None),
            n |-> image_number, u |-> unit_number | 0 (None)]
     D = << rec .. >> from iterate_images();  U = << [n |-> unit_number, imgs |-> << rec .. >>] .. >> from
     iterate_units() / get_images().

   DECLARATIVE PART  Prop_Images(case, D, U, Dev) with Dev = {}:
     * what a reference denotes is RFC 3986 5.2 on path segments (Denotes): merge with the base unless
       absolute, delete "." segments and "seg/.." pairs, ".." at the root stays at the root;
     * there is an assignment pos of anchors to positions of D, strictly increasing in document order, such
       that the record at pos(i) carries the bytes of a part anchor i denotes, the content type of that
       part's kind, its declared pixel size, and -- formats with numbered pages/slides -- the anchor's unit;
       an anchor stays unassigned iff it denotes nothing (missing, external) or -- formats that return a
       reference once -- an earlier anchor of the same reference was returned; D[p].n = p (running 1..n);
     * nothing else is in D, except parts that are in the package but not anchored (DON'T-CARE);
     * every image of a unit view is a record of D (inclusion), and for page / slide / sheet formats the
       view of unit k is exactly the records assigned to anchors on unit k, in order.
   FROZEN as-built (text silent, library consistent per format): a shared part is one image per reference in
     DOCX / ODT / ODG / EPUB and one image per anchor elsewhere (OncePerRef).
   DON'T-CARE (documentation silent): unanchored parts;
     which relationship wins for a duplicated rId; content type of raw (FlateDecode) PDF samples (a JPEG
     is image/jpeg whatever /Filter form or cascade wraps it: the LAST filter names the data);
     unit_number of sheet formats (documented None) and of flow formats; "image/x-ms-bmp" for BMP.

   ALGORITHM-SHAPED PART  (Start / Step / Resolved): relationship-target normalisation as a path-segment
   stack machine -- the reference design of pptx_extractor._normalize_relative_path and its siblings
   docx_extractor._extract_images_from_context ("word/" + target), xlsx_extractor._resolve_image_path,
   epub_extractor._EpubContext.resolve_href, ODF ctx.exists(href) -- with one named deviation per wrong
   step found in the code.  ImagesGen.tla drives it one segment per action together with the numbering
   counter (document-level running number vs per-slide / per-page counters) and TLC checks the machine's
   output against Prop_Images on every case of the bounded universe.                                     *)
EXTENDS Naturals, Sequences, FiniteSets, TLC

Range(s) == { s[i] : i \in DOMAIN s }
Front(s) == SubSeq(s, 1, Len(s) - 1)
Last(s) == s[Len(s)]
RemoveAt(s, i) == SubSeq(s, 1, i - 1) \o SubSeq(s, i + 1, Len(s))

DeviationNames ==
  { \* resolution steps
    "Pptx!AbsoluteUnderBase",        \* "/ppt/media/x" looked up as <slide dir>/ppt/media/x
    "Pptx!DotSegmentKept",           \* "." pushed like a name
    "Pptx!MixedDotDotDropped",       \* "a/../b": the ".." is deleted instead of applied
    "Docx!PrefixOnly",               \* "word/" + target, no resolution at all
    "Xlsx!BasenameUnderMedia",       \* xl/media/<basename of target> whatever the directory says
    "Epub!HrefConcat",               \* opf_dir + href, dot segments kept
    "Odf!HrefVerbatim",              \* href used as the ZIP member name, dot segments kept
    \* numbering / order
    "Pptx!ImageNumberRestartsPerSlide", "Pdf!ImageNumberRestartsPerPage",
    "Ods!MissingCountsInNumbering",  \* the counter also counts frames whose part is absent
    "Docx!RelationshipOrder",        \* images in relationship-file order, not document order
    "Epub!ManifestOrder",            \* images in OPF manifest order, not document order
    \* repaired steps that only the binding can show (the writers vary anchor types, extents, part numbering,
    \* hex line length): named here for the findings / fix records, no operator reads them
    "Xlsx!GroupedByAnchorType",      \* oneCell anchors before twoCell anchors, whatever the drawing order
    "Xlsx!DrawingBySheetFileNumber", \* drawing of sheet k looked up as sheet<k>.xml.rels, not via workbook.xml
    "Xlsx!DisplayExtentAsPixelSize", \* xdr:ext in EMU / 9525 reported instead of the file's pixel size
    \* what is returned
    "Odf!ExternalLinkReturnedEmpty", \* http(s) href -> an image record without bytes
    "Odg!MissingReturnedEmpty",      \* absent part -> an image record without bytes
    "Odf!FrameSizeAsPixelSize",      \* width/height = display size of the frame, not the file's pixels
    "Epub!NoPixelSize",              \* width/height never filled
    "Rtf!GoalAsTwips",               \* \picw/\pich (pixels for bitmaps) divided by 15
    "Rtf!FirstHexRunOnly",           \* only the first line of the hex dump is decoded (binding level)
    "Ppt!UnitViewsOmitImages",
    "Shared!ReferenceReturnedAgain", \* a reference anchored twice is returned twice in a once-per-reference format
    "Ooxml!JpegFillBytesNotSkipped", \* docx/pptx/xlsx sniffer copies: 0xFF fill bytes before a marker end the scan
    "Name!ContentTypeFromExtension", \* a part without extension gets a content type made from its name
    "Xlsx!GroupedPictureSkipped",    \* xdr:pic inside xdr:grpSp of an anchor is not found
    "Odp!GroupedFrameSkipped",       \* frames inside draw:g are not visited
    "Docx!NestedAnchorsLast"         \* drawings in table cells / block content controls numbered after all others
  }

Odf == {"odt", "odp", "ods", "odg"}
UnitNumbered == {"pptx", "odp", "pdf", "rtf", "ppt"}    \* image metadata carries the page / slide number
SheetFormats == {"xlsx", "ods", "xls"}                   \* unit_number documented as None for sheets
UnitFormats == UnitNumbered \cup SheetFormats            \* unit views partition the document view

ContentTypes(kind) ==
    CASE kind = "png"  -> {"image/png"}
      [] kind = "jpeg" -> {"image/jpeg"}
      [] kind = "gif"  -> {"image/gif"}
      [] kind = "bmp"  -> {"image/bmp", "image/x-ms-bmp"}
      [] OTHER         -> {}                        \* raw samples: DON'T-CARE (see CtOK)
CtOK(kind, ct) == kind = "raw" \/ ct \in ContentTypes(kind)

\* The content type is the kind's canonical type whatever the part is CALLED: upper / mixed-case extensions
\* (PHOTO.JPG), double extensions (a.tar.png).  As-built, a part without any extension gets a string made from
\* its name ("image/media/image1", "image/unknown", "application/octet-stream"): Name!ContentTypeFromExtension.
NameTyped == {"docx", "pptx", "xlsx", "odt", "odp", "ods", "odg"}      \* content type derived from the part name
CtOKm(case, m, ct, Dev) ==
    \/ CtOK(case.media[m].kind, ct)
    \/ "Name!ContentTypeFromExtension" \in Dev /\ case.fmt \in NameTyped /\ case.media[m].noext

\* SHARED PARTS.  The property text leaves open whether a part referenced by several anchors is one image or
\* several; the library answers per format and that answer is frozen here (regression oracle, as-built + README):
\*   once per REFERENCE (anchors with the same a.ref: same relationship id in DOCX, same href in ODT / ODG, same
\*   manifest item in EPUB) -- one image, the later anchors of that reference return nothing;
\*   every other format (PPTX, XLSX, ODP, ODS, PDF, RTF): one image per anchor.
\* Two different references to the same part are two images everywhere.
OncePerRef == {"docx", "odt", "odg", "epub"}

(* ------------------------------------------------------------------ declarative path semantics *)
RECURSIVE NF(_)
NF(p) ==
    IF \E i \in DOMAIN p : p[i] \in {".", ""}
    THEN NF(RemoveAt(p, CHOOSE i \in DOMAIN p : p[i] \in {".", ""}))
    ELSE IF \E i \in 1..(Len(p) - 1) : p[i] # ".." /\ p[i + 1] = ".."
    THEN LET i == CHOOSE j \in 1..(Len(p) - 1) : p[j] # ".." /\ p[j + 1] = ".."
         IN NF(RemoveAt(RemoveAt(p, i), i))
    ELSE IF p # <<>> /\ p[1] = ".." THEN NF(Tail(p))
    ELSE p

Denotes(base, t) == NF(IF t.abs THEN t.segs ELSE base \o t.segs)

MediaAt(case, p) ==
    IF \E m \in DOMAIN case.media : case.media[m].part = p
    THEN CHOOSE m \in DOMAIN case.media : case.media[m].part = p
    ELSE 0

(* ------------------------------------------------------------------ the segment machine *)
NotDots(segs) == SelectSeq(segs, LAMBDA s : s # ".." /\ s # "")

\* where the walk starts and which segments it will consume
Start(base, t, Dev) ==
    IF "Docx!PrefixOnly" \in Dev \/ "Epub!HrefConcat" \in Dev \/ "Odf!HrefVerbatim" \in Dev
    THEN [stk |-> (IF t.abs /\ "Epub!HrefConcat" \in Dev THEN <<>> ELSE base)
                   \o (IF t.abs /\ "Docx!PrefixOnly" \in Dev THEN <<"">> ELSE <<>>), rest |-> t.segs, raw |-> TRUE]
    ELSE IF "Xlsx!BasenameUnderMedia" \in Dev
    THEN IF t.abs THEN [stk |-> <<>>, rest |-> t.segs, raw |-> TRUE]
         ELSE [stk |-> Front(base) \o <<"media">>, rest |-> <<Last(t.segs)>>, raw |-> TRUE]
    ELSE IF t.abs
    THEN IF "Pptx!AbsoluteUnderBase" \in Dev THEN [stk |-> base, rest |-> NotDots(t.segs), raw |-> TRUE]
         ELSE [stk |-> <<>>, rest |-> t.segs, raw |-> FALSE]
    ELSE IF "Pptx!MixedDotDotDropped" \in Dev /\ ".." \in Range(t.segs) /\ t.segs[1] # ".."
    THEN [stk |-> base, rest |-> NotDots(t.segs), raw |-> TRUE]
    ELSE [stk |-> base, rest |-> t.segs, raw |-> FALSE]

\* one segment (raw = the code path that copies segments without interpreting them)
Step(stk, seg, raw, Dev) ==
    IF raw THEN Append(stk, seg)
    ELSE IF seg = ".." THEN (IF stk = <<>> THEN <<>> ELSE Front(stk))
    ELSE IF seg = "" THEN stk
    ELSE IF seg = "." THEN (IF "Pptx!DotSegmentKept" \in Dev THEN Append(stk, ".") ELSE stk)
    ELSE Append(stk, seg)

RECURSIVE Walk(_, _, _, _)
Walk(stk, rest, raw, Dev) == IF rest = <<>> THEN stk ELSE Walk(Step(stk, Head(rest), raw, Dev), Tail(rest), raw, Dev)

Resolved(base, t, Dev) == LET s == Start(base, t, Dev) IN Walk(s.stk, s.rest, s.raw, Dev)

ResolutionDevs == {"Pptx!AbsoluteUnderBase", "Pptx!DotSegmentKept", "Pptx!MixedDotDotDropped", "Docx!PrefixOnly",
                   "Xlsx!BasenameUnderMedia", "Epub!HrefConcat", "Odf!HrefVerbatim"}

\* media index a target stands for (0 = none): declarative when no resolution deviation is on
Target(case, t, Dev) ==
    CASE t.mode = "inline" -> t.to
      [] t.mode = "embed"  -> MediaAt(case, IF Dev \cap ResolutionDevs = {} THEN Denotes(case.base, t)
                                            ELSE Resolved(case.base, t, Dev))
      [] OTHER             -> 0

\* a.nest names the grouping construct the anchor sits in ("" = directly on the page / in the body): shape groups
\* (ODF draw:g, PPTX p:grpSp, XLSX xdr:grpSp, DOCX wpg), table cells, content controls, text boxes, figure / a / td,
\* RTF \shp and cells.  It changes NOTHING in what must be returned.  As-built, two walkers do not look into groups:
Skipped(case, a, Dev) ==
    \/ "Xlsx!GroupedPictureSkipped" \in Dev /\ case.fmt = "xlsx" /\ a.nest # ""
    \/ "Odp!GroupedFrameSkipped" \in Dev /\ case.fmt = "odp" /\ a.nest # ""

Parts(case, a, Dev) == IF Skipped(case, a, Dev) THEN {0} ELSE { Target(case, a.cands[k], Dev) : k \in DOMAIN a.cands }
IsExternal(a) == \A k \in DOMAIN a.cands : a.cands[k].mode = "external"

(* ------------------------------------------------------------------ the property *)
\* iteration order of the anchors: document order, unless a container-order deviation is on
DocOrder(case) == [i \in DOMAIN case.anchors |-> i]
\* DOCX as-built: only drawings below the body's own paragraphs are put in document order; those in table cells
\* and block-level content controls follow in relationship-file order
DocxDeep(a) == a.nest \in {"tc", "sdt"}
Iter(case, Dev) ==
    IF ("Docx!RelationshipOrder" \in Dev /\ case.fmt = "docx") \/ ("Epub!ManifestOrder" \in Dev /\ case.fmt = "epub")
    THEN case.order
    ELSE IF "Docx!NestedAnchorsLast" \in Dev /\ case.fmt = "docx"
    THEN SelectSeq(DocOrder(case), LAMBDA i : ~DocxDeep(case.anchors[i]))
         \o SelectSeq(case.order, LAMBDA i : DocxDeep(case.anchors[i]))
    ELSE DocOrder(case)

\* as-built: an anchor that is returned as a record without bytes
MustBeEmpty(case, a, Dev) ==
    \/ "Odf!ExternalLinkReturnedEmpty" \in Dev /\ case.fmt \in Odf /\ IsExternal(a) /\ ~Skipped(case, a, Dev)
    \/ "Odg!MissingReturnedEmpty" \in Dev /\ case.fmt = "odg" /\ ~IsExternal(a) /\ Parts(case, a, Dev) = {0}

DimsOK(case, a, rec, Dev) ==
    IF "Odf!FrameSizeAsPixelSize" \in Dev /\ case.fmt \in Odf THEN rec.w = a.fw /\ rec.h = a.fh
    ELSE IF "Epub!NoPixelSize" \in Dev /\ case.fmt = "epub" THEN rec.w = 0 /\ rec.h = 0
    ELSE IF rec.e THEN TRUE
    ELSE IF "Ooxml!JpegFillBytesNotSkipped" \in Dev /\ case.fmt \in {"docx", "pptx", "xlsx"} /\ case.media[rec.m].fill
         THEN rec.w = a.fw /\ rec.h = a.fh       \* sniffer gives up: nothing (XLSX: the anchor's display extent)
    ELSE IF "Rtf!GoalAsTwips" \in Dev /\ case.fmt = "rtf"
         THEN rec.w = case.media[rec.m].w \div 15 /\ rec.h = case.media[rec.m].h \div 15
    ELSE rec.w = case.media[rec.m].w /\ rec.h = case.media[rec.m].h

UnitOK(case, a, rec) ==
    IF case.fmt \in UnitNumbered THEN rec.u = a.unit
    ELSE IF case.fmt \in SheetFormats THEN rec.u \in {0, a.unit}
    ELSE TRUE

\* record rec is what anchor a must produce
RecOK(case, a, rec, Dev) ==
    /\ IF MustBeEmpty(case, a, Dev)
       THEN rec.e /\ rec.ct = ""
       ELSE ~rec.e /\ rec.m # 0 /\ rec.m \in Parts(case, a, Dev) /\ CtOKm(case, rec.m, rec.ct, Dev)
    /\ DimsOK(case, a, rec, Dev)
    /\ UnitOK(case, a, rec)

Anchored(case, Dev) == UNION { Parts(case, case.anchors[i], Dev) : i \in DOMAIN case.anchors } \ {0}

\* record at a position no anchor is assigned to: only a part that is in the package but not anchored
ExtraOK(case, rec, Dev) == ~rec.e /\ rec.m # 0 /\ rec.m \notin Anchored(case, Dev)

\* numbers: running 1..n; as-built ODS also counts the frames whose part is absent
NumbersOK(case, D, pos, Dev) ==
    IF "Ods!MissingCountsInNumbering" \in Dev /\ case.fmt = "ods"
    THEN \A i \in DOMAIN case.anchors : pos[i] # 0 => D[pos[i]].n = i
    ELSE \A p \in DOMAIN D : D[p].n = p

Assignments(case, D) == [DOMAIN case.anchors -> 0..Len(D)]

DocOK(case, D, pos, Dev) ==
    LET it == Iter(case, Dev)
        A(k) == case.anchors[it[k]]
        P(k) == pos[it[k]]
    IN
    /\ \A j, k \in DOMAIN it : (j < k /\ P(j) # 0 /\ P(k) # 0) => P(j) < P(k)
    /\ \A k \in DOMAIN it :
          LET again == case.fmt \in OncePerRef /\ \E j \in DOMAIN it : j < k /\ P(j) # 0 /\ A(j).ref = A(k).ref
          IN IF P(k) # 0 THEN RecOK(case, A(k), D[P(k)], Dev) /\ ~again      \* a reference is returned once
             ELSE \/ again
                  \/ 0 \in Parts(case, A(k), Dev) /\ ~MustBeEmpty(case, A(k), Dev)
    /\ \A p \in DOMAIN D : (\A i \in DOMAIN pos : pos[i] # p) => ExtraOK(case, D[p], Dev)
    /\ NumbersOK(case, D, pos, Dev)

Same(r1, r2) == r1.m = r2.m /\ r1.e = r2.e /\ r1.ct = r2.ct /\ r1.w = r2.w /\ r1.h = r2.h /\ r1.n = r2.n

Included(D, U) == \A k \in DOMAIN U : \A q \in DOMAIN U[k].imgs : \E p \in DOMAIN D : Same(U[k].imgs[q], D[p])

\* the numbers of the records assigned to anchors on unit n, in document order
AssignedOn(case, D, pos, n) ==
    LET idx == SelectSeq([i \in DOMAIN case.anchors |-> i], LAMBDA i : pos[i] # 0 /\ case.anchors[i].unit = n)
    IN [k \in DOMAIN idx |-> D[pos[idx[k]]].n]

IsAssigned(pos, p) == \E i \in DOMAIN pos : pos[i] = p

UnitsOK(case, D, U, pos, Dev) ==
    /\ Included(D, U)
    /\ case.fmt \in UnitFormats =>
         /\ \A k \in DOMAIN U :
              LET mine == SelectSeq(U[k].imgs, LAMBDA r : \E p \in DOMAIN D : D[p].n = r.n /\ IsAssigned(pos, p))
              IN [q \in DOMAIN mine |-> mine[q].n] = AssignedOn(case, D, pos, U[k].n)
         \* every assigned record is in the view of its unit (a unit that is not listed hides its images)
         /\ \A i \in DOMAIN case.anchors : pos[i] # 0 => \E k \in DOMAIN U : U[k].n = case.anchors[i].unit

Prop_Doc(case, D, Dev) == \E pos \in Assignments(case, D) : DocOK(case, D, pos, Dev)

Prop_Images(case, D, U, Dev) ==
    \E pos \in Assignments(case, D) : DocOK(case, D, pos, Dev) /\ UnitsOK(case, D, U, pos, Dev)

(* ------------------------------------------------------------------ fixtures (no ground truth) *)
\* numbers run 1..n; unit views are included in the document view; for unit formats they partition it
Prop_Fixture(fmt, D, U, Dev) ==
    /\ \A p \in DOMAIN D : D[p].n = p \/ ("Pdf!ImageNumberRestartsPerPage" \in Dev /\ fmt = "pdf")
                                     \/ ("Pptx!ImageNumberRestartsPerSlide" \in Dev /\ fmt = "pptx")
    /\ Included(D, U)
    /\ (fmt \in UnitFormats /\ ~("Ppt!UnitViewsOmitImages" \in Dev /\ fmt = "ppt")) =>
          LET RECURSIVE Cat(_)
              Cat(k) == IF k = 0 THEN <<>> ELSE Cat(k - 1) \o [q \in DOMAIN U[k].imgs |-> U[k].imgs[q].n]
          IN Cat(Len(U)) = [p \in DOMAIN D |-> D[p].n]
    /\ fmt \in UnitNumbered => \A k \in DOMAIN U : \A q \in DOMAIN U[k].imgs : U[k].imgs[q].u = U[k].n

(* ------------------------------------------------------------------ model output helpers *)
Rec(m, e, ct, w, h, n, u) == [m |-> m, e |-> e, ct |-> ct, w |-> w, h |-> h, n |-> n, u |-> u]
KindCt(kind) == IF kind = "raw" THEN "image/png" ELSE CHOOSE c \in ContentTypes(kind) : c # "image/x-ms-bmp"

\* unit views of a model output: the records of each unit 1..nu
ViewsOf(out, nu) == [k \in 1..nu |-> [n |-> k, imgs |-> SelectSeq(out, LAMBDA r : r.u = k)]]
=============================================================================
