-------------------------------- MODULE Mail --------------------------------
(* C16, message part -- "extraction returns the decoded subject, the exact sender and recipient
   addresses with display names, the ISO date, the message id, the plain and HTML bodies, and
   every attachment with its name, type and exact bytes ... and a supported attachment extracts
   to the same content as the attached file on its own" -- for BOTH parsers:
       path "eml"   eml_email_extractor.py:_read_eml_format      (mailparser)
       path "mbox"  mbox_email_extractor.py:parse_email_message  (stdlib email)

   ABSTRACT MESSAGE  m  (a record; every field is a small token, never text):
     subj  [k, e]    k \in {"none"} \cup TextKinds: which text (ascii / latin-1 range / general
                     utf-8 / CJK); e \in Encs: how the header is written (raw, RFC 2047 B, RFC 2047
                     Q, folded over several lines with adjacent encoded-words)
     from, to, cc, bcc, rt   sequences of display-name kinds, one per mailbox (from: 0..1)
                     "none" (bare addr-spec or <addr>), "atom" (phrase of atoms), "quoted"
                     (quoted-string containing a comma), "encb"/"encq" (encoded-word, the decoded
                     name contains a comma)
     date  [p, z, wd]  present?, zone, with day-of-week?
     mid, irt        "none" | "plain" | "folded" (value on a continuation line)
     body  [s, pc, pe, hc, he, pf, x]   structure, (x: further plain-text body candidates, see PlainCands) charset/CTE of the plain and of the HTML part,
                     pf: the plain text contains a line starting with "From "
     att1, att2, att3  [p, fn, ns, nx, mt, pl, cte, disp, cid, desc, xid, loc]  present?, file-name FORM (none / ascii / RFC 2231 /
                     RFC 2047), name SHAPE ns (plain, with "/", with "\", drive prefix, leading dot,
                     "..", surrounding blanks, specials ; " %), name EXTENSION nx (the payload's own,
                     none, misleading), declared MIME type mt (official / alias / cross / octet-stream / plausible /
                     invented), payload kind (every supported document type with a MIME type, zip and
                     tar.gz archives holding documents, arbitrary bytes), transfer encoding, optional part
                     headers (disposition attachment / inline / absent, Content-ID, Content-Description,
                     X-Attachment-Id, Content-Location)
     nest            two attachments: the first sits in an inner multipart/mixed with the body
     ser             serialisation (hand-assembled headers LF/CRLF, stdlib policies)
   The concretiser (mbv/c16_mailgen.py) turns m into bytes with the standard library only.

   TOKENS.  Every observed string is projected to a token  <<tag, kind, n>>  (three fields of
   fixed types).  Absent == <<"-","-",0>> is the empty string / empty value; Unknown ==
   <<"?","?",0>> is any string the projection cannot name -- no clause below accepts it.

   DECLARATIVE PART.  Expected(m) is the observation the property demands; Accept(path, m, o)
   is Expected modulo the DON'T-CAREs:
     DC1  date: only the instant is demanded, not the UTC offset it is printed with (the two
          parsers print +00:00 / the original offset; both are ISO 8601)        [projection]
     DC2  the white-space character standing between two words where a header was folded
          (SP or HTAB); CR / LF inside a value are NOT accepted                 [projection]
     DC3  bodies: modulo str.strip() (documented: EmailContent.__post_init__) and CRLF vs LF
          line ends (transport canonical form)                                  [projection]
     DC4  mbox path, plain body with a "From " line: the escaped spelling ">From " is accepted
          (mboxo writers escape; the module says un-escaping is not handled)
     DC5  an attachment without a file name: its reported name is free
     DC6  inline parts of multipart/related (images with Content-ID) may or may not be listed
          as attachments; if listed they are ignored (token tag "inline")
     DC7  an attachment whose MIME type is unknown to the library: extracting it through
          iterate_supported_attachments() is optional, but if it is extracted the content must
          be the attached document's
     DC9  leading / trailing blanks of a declared file name (the standard library's get_filename()
          strips them; both parsers do)                                         [projection]
     DC10 a supported attachment whose NAME carries a misleading extension: the library documents
          routing by name first, so it may be extracted as the name says, as the type says, or be
          skipped when the name's reader fails; it must not yield anything else
     DC8  text/* attachment sent with a textual CTE (quoted-printable): line ends of the
          bytes (tag "bytesnl" = equal after CRLF -> LF)
   EXCLUDED from the universe (stated, never generated): raw 8-bit MIME parameter values (RFC 6532
   file names; the standard library's own parser does not decode them -- message HEADERS in raw
   UTF-8 are in the universe, ser = "smtputf8"); group syntax in address lists; a known MIME type
   declared for arbitrary bytes (payload "bin" is always of unknown type); file name and MIME type
   that contradict the payload.
   UNITS / FULL TEXT (the e-mail clause of C03, decided here because only this module has an e-mail
   writer): a message has exactly one unit, of body type "plain" when there is a plain body, else
   "html" (README: "Returns body_plain when present, else body_html"; an HTML body is returned as
   the HTML source -- documented, so markup in the text of an HTML-only mail is NOT a violation);
   get_full_text() is that body (DC3, DC4 apply) and obeys the JOIN LAW
       get_full_text() = trimmed newline-join of the unit texts          (observation field joinok).
   No DON'T-CARE exists for: words and their order in the subject, addresses, display names,
   list lengths and order, message ids, body selection, attachment order / type / bytes.

   ALGORITHMIC PART: the body selection both extractors implement over the MIME part sequence
   (Parts(m), in email.message.Message.walk() order), transcribed from
   mbox_email_extractor.py:get_body_content; theorem (MailGen): Walk = declared bodies.

   DEVIATIONS (constant Deviations):
     "InventedTxtName"   KF-C16-01 (open).  eml path: mailparser names a file-name-less
                         attachment "<random>.txt"; iterate_supported_attachments() routes by
                         that name, so a supported non-plain-text document is extracted as plain
                         text (or not at all).
     "WalkNoAttachmentSkip"  sensitivity only: body selection that does not skip attachment
                         parts.
     "WalkLastPlainWins"     sensitivity only: every later text/plain candidate replaces the body.                                                            *)
EXTENDS Naturals, Sequences, FiniteSets, TLC

CONSTANT Deviations

TextKinds == {"ascii", "latin1", "utf8", "cjk"}
Encs      == {"raw", "b", "q", "folded"}
NameKinds == {"none", "atom", "quoted", "encb", "encq"}
Zones     == {"utc", "east", "west", "half", "gmt"}
Structs   == {"plain", "html", "alt", "related", "altrel", "nobody"}   \* "nobody": no body part at all
                                                                      \* (headers only / attachments only)
Charsets  == {"ascii", "utf8", "latin1", "koi8r"}
CTEs      == {"7bit", "qp", "base64"}
FnKinds   == {"none", "ascii", "rfc2231", "rfc2047"}
NameShapes == {"plain", "slash", "bslash", "drive", "dot", "updir", "blank", "special"}
NameExts  == {"ext", "noext", "wrongext"}
DocPayloads == {"txt", "html", "csv", "docx", "pptx", "xlsx", "odt", "ods", "odp", "odg", "pdf", "rtf", "epub"}
ArchPayloads == {"zip", "tgz"}               \* archives holding documents (bundle.zip, logs.tar.gz)
SuppPayloads == DocPayloads \cup ArchPayloads
Payloads  == SuppPayloads \cup {"bin"}
MtKinds   == {"official", "alias", "cross", "octet", "plausible", "invented"}
Disps     == {"attachment", "inline", "absent"}
AttCTEs   == {"base64", "qp"}
Sers      == {"hand", "handcrlf", "smtp", "smtputf8", "compat32"}

Absent  == <<"-", "-", 0>>
Unknown == <<"?", "?", 0>>

(* ---------------- structure ---------------- *)
HasPlain(s) == s \in {"plain", "alt", "altrel"}
HasHtml(s)  == s \in {"html", "alt", "related", "altrel"}
HasInline(s) == s \in {"related", "altrel"}

Atts(m) == (IF m.att1.p THEN <<m.att1>> ELSE <<>>) \o (IF m.att2.p THEN <<m.att2>> ELSE <<>>)
           \o (IF m.att3.p THEN <<m.att3>> ELSE <<>>)

\* payloads whose extractor is the plain-text one (routing by an invented ".txt" name is harmless)
PlainTextRouted(pl) == pl \in {"txt", "csv"}

(* ---- declared MIME type of an attachment: a.mt, drawn from the types in common use ----
   "official"  the registered type of the payload        "alias"  a legacy alias the library's table
   also maps to the payload's reader (application/csv, text/rtf, application/xhtml+xml,
   application/x-zip-compressed, application/x-gzip)      "cross"  a type the table maps to ANOTHER
   reader (csv or html sent as text/plain, docx as application/msword, xlsx as
   application/vnd.ms-excel, pptx as application/vnd.ms-powerpoint)
   "octet" application/octet-stream, "plausible" a type in use that the table does not hold,
   "invented" a made-up type.  Known = the table AT THE PINNED COMMIT maps the type (transcribed
   from parsing/mime_types.py:MIME_TYPE_MAPPING).                                              *)
HasAlias(pl) == pl \in {"csv", "rtf", "html", "zip", "tgz"}
HasCross(pl) == pl \in {"csv", "html", "docx", "xlsx", "pptx"}
CrossTarget(pl) == CASE pl \in {"csv", "html"} -> "txt" [] pl = "docx" -> "doc"
                     [] pl = "xlsx" -> "xls" [] pl = "pptx" -> "ppt" [] OTHER -> "none"
Known(a)  == a.mt \in {"official", "alias", "cross"}
ValidMt(a) == /\ (a.mt = "official" => a.pl # "bin")
              /\ (a.mt = "alias" => HasAlias(a.pl)) /\ (a.mt = "cross" => HasCross(a.pl))
\* the Content-Type a body walk sees on the attachment part
AttCt(a) == CASE a.pl = "txt" /\ a.mt = "official" -> "text/plain"
              [] a.mt = "cross" /\ CrossTarget(a.pl) = "txt" -> "text/plain"
              [] a.pl = "html" /\ a.mt = "official" -> "text/html"
              [] OTHER -> "other"
\* optional part headers (a.disp, a.cid, a.desc, a.xid, a.loc: Content-Disposition attachment / inline /
\* absent (name only as Content-Type name=), Content-ID, Content-Description, X-Attachment-Id,
\* Content-Location): NOTHING below depends on them -- the attachment list must not.  A part without a
\* file name is an attachment only by "Content-Disposition: attachment"; a text/plain or text/html
\* part that is not "attachment" is a body candidate for every mail reader: both excluded.
ValidAtt(a) == /\ ValidMt(a)
               /\ (a.fn = "none" => a.disp = "attachment")
               /\ (a.disp # "attachment" => AttCt(a) = "other")

(* ---------------- expected observation ---------------- *)
SubjWords(k) == IF k = "none" THEN <<>> ELSE << <<"w", k, 1>>, <<"w", k, 2>>, <<"w", k, 3>> >>

NameTok(h, j, nk) == IF nk = "none" THEN Absent ELSE <<h, nk, j>>
AddrTok(h, j)     == <<h, "addr", j>>
Mailboxes(h, ks)  == [ j \in DOMAIN ks |-> [n |-> NameTok(h, j, ks[j]), a |-> AddrTok(h, j)] ]

ExpFrom(m) == IF m.from = <<>> THEN [n |-> Absent, a |-> Absent]
              ELSE Mailboxes("from", m.from)[1]

ExpDate(m) == IF m.date.p THEN <<"date", m.date.z, 0>> ELSE Absent
ExpId(tag, v) == IF v = "none" THEN Absent ELSE <<tag, "id", 0>>

PfN(m) == IF m.body.pf THEN 1 ELSE 0
ExpPlain(m) == IF HasPlain(m.body.s) THEN <<"plain", m.body.pc, PfN(m)>> ELSE Absent
ExpHtml(m)  == IF HasHtml(m.body.s)  THEN <<"html", m.body.hc, 0>> ELSE Absent

(* ---- several plain-text body candidates (m.body.x) ----
   "alt2"   a second text/plain inside the multipart/alternative (e.g. format=flowed variant)
   "footer" an unnamed inline text/plain part after the body in multipart/mixed (list footer, disclaimer)
   "fwd"    a forwarded message/rfc822 (no disposition) whose own body is text/plain;  "both" = footer, fwd
   PlainCands(m) = the non-attachment text/plain leaves in walk() order.  MUST: body_plain starts with
   the FIRST candidate and contains nothing but candidates, in order.  DC11: whether the later
   candidates are appended -- mbox_email_extractor documents "first text/plain", eml_email_extractor
   joins every text/plain part mail-parser reports; both are what a mail reader may show.            *)
Extras == {"none", "alt2", "footer", "fwd", "both"}
XTok(k) == <<"xplain", k, 0>>
PlainCands(m) ==
    (IF HasPlain(m.body.s) THEN <<ExpPlain(m)>> ELSE <<>>)
    \o (IF m.body.x = "alt2" THEN <<XTok("alt2")>> ELSE <<>>)
    \o (IF m.body.x \in {"footer", "both"} THEN <<XTok("footer")>> ELSE <<>>)
    \o (IF m.body.x \in {"fwd", "both"} THEN <<XTok("fwd")>> ELSE <<>>)
FirstPlain(m) == IF PlainCands(m) = <<>> THEN <<>> ELSE <<PlainCands(m)[1]>>
ValidBody(b) == /\ (b.x = "alt2" => b.s \in {"alt", "altrel"})
                /\ (b.s = "nobody" => b.x = "none")

\* units / full text: EVERY message has exactly one unit (C03: units mirror the messages) -- the plain
\* body, else the HTML body, else one unit of type "empty" with the empty text (no body at all)
ExpUnitType(m) == IF PlainCands(m) # <<>> THEN "plain" ELSE IF HasHtml(m.body.s) THEN "html" ELSE "empty"
ExpFull(m)     == IF PlainCands(m) # <<>> THEN FirstPlain(m)
                  ELSE IF HasHtml(m.body.s) THEN <<ExpHtml(m)>> ELSE <<>>

MtN(t) == CASE t = "invented" -> 0 [] t = "official" -> 1 [] t = "alias" -> 2 [] t = "octet" -> 3
            [] t = "cross" -> 1 [] t = "plausible" -> 5
\* the token names the type STRING: a cross type is the official type of another payload kind
ExpType(a) == CASE a.mt = "cross" -> <<"type", CrossTarget(a.pl), 1>>
                [] a.mt = "octet" -> <<"type", "octet", 3>>
                [] OTHER -> <<"type", a.pl, MtN(a.mt)>>
ExpAtt(a, j) == [ name  |-> IF a.fn = "none" THEN Absent ELSE <<"fn", a.fn, j>>,
                  type  |-> ExpType(a),
                  bytes |-> <<"bytes", a.pl, j>>,
                  sup   |-> Known(a),
                  \* the law of the last clause of C16: extracted through the e-mail result = extracted
                  \* on its own (same result types, same full texts), whatever the NAME looks like
                  supp  |-> IF Known(a) THEN <<"ft", a.pl, j>> ELSE Absent ]
ExpAtts(m) == [ j \in DOMAIN Atts(m) |-> ExpAtt(Atts(m)[j], j) ]

Expected(m) ==
    [ subj |-> SubjWords(m.subj.k), from |-> ExpFrom(m),
      to |-> Mailboxes("to", m.to), cc |-> Mailboxes("cc", m.cc),
      bcc |-> Mailboxes("bcc", m.bcc), rt |-> Mailboxes("rt", m.rt),
      date |-> ExpDate(m), mid |-> ExpId("mid", m.mid), irt |-> ExpId("irt", m.irt),
      plain |-> FirstPlain(m), html |-> ExpHtml(m), atts |-> ExpAtts(m),
      nunits |-> 1, utype |-> ExpUnitType(m), full |-> ExpFull(m), joinok |-> TRUE ]

(* ---------------- acceptance = Expected modulo the DON'T-CAREs ---------------- *)
NotInline(x) == x.bytes[1] # "inline"
NotAbsent(t) == t # Absent

\* DC4: on the mbox path the escaped spelling of the message's own plain body is the same text
Unesc(path, m, t) == IF path = "mbox" /\ m.body.pf /\ t = <<"plainesc", m.body.pc, 1>>
                     THEN <<"plain", m.body.pc, 1>> ELSE t
AcceptPlainSeq(path, m, seq) ==
    LET u == [ k \in DOMAIN seq |-> Unesc(path, m, seq[k]) ] IN
    \/ u = FirstPlain(m)
    \/ u = PlainCands(m)                                                        \* DC11

\* what the as-built eml path does with a file-name-less attachment (KF-C16-01)
InDomain_KF_C16_01(path, a) ==
    path = "eml" /\ a.fn = "none" /\ Known(a) /\ ~PlainTextRouted(a.pl)

\* DC10: the NAME says something else than the payload is (misleading extension), or the declared
\* type belongs to another reader and no proper extension overrides it
Lenient(a) == \/ a.fn # "none" /\ a.nx = "wrongext"
              \/ a.mt = "cross" /\ ~(a.fn # "none" /\ a.nx = "ext")

AcceptSupp(path, a, e, o) ==
    \/ o.supp = e.supp
    \/ ~Known(a) /\ o.supp = <<"ft", a.pl, e.bytes[3]>>                         \* DC7
    \/ /\ Known(a) /\ Lenient(a)                                                \* DC10
       /\ o.supp \in {Absent, <<"ftastxt", a.pl, e.bytes[3]>>}
    \/ /\ "InventedTxtName" \in Deviations /\ InDomain_KF_C16_01(path, a)
       /\ o.supp \in {Absent, <<"ftastxt", a.pl, e.bytes[3]>>}

AcceptAtt(path, a, e, o) ==
    /\ (a.fn # "none" => o.name = e.name)                                       \* DC5
    /\ o.type = e.type
    /\ \/ o.bytes = e.bytes
       \/ a.cte = "qp" /\ a.pl \in {"txt", "html", "csv"}                       \* DC8
          /\ o.bytes = <<"bytesnl", a.pl, e.bytes[3]>>
    /\ o.sup = e.sup
    /\ AcceptSupp(path, a, e, o)

Accept(path, m, o) ==
    LET e  == Expected(m)
        oa == SelectSeq(o.atts, NotInline)                                      \* DC6
    IN  /\ o.subj = e.subj
        /\ o.from = e.from
        /\ o.to = e.to /\ o.cc = e.cc /\ o.bcc = e.bcc /\ o.rt = e.rt
        /\ o.date = e.date /\ o.mid = e.mid /\ o.irt = e.irt
        /\ AcceptPlainSeq(path, m, o.plain)
        \* texts the message keeps in separate parts stay separated (white space between them; a part
        \* need not end in a line break) -- in the plain body and in the full text
        /\ \A k \in DOMAIN o.plainsep : o.plainsep[k]
        /\ \A k \in DOMAIN o.fullsep : o.fullsep[k]
        /\ o.html = e.html
        \* C03 clause for e-mail: one unit of the right body type; full text = that body = join of units
        /\ o.joinok
        /\ o.nunits = 1 /\ o.utype = e.utype
        /\ o.utext = o.full                                   \* the unit's text is the body / the full text
        /\ IF PlainCands(m) # <<>> THEN o.full = o.plain ELSE o.full = e.full
        /\ (~HasInline(m.body.s) => Len(oa) = Len(o.atts))      \* "inline" only where there is one
        /\ Len(oa) = Len(e.atts)
        \* ONE call of iterate_supported_attachments() on the whole message yields, in order and without
        \* gaps, the extractions of exactly the attachments that extract on their own (o.suppall: the supp
        \* tokens whose result lists the call's result list is the concatenation of) -- an unsupported
        \* attachment in front of a supported one changes nothing
        /\ o.suppall = (IF o.atts = <<>> THEN <<>> ELSE SelectSeq([ k \in DOMAIN o.atts |-> o.atts[k].supp ], NotAbsent))
        /\ \A j \in DOMAIN e.atts : AcceptAtt(path, Atts(m)[j], e.atts[j], oa[j])

\* a case whose as-built observation differs from the reference one (domain of an open finding)
InDomain_KF_C16_01_Msg(path, m) == \E j \in DOMAIN Atts(m) : InDomain_KF_C16_01(path, Atts(m)[j])

(* ---------------- field presence (fixtures that have no abstract message: .msg) ------------- *)
\* p = [subj, fromaddr, date, mid, body, natt, expnatt, attok, joinok, twin] projected from a fixture extraction
Presence(p) ==
    /\ p.subj /\ p.fromaddr           \* a subject and a sender address/name were extracted
    /\ p.date /\ p.mid                \* date parses as ISO 8601 with offset, id has the <...> form
    /\ p.body                         \* a plain or an HTML body
    /\ p.natt = p.expnatt             \* as many attachments as the fixture is known to hold
    /\ p.attok                        \* each with a name, a type, non-empty bytes, stream at 0;
                                      \* every supported one extracts to non-empty text
    /\ p.joinok                       \* join law: get_full_text() = trimmed newline-join of unit texts
    /\ p.twin                         \* .msg fixture with an .eml twin: same attachment names,
                                      \* types and bytes from both extractors

(* ---------------- algorithmic part: body selection over the part sequence ---------------- *)
\* Parts(m): leaves of the MIME tree in walk() order; [ct, att] content type token, attachment?
Leaf(ct, id) == [ct |-> ct, att |-> FALSE, id |-> id]
BodyParts(m) ==
    LET s == m.body.s IN
    (IF HasPlain(s) THEN << Leaf("text/plain", ExpPlain(m)) >> ELSE <<>>)
    \o (IF m.body.x = "alt2" THEN << Leaf("text/plain", XTok("alt2")) >> ELSE <<>>)
    \o (IF HasHtml(s) THEN << Leaf("text/html", ExpHtml(m)) >> ELSE <<>>)
    \o (IF HasInline(s) THEN << Leaf("image/png", <<"inline", "png", 0>>) >> ELSE <<>>)
    \o (IF m.body.x \in {"footer", "both"} THEN << Leaf("text/plain", XTok("footer")) >> ELSE <<>>)
    \o (IF m.body.x \in {"fwd", "both"} THEN << Leaf("text/plain", XTok("fwd")) >> ELSE <<>>)

\* "attachment" in Content-Disposition is what get_body_content skips
AttParts(m) == [ j \in DOMAIN Atts(m) |->
                   [ct |-> AttCt(Atts(m)[j]), att |-> Atts(m)[j].disp = "attachment",
                    id |-> <<"bytes", Atts(m)[j].pl, j>>] ]
Parts(m) == BodyParts(m) \o AttParts(m)

\* get_body_content: first text/plain and first text/html that are not attachments
RECURSIVE WalkFrom(_, _, _, _)
WalkFrom(ps, k, plain, html) ==
    IF k > Len(ps) THEN [plain |-> plain, html |-> html]
    ELSE LET p == ps[k]
             skip == p.att /\ "WalkNoAttachmentSkip" \notin Deviations IN
         IF skip THEN WalkFrom(ps, k + 1, plain, html)
         ELSE IF p.ct = "text/plain" /\ (plain = Absent \/ "WalkLastPlainWins" \in Deviations)
              THEN WalkFrom(ps, k + 1, p.id, html)
         ELSE IF p.ct = "text/html" /\ html = Absent THEN WalkFrom(ps, k + 1, plain, p.id)
         ELSE WalkFrom(ps, k + 1, plain, html)
Walk(m) == WalkFrom(Parts(m), 1, Absent, Absent)

BodySelectionCorrect(m) ==
    Walk(m) = [plain |-> IF PlainCands(m) = <<>> THEN Absent ELSE PlainCands(m)[1], html |-> ExpHtml(m)]
=============================================================================
