--------------------------- MODULE HtmlSkipParts ---------------------------
(* C17, MIME side: the PART TREE of a web archive (MHTML).  The document of an archive is its text/html part,
   WHEREVER it sits in the tree: directly as the only part, as a child of multipart/related, inside a
   multipart/alternative inside a multipart/related inside a multipart/mixed, before or after sibling leaves and
   sibling containers.  The law of HtmlSkip (what must / must not be extracted from the document's markup) does
   not depend on the shape of the tree; this module only says which trees are archives with exactly one document,
   and enumerates them for the harness (one state = one tree, `tlc -dump`).

   node  == [t |-> type, k |-> sequence of child nodes]      leaves: html, plain, gif; containers: related,
   alternative, mixed.  mhtml_extractor._find_html_part must find the html leaf (it walks the whole tree).        *)
EXTENDS Naturals, Sequences

CONSTANTS Depth,          \* the html leaf sits at depth <= Depth (0 = the message itself is text/html)
          RichSiblings    \* FALSE: siblings are leaves;  TRUE: also containers holding one leaf

Leaves     == {"html", "plain", "gif"}
Containers == {"related", "alternative", "mixed"}
Leaf(x) == [t |-> x, k |-> <<>>]
Box(c, kids) == [t |-> c, k |-> kids]

RECURSIVE HtmlParts(_), WellTree(_), HtmlDepth(_)
HtmlParts(n) == IF n.t = "html" THEN 1 ELSE IF n.t \in Leaves THEN 0
                ELSE LET RECURSIVE S(_)
                         S(i) == IF i = 0 THEN 0 ELSE HtmlParts(n.k[i]) + S(i - 1)
                     IN S(Len(n.k))
WellTree(n) == IF n.t \in Leaves THEN n.k = <<>>
               ELSE n.t \in Containers /\ Len(n.k) >= 1 /\ \A i \in 1..Len(n.k) : WellTree(n.k[i])
\* depth of the (first) html leaf; 99 = none
HtmlDepth(n) == IF n.t = "html" THEN 0 ELSE IF n.t \in Leaves THEN 99
                ELSE LET RECURSIVE M(_)
                         M(i) == IF i = 0 THEN 99
                                 ELSE LET dd == HtmlDepth(n.k[i]) rest == M(i - 1) IN
                                      IF dd < 99 /\ dd + 1 < rest THEN dd + 1 ELSE rest
                     IN M(Len(n.k))
IsArchive(n) == WellTree(n) /\ HtmlParts(n) = 1           \* exactly one document

(* ---- generator *)
Sibs == {Leaf("plain"), Leaf("gif")} \cup
        (IF RichSiblings THEN {Box(c, <<Leaf(x)>>) : c \in Containers, x \in {"plain", "gif"}} ELSE {})
RECURSIVE HT(_)
HT(dep) == IF dep = 0 THEN {Leaf("html")}
           ELSE LET sub == HT(dep - 1) IN
                {Leaf("html")} \cup {Box(c, <<x>>) : c \in Containers, x \in sub}
                               \cup {Box(c, <<x, s>>) : c \in Containers, x \in sub, s \in Sibs}
                               \cup {Box(c, <<s, x>>) : c \in Containers, x \in sub, s \in Sibs}

VARIABLE tr
Init == tr \in HT(Depth)
Next == UNCHANGED tr
Spec == Init /\ [][Next]_tr
Inv_AllArchives == IsArchive(tr) /\ HtmlDepth(tr) <= Depth
=============================================================================
