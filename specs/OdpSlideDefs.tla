---------------------------- MODULE OdpSlideDefs ----------------------------
(* Model of the ODP slide reader  odp_extractor.py:_extract_slide  (+ OdpSlide.text_combined in data_types.py).

   A page is a sequence of FRAMES in document (XML) order:
       [y |-> rank of svg:y, x |-> rank of svg:x,          (ranks: the lengths may be spelt in different units)
        g |-> nesting depth in shape groups (draw:g),
        kind |-> "txt" | "tbl" | "img",
        paras |-> << <<cls, id>> .. >>    (txt: the paragraphs of the text box; cls "T" title style, "B" body style,
                                           "O" any other style; id = 0: an empty paragraph)
        id |-> n]                         (tbl / img: what the table cell / the picture is)
   What the page MEANS: the frames are read top to bottom, then left to right; frames at the same position in
   document order; a shape group is a drawing aid and changes nothing.

   The reader: (1) collects the frames (descending into groups), (2) sorts them by (y, x) -- a stable sort --,
   (3) walks them: the first title-styled paragraph becomes the title, body-styled paragraphs go to body_text, all
   others to other_text; tables and pictures are appended, pictures get the running number.
   text_combined joins title, body_text, other_text.

   Deviations:
     "Odp!TextBoxesAfterBody"    text_combined is title + body + other instead of the reading order (as built:
                                 KF-C02-14 / KF-C03-13, open)
     "Odp!GroupedFrameSkipped"   frames inside draw:g are not collected (repaired by 1685670)
     "Odp!XmlOrder"              no sort at all (sensitivity only)
     "Odp!NumbersCompared"       positions compared as bare numbers, the unit ignored (sensitivity only; the universe
                                 spells rank 1 as "2cm" and rank 2 as "1in")                                       *)
EXTENDS Naturals, Sequences, FiniteSets, TLC

CONSTANT WalkDev

Dev(d) == d \in WalkDev

\* ---------------------------------------------------------------- (1) collect
Collected(frames) == SelectSeq([i \in DOMAIN frames |-> i],
                               LAMBDA i : ~(Dev("Odp!GroupedFrameSkipped") /\ frames[i].g > 0))

\* ---------------------------------------------------------------- (2) sort
\* the number the code compares: the pixel value of the length; with "Odp!NumbersCompared" the bare number of the
\* spelling (rank 1 is written "2cm" = 75.6 px, rank 2 "1in" = 96 px: as bare numbers 2 > 1)
Cmp(r) == IF Dev("Odp!NumbersCompared") THEN (CASE r = 1 -> 2 [] r = 2 -> 1 [] OTHER -> r) ELSE r
KeyLeq(a, b) == Cmp(a.y) < Cmp(b.y) \/ (Cmp(a.y) = Cmp(b.y) /\ Cmp(a.x) <= Cmp(b.x))
\* insertion of index i behind every element whose key is <= its own (stable)
RECURSIVE Insert(_, _, _)
Insert(frames, sorted, i) ==
    IF sorted = <<>> THEN <<i>>
    ELSE IF KeyLeq(frames[Head(sorted)], frames[i]) THEN <<Head(sorted)>> \o Insert(frames, Tail(sorted), i)
    ELSE <<i>> \o sorted
RECURSIVE SortIdx(_, _)
SortIdx(frames, idxs) == IF idxs = <<>> THEN <<>>
                         ELSE Insert(frames, SortIdx(frames, SubSeq(idxs, 1, Len(idxs) - 1)), idxs[Len(idxs)])
Sorted(frames) == IF Dev("Odp!XmlOrder") THEN Collected(frames) ELSE SortIdx(frames, Collected(frames))

\* ---------------------------------------------------------------- (3) walk
W0(n0) == [title |-> 0, found |-> FALSE, body |-> <<>>, other |-> <<>>, seq |-> <<>>, tables |-> <<>>, images |-> <<>>, n |-> n0]

ParaStep(st, p) ==
    IF p[2] = 0 THEN st
    ELSE LET s1 == [st EXCEPT !.seq = Append(@, p[2])] IN
         IF ~st.found /\ p[1] = "T" THEN [s1 EXCEPT !.title = p[2], !.found = TRUE]
         ELSE IF p[1] = "B" THEN [s1 EXCEPT !.body = Append(@, p[2])]
         ELSE [s1 EXCEPT !.other = Append(@, p[2])]
RECURSIVE ParasRun(_, _)
ParasRun(st, ps) == IF ps = <<>> THEN st ELSE ParasRun(ParaStep(st, Head(ps)), Tail(ps))

FrameStep(st, f) ==
    CASE f.kind = "txt" -> ParasRun(st, f.paras)
      [] f.kind = "tbl" -> [st EXCEPT !.tables = Append(@, f.id)]
      [] f.kind = "img" -> [st EXCEPT !.images = Append(@, <<st.n + 1, f.id>>), !.n = st.n + 1]
RECURSIVE FramesRun(_, _, _)
FramesRun(st, frames, idxs) == IF idxs = <<>> THEN st ELSE FramesRun(FrameStep(st, frames[Head(idxs)]), frames, Tail(idxs))

Finish(st) == [title |-> st.title, body |-> st.body, other |-> st.other, tables |-> st.tables, images |-> st.images,
               combined |-> IF Dev("Odp!TextBoxesAfterBody")
                            THEN (IF st.found THEN <<st.title>> ELSE <<>>) \o st.body \o st.other
                            ELSE st.seq]
SlideOf(frames, n0) == Finish(FramesRun(W0(n0), frames, Sorted(frames)))

\* ---------------------------------------------------------------- the meaning of the page (no algorithm)
Before(frames, i, j) == \/ frames[i].y < frames[j].y
                        \/ (frames[i].y = frames[j].y /\ frames[i].x < frames[j].x)
                        \/ (frames[i].y = frames[j].y /\ frames[i].x = frames[j].x /\ i < j)
Rank(frames, i) == Cardinality({j \in DOMAIN frames : Before(frames, j, i)}) + 1
ReadOrder(frames) == [r \in 1..Len(frames) |-> CHOOSE i \in DOMAIN frames : Rank(frames, i) = r]
RECURSIVE ConcatAll(_)
ConcatAll(ss) == IF ss = <<>> THEN <<>> ELSE Head(ss) \o ConcatAll(Tail(ss))
NonEmptyParas(f) == IF f.kind = "txt" THEN SelectSeq(f.paras, LAMBDA p : p[2] # 0) ELSE <<>>
ParasInOrder(frames) == LET ro == ReadOrder(frames) IN ConcatAll([r \in DOMAIN ro |-> NonEmptyParas(frames[ro[r]])])
Ids(ps) == [k \in DOMAIN ps |-> ps[k][2]]
KindInOrder(frames, kd) == LET ro == ReadOrder(frames)
                               sel == SelectSeq(ro, LAMBDA i : frames[i].kind = kd)
                           IN [k \in DOMAIN sel |-> frames[sel[k]].id]
FirstTitlePos(ps) == IF \E k \in DOMAIN ps : ps[k][1] = "T"
                     THEN CHOOSE k \in DOMAIN ps : ps[k][1] = "T" /\ \A m \in 1..(k - 1) : ps[m][1] # "T"
                     ELSE 0
=============================================================================
