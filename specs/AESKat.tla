------------------------------- MODULE AESKat -------------------------------
(* C20 -- known answers for AES.tla, decided by TLC (no code involved).

   Configuration  SPECIFICATION KatSpec: for every scenario the step machine expands the key
   (FIPS-197 appendix A words), encrypts pt (appendix B, C.1-C.3, SP 800-38A first blocks) and
   decrypts the result again: Inv_KeyExpansion, Inv_Cipher, Inv_DecryptInvertsEncrypt.
   Scenarios without a published ciphertext (ct = << >>) still check the round trip.

   Sens_* are invariants that MUST FAIL (sensitivity: the machine does reach the states the
   theorems talk about).  With Deviations = {"NoSubWord256"} Inv_KeyExpansion / Inv_Cipher fail
   for the 256-bit scenarios only.                                                          *)
EXTENDS AES, AESVectors

VARIABLES scn, stage
katvars == << key, w, st, rnd, ph, scn, stage >>

NoWords == {}
Fill(n, f(_)) == [i \in 1..n |-> f(i)]
Scenarios ==
    { [name |-> "FIPS197-C.1"        , key |-> K_C1, pt |-> PT_C, ct |-> CT_C1, kw |-> NoWords],
      [name |-> "FIPS197-C.2",         key |-> K_C2, pt |-> PT_C, ct |-> CT_C2, kw |-> NoWords],
      [name |-> "FIPS197-C.3",         key |-> K_C3, pt |-> PT_C, ct |-> CT_C3, kw |-> NoWords],
      [name |-> "FIPS197-A.1+B",       key |-> K_A1, pt |-> PT_B, ct |-> CT_B,  kw |-> KW_A1],
      [name |-> "FIPS197-A.2",         key |-> K_A2, pt |-> PT_B, ct |-> << >>, kw |-> KW_A2],
      [name |-> "FIPS197-A.3",         key |-> K_A3, pt |-> PT_B, ct |-> << >>, kw |-> KW_A3],
      [name |-> "SP800-38A-F.1.1/1",   key |-> K_A1, pt |-> SubSeq(PT_F, 1, 16), ct |-> SubSeq(ECB128, 1, 16), kw |-> NoWords],
      [name |-> "SP800-38A-F.1.3/1",   key |-> K_A2, pt |-> SubSeq(PT_F, 1, 16), ct |-> SubSeq(ECB192, 1, 16), kw |-> NoWords],
      [name |-> "SP800-38A-F.1.5/1",   key |-> K_A3, pt |-> SubSeq(PT_F, 1, 16), ct |-> SubSeq(ECB256, 1, 16), kw |-> NoWords],
      [name |-> "zero-128", key |-> Fill(16, LAMBDA i : 0),   pt |-> Fill(16, LAMBDA i : 0),   ct |-> << >>, kw |-> NoWords],
      [name |-> "ones-192", key |-> Fill(24, LAMBDA i : 255), pt |-> Fill(16, LAMBDA i : 255), ct |-> << >>, kw |-> NoWords],
      [name |-> "ramp-256", key |-> Fill(32, LAMBDA i : (7 * i) % 256), pt |-> Fill(16, LAMBDA i : (255 - 13 * i) % 256),
                            ct |-> << >>, kw |-> NoWords] }

KatInit == AESInit /\ scn \in Scenarios /\ stage = "start"

KatNext ==
    \/ stage = "start" /\ SetKey(scn.key) /\ stage' = "keys" /\ UNCHANGED scn
    \/ ExpandWord /\ UNCHANGED << scn, stage >>
    \/ stage = "keys" /\ BeginEnc(scn.pt) /\ stage' = "enc" /\ UNCHANGED scn
    \/ BlockStep /\ UNCHANGED << scn, stage >>
    \/ stage = "enc" /\ EndBlock /\ stage' = "mid" /\ UNCHANGED scn
    \/ stage = "mid" /\ BeginDec(st) /\ stage' = "dec" /\ UNCHANGED scn
    \/ stage = "dec" /\ EndBlock /\ stage' = "end" /\ UNCHANGED scn

KatSpec == KatInit /\ [][KatNext]_katvars

Inv_KeyExpansion ==
    (ph = "ready") =>
        /\ Len(w) = NWords(key)
        /\ \A i \in 0..(NkOf(key) - 1) : w[i + 1] = KeyWord(key, i)
        /\ \A p \in scn.kw : w[p[1] + 1] = p[2]
Inv_Cipher == (stage = "enc" /\ ph = "E_out" /\ scn.ct # << >>) => st = scn.ct
Inv_DecryptInvertsEncrypt == (stage = "dec" /\ ph = "D_out") => st = scn.pt

\* sensitivity: these MUST be violated
Sens_NeverReachesCipherText == ~ (stage = "enc" /\ ph = "E_out" /\ scn.ct # << >> /\ st = scn.ct)
Sens_NeverDecrypts == ~ (stage = "end" /\ st = scn.pt)
=============================================================================
