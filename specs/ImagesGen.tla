------------------------------ MODULE ImagesGen ------------------------------
(* C14 -- bounded universe of image-bearing documents + the algorithm-shaped reference extractor.

   Mode = "cases": Init enumerates every case of the family (0..MaxAnchors anchors over 1..2 media
   parts on units 1..NUnits, every reference form of the family, missing / external / reused rId /
   duplicated rId, both container orders).  Names are symbolic (d, s = directories of the base, m =
   media directory, f1, f2 = files, x = a directory that does not exist); the harness only renames
   them (ppt, slides, media, image1.png ..) and picks kinds / pixel sizes.
   The machine then extracts the case the way the repaired library does, ONE CODE STEP PER ACTION:
     NextAnchor  take the next anchor (document order); formats that return a reference once skip an anchor
                 whose reference was already returned; pick the relationship that carries its id
                 (the last one with that Id wins, as in a dict), start the walk
     Segment     consume one path segment (Images!Step)
     Lookup      look the resolved name up among the parts, emit a numbered record or nothing
     Finish      all anchors done
   Inv_Model: the finished output satisfies the declarative Prop_Images (theorem for Dev = {};
   every deviation must break it on some case: sensitivity runs).
   The -dump of the "done" states is the spec -> code replay input (case) with the model's output.

   Mode = "paths": one state per (base, reference) over all references of up to MaxSegs segments;
   Inv_Path: the machine's resolved name equals the declarative Denotes (RFC 3986 normal form).   *)
EXTENDS Images

CONSTANTS Mode,         \* "cases" | "paths"
          Family,       \* "opc2" (pptx, xlsx: base d/s) | "opc1" (docx: base d) | "odf" | "epub" | "inline"
          MaxAnchors, NUnits, MaxSegs,
          Dev           \* deviations switched on in the machine (theorem: {})

VARIABLES case, pc, ai, stk, rest, raw, cur, out, cnt, lastu, res, seen
vars == <<case, pc, ai, stk, rest, raw, cur, out, cnt, lastu, res, seen>>

Base == CASE Family = "opc2" -> <<"d", "s">> [] Family \in {"opc1", "epub"} -> <<"d">> [] OTHER -> <<>>
Locs == CASE Family \in {"opc2", "opc1", "epub"} -> {"sub", "sib"} [] OTHER -> {"sub"}
Forms == CASE Family \in {"opc2", "opc1"} -> {"plain", "dotlead", "dotmid", "mixed", "abs"}
           [] Family = "epub" -> {"plain", "dotlead"}
           [] Family = "odf" -> {"plain", "dotlead"}
           [] OTHER -> {"inline"}
HasRels == Family \in {"opc2", "opc1"}                 \* relationship ids exist: reuse / duplicate possible
OrderMatters == Family \in {"opc1", "epub"}            \* one container list for the whole document

File(k) == IF k = 1 THEN "f1" ELSE "f2"
PartOf(loc, k) == (IF loc = "sub" THEN Base ELSE Front(Base)) \o <<"m", File(k)>>

\* shortest relative reference from the base directory to a part
RECURSIVE Common(_, _)
Common(a, b) == IF a # <<>> /\ b # <<>> /\ Head(a) = Head(b) THEN 1 + Common(Tail(a), Tail(b)) ELSE 0
RelPath(part) == LET c == Common(Base, part) IN [i \in 1..(Len(Base) - c) |-> ".."] \o SubSeq(part, c + 1, Len(part))

\* to = the part the author meant (writer bookkeeping only: Images!Target ignores it for embeds)
Emb(abs, segs, k) == [mode |-> "embed", abs |-> abs, segs |-> segs, to |-> k]
Ref(form, part, k) ==
    LET r == RelPath(part) IN
    CASE form = "plain"   -> Emb(FALSE, r, k)
      [] form = "dotlead" -> Emb(FALSE, <<".">> \o r, k)
      [] form = "dotmid"  -> Emb(FALSE, Front(r) \o <<".", Last(r)>>, k)
      [] form = "mixed"   -> Emb(FALSE, <<"x", "..">> \o r, k)
      [] form = "abs"     -> Emb(TRUE, part, k)
External == [mode |-> "external", abs |-> FALSE, segs |-> <<>>, to |-> 0]
Missing == Emb(FALSE, RelPath(PartOf("sub", 1)) \o <<"nope">>, 0)       \* a name below a file: no such part
Inline(k) == [mode |-> "inline", abs |-> FALSE, segs |-> <<>>, to |-> k]

MediaLists == { <<l>> : l \in Locs } \cup { <<l1, l2>> : l1, l2 \in Locs }
MediaOf(ml) == [k \in DOMAIN ml |-> [part |-> PartOf(ml[k], k), loc |-> ml[k]]]

\* one anchor choice = the relationship(s) behind it and whether it re-uses the previous anchor's id
Choices(ml) ==
    IF Family = "inline" THEN { [cands |-> <<Inline(k)>>, link |-> "own"] : k \in DOMAIN ml }
    ELSE { [cands |-> <<Ref(f, PartOf(ml[k], k), k)>>, link |-> "own"] : k \in DOMAIN ml, f \in Forms }
         \cup { [cands |-> <<Missing>>, link |-> "own"], [cands |-> <<External>>, link |-> "own"] }
         \cup (IF HasRels THEN { [cands |-> <<>>, link |-> "reuse"] }
                               \cup { [cands |-> <<Ref("plain", PartOf(ml[k], k), k)>>, link |-> "dup"] : k \in DOMAIN ml }
               ELSE {})

UnitSeqs(n) == { us \in [1..n -> 1..NUnits] : \A i \in 1..(n - 1) : us[i] <= us[i + 1] }

\* a reuse / dup anchor needs a previous anchor on the same unit with its own relationship;
\* reuse copies that relationship, dup adds a second one with the same id (the anchor it shadows sees both)
LinkOK(cs, us) ==
    \A i \in DOMAIN cs : cs[i].link # "own" => (i > 1 /\ us[i - 1] = us[i] /\ cs[i - 1].link = "own")
Cands(cs, i) ==
    CASE cs[i].link = "reuse" -> cs[i - 1].cands
      [] cs[i].link = "dup"   -> cs[i - 1].cands \o cs[i].cands
      [] OTHER -> IF i < Len(cs) /\ cs[i + 1].link = "dup" THEN cs[i].cands \o cs[i + 1].cands ELSE cs[i].cands

\* identity of the reference behind anchor i: the relationship id where relationships exist (reuse / dup share
\* the previous anchor's), otherwise the href itself (equal targets = one href / one manifest item)
RefOf(cs, i) ==
    IF HasRels THEN (IF cs[i].link = "own" THEN i ELSE i - 1)
    ELSE CHOOSE j \in 1..i : cs[j].cands = cs[i].cands /\ \A k \in 1..(j - 1) : cs[k].cands # cs[i].cands

Orders(n) == IF OrderMatters /\ n >= 2 THEN { [i \in 1..n |-> i], [i \in 1..n |-> n + 1 - i] } ELSE { [i \in 1..n |-> i] }

Alphabet == {"..", ".", "x", "m", "f1"}
PathTargets == [abs : BOOLEAN, segs : UNION { [1..k -> Alphabet] : k \in 0..MaxSegs }]
PathBases == { <<>>, <<"d">>, <<"d", "s">> }

FmtOf == CASE Family = "opc2" -> "pptx" [] Family = "opc1" -> "docx" [] Family = "odf" -> "odp"
           [] Family = "epub" -> "epub" [] OTHER -> "pdf"
\* the machine works on the header form: media kinds / sizes are irrelevant to it (the harness picks them)
Full(c) == [fmt |-> FmtOf, base |-> c.base, order |-> c.order,
            media |-> [k \in DOMAIN c.media |-> [part |-> c.media[k].part, kind |-> "png", w |-> 1, h |-> 1,
                                                  fill |-> FALSE, noext |-> FALSE]],
            anchors |-> [i \in DOMAIN c.anchors |-> [unit |-> c.anchors[i].unit, cands |-> c.anchors[i].cands,
                                                     ref |-> c.anchors[i].ref, nest |-> "", fw |-> 0, fh |-> 0]]]

Init ==
    /\ IF Mode = "cases"
       THEN \E n \in 0..MaxAnchors, ml \in MediaLists :
              \E cs \in [1..n -> Choices(ml)], us \in UnitSeqs(n), o \in Orders(n) :
                 /\ LinkOK(cs, us)
                 /\ case = [base |-> Base, media |-> MediaOf(ml), order |-> o,
                            anchors |-> [i \in 1..n |-> [unit |-> us[i], cands |-> Cands(cs, i), link |-> cs[i].link,
                                                          ref |-> RefOf(cs, i)]]]
       ELSE \E b \in PathBases, t \in PathTargets :
                 case = [base |-> b, media |-> <<>>, order |-> <<1>>,
                         anchors |-> << [unit |-> 1, link |-> "own", ref |-> 1,
                                         cands |-> << [mode |-> "embed", abs |-> t.abs, segs |-> t.segs, to |-> 0] >>] >>]
    /\ pc = "next" /\ ai = 0 /\ stk = <<>> /\ rest = <<>> /\ raw = FALSE /\ cur = 0
    /\ out = <<>> /\ cnt = 0 /\ lastu = 0 /\ res = <<>> /\ seen = {}

It == Iter(Full(case), Dev)
Restart == "Pptx!ImageNumberRestartsPerSlide" \in Dev \/ "Pdf!ImageNumberRestartsPerPage" \in Dev

\* the model's pixel size is the media's (1 x 1 here); two deviations report something else
Px == IF "Odf!FrameSizeAsPixelSize" \in Dev \/ "Epub!NoPixelSize" \in Dev THEN 0 ELSE 1
Emit(m, a) ==
    out' = Append(out, Rec(m, FALSE, KindCt("png"), Px, Px, cnt + 1, a.unit)) /\ cnt' = cnt + 1 /\ seen' = seen \cup {a.ref}

\* the reference of this anchor was already returned (formats that return a reference once)
Again(a) == FmtOf \in OncePerRef /\ a.ref \in seen /\ "Shared!ReferenceReturnedAgain" \notin Dev

NextAnchor ==
    /\ pc = "next" /\ ai < Len(case.anchors)
    /\ ai' = ai + 1
    /\ LET a == case.anchors[It[ai + 1]]
           t == Last(a.cands)
           c0 == IF Restart /\ a.unit # lastu THEN 0 ELSE cnt
       IN /\ cur' = It[ai + 1] /\ lastu' = a.unit
          /\ IF Again(a)
             THEN cnt' = c0 /\ pc' = "next" /\ UNCHANGED <<stk, rest, raw, res, out, seen>>
             ELSE IF t.mode = "embed"
             THEN LET s == Start(case.base, t, Dev) IN
                  /\ stk' = s.stk /\ rest' = s.rest /\ raw' = s.raw /\ pc' = "walk"
                  /\ cnt' = c0 /\ UNCHANGED <<out, res, seen>>
             ELSE IF t.mode = "inline"
             THEN /\ out' = Append(out, Rec(t.to, FALSE, KindCt("png"), Px, Px, c0 + 1, a.unit)) /\ cnt' = c0 + 1
                  /\ seen' = seen \cup {a.ref}
                  /\ pc' = "next" /\ UNCHANGED <<stk, rest, raw, res>>
             ELSE \* external reference: nothing to read; as-built ODF returns a record without bytes
                  /\ IF "Odf!ExternalLinkReturnedEmpty" \in Dev
                     THEN out' = Append(out, Rec(0, TRUE, "", 0, 0, c0 + 1, a.unit)) /\ cnt' = c0 + 1
                          /\ seen' = seen \cup {a.ref}
                     ELSE out' = out /\ cnt' = c0 /\ seen' = seen
                  /\ pc' = "next" /\ UNCHANGED <<stk, rest, raw, res>>
    /\ UNCHANGED case

Segment ==
    /\ pc = "walk" /\ rest # <<>>
    /\ stk' = Step(stk, Head(rest), raw, Dev) /\ rest' = Tail(rest)
    /\ UNCHANGED <<case, pc, ai, raw, cur, out, cnt, lastu, res, seen>>

Lookup ==
    /\ pc = "walk" /\ rest = <<>>
    /\ res' = stk /\ pc' = "next"
    /\ LET m == MediaAt(Full(case), stk)
           a == case.anchors[cur]
       IN IF m # 0 THEN Emit(m, a)
          ELSE IF "Odg!MissingReturnedEmpty" \in Dev
          THEN out' = Append(out, Rec(0, TRUE, "", 0, 0, cnt + 1, a.unit)) /\ cnt' = cnt + 1 /\ seen' = seen \cup {a.ref}
          ELSE IF "Ods!MissingCountsInNumbering" \in Dev THEN out' = out /\ cnt' = cnt + 1 /\ seen' = seen
          ELSE UNCHANGED <<out, cnt, seen>>
    /\ UNCHANGED <<case, ai, stk, rest, raw, cur, lastu>>

Finish == pc = "next" /\ ai = Len(case.anchors) /\ pc' = "done"
          /\ UNCHANGED <<case, ai, stk, rest, raw, cur, out, cnt, lastu, res, seen>>

Next == NextAnchor \/ Segment \/ Lookup \/ Finish
Spec == Init /\ [][Next]_vars

\* theorem: the reference machine's output satisfies the declarative property
Inv_Model == (Mode = "cases" /\ pc = "done") => Prop_Images(Full(case), out, ViewsOf(out, NUnits), {})
\* theorem: the segment machine computes the RFC 3986 normal form
Inv_Path == (Mode = "paths" /\ pc = "done") => res = Denotes(case.base, case.anchors[1].cands[1])
=============================================================================
