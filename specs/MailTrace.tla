----------------------------- MODULE MailTrace -----------------------------
(* code -> spec for the message part of C16.  One trace = one abstract message (hdr.m, as
   enumerated by MailGen) with the observations recorded from the real extractors on the bytes
   the concretiser made of it:
     "Eml"   obs = projection of read_eml_format_mail(<message>.eml)[0]
     "Mbox"  obs = projection of result number pos of read_mbox_format_mail(<mailbox>) where the
             mailbox was written by mailbox.mbox with n messages, this one at position pos;
             nres = number of results the mailbox produced
     "Raised" the extractor raised (exc = class name): never accepted
   (hdr.kind = "msg") and, for fixtures that have no abstract message (hdr.kind = "fixture", hdr.m a dummy):
     "Fixture" p = field-presence flags
   obs also carries nunits / utype / full / joinok (units and full text, the e-mail clause of C03).
   TLC decides with Mail!Accept (= Expected(m) modulo the DON'T-CAREs of Mail.tla).          *)
EXTENDS Mail, Json, IOUtils, TLCExt

Traces == JsonDeserialize(IOEnv.TRACE_FILE)

VARIABLES tid, l, M
tvars == <<tid, l, M>>

Ev == Traces[tid].ev[l]
IsEvent(a) == l <= Len(Traces[tid].ev) /\ Ev.a = a /\ l' = l + 1 /\ UNCHANGED <<tid, M>>

TraceEml  == IsEvent("Eml") /\ Accept("eml", M, Ev.obs)

TraceMbox == /\ IsEvent("Mbox")
             /\ Ev.nres = Ev.n                  \* one result per message ...
             /\ Ev.pos \in 1..Ev.n              \* ... and result number pos is this message
             /\ Accept("mbox", M, Ev.obs)

TraceFixture == IsEvent("Fixture") /\ Presence(Ev.p)

TraceInit == tid \in 1..Len(Traces) /\ l = 1 /\ M = Traces[tid].hdr.m
TraceNext == TraceEml \/ TraceMbox \/ TraceFixture
TraceSpec == TraceInit /\ [][TraceNext]_tvars

TraceAccept ==
    /\ (l = Len(Traces[tid].ev) + 1) => PrintT(<<"ACCEPT", tid>>)
    /\ (IOEnv.MBV_PROGRESS = "1") => PrintT(<<"AT", tid, l>>)
    \* diagnostics for replay files: what the specification expects for this message
    /\ (IOEnv.MBV_EXPECT = "1" /\ l = 1 /\ Traces[tid].hdr.kind = "msg") => PrintT(<<"EXPECTED", tid, Expected(M)>>)
=============================================================================
