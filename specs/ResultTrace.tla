---------------------------- MODULE ResultTrace ----------------------------
(* code -> spec for C06.  One trace = one document (generated or fixture) of one type:
   hdr  [type, d0]           d0 = digest id of the first extraction (ids are small ints assigned by the
                             recorder: equal ids <=> equal sha256 of the canonical JSON)
   ev   Obs(k, d, v)         digest id observed right after observer call k; v = id of what the call returned
                             (per kind: 0 = what the first call of that kind returned)
        Other(d)             digest id of the held result after another input (or the same bytes under another
                             path) has been extracted in the same process
        Reextract(m, s, d)   digest id of a re-extraction (same process / fresh process with seed s)
        Input(same)          caller's buffer content compared before / after extraction          *)
EXTENDS Naturals, Sequences, FiniteSets, TLC, Json, IOUtils, TLCExt

Traces == JsonDeserialize(IOEnv.TRACE_FILE)
VARIABLES tid, l, digest
vars == <<tid, l, digest>>

Ev == Traces[tid].ev[l]
IsEvent(a) == l <= Len(Traces[tid].ev) /\ Ev.a = a /\ l' = l + 1 /\ UNCHANGED tid

\* every step must leave the digest where the specification leaves it: unchanged
TraceObs == IsEvent("Obs") /\ Ev.k \in {"FullText", "Units", "UnitDeep", "Images", "ImageBytes", "Tables",
                                         "Metadata", "ToJson"}
                           /\ digest' = Ev.d /\ digest' = digest
                           /\ Ev.v = 0                           \* Result!Prop_ValuesStable
TraceOther == IsEvent("Other") /\ digest' = Ev.d /\ digest' = digest
TraceReextract == IsEvent("Reextract") /\ digest' = Ev.d /\ digest' = digest
TraceInput == IsEvent("Input") /\ Ev.same = TRUE /\ UNCHANGED digest

TraceInit == tid \in 1..Len(Traces) /\ l = 1 /\ digest = Traces[tid].hdr.d0
TraceNext == TraceObs \/ TraceReextract \/ TraceInput \/ TraceOther
TraceSpec == TraceInit /\ [][TraceNext]_vars
TraceAccept ==
    /\ (l = Len(Traces[tid].ev) + 1) => PrintT(<<"ACCEPT", tid>>)
    /\ (IOEnv.MBV_PROGRESS = "1") => PrintT(<<"AT", tid, l>>)
=============================================================================
