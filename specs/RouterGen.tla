------------------------------ MODULE RouterGen ------------------------------
(* Enumerates the abstract path universe for the spec -> code replay of C07.
   One state = one abstract path; dumped with `tlc -dump`.                                  *)
EXTENDS Router

CONSTANTS Tok, MaxExts

VARIABLE p

Tails == {"", ".", " ", "?q", "/b", "/", "/.", "//"}
ExtSeqs == UNION { [1..n -> Tok] : n \in 0..MaxExts }
\* the full cross product for <= 1 extension; for 2..MaxExts extensions only chains ending in a
\* compression token or starting with one (what compound handling can confuse)
Interesting(e) ==
    \/ Len(e) <= 1
    \/ Len(e) = 2 /\ (e[2] \in {"gz", "bz2", "xz", "tar"} \/ e[1] \in {"tar", "zip", "docx"})
    \/ Len(e) = 3 /\ (e[2] = "tar" \/ (e[1] = "tar" /\ e[2] \in {"gz", "bz2", "xz"}))   \* around a compound suffix

Init == p \in { [exts |-> e, hidden |-> h, tail |-> t] :
                   e \in {x \in ExtSeqs : Interesting(x)}, h \in BOOLEAN, t \in Tails }
          \ { q \in [exts : {<<>>}, hidden : {TRUE}, tail : Tails] : TRUE }   \* empty name: not a path
Next == UNCHANGED p
Spec == Init /\ [][Next]_p
=============================================================================
