----------------------------- MODULE ArchiveCfg -----------------------------
(* C09 / C10, "members within limits": the per-member size limit under CONFIGURATION HISTORIES.

   archive_extractor.configure_archive_extraction(buffer_size=None, max_memory_size=None, max_workers=None,
   enable_parallel=None, enable_caching=None, enable_streaming=None) replaces the module configuration; a
   parameter that is not given KEEPS ITS CURRENT VALUE.  A member of s bytes comes out iff s <= max_memory_size
   (ZIP: info.file_size, TAR: member.size, 7z: uncompressed size), whatever was configured before.

     cfg    the configuration record          calls  the configure calls made so far
   Configure(args): args is a partial assignment.   Yields(s) == s <= cfg.max_memory_size.

   DEVIATION "UnsetFallsBackToBuffer": an unspecified max_memory_size is replaced by buffer_size.
   DON'T-CARE: falsy arguments (0) - the implementation treats them as "not given".                       *)
EXTENDS Naturals, Sequences, FiniteSets, TLC

CONSTANTS BufferValues, LimitValues, MaxCalls, Deviations
ASSUME Deviations \subseteq {"UnsetFallsBackToBuffer"}

VARIABLES cfg, calls
vars == <<cfg, calls>>

Default == [buffer_size |-> 65536, max_memory_size |-> 10485760, max_workers |-> 4, enable_parallel |-> 1]
None == 0                                   \* "parameter not given"
ArgSets == [buffer_size : BufferValues \cup {None}, max_memory_size : LimitValues \cup {None},
            max_workers : {None, 2}, enable_parallel : {None, 2}]        \* enable_parallel: 2 = False given
Given(a, k) == a[k] # None
ValueOf(a, k) == IF k = "enable_parallel" THEN 0 ELSE a[k]

Apply(c, a) ==
    [k \in DOMAIN c |->
        IF Given(a, k) THEN ValueOf(a, k)
        ELSE IF k = "max_memory_size" /\ "UnsetFallsBackToBuffer" \in Deviations
             THEN (IF Given(a, "buffer_size") THEN a.buffer_size ELSE c.buffer_size)
             ELSE c[k]]

Init == cfg = Default /\ calls = <<>>
Configure == /\ Len(calls) < MaxCalls
             /\ \E a \in ArgSets : cfg' = Apply(cfg, a) /\ calls' = Append(calls, a)
Next == Configure
Spec == Init /\ [][Next]_vars

Yields(s) == s <= cfg.max_memory_size
(* the reference: the limit is the last one given explicitly, else the default *)
RECURSIVE LastGiven(_)
LastGiven(cs) == IF cs = <<>> THEN Default.max_memory_size
                 ELSE IF Given(cs[Len(cs)], "max_memory_size") THEN cs[Len(cs)].max_memory_size
                 ELSE LastGiven(SubSeq(cs, 1, Len(cs) - 1))
Inv_LimitKept == cfg.max_memory_size = LastGiven(calls)
=============================================================================
