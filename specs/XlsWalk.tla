------------------------------- MODULE XlsWalk -------------------------------
(* Theorems for the XLS sheet reader model (XlsWalkDefs.tla) on all grids up to MaxRows x MaxCols; the two header cells
   may carry the SAME text (kind "tok" with id 1 in the first row is not stamped), data cells are stamped with their
   position.  WalkDev = {}:
       Inv_Shape      the table has as many rows as the grid and every row as many cells as the grid has columns
       Inv_InPlace    table cell (i, j) shows grid cell (i, j): header row as text, data rows as values
   Each of the three as-built steps violates one of them (sensitivity runs).                            *)
EXTENDS XlsWalkDefs

CONSTANTS MaxRows, MaxCols
VARIABLES grid, out
vars == <<grid, out>>
Kinds == {None, <<"tok", 1>>, <<"tok", 2>>, <<"num", 0>>, <<"err", 0>>}
Stamp(g) == [r \in DOMAIN g |-> [c \in DOMAIN g[r] |-> IF r > 1 /\ g[r][c][1] = "tok" THEN <<"tok", 10 * r + c>> ELSE g[r][c]]]
Init == /\ grid \in {Stamp(g) : g \in UNION {[1..r -> [1..c -> Kinds]] : r \in 1..MaxRows, c \in 1..MaxCols}}
        /\ out = [done |-> FALSE, table |-> <<>>]
Read == ~out.done /\ out' = [done |-> TRUE, table |-> TableOf(grid)] /\ UNCHANGED grid
Spec == Init /\ [][Read]_vars /\ WF_vars(Read)
GenSpec == Init /\ [][UNCHANGED vars]_vars

Shows(t, s, header) == IF header THEN t = HdrStr(s) ELSE (t = s \/ (s[1] = "err" /\ t = <<"errstr", 0>>))
Inv_Shape == out.done => /\ Len(out.table) = Len(grid)
                         /\ \A i \in DOMAIN out.table : Len(out.table[i]) = Len(grid[1])
Inv_InPlace == out.done /\ Len(out.table) = Len(grid) =>
                  \A i \in DOMAIN out.table : \A j \in DOMAIN out.table[i] :
                     j \in DOMAIN grid[i] /\ Shows(out.table[i][j], grid[i][j], i = 1)
Prop_Terminates == <>(out.done)
=============================================================================
