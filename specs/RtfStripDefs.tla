---------------------------- MODULE RtfStripDefs ----------------------------
(* Token-level model of the RTF body stripper  rtf_extractor.py:_RtfParser._strip_rtf_full_with_pages.

   Input: a sequence of RTF tokens <<kind, n>> (n = word id, else 0):
      "W"  a word              "SP" a blank                "LF" / "CR"  a raw line feed / carriage return in the source
      "PAR" \par   "LINE" \line   "TAB" \tab   "PAGE" \page   "SBK" \sbkpage
      "CW" \b   "CWN" \fs24   "CWNEG" \li-120                      (formatting control words: no text)
      "HEX" \'e9   "UNI" \u233?   "ESCB" \{                         (one character each)
      "HEXBAD" \'zz (not two hex digits: nothing)     "UL" \ul   "UC" \uc1   (control words that begin with the letter u)
      "OPEN" {    "OPENCW" {\b     "OPENSTAR" {\*\xdest    "OPENNAMED" {\pict        "CLOSE" }
   Output atoms <<kind, n>>:  <<"w", id>>  <<"c", 1>> (e acute)  <<"c", 2>> (an opening brace)  <<"s", 0>> blank / tab
                              <<"n", 0>> line break.
   The stripper walks the tokens with three registers (group_depth, skip_group, skip_depth); Step is that walk.
   Deviations (as built / before a fix):
      "Rtf!RawNewlineIsText"            a raw LF of the source is copied into the text (RTF: line ends in the source
                                        are not text; writers wrap long lines, also inside a word)      KF-C02-13, open
      "Rtf!UControlWordLeaks"           a control word that starts with u but is no \uN escape (\ul, \ulnone, \uc1, \up6)
                                        loses only its first two characters: the rest ("l", "c1") and the delimiter
                                        blank become text                                               KF-C02-17, open
      "Rtf!NestedDestinationEndsSkip"   a destination nested in a skipped one restarts the skip bookkeeping, so the
                                        outer destination is no longer skipped after the inner one closes  (fixed)   *)
EXTENDS Naturals, Sequences, FiniteSets, TLC

CONSTANT WalkDev

Opens == {"OPEN", "OPENCW", "OPENSTAR", "OPENNAMED"}
SkipOpens == {"OPENSTAR", "OPENNAMED"}

St0 == [depth |-> 0, skip |-> FALSE, skipDepth |-> 0, out |-> <<>>, page |-> <<>>, pages |-> <<>>]

Emit(st, a) == [st EXCEPT !.out = Append(@, a), !.page = Append(@, a)]

IsWs(a) == a[1] \in {"s", "n"}
RECURSIVE Lstrip(_)
Lstrip(s) == IF s # <<>> /\ IsWs(Head(s)) THEN Lstrip(Tail(s)) ELSE s
RECURSIVE Rstrip(_)
Rstrip(s) == IF s # <<>> /\ IsWs(s[Len(s)]) THEN Rstrip(SubSeq(s, 1, Len(s) - 1)) ELSE s
\* runs of white space collapse into ONE separator atom: which white space separates two words (blank, tab, one or
\* several line breaks) is not part of the property, so the binding does not look at it either
RECURSIVE Canon(_)
Canon(s) == IF s = <<>> THEN <<>>
            ELSE IF ~IsWs(Head(s)) THEN <<Head(s)>> \o Canon(Tail(s))
            ELSE LET rest == Canon(Tail(s)) IN
                 IF rest # <<>> /\ IsWs(Head(rest)) THEN rest ELSE << <<"s", 0>> >> \o rest
PageText(p) == Canon(Rstrip(Lstrip(p)))

\* flush_page(): the stripped page text is kept when it is not empty
Flush(st) == LET t == PageText(st.page) IN
             [st EXCEPT !.pages = IF t = <<>> THEN @ ELSE Append(@, t), !.page = <<>>]

Step(st, tok) ==
    LET k == tok[1] IN
    IF k \in Opens THEN
        LET d == st.depth + 1
            starts == k \in SkipOpens /\ (~st.skip \/ "Rtf!NestedDestinationEndsSkip" \in WalkDev)
        IN [st EXCEPT !.depth = d, !.skip = IF starts THEN TRUE ELSE @, !.skipDepth = IF starts THEN d ELSE @]
    ELSE IF k = "CLOSE" THEN
        [st EXCEPT !.skip = IF st.skip /\ st.depth = st.skipDepth THEN FALSE ELSE @,
                   !.depth = IF st.depth > 0 THEN st.depth - 1 ELSE 0]
    ELSE IF st.skip THEN st
    ELSE CASE k = "W"     -> Emit(st, <<"w", tok[2]>>)
           [] k = "SP"    -> Emit(st, <<"s", 0>>)
           [] k = "TAB"   -> Emit(st, <<"s", 0>>)
           [] k = "LF"    -> IF "Rtf!RawNewlineIsText" \in WalkDev THEN Emit(st, <<"n", 0>>) ELSE st
           [] k = "CR"    -> st
           [] k \in {"PAR", "LINE"} -> Emit(st, <<"n", 0>>)
           [] k \in {"PAGE", "SBK"} -> Flush(st)
           [] k \in {"CW", "CWN", "CWNEG", "HEXBAD"} -> st
           [] k = "UL"    -> IF "Rtf!UControlWordLeaks" \in WalkDev THEN Emit(Emit(st, <<"c", 1108>>), <<"s", 0>>) ELSE st
           [] k = "UC"    -> IF "Rtf!UControlWordLeaks" \in WalkDev
                             THEN Emit(Emit(Emit(st, <<"c", 1099>>), <<"c", 1049>>), <<"s", 0>>) ELSE st
           [] k \in {"HEX", "UNI"} -> Emit(st, <<"c", 1>>)
           [] k = "ESCB"  -> Emit(st, <<"c", 2>>)

RECURSIVE Run(_, _)
Run(st, toks) == IF toks = <<>> THEN st ELSE Run(Step(st, Head(toks)), Tail(toks))

\* end of input: last flush; a document without any page text has the whole text as its only page
Finish(st) == LET f == Flush(st)
                  whole == PageText(st.out)
              IN [result |-> Canon(st.out),
                  pages  |-> IF f.pages = <<>> /\ whole # <<>> THEN <<whole>> ELSE f.pages]
Strip(toks) == Finish(Run(St0, toks))

(* ---- what the token stream MEANS (declarative, by enclosing groups; no registers) ---- *)
\* depth before token j
RECURSIVE DepthAt(_, _)
DepthAt(toks, j) == IF j <= 1 THEN 0
                    ELSE LET d == DepthAt(toks, j - 1) IN
                         IF toks[j - 1][1] \in Opens THEN d + 1
                         ELSE IF toks[j - 1][1] = "CLOSE" /\ d > 0 THEN d - 1 ELSE d
\* group opened at o encloses position j
Encloses(toks, o, j) == o < j /\ toks[o][1] \in Opens
                        /\ \A m \in (o + 1)..j : DepthAt(toks, m) > DepthAt(toks, o)
Hidden(toks, j) == \E o \in 1..(j - 1) : toks[o][1] \in SkipOpens /\ Encloses(toks, o, j)
VisibleWords(toks) == SelectSeq([j \in DOMAIN toks |-> IF toks[j][1] = "W" /\ ~Hidden(toks, j) THEN toks[j][2] ELSE 0],
                                LAMBDA x : x # 0)
WordsOf(atoms) == SelectSeq([j \in DOMAIN atoms |-> IF atoms[j][1] = "w" THEN atoms[j][2] ELSE 0], LAMBDA x : x # 0)
\* a visible token between two positions that is text or a separator
Separating(k) == k \in {"SP", "TAB", "PAR", "LINE", "PAGE", "SBK", "HEX", "UNI", "ESCB"}
=============================================================================
