------------------------------- MODULE Globals -------------------------------
(* C15, history part: process-global state of the library that outlives one extraction, as
   history machines.  "The result of extracting a document does not depend on what the process
   extracted before; afterwards the global state the library touches is back to what it was."

   Modelled globals (sharepoint2text/parsing/extractors/pdf/):
     cache  pdf_extractor._FONT_CACHE  (_ttf_get_glyph_features): glyph bounding boxes of an embedded
            TrueType program, computed ONLY for the glyph ids the caller asked for.  An entry is
            <<font, gids>>.  The digits that _patch_font_digit_map can resolve for a document using
            font f with null-mapped glyph ids g are  g \cap (glyph ids of the entry that is hit); it
            also writes a digit over every OTHER glyph of that entry (observation `cl`: glyphs the
            document maps to real characters that were overwritten).  Every generated document shows
            all glyphs of the universe, so both effects are observable.
     aes    _pypdf_aes_fallback.patch_pypdf_fallback_aes: pypdf's fallback-provider AES functions
            replaced by the library's pure-Python AES.  Applied by _open_pdf_reader when PdfReader()
            raises DependencyError("... AES algorithm") (AES-256 / V5 documents: the key check already
            needs AES) and - since repo commit f4a7d41 - whenever the opened reader is encrypted; never
            undone.
     reg    serialization._TYPE_REGISTRY: name -> dataclass table used by ExtractionInterface.from_json,
            filled lazily with ALL dataclasses of data_types by _get_type_registry() while it is empty.
            State: [full, seen]; "empty" and "full" are observationally equivalent (lazy, idempotent);
            a table that holds only some types ("partial") makes from_json hand back the raw dict for
            every other type for the rest of the process.
     cfg / tmp / fds / fns : archive_extractor._config, temp-root listing, open file descriptors,
            identity of every third-party function: observed only (Residue event), must be unchanged.

   Document classes (the abstract universe; concretised by mbv/c15_docs.py and the repo's fixtures):
     "plain"          anything without modelled interaction (all fixtures, failing inputs, archives ...)
     "fail"           failing input: garbage / fails inside the PDF patch section / truncated docx / 7z whose
                      second folder is damaged (extractall fails after the first folder reached the temp
                      directory) / truncated tar.gz; same obligations as "plain" (equal to isolation, no residue)
     "deser"          not a document: a STORED extraction (to_json of an earlier run, type tag f) is
                      restored with ExtractionInterface.from_json; observation = restored type and digest
                      equal to the restoration in a fresh process
     "aesT"           PDF that triggers the AES patch (AES-256 / V5, empty user password)
     "aesU"           PDF that needs AES only after the reader is open (AES-128 / V4, empty user
                      password): its streams can be decrypted iff the patch is installed at that time
     font(f, g)       PDF with embedded font f whose null-mapped glyph ids are g

   Deviations (named wrong steps of the as-built code; {} = reference design):
     "FontCacheKeyedByFontOnly"  cache hit on the font bytes alone: a later document with the same
                                 font but other glyph ids gets the first caller's glyph set
                                 (the pinned tree; repaired in /repo by 9c30dc7)
     "FontCacheSupersetReuse"    cache keyed by the font bytes; an entry is reused when it covers every
                                 requested glyph id, otherwise recomputed and replaced: a document whose
                                 null-mapped glyphs are a strict subset of an earlier one's gets the larger
                                 feature set and its properly mapped glyphs are overwritten with digits
                                 (sensitivity only)
     "PermanentAesPatch"         the AES patch stays installed after the extraction that triggered it
                                 (open finding KF-C15-01: residue only, once the next one is off)
     "AesPatchOnlyOnOpenFailure" the patch is installed only when PdfReader() itself fails, so an "aesU"
                                 document works iff an earlier extraction left the patch behind (the pinned
                                 tree; repaired in /repo by f4a7d41: kept for the sensitivity run)

     "RegistryFilledBySerialize" serialising a result enters its type into reg; the lazy fill then never
                                 happens, and a later from_json of another type returns the raw dict
                                 (sensitivity only).  NOTE every Extract step of the harness serialises its
                                 result (the observation IS the to_json digest).

   Properties:  HistoryIndependent (every observation equals the observation of the same document in
   a fresh process),  ResidueFree (aes = FALSE: third-party functions are back).

   DON'T-CARE: the digest flag `same` of a document whose modelled observation already deviates;
   the outcome ("ok"/"fail") of AES documents as such (only its equality with the fresh-process outcome);
   what "plain" documents contain; cache growth (memory only).                                      *)
EXTENDS Naturals, Sequences, FiniteSets, TLC, Json, IOUtils, TLCExt

CONSTANTS Deviations, Fonts, GidSets, MaxLen

DeviationNames == {"FontCacheKeyedByFontOnly", "FontCacheSupersetReuse", "PermanentAesPatch",
                   "AesPatchOnlyOnOpenFailure", "RegistryFilledBySerialize"}
ASSUME Deviations \subseteq DeviationNames

\* every document is a record of one shape (TLC cannot mix strings and tuples in a set)
Doc(k, f, g) == [k |-> k, f |-> f, g |-> g]
FontDocs == { Doc("font", f, g) : f \in Fonts, g \in GidSets }
Docs     == { Doc(k, "", {}) : k \in {"plain", "fail", "aesT", "aesU", "deser"} } \cup FontDocs
IsFont(d) == d.k = "font"

VARIABLES cache, aes, reg, hist, obs,
          tid, l                      \* trace validation only (0 otherwise)
gvars == <<cache, aes, reg, hist, obs, tid, l>>

Reg0 == [full |-> FALSE, seen |-> {}]
\* type tag a document's result is serialised under (stored extractions carry their own tag in f;
\* ASSUMPTION for the deviation only: stored tags differ from the tags of the documents extracted before)
TagOf(d) == IF d.k \in {"font", "aesT", "aesU"} THEN "PdfContent" ELSE IF d.k = "deser" THEN d.f ELSE "Other"
RegAfterSerialize(r, d) ==
    IF "RegistryFilledBySerialize" \in Deviations /\ ~r.full /\ d.k # "fail"
    THEN [r EXCEPT !.seen = @ \cup {TagOf(d)}] ELSE r
\* from_json: lazy fill iff the table is empty; the type is found iff the table is full or holds it
RegAfterDeser(r)  == IF ~r.full /\ r.seen = {} THEN [r EXCEPT !.full = TRUE] ELSE r
DeserFinds(r, d)  == LET r2 == RegAfterDeser(r) IN r2.full \/ TagOf(d) \in r2.seen
RegState(r)       == IF r.full THEN "full" ELSE IF r.seen = {} THEN "empty" ELSE "partial"

-----------------------------------------------------------------------------
(* one extraction as a function of the global state: [out, gl, cache, aes] *)
KeyedByFont == Deviations \cap {"FontCacheKeyedByFontOnly", "FontCacheSupersetReuse"} # {}
Hit(c, f, g) ==
    IF "FontCacheSupersetReuse" \in Deviations THEN { e \in c : e[1] = f /\ g \subseteq e[2] }
    ELSE IF "FontCacheKeyedByFontOnly" \in Deviations THEN { e \in c : e[1] = f }
    ELSE { e \in c : e[1] = f /\ e[2] = g }
Store(c, f, g) == IF KeyedByFont THEN { e \in c : e[1] # f } \cup {<<f, g>>} ELSE c \cup {<<f, g>>}

\* gl: null-mapped glyphs resolved to digits = those the feature set used covers
\* cl: properly mapped glyphs of the document overwritten with a digit = the surplus of that feature set
\*     (_patch_font_digit_map writes a digit for EVERY glyph of the features it is given)
Extract(d, c, a) ==
    IF IsFont(d) THEN
        LET f == d.f  g == d.g  h == Hit(c, f, g) IN
        IF h = {} THEN [out |-> "ok", gl |-> g, cl |-> {}, cache |-> Store(c, f, g), aes |-> a]
        ELSE LET e == CHOOSE x \in h : TRUE IN
             [out |-> "ok", gl |-> g \cap e[2], cl |-> e[2] \ g, cache |-> c, aes |-> a]
    ELSE IF d.k = "aesT" \/ (d.k = "aesU" /\ "AesPatchOnlyOnOpenFailure" \notin Deviations) THEN
        [out |-> "ok", gl |-> {}, cl |-> {}, cache |-> c,       \* patch installed for this extraction ...
         aes |-> IF "PermanentAesPatch" \in Deviations THEN TRUE ELSE a]      \* ... and (reference) removed again
    ELSE IF d.k = "aesU" THEN
        [out |-> IF a THEN "ok" ELSE "fail", gl |-> {}, cl |-> {}, cache |-> c, aes |-> a]
    ELSE [out |-> "same", gl |-> {}, cl |-> {}, cache |-> c, aes |-> a]     \* plain, fail, deser(found)

Observation(r) == [out |-> r.out, gl |-> r.gl, cl |-> r.cl]
Isolated(d)    == IF d.k = "deser" /\ ~DeserFinds([full |-> FALSE, seen |-> {}], d)
                  THEN [out |-> "raw", gl |-> {}, cl |-> {}]
                  ELSE Observation(Extract(d, {}, FALSE))      \* fresh process

\* the registry part of a step: restoring a stored extraction, or serialising the result of an extraction
RegStep(r, d)  == IF d.k # "deser" THEN RegAfterSerialize(r, d)
                  ELSE IF DeserFinds(r, d) THEN RegAfterSerialize(RegAfterDeser(r), d)   \* (digest of the restored object)
                  ELSE RegAfterDeser(r)
ObsOf(d, r, x) == IF d.k = "deser" /\ ~DeserFinds(r, d) THEN [out |-> "raw", gl |-> {}, cl |-> {}]
                  ELSE Observation(x)

Init == reg = Reg0 /\ cache = {} /\ aes = FALSE /\ hist = <<>> /\ obs = <<>> /\ tid = 0 /\ l = 0
Do(d) == LET r == Extract(d, cache, aes) IN
         /\ cache' = r.cache /\ aes' = r.aes /\ reg' = RegStep(reg, d)
         /\ hist' = Append(hist, d) /\ obs' = Append(obs, ObsOf(d, reg, r))
Next == Len(hist) < MaxLen /\ (\E d \in Docs : Do(d)) /\ UNCHANGED <<tid, l>>
Spec == Init /\ [][Next]_gvars

HistoryIndependent == \A i \in 1..Len(hist) : obs[i] = Isolated(hist[i])
ResidueFree        == aes = FALSE /\ RegState(reg) # "partial"
\* at most one entry per key: the font-only cache never holds two entries of one font
CacheShape         == KeyedByFont =>
                          \A e1, e2 \in cache : e1[1] = e2[1] => e1 = e2

-----------------------------------------------------------------------------
(* code -> spec: recorded histories (mbv/props/c15.py history workers).  Events:
     {"a":"Extract","d":<class>,"f":font|"","g":[gids],"out":"ok"|"fail"|"same"|<other>,"gl":[resolved gids],"cl":[clobbered gids],"same":bool}
          d in "plain" | "fail" | "aesT" | "aesU" | "font" | "deser" (f = type tag of the stored extraction;
          out = "same" iff restored type and digest equal the fresh-process restoration, else "raw"/"differs");   `same`: to_json digest equals the isolated baseline
          for "plain" the harness reports out = "same" iff the digest (or the exception) equals the baseline
     {"a":"Residue","aesfn":bool,"fns":bool,"cfg":bool,"tmp":bool,"fds":bool,"reg":"empty"|"full"|"partial"}   each: unchanged w.r.t. process start
          aesfn: pypdf's AES provider functions (the set patch_pypdf_fallback_aes replaces);  fns: every OTHER
          third-party function / class / method                                                              *)
Traces == JsonDeserialize(IOEnv.TRACE_FILE)
tvars == gvars

Ev == Traces[tid].ev[l]
IsEvent(a) == l <= Len(Traces[tid].ev) /\ Ev.a = a /\ l' = l + 1 /\ UNCHANGED tid

Range(s) == { s[i] : i \in DOMAIN s }
DocOf(e) == IF e.d = "font" THEN Doc("font", e.f, Range(e.g))
            ELSE IF e.d = "deser" THEN Doc("deser", e.f, {}) ELSE Doc(e.d, "", {})

TraceExtract ==
    /\ IsEvent("Extract")
    /\ LET d == DocOf(Ev)  r == Extract(d, cache, aes) IN
       /\ Ev.d \in {"plain", "fail", "aesT", "aesU", "font", "deser"}
       /\ \/ Ev.out = ObsOf(d, reg, r).out
          \/ /\ d.k \in {"aesT", "aesU"}                  \* DON'T-CARE: whether an AES document can be read at
             /\ "AesPatchOnlyOnOpenFailure" \notin Deviations \* all (C08); only `same` (equal to isolation) counts
       /\ Range(Ev.gl) = r.gl
       /\ Range(Ev.cl) = r.cl
       /\ (ObsOf(d, reg, r) = Isolated(d)) => Ev.same     \* DON'T-CARE once the modelled part deviates
       /\ cache' = r.cache /\ aes' = r.aes /\ reg' = RegStep(reg, d)
       /\ hist' = Append(hist, d) /\ obs' = Append(obs, ObsOf(d, reg, r))

TraceResidue ==
    /\ IsEvent("Residue")
    /\ Ev.cfg /\ Ev.tmp /\ Ev.fds /\ Ev.fns
    /\ Ev.aesfn = ~aes                                     \* AES provider functions back iff not patched
    /\ (Ev.reg = "partial") <=> (RegState(reg) = "partial")   \* "empty" / "full": equivalent (lazy fill)
    /\ UNCHANGED <<cache, aes, reg, hist, obs>>

TraceInit == tid \in 1..Len(Traces) /\ l = 1 /\ reg = Reg0 /\ cache = {} /\ aes = FALSE /\ hist = <<>> /\ obs = <<>>
\* the properties are conjoined primed: with Deviations = {} they hold by the theorem; with the as-built
\* deviations they are dropped (AsBuilt = TRUE) and the trace is checked against the deviating model itself
AsBuilt == Deviations # {}
TraceNext == (TraceExtract \/ TraceResidue) /\ (AsBuilt \/ (HistoryIndependent' /\ ResidueFree'))
TraceSpec == TraceInit /\ [][TraceNext]_tvars

TraceAccept ==
    /\ (l = Len(Traces[tid].ev) + 1) => PrintT(<<"ACCEPT", tid>>)
    /\ (IOEnv.MBV_PROGRESS = "1") => PrintT(<<"AT", tid, l>>)
=============================================================================
