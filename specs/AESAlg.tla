------------------------------- MODULE AESAlg -------------------------------
(* C20 -- algebraic theorems about AES.tla, decided by TLC (no code involved).
   Configuration  SPECIFICATION AlgSpec  (one state) with the Thm_* as invariants:
   the Bitwise XOR is bitwise addition mod 2; GInv is the field inverse; SBox / InvSBox are
   mutually inverse bijections and agree with the worked example of FIPS-197 (5.1.1: {53} ->
   {ed}); the multiplication tables equal their XTime expansions and are GF(2)-linear;
   InvShiftRows o ShiftRows = id; InvMixCol o MixCol = id on the 32 unit columns, which with
   linearity of the tables gives it for every column; MixCol agrees with the standard's
   examples; Rcon is 01 02 04 08 10 20 40 80 1b 36.
   (Kept apart from AESKat.tla: TLC evaluates constant-level definitions at start-up.)      *)
EXTENDS AES, FiniteSets

BitXor(a, b) == LET x(i) == ((Bit(a, i) + Bit(b, i)) % 2) * (2 ^ i)
                IN  x(0) + x(1) + x(2) + x(3) + x(4) + x(5) + x(6) + x(7)
Thm_XorIsBitwise == \A a \in Byte : \A b \in Byte : (a \oplus b) = BitXor(a, b)

Thm_FieldInverse == \A a \in 1..255 : GMul(a, GInv(a)) = 1 /\ GInv(a) \in 1..255
Thm_GMulCommutes == \A a \in {0, 1, 2, 3, 87, 131, 255} : \A b \in Byte : GMul(a, b) = GMul(b, a)
Thm_GMulExample  == GMul(87, 131) = 193 /\ GMul(87, 19) = 254          \* FIPS-197 4.2, 4.2.1

Thm_SBoxInverse == /\ DOMAIN SBox = Byte /\ DOMAIN InvSBox = Byte
                   /\ \A b \in Byte : SBox[b] \in Byte /\ InvSBox[SBox[b]] = b /\ SBox[InvSBox[b]] = b
Thm_SBoxBijective == Cardinality({SBox[b] : b \in Byte}) = 256
Thm_SBoxExample == SBox[0] = 99 /\ SBox[83] = 237 /\ SBox[255] = 22 /\ InvSBox[0] = 82   \* 63, ed, 16, 52
Thm_SBoxNoFixpoint == \A b \in Byte : SBox[b] # b /\ SBox[b] # 255 - b

X2(b) == XTime(b)
X4(b) == XTime(XTime(b))
X8(b) == XTime(XTime(XTime(b)))
Thm_MulTables == \A b \in Byte :
    /\ Mul2[b]  = X2(b)
    /\ Mul3[b]  = X2(b) \oplus b
    /\ Mul9[b]  = X8(b) \oplus b
    /\ Mul11[b] = X8(b) \oplus X2(b) \oplus b
    /\ Mul13[b] = X8(b) \oplus X4(b) \oplus b
    /\ Mul14[b] = X8(b) \oplus X4(b) \oplus X2(b)
MulTabs == << Mul2, Mul3, Mul9, Mul11, Mul13, Mul14 >>
Thm_MulLinear == \A t \in 1..6 : \A a \in Byte : \A b \in Byte :
                     MulTabs[t][a \oplus b] = (MulTabs[t][a] \oplus MulTabs[t][b])

Iota == [i \in Idx |-> i - 1]
UnitState(p, v) == [i \in Idx |-> IF i = p THEN v ELSE 0]
Thm_ShiftRows ==
    /\ InvShiftRows(ShiftRows(Iota)) = Iota /\ ShiftRows(InvShiftRows(Iota)) = Iota
    /\ ShiftRows(Iota) = << 0, 5, 10, 15, 4, 9, 14, 3, 8, 13, 2, 7, 12, 1, 6, 11 >>     \* FIPS-197 Fig. 8
    /\ \A p \in Idx : InvShiftRows(ShiftRows(UnitState(p, 1))) = UnitState(p, 1)

UnitCol(p, v) == [i \in 1..4 |-> IF i = p THEN v ELSE 0]
Thm_MixColumns ==
    /\ \A p \in 1..4 : \A i \in 0..7 :
           /\ InvMixCol(MixCol(UnitCol(p, 2 ^ i))) = UnitCol(p, 2 ^ i)
           /\ MixCol(InvMixCol(UnitCol(p, 2 ^ i))) = UnitCol(p, 2 ^ i)
    /\ MixCol(<< 219, 19, 83, 69 >>) = << 142, 77, 161, 188 >>          \* db 13 53 45 -> 8e 4d a1 bc
    /\ MixCol(<< 212, 191, 93, 48 >>) = << 4, 102, 129, 229 >>          \* FIPS-197 app. B round 1: d4 bf 5d 30 -> 04 66 81 e5
    /\ InvMixColumns(MixColumns(Iota)) = Iota

Thm_Rcon == Rcon = << 1, 2, 4, 8, 16, 32, 64, 128, 27, 54 >>

AlgSpec == AESInit /\ [][FALSE]_aesvars
=============================================================================
