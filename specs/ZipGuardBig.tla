---------------------------- MODULE ZipGuardBig ----------------------------
(* C11 -- the declarative guard predicate on naturals that do not fit TLC's 32-bit integers.

   The default limits of zip_bomb.py (1 GiB, 4 GiB, 50,000 entries, ratios 200 / 500) and the sizes
   forged into real ZIP headers (up to 2^33) exceed 2^31 - 1.  Here a natural is a little-endian
   sequence of limbs in 0..Base-1 without a most-significant zero limb (zero = <<>>); the
   operations are comparison, addition with carry and multiplication by a small factor
   (ratio numerators/denominators and run lengths, < 2^16).  With Base = 2^15 no intermediate
   value exceeds 32767 * 65535 + 65535 < 2^31.

   A container is a sequence of GROUPS [n, fs, cs, dir]: n identical entries (run-length form, so
   that a 50,001-entry package is a handful of groups); fs, cs are limb sequences.

   BigClass(gs, BL) is the same three-valued oracle as ZipGuard!Class.  TLC checks the agreement on
   the overlap (Base = 4, sizes 0..7, run lengths 0..2: BigSpec / Inv_BigAgrees) and the arithmetic
   lemmas (ArithOK) against the built-in integers.                                              *)
EXTENDS ZipGuard

CONSTANT Base

(* ---- limb arithmetic *)
RECURSIVE ToBig(_), Val(_), AddC(_, _, _), MulC(_, _, _), LessAt(_, _, _)
ToBig(n) == IF n = 0 THEN <<>> ELSE <<n % Base>> \o ToBig(n \div Base)
Val(a)   == IF a = <<>> THEN 0 ELSE Head(a) + Base * Val(Tail(a))

WellFormed(a) == /\ \A k \in DOMAIN a : a[k] \in 0..(Base - 1)
                 /\ (a # <<>> => a[Len(a)] # 0)

TailOrEmpty(a) == IF a = <<>> THEN <<>> ELSE Tail(a)
HeadOrZero(a)  == IF a = <<>> THEN 0 ELSE Head(a)
AddC(a, b, carry) ==
    IF a = <<>> /\ b = <<>> THEN ToBig(carry)
    ELSE LET s == HeadOrZero(a) + HeadOrZero(b) + carry
         IN  <<s % Base>> \o AddC(TailOrEmpty(a), TailOrEmpty(b), s \div Base)
Add(a, b) == AddC(a, b, 0)

MulC(a, k, carry) ==
    IF a = <<>> THEN ToBig(carry)
    ELSE LET s == Head(a) * k + carry
         IN  <<s % Base>> \o MulC(Tail(a), k, s \div Base)
MulSmall(a, k) == IF k = 0 THEN <<>> ELSE MulC(a, k, 0)

LessAt(a, b, k) == IF k = 0 THEN FALSE
                   ELSE IF a[k] # b[k] THEN a[k] < b[k]
                   ELSE LessAt(a, b, k - 1)
Less(a, b) == Len(a) < Len(b) \/ (Len(a) = Len(b) /\ LessAt(a, b, Len(a)))
BGt(a, b)  == Less(b, a)
IsZero(a)  == a = <<>>

\* lemmas against the built-in integers on a small range (checked when Base is small)
ArithRange == 0..40
ArithOK == /\ \A x \in ArithRange : WellFormed(ToBig(x)) /\ Val(ToBig(x)) = x
           /\ \A x, y \in ArithRange :
                 /\ Add(ToBig(x), ToBig(y)) = ToBig(x + y)
                 /\ (Less(ToBig(x), ToBig(y)) <=> x < y)
           /\ \A x \in ArithRange, k \in 0..7 : MulSmall(ToBig(x), k) = ToBig(x * k)
ASSUME Base > 16 \/ ArithOK

(* ---- the predicate on groups *)
G(n, f, c, d) == [n |-> n, fs |-> f, cs |-> c, dir |-> d]

BFiles(gs) == { k \in DOMAIN gs : ~gs[k].dir /\ gs[k].n > 0 }

RECURSIVE BCount(_, _), BCountFiles(_, _), BSumU(_, _), BSumC(_, _)
BCount(gs, k)      == IF k = 0 THEN 0 ELSE BCount(gs, k - 1) + gs[k].n
BCountFiles(gs, k) == IF k = 0 THEN 0 ELSE BCountFiles(gs, k - 1) + (IF gs[k].dir THEN 0 ELSE gs[k].n)
BSumU(gs, k) == IF k = 0 THEN <<>>
                ELSE Add(BSumU(gs, k - 1), IF gs[k].dir THEN <<>> ELSE MulSmall(gs[k].fs, gs[k].n))
BSumC(gs, k) == IF k = 0 THEN <<>>
                ELSE Add(BSumC(gs, k - 1), IF gs[k].dir THEN <<>> ELSE MulSmall(gs[k].cs, gs[k].n))
BTotU(gs) == BSumU(gs, Len(gs))
BTotC(gs) == BSumC(gs, Len(gs))

\* BL = [maxEntries (int), maxSingle, maxTotal (limbs), trNum, trDen, erNum, erDen (ints < 2^16)]
BClCount(gs, BL)      == BCount(gs, Len(gs)) > BL.maxEntries
BClCountFiles(gs, BL) == BCountFiles(gs, Len(gs)) > BL.maxEntries
BClSingle(gs, BL)     == \E k \in BFiles(gs) : BGt(gs[k].fs, BL.maxSingle)
BClZeroCs(gs, BL)     == \E k \in BFiles(gs) : ~IsZero(gs[k].fs) /\ IsZero(gs[k].cs)
BClEntryRatio(gs, BL) == \E k \in BFiles(gs) :
                            /\ ~IsZero(gs[k].cs)
                            /\ BGt(MulSmall(gs[k].fs, BL.erDen), MulSmall(gs[k].cs, BL.erNum))
BClTotal(gs, BL)      == BGt(BTotU(gs), BL.maxTotal)
BClTotZero(gs, BL)    == ~IsZero(BTotU(gs)) /\ IsZero(BTotC(gs))
BClTotRatio(gs, BL)   == /\ ~IsZero(BTotC(gs))
                         /\ BGt(MulSmall(BTotU(gs), BL.trDen), MulSmall(BTotC(gs), BL.trNum))

BSizeReject(gs, BL) == \/ BClSingle(gs, BL) \/ BClZeroCs(gs, BL) \/ BClEntryRatio(gs, BL)
                       \/ BClTotal(gs, BL) \/ BClTotZero(gs, BL) \/ BClTotRatio(gs, BL)
BReject(gs, BL)     == BClCount(gs, BL) \/ BSizeReject(gs, BL)
BMustReject(gs, BL) == BReject(gs, BL)                   \* every record counts (ZipGuard, ENTRY COUNT)
BMustAccept(gs, BL) == ~BReject(gs, BL)
BigClass(gs, BL)    == IF BMustReject(gs, BL) THEN "reject"
                       ELSE IF BMustAccept(gs, BL) THEN "accept" ELSE "dontcare"
BigConforms(gs, BL, rejected) == /\ BMustReject(gs, BL) => rejected
                                 /\ BMustAccept(gs, BL) => ~rejected

BigFired(gs, BL) == { c \in {"Count", "Single", "ZeroCs", "EntryRatio", "Total", "TotZero", "TotRatio"} :
                        \/ c = "Count" /\ BClCount(gs, BL)
                        \/ c = "Single" /\ BClSingle(gs, BL)
                        \/ c = "ZeroCs" /\ BClZeroCs(gs, BL)
                        \/ c = "EntryRatio" /\ BClEntryRatio(gs, BL)
                        \/ c = "Total" /\ BClTotal(gs, BL)
                        \/ c = "TotZero" /\ BClTotZero(gs, BL)
                        \/ c = "TotRatio" /\ BClTotRatio(gs, BL) }

WellFormedGroups(gs) == \A k \in DOMAIN gs : WellFormed(gs[k].fs) /\ WellFormed(gs[k].cs) /\ gs[k].n \in Nat
WellFormedLimits(BL) == WellFormed(BL.maxSingle) /\ WellFormed(BL.maxTotal)

(* ---- agreement with the small-integer definition on the overlap *)
VARIABLE gsv                     \* a group vector over small integers: [n, fs, cs, dir] with integer sizes

RECURSIVE Expand(_, _), Copies(_, _)
Copies(e, n)  == IF n = 0 THEN <<>> ELSE <<e>> \o Copies(e, n - 1)
Expand(gs, k) == IF k = 0 THEN <<>> ELSE Expand(gs, k - 1) \o Copies(E(gs[k].fs, gs[k].cs, gs[k].dir), gs[k].n)
\* (the metadata bit `ab` of ZipGuard entries is not carried: no clause reads it)
Encode(gs)    == [k \in DOMAIN gs |-> G(gs[k].n, ToBig(gs[k].fs), ToBig(gs[k].cs), gs[k].dir)]
EncodeLimits(lim) == [maxEntries |-> lim.maxEntries, maxSingle |-> ToBig(lim.maxSingle),
                      maxTotal |-> ToBig(lim.maxTotal), trNum |-> lim.trNum, trDen |-> lim.trDen,
                      erNum |-> lim.erNum, erDen |-> lim.erDen]

GroupDom == [n : 0..2, fs : FS, cs : CS, dir : BOOLEAN]
BigInit == /\ gsv \in UNION { [1..m -> GroupDom] : m \in 0..MaxN }
           /\ LoopIdle /\ ProtoIdle
BigNext == UNCHANGED <<vars, gsv>>
BigSpec == BigInit /\ [][BigNext]_<<vars, gsv>>

Inv_BigAgrees ==
    \A lim \in LimitSets :
        LET x == Expand(gsv, Len(gsv)) IN
        /\ BigClass(Encode(gsv), EncodeLimits(lim)) = Class(x, lim)
        /\ BigFired(Encode(gsv), EncodeLimits(lim)) = Fired(x, lim)
        /\ WellFormedGroups(Encode(gsv))
=============================================================================
