----------------------------- MODULE XlsWalkDefs -----------------------------
(* Model of the legacy XLS sheet reader  xls_extractor.py:_read_content  (first row -> header strings, further rows ->
   dictionaries keyed by header string)  and  data_types.py:XlsSheet.get_table  (table rebuilt from the dictionaries).
   Input: the rectangular grid xlrd reports, cells <<kind, n>>:
       <<"none", 0>>  empty      <<"tok", id>> text      <<"num", n2>> number      <<"bool", b>>      <<"err", 0>> error value
   Output cells also: <<"estr", 0>> the empty string, <<"numstr", n2>> / <<"boolstr", b>> a value written as text,
   <<"errstr", 0>> the text "#ERROR".
   As built (open findings of C13):
       "Xls!HeaderOnlySheetEmpty"  a sheet with one row has no dictionaries, so get_table() returns []          KF-C13-06
       "Xls!HeaderKeyCollision"    equal header strings share one dictionary key: the table has one column per DISTINCT
                                   header string, filled with the LAST such column's values                      KF-C13-07
       "Xls!ErrorCellNone"         an error cell is stored as None                                               KF-C13-08   *)
EXTENDS Naturals, Sequences, FiniteSets, TLC

CONSTANT WalkDev

None == <<"none", 0>>
HdrStr(c) == CASE c[1] = "none" -> <<"estr", 0>>
               [] c[1] = "num"  -> <<"numstr", c[2]>>
               [] c[1] = "bool" -> <<"boolstr", c[2]>>
               [] c[1] = "err"  -> <<"errstr", 0>>
               [] OTHER         -> c
Native(c) == IF c[1] = "err" THEN (IF "Xls!ErrorCellNone" \in WalkDev THEN None ELSE <<"errstr", 0>>) ELSE c

\* dictionary as a sequence of <<key, value>> pairs in insertion order; assigning an existing key overwrites in place
RECURSIVE Put(_, _, _)
Put(d, k, v) == IF d = <<>> THEN << <<k, v>> >>
                ELSE IF Head(d)[1] = k THEN << <<k, v>> >> \o Tail(d) ELSE <<Head(d)>> \o Put(Tail(d), k, v)
RowDict(headers, row) ==
    LET step[j \in 0..Len(row)] == IF j = 0 THEN <<>> ELSE Put(step[j - 1], headers[j], Native(row[j]))
    IN step[Len(row)]
Keys(d) == [j \in DOMAIN d |-> d[j][1]]
Get(d, k) == IF \E j \in DOMAIN d : d[j][1] = k THEN d[CHOOSE j \in DOMAIN d : d[j][1] = k][2] ELSE None

TableOf(grid) ==
    IF grid = <<>> THEN <<>>
    ELSE LET headers == [j \in DOMAIN grid[1] |-> HdrStr(grid[1][j])]
             body    == SubSeq(grid, 2, Len(grid))
         IN IF "Xls!HeaderKeyCollision" \in WalkDev
            THEN LET dicts == [i \in DOMAIN body |-> RowDict(headers, body[i])]
                 IN IF dicts = <<>> THEN (IF "Xls!HeaderOnlySheetEmpty" \in WalkDev THEN <<>> ELSE <<headers>>)
                    ELSE <<Keys(dicts[1])>> \o [i \in DOMAIN dicts |-> [j \in DOMAIN Keys(dicts[1]) |-> Get(dicts[i], Keys(dicts[1])[j])]]
            ELSE IF body = <<>> /\ "Xls!HeaderOnlySheetEmpty" \in WalkDev THEN <<>>
                 ELSE <<headers>> \o [i \in DOMAIN body |-> [j \in DOMAIN body[i] |-> Native(body[i][j])]]
=============================================================================
