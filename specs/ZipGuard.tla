------------------------------ MODULE ZipGuard ------------------------------
(* C11 -- the ZIP-container bomb guard decides exactly and runs before any read.

   Mirrors /repo/sharepoint2text/parsing/extractors/util/zip_bomb.py
       validate_zipfile      -> the accumulator loop   (CheckCount, LoopStep, LoopExit, Final)
       open_zipfile          -> helper "ozf"            (seek 0, construct, validate, return | close+raise)
       validate_zip_bytesio  -> helper "vzb"            (tell, seek 0, construct, validate, close, seek back)
   and the way the extractors use them (zip_context.py:ZipContext, encryption.py:is_odf_encrypted,
   xlsx_extractor.py:read_xlsx = vzb on the bytes, then openpyxl opens the same bytes itself,
   archive_extractor.py = a plain archive, outside the property).

   An entry is [fs |-> uncompressed size, cs |-> compressed size, dir |-> is a directory entry,
                ab |-> its metadata SAYS "directory"].
   dir is a property of the entry's NAME only: a name ending in "/" (zipfile.ZipInfo.is_dir()); these are
   the only members zipfile never decompresses.  Everything else an entry carries -- external_attr
   (MS-DOS directory bit 0x10, Unix mode with S_IFDIR / S_IFLNK, read-only), create_system (DOS / Unix),
   general-purpose flag bits, the compression method (stored / deflated / ...) -- is attacker-controlled
   decoration that does not stop ZipFile.read() from inflating the member, so the verdict must not
   depend on it.  The model keeps one representative bit of that decoration, `ab`, which no clause of
   the declarative predicate reads; the theorem run with AttrBits = BOOLEAN proves that the loop does
   not read it either, and the deviation "DirByAttr" (skip entries whose attributes say directory)
   breaks the theorem.  The harnesses draw the real metadata independently of the name.
   Limits are  [maxEntries, maxSingle, maxTotal, trNum, trDen, erNum, erDen]; the two ratio limits
   are the rationals trNum/trDen (whole container) and erNum/erDen (one entry); "ratio > limit"
   is decided by exact integer cross-multiplication.

   PART 1 (declarative)  Reject(es, L): what the property statement says.
   PART 2 (algorithm)    the loop with the code's check order, one action per iteration.
                         Theorem (TLC): verdict at loop exit = Reject on the boundary lattice.
                         CONSTANT Deviations switches single mutations of the loop on; each must
                         break the theorem (sensitivity configs).
   PART 3 (protocol)     container objects Open -> Validated | Rejected; a client can only read
                         what it holds; the helpers hand an object out only when Validated.
                         Theorem (TLC): every held object satisfies MayRead; vzb restores the
                         caller's stream position.  Deviations break these as well.

   ENTRY COUNT.  The entry-count clause is about central-directory RECORDS: every record counts, explicit
   directory records ("name/") included -- that is what the unchanged code does (len(infolist())), what
   DESIGN.md 4/C11 fixes ("count of all entries > maxEntries"), and what the clause protects (the cost of
   listing / holding the records).  "Directory entries are ignored" applies to the size and ratio
   clauses.  An earlier version of this module left vectors whose count exceeds the limit only through
   directory records as DON'T-CARE; that band is closed (MustReject = Reject, DontCare = FALSE) and
   the deviation "CountFilesOnly" (count non-directory records only) must break the theorem.
   The oracle keeps its three-valued shape (MustReject / MustAccept / DontCare) for the observation "other".
   Which clause is reported in the error message is not constrained either (variable `why`).     *)
EXTENDS Naturals, Sequences, FiniteSets, TLC

CONSTANTS Deviations,      \* subset of DeviationNames; {} = reference design
          FS, CS, MaxN,    \* lattice: file sizes, compressed sizes, max number of entries
          AttrBits,        \* values of the metadata bit `ab`: {FALSE} (main lattice) or BOOLEAN
          LimitSets        \* set of limit records the lattice is crossed with

LoopDeviations  == {"CountGe", "SingleGe", "EntryRatioGe", "TotalGe", "TotalRatioGe",
                    "DropCount", "DropSingle", "DropZeroCs", "DropEntryRatio", "DropTotal",
                    "DropTotalRatio", "CountDirs", "EntryRatioSwapped", "TotalRatioSwapped", "DirByAttr", "CountFilesOnly"}
ProtoDeviations == {"DirectConstruct", "ReadBeforeValidate", "ReturnRejected", "XlsxSkipsValidate",
                    "NoRestorePos"}
DeviationNames  == LoopDeviations \cup ProtoDeviations
ASSUME Deviations \subseteq DeviationNames

Dev(d) == d \in Deviations

(* ------------------------------------------------------------------ limits *)
Lim(me, ms, mt, trn, trd, ern, erd) ==
    [maxEntries |-> me, maxSingle |-> ms, maxTotal |-> mt,
     trNum |-> trn, trDen |-> trd, erNum |-> ern, erDen |-> erd]

L0 == Lim(2, 4, 6, 2, 1, 3, 1)           \* the design's boundary lattice limits
L1 == Lim(1, 4, 6, 2, 1, 3, 1)           \* entry-count clause reachable with two entries
L2 == Lim(2, 3, 5, 5, 2, 7, 2)           \* non-integer ratio limits 2.5 and 3.5
L3 == Lim(3, 4, 6, 2, 1, 3, 1)           \* three entries allowed: totals over three entries
LS_Base    == {L0}
LS_Quick   == {L0, L1, L2}
LS_Three   == {L0, L3}
\* each limit tightened alone (all others so loose that they never fire on the lattice), each limit loosened
\* alone (all others as in L0), everything loose
Loose == Lim(100, 1000, 1000, 1000, 1, 1000, 1)
LS_Alone   == { Loose,
                [Loose EXCEPT !.maxEntries = 2], [Loose EXCEPT !.maxSingle = 4], [Loose EXCEPT !.maxTotal = 6],
                [Loose EXCEPT !.trNum = 2], [Loose EXCEPT !.erNum = 3],
                [L0 EXCEPT !.maxEntries = 100], [L0 EXCEPT !.maxSingle = 1000], [L0 EXCEPT !.maxTotal = 1000],
                [L0 EXCEPT !.trNum = 1000], [L0 EXCEPT !.erNum = 1000] }
LS_QuickAll == LS_Quick \cup LS_Alone
\* every threshold at -1 / 0 / +1 around L0 (ratios in halves), all 243 combinations
LS_Variants == { Lim(me, ms, mt, trn, 2, ern, 2) :
                   me \in 1..3, ms \in 3..5, mt \in 5..7, trn \in 3..5, ern \in 5..7 }

(* ------------------------------------------------------------------ PART 1: declarative *)
E4(f, c, d, a) == [fs |-> f, cs |-> c, dir |-> d, ab |-> a]
E(f, c, d) == E4(f, c, d, FALSE)

Files(es) == { k \in DOMAIN es : ~es[k].dir }

RECURSIVE SumU(_, _), SumC(_, _)
SumU(es, k) == IF k = 0 THEN 0 ELSE SumU(es, k - 1) + (IF es[k].dir THEN 0 ELSE es[k].fs)
SumC(es, k) == IF k = 0 THEN 0 ELSE SumC(es, k - 1) + (IF es[k].dir THEN 0 ELSE es[k].cs)
TotU(es) == SumU(es, Len(es))
TotC(es) == SumC(es, Len(es))

ClCount(es, L)      == Len(es) > L.maxEntries                       \* all entries (the code's reading)
ClCountFiles(es, L) == Cardinality(Files(es)) > L.maxEntries        \* non-directory entries only
ClSingle(es, L)     == \E k \in Files(es) : es[k].fs > L.maxSingle
ClZeroCs(es, L)     == \E k \in Files(es) : es[k].fs > 0 /\ es[k].cs = 0
ClEntryRatio(es, L) == \E k \in Files(es) : es[k].cs > 0 /\ es[k].fs * L.erDen > L.erNum * es[k].cs
ClTotal(es, L)      == TotU(es) > L.maxTotal
ClTotZero(es, L)    == TotU(es) > 0 /\ TotC(es) = 0
ClTotRatio(es, L)   == TotC(es) > 0 /\ TotU(es) * L.trDen > L.trNum * TotC(es)

SizeReject(es, L) == \/ ClSingle(es, L) \/ ClZeroCs(es, L) \/ ClEntryRatio(es, L)
                     \/ ClTotal(es, L) \/ ClTotZero(es, L) \/ ClTotRatio(es, L)

Reject(es, L)     == ClCount(es, L) \/ SizeReject(es, L)           \* reference design = the code's reading
MustReject(es, L) == Reject(es, L)                                 \* every record counts (see ENTRY COUNT above)
MustAccept(es, L) == ~Reject(es, L)
DontCare(es, L)   == Reject(es, L) /\ ~MustReject(es, L)
Class(es, L)      == IF MustReject(es, L) THEN "reject" ELSE IF MustAccept(es, L) THEN "accept" ELSE "dontcare"

\* the observation `rejected` (validate_zipfile raised ExtractionZipBombError) is allowed for (es, L)
Conforms(es, L, rejected) == /\ MustReject(es, L) => rejected
                             /\ MustAccept(es, L) => ~rejected

\* three-valued observation: "bomb" (ExtractionZipBombError), "ok" (returned), "other" (anything else)
ConformsObs(es, L, obs) == /\ MustReject(es, L) => obs = "bomb"
                           /\ MustAccept(es, L) => obs = "ok"

Fired(es, L) == { c \in {"Count", "Single", "ZeroCs", "EntryRatio", "Total", "TotZero", "TotRatio"} :
                    \/ c = "Count" /\ ClCount(es, L)
                    \/ c = "Single" /\ ClSingle(es, L)
                    \/ c = "ZeroCs" /\ ClZeroCs(es, L)
                    \/ c = "EntryRatio" /\ ClEntryRatio(es, L)
                    \/ c = "Total" /\ ClTotal(es, L)
                    \/ c = "TotZero" /\ ClTotZero(es, L)
                    \/ c = "TotRatio" /\ ClTotRatio(es, L) }

(* ------------------------------------------------------------------ PART 2: the loop *)
VARIABLES es, L,                       \* the input of one validate_zipfile call
          pc, i, totU, totC, verdict, why
loopvars == <<es, L, pc, i, totU, totC, verdict, why>>

\* PART 3 variables (declared here so that one module holds the whole machine)
VARIABLES objs,      \* sequence of container objects [d |-> bytes id, site |-> who constructed it, st |-> state]
          vb,        \* set of bytes ids that validate_zipfile accepted
          held,      \* object indices the client (extractor code) can call open()/read() on
          okb,       \* bytes ids for which validate_zip_bytesio returned normally to the client
          cpos,      \* position of the caller's stream
          call       \* the helper call in progress, [fn |-> "none"] when idle
protovars == <<objs, vb, held, okb, cpos, call>>
vars == <<loopvars, protovars>>

EntryDom == [fs : FS, cs : CS, dir : BOOLEAN, ab : AttrBits]
Vectors  == UNION { [1..n -> EntryDom] : n \in 0..MaxN }

Gt(a, b, flipped) == IF Dev(flipped) THEN a >= b ELSE a > b

LoopIdle  == /\ es = <<>> /\ L = L0 /\ pc = "off" /\ i = 0 /\ totU = 0 /\ totC = 0
             /\ verdict = "none" /\ why = ""
ProtoIdle == /\ objs = <<>> /\ vb = {} /\ held = {} /\ okb = {} /\ cpos = 0 /\ call = [fn |-> "none"]

LoopStart(v, lim) == /\ es = v /\ L = lim /\ pc = "count" /\ i = 1 /\ totU = 0 /\ totC = 0
                     /\ verdict = "none" /\ why = ""

Init == /\ \E v \in Vectors, lim \in LimitSets : LoopStart(v, lim)
        /\ ProtoIdle

Raise(reason) == /\ verdict' = "reject" /\ why' = reason /\ pc' = "done"

\* if len(infos) > limits.max_entries: raise
CheckCount ==
    /\ pc = "count"
    /\ LET n == IF Dev("CountFilesOnly") THEN Cardinality(Files(es)) ELSE Len(es) IN
       IF ~Dev("DropCount") /\ Gt(n, L.maxEntries, "CountGe")
       THEN Raise("Count") /\ UNCHANGED <<es, L, i, totU, totC>>
       ELSE pc' = "loop" /\ UNCHANGED <<es, L, i, totU, totC, verdict, why>>

\* one iteration of `for info in infos:` with the code's order of checks
LoopStep ==
    /\ pc = "loop" /\ i <= Len(es)
    /\ LET e == es[i]
           u == totU + e.fs
           c == totC + e.cs
           ratioBad == IF Dev("EntryRatioSwapped")
                       THEN Gt(e.cs * L.erDen, L.erNum * e.fs, "EntryRatioGe")     \* compressed / uncompressed
                       ELSE Gt(e.fs * L.erDen, L.erNum * e.cs, "EntryRatioGe")
       IN
       IF (e.dir \/ (Dev("DirByAttr") /\ e.ab)) /\ ~Dev("CountDirs")  \* if _is_directory(info): continue
       THEN i' = i + 1 /\ UNCHANGED <<es, L, pc, totU, totC, verdict, why>>
       ELSE IF ~Dev("DropSingle") /\ Gt(e.fs, L.maxSingle, "SingleGe")
       THEN Raise("Single") /\ UNCHANGED <<es, L, i, totU, totC>>
       ELSE IF ~Dev("DropZeroCs") /\ e.fs > 0 /\ e.cs <= 0
       THEN Raise("ZeroCs") /\ UNCHANGED <<es, L, i, totU, totC>>
       ELSE IF ~Dev("DropEntryRatio") /\ e.fs > 0 /\ e.cs > 0 /\ ratioBad
       THEN Raise("EntryRatio") /\ UNCHANGED <<es, L, i, totU, totC>>
       ELSE IF ~Dev("DropTotal") /\ Gt(u, L.maxTotal, "TotalGe")
       THEN Raise("Total") /\ totU' = u /\ totC' = c /\ UNCHANGED <<es, L, i>>
       ELSE /\ totU' = u /\ totC' = c /\ i' = i + 1
            /\ UNCHANGED <<es, L, pc, verdict, why>>

LoopExit == /\ pc = "loop" /\ i > Len(es) /\ pc' = "final"
            /\ UNCHANGED <<es, L, i, totU, totC, verdict, why>>

\* after the loop: zero total compressed size, total ratio
Final ==
    /\ pc = "final"
    /\ LET ratioBad == IF Dev("TotalRatioSwapped")
                       THEN Gt(totC * L.trDen, L.trNum * totU, "TotalRatioGe")
                       ELSE Gt(totU * L.trDen, L.trNum * totC, "TotalRatioGe")
       IN
       IF totU > 0 /\ totC <= 0
       THEN Raise("TotZero") /\ UNCHANGED <<es, L, i, totU, totC>>
       ELSE IF ~Dev("DropTotalRatio") /\ totU > 0 /\ ratioBad
       THEN Raise("TotRatio") /\ UNCHANGED <<es, L, i, totU, totC>>
       ELSE /\ verdict' = "accept" /\ pc' = "done" /\ UNCHANGED <<es, L, i, totU, totC, why>>

LoopNext == (CheckCount \/ LoopStep \/ LoopExit \/ Final) /\ UNCHANGED protovars
Spec == Init /\ [][LoopNext]_vars

\* ---- theorems about the loop (checked by TLC with Deviations = {})
Inv_LoopEqualsReject == pc = "done" => ((verdict = "reject") <=> Reject(es, L))
Inv_LoopConforms     == pc = "done" => Conforms(es, L, verdict = "reject")
Inv_WhyFired         == (pc = "done" /\ verdict = "reject") => why \in Fired(es, L)
Inv_Accumulators     == pc \in {"loop", "final"} =>
                           /\ totU = SumU(es, i - 1) /\ totC = SumC(es, i - 1)
                           /\ totU <= L.maxTotal
\* the whole-container zero clause is implied by the per-entry one (so dropping it changes nothing)
Inv_TotZeroRedundant == ClTotZero(es, L) => ClZeroCs(es, L)
\* the three-valued oracle is consistent: the classes partition, the code's reading is allowed
Inv_OracleConsistent == /\ ~(MustReject(es, L) /\ MustAccept(es, L))
                        /\ Conforms(es, L, Reject(es, L))
                        /\ ~DontCare(es, L)
                        /\ (ClCount(es, L) /\ ~ClCountFiles(es, L)) => MustReject(es, L)   \* count reached through directories

(* ------------------------------------------------------------------ PART 3: protocol *)
\* sites a recorder reports: "open_zipfile", "validate_zip_bytesio", "ZipContext" (the sanctioned helpers),
\* "openpyxl", "archive" (archive_extractor: plain archives, outside the property), "foreign" (anything else)
Obj(d, site, st) == [d |-> d, site |-> site, st |-> st]

\* The monitor predicate, shared with ZipGuardTrace: a member of object o may be decompressed iff
\* o belongs to the archive extractor (a plain archive, not a ZIP-container document), or
\* validate_zipfile accepted this very object, or it accepted the same bytes before (openpyxl).
MayRead(o, accepted) == \/ o.site = "archive"
                        \/ o.st = "Validated"
                        \/ (o.st = "Open" /\ o.d \in accepted)

\* a tiny world: bytes 1 is a good container, bytes 2 a bomb (under L0)
ProtoContent == (1 :> <<E(1, 1, FALSE)>>) @@ (2 :> <<E(7, 1, FALSE)>>)
ProtoBytes == DOMAIN ProtoContent
Positions == 0..2
MaxObjs == 3

Idle == call.fn = "none"
NewObj(o) == objs' = Append(objs, o)
Room == Len(objs) < MaxObjs

\* client calls open_zipfile(stream):  file_like.seek(0)
CallOzf(d) == /\ Idle /\ Room /\ call' = [fn |-> "ozf", d |-> d, step |-> "construct", orig |-> cpos]
              /\ cpos' = 0 /\ UNCHANGED <<objs, vb, held, okb>>
\* client calls validate_zip_bytesio(stream): original_pos = tell(); seek(0)
CallVzb(d) == /\ Idle /\ Room /\ call' = [fn |-> "vzb", d |-> d, step |-> "construct", orig |-> cpos]
              /\ cpos' = 0 /\ UNCHANGED <<objs, vb, held, okb>>

\* zipfile.ZipFile(file_like, "r"): reads the central directory, leaves the position anywhere
HelperConstruct ==
    /\ ~Idle /\ call.step = "construct"
    /\ NewObj(Obj(call.d, IF call.fn = "ozf" THEN "open_zipfile" ELSE "validate_zip_bytesio", "Open"))
    /\ \E p \in Positions : cpos' = p
    /\ call' = [call EXCEPT !.step = "validate"]
    /\ held' = IF Dev("ReadBeforeValidate") THEN held \cup {Len(objs) + 1} ELSE held
    /\ UNCHANGED <<vb, okb>>

\* validate_zipfile(zf): the loop of PART 2, summarised by its theorem (verdict = Reject)
HelperValidate ==
    /\ ~Idle /\ call.step = "validate"
    /\ LET o == Len(objs)
           bad == Reject(ProtoContent[call.d], L0) IN
       IF bad
       THEN /\ objs' = [objs EXCEPT ![o].st = "Rejected"]
            /\ vb' = vb
            \* open_zipfile: zf.close(); raise.  validate_zip_bytesio: with-block closes; raise
            /\ held' = IF Dev("ReturnRejected") /\ call.fn = "ozf" THEN held \cup {o} ELSE held
            /\ okb' = okb
       ELSE /\ objs' = [objs EXCEPT ![o].st = "Validated"]
            /\ vb' = vb \cup {call.d}
            /\ held' = IF call.fn = "ozf" THEN held \cup {o} ELSE held     \* open_zipfile returns zf
            /\ okb' = IF call.fn = "vzb" THEN okb \cup {call.d} ELSE okb
    /\ call' = IF call.fn = "vzb" THEN [call EXCEPT !.step = "exit"] ELSE [fn |-> "none"]
    /\ UNCHANGED cpos

\* validate_zip_bytesio: finally: file_like.seek(original_pos)
VzbExit == /\ ~Idle /\ call.step = "exit"
           /\ cpos' = IF Dev("NoRestorePos") THEN cpos ELSE call.orig
           /\ call' = [fn |-> "none"]
           /\ UNCHANGED <<objs, vb, held, okb>>

\* read_xlsx: load_workbook(BytesIO(raw)) after validate_zip_bytesio(BytesIO(raw)) returned
OpenpyxlLoad(d) == /\ Idle /\ Room
                   /\ d \in okb \/ Dev("XlsxSkipsValidate")
                   /\ NewObj(Obj(d, "openpyxl", "Open"))
                   /\ held' = held \cup {Len(objs) + 1}
                   /\ UNCHANGED <<vb, okb, cpos, call>>

\* archive_extractor: with zipfile.ZipFile(file_like) -- a plain archive
ArchiveOpen(d) == /\ Idle /\ Room /\ NewObj(Obj(d, "archive", "Open"))
                  /\ held' = held \cup {Len(objs) + 1} /\ UNCHANGED <<vb, okb, cpos, call>>

\* deviation: an extractor constructs zipfile.ZipFile itself
DirectConstruct(d) == /\ Dev("DirectConstruct") /\ Idle /\ Room
                      /\ NewObj(Obj(d, "foreign", "Open"))
                      /\ held' = held \cup {Len(objs) + 1} /\ UNCHANGED <<vb, okb, cpos, call>>

\* the client moves its own stream around between calls
ClientSeek == /\ Idle /\ \E p \in Positions : cpos' = p
              /\ UNCHANGED <<objs, vb, held, okb, call>>

ProtoInit == LoopIdle /\ ProtoIdle
ProtoNext == /\ \/ \E d \in ProtoBytes : CallOzf(d) \/ CallVzb(d) \/ OpenpyxlLoad(d)
                                         \/ ArchiveOpen(d) \/ DirectConstruct(d)
                \/ HelperConstruct \/ HelperValidate \/ VzbExit \/ ClientSeek
             /\ UNCHANGED loopvars
ProtoSpec == ProtoInit /\ [][ProtoNext]_vars

\* whatever the client holds (and can therefore call open()/read() on) may be read
Inv_ValidateBeforeRead == \A o \in held : MayRead(objs[o], vb)
\* a rejected container is never handed out, its bytes are never accepted
Inv_RejectedNotHeld == \A o \in held : objs[o].st # "Rejected"
Inv_AcceptedAreGood == \A d \in vb : ~Reject(ProtoContent[d], L0)
\* validate_zip_bytesio gives the stream back where it found it (accepting or raising)
Prop_PosRestored == [][(call.fn = "vzb" /\ call'.fn = "none") => cpos' = call.orig]_vars
=============================================================================
