---------------------------- MODULE PatchSection ----------------------------
(* C15, concurrency part: the patch / extract / restore critical section of PDF text extraction.

   Mirrors  sharepoint2text/parsing/extractors/pdf/pdf_extractor.py:_patched_build_char_map
   (called by _extract_text_with_spacing around page.extract_text) on the pypdf < 6.6 path
   (one patch target: pypdf._page.build_char_map):

        [with _LOCK:]                                   Acquire(t)        (only if UseLock)
            original = getattr(module, name)            Read(t)
            setattr(module, name, make_wrapper(original))   Write(t)
            try:     yield                              Body(t, raises)   (page.extract_text runs here)
            finally: setattr(module, name, original)    Restore(t)
        [lock released]                                 Release(t)        (only if UseLock)

   Shared variable   fn  = the binding of pypdf._page.build_char_map, represented by its wrapper
                           chain: <<>> = pypdf's original function, <<a, b>> = b's wrapper around a's
                           wrapper around the original (a wrapper closes over the value its thread READ).
   Per thread        pc \in {idle, read, write, body, restore, release}  (= the next step),
                     saved (value read), raised (the with-body raised), left (calls still to make).
   lock              0 (free) or the holder.

   The state is ONE record variable `st` and every step is an operator  Do*(s, t)  with a guard
   Can*(s, t): PatchSectionTrace composes the same operators into the steps that are observable from
   outside (Acquire.Read, Restore.Release), so the model checked here and the model the recorded
   traces are validated against cannot drift apart.

   CONSTANTS
     Threads          set of thread ids (positive naturals)
     Calls            calls of the context manager per thread
     UseLock          TRUE  = reference design = as-built after fix c15-pdf-patch-lock
                      FALSE = the pinned tree (no lock): Residue / BodySeesOwn / Depth have counterexamples
     RestoreOnRaise   TRUE  = restore sits in `finally` (reference, as-built)
                      FALSE = sensitivity: an exception in the with-body skips the restore
     BodyMayRaise     whether Body may choose raises = TRUE
     TrackSched       TRUE: the history variable `sched` records the thread of every step (used to
                      ENUMERATE all interleavings for spec -> code replay; each state is one schedule prefix)

   PROPERTIES (state invariants)
     Residue      all threads idle  =>  fn = <<>>      (the third-party function is back)
     BodySeesOwn  while t is between its Write and its Restore, the binding's outermost wrapper is t's
     Depth        Len(fn) <= 1                          (wrappers never nest)

   DON'T-CARE: what the wrapper computes (C02/C13 territory); how long Body takes; fairness.           *)
EXTENDS Naturals, Sequences, FiniteSets

CONSTANTS Threads, Calls, UseLock, RestoreOnRaise, BodyMayRaise, TrackSched

NoThread == 0
ASSUME NoThread \notin Threads /\ Calls \in Nat /\ UseLock \in BOOLEAN /\ RestoreOnRaise \in BOOLEAN

VARIABLES st, sched
vars == <<st, sched>>

S0 == [ fn     |-> <<>>,
        pc     |-> [t \in Threads |-> "idle"],
        saved  |-> [t \in Threads |-> <<>>],
        raised |-> [t \in Threads |-> FALSE],
        left   |-> [t \in Threads |-> Calls],
        lock   |-> NoThread ]

-----------------------------------------------------------------------------
(* the code steps *)
CanAcquire(s, t) == UseLock /\ s.pc[t] = "idle" /\ s.left[t] > 0 /\ s.lock = NoThread
DoAcquire(s, t)  == [s EXCEPT !.pc[t] = "read", !.lock = t]

CanRead(s, t)    == IF UseLock THEN s.pc[t] = "read" ELSE (s.pc[t] = "idle" /\ s.left[t] > 0)
DoRead(s, t)     == [s EXCEPT !.pc[t] = "write", !.saved[t] = s.fn]

CanWrite(s, t)   == s.pc[t] = "write"
DoWrite(s, t)    == [s EXCEPT !.pc[t] = "body", !.fn = Append(s.saved[t], t)]

CanBody(s, t)    == s.pc[t] = "body"
DoBody(s, t, e)  == [s EXCEPT !.pc[t] = "restore", !.raised[t] = e]

CanRestore(s, t) == s.pc[t] = "restore"
DoRestore(s, t)  ==
    LET skip == s.raised[t] /\ ~RestoreOnRaise IN
    [s EXCEPT !.pc[t]     = IF UseLock THEN "release" ELSE "idle",
              !.fn        = IF skip THEN s.fn ELSE s.saved[t],
              !.saved[t]  = <<>>,
              !.raised[t] = FALSE,
              !.left[t]   = IF UseLock THEN @ ELSE @ - 1]

CanRelease(s, t) == UseLock /\ s.pc[t] = "release" /\ s.lock = t
DoRelease(s, t)  == [s EXCEPT !.pc[t] = "idle", !.lock = NoThread, !.left[t] = @ - 1]

-----------------------------------------------------------------------------
(* steps as an outside observer of the shared variable sees them (lock operations are silent):
   used by PatchSectionTrace and by the deterministic scheduler (one scheduling choice = one of these) *)
CanStepRead(s, t)    == IF UseLock THEN CanAcquire(s, t) ELSE CanRead(s, t)
StepRead(s, t)       == IF UseLock THEN DoRead(DoAcquire(s, t), t) ELSE DoRead(s, t)
StepRestore(s, t)    == IF UseLock THEN DoRelease(DoRestore(s, t), t) ELSE DoRestore(s, t)
IsBlocked(s, t)      == UseLock /\ s.pc[t] = "idle" /\ s.left[t] > 0 /\ s.lock \notin {NoThread, t}

-----------------------------------------------------------------------------
Raises == IF BodyMayRaise THEN BOOLEAN ELSE {FALSE}

Step(t) == \/ CanAcquire(st, t) /\ st' = DoAcquire(st, t)
           \/ CanRead(st, t)    /\ st' = DoRead(st, t)
           \/ CanWrite(st, t)   /\ st' = DoWrite(st, t)
           \/ CanBody(st, t)    /\ \E e \in Raises : st' = DoBody(st, t, e)
           \/ CanRestore(st, t) /\ st' = DoRestore(st, t)
           \/ CanRelease(st, t) /\ st' = DoRelease(st, t)

Init == st = S0 /\ sched = <<>>
Next == \E t \in Threads : Step(t) /\ sched' = IF TrackSched THEN Append(sched, t) ELSE sched
Spec == Init /\ [][Next]_vars

-----------------------------------------------------------------------------
Quiescent(s)     == \A t \in Threads : s.pc[t] = "idle"
Finished(s)      == Quiescent(s) /\ \A t \in Threads : s.left[t] = 0

ResidueOf(s)     == Quiescent(s) => s.fn = <<>>
BodySeesOwnOf(s) == \A t \in Threads :
                       s.pc[t] \in {"body", "restore"} => (s.fn # <<>> /\ s.fn[Len(s.fn)] = t)
DepthOf(s)       == Len(s.fn) <= 1
MutexOf(s)       == Cardinality({t \in Threads : s.pc[t] \in {"read", "write", "body", "restore", "release"}}) <= 1
InvOf(s)         == ResidueOf(s) /\ BodySeesOwnOf(s) /\ DepthOf(s)

TypeOK == /\ st.fn \in Seq(Threads)
          /\ st.pc \in [Threads -> {"idle", "read", "write", "body", "restore", "release"}]
          /\ st.lock \in Threads \cup {NoThread}
          /\ \A t \in Threads : st.left[t] \in 0..Calls /\ st.raised[t] \in BOOLEAN

Residue     == ResidueOf(st)
BodySeesOwn == BodySeesOwnOf(st)
Depth       == DepthOf(st)
Mutex       == UseLock => MutexOf(st)
\* no deadlock other than termination (checked as an invariant because deadlock checking is off)
Progress    == Finished(st) \/ \E t \in Threads : ENABLED Step(t)
=============================================================================
