"""Verdict bookkeeping: OK / KNOWN-FINDING / VIOLATION (DESIGN.md 2.6).

known_findings.json is committed and never written at run time.  Entries:
  {"id": "KF-C05-01", "property": "C05", "status": "open" | "fixed", "deviation": "...",
   "domain": "...", "where": "...", "witness": "...", "commit": null | "<sha>",
   "line": "fixed: property=C17 <sha> <what failed>"   (for fixed entries)}
Only *open* entries can absorb a mismatch, and only when the driver states that the case lies
in the entry's domain AND the observation equals the as-built model's prediction.
"""
from __future__ import annotations

import hashlib
import json
import time
from pathlib import Path

from . import VERIF

KF_FILE = VERIF / "known_findings.json"


def load_findings(prop: str) -> dict:
    entries = []
    if KF_FILE.exists():
        entries += json.loads(KF_FILE.read_text()).get("findings", [])
    for f in sorted((VERIF / "findings").glob("*.json")):      # per-property fragments (merged view)
        entries += json.loads(f.read_text()).get("findings", [])
    return {e["id"]: e for e in entries if e["property"] == prop}


class Verdicts:
    def __init__(self, prop: str, seed: int):
        self.prop = prop
        self.seed = seed
        self.findings = load_findings(prop)
        self.ok_n = 0
        self.kf_hits: dict[str, list] = {}
        self.violations: list[dict] = []
        self.notes: list[str] = []

    def ok(self, n: int = 1):
        self.ok_n += n

    def open_finding(self, fid: str) -> bool:
        e = self.findings.get(fid)
        return bool(e) and e.get("status") == "open"

    def known(self, fid: str, what: str, case=None):
        """Record a mismatch that a listed OPEN finding explains (caller has checked domain and
        as-built prediction).  If fid is not an open finding this is a violation."""
        if not self.open_finding(fid):
            self.violation(what=f"{what} (finding {fid} is not open)", case=case)
            return
        self.kf_hits.setdefault(fid, []).append(what)

    def violation(self, what: str, case=None, expected=None, observed=None, where: str = ""):
        self.violations.append({"property": self.prop, "what": what, "case": case, "expected": expected,
                                "observed": observed, "where": where, "seed": self.seed})

    def finish(self) -> int:
        for fid, hits in sorted(self.kf_hits.items()):
            e = self.findings[fid]
            print(f"KNOWN-FINDING: property={self.prop} {fid} {e.get('witness') or e.get('domain')}"
                  f" ({len(hits)} cases; e.g. {hits[0][:160]})")
        if not self.violations:
            return 0
        rdir = VERIF / "replays" / self.prop
        rdir.mkdir(parents=True, exist_ok=True)
        shown = 0
        for v in self.violations:
            blob = json.dumps(v, sort_keys=True, default=repr)
            h = hashlib.sha256(blob.encode()).hexdigest()[:16]
            path = rdir / f"{h}.json"
            path.write_text(json.dumps(v, indent=1, default=repr))
            if shown < 25:
                print(f"VIOLATION property={self.prop} replay={path}")
                print(f"  what: {v['what'][:400]}")
                if v.get("expected") is not None or v.get("observed") is not None:
                    print(f"  expected: {str(v.get('expected'))[:300]}")
                    print(f"  observed: {str(v.get('observed'))[:300]}")
            shown += 1
        if shown > 25:
            print(f"  ... {shown - 25} more violations (all written under {rdir})")
        return 1
