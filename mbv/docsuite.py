"""Shared document suite for C02 / C03 / C13: TLC-enumerated documents x formats -> observations -> traces."""
from __future__ import annotations

import json
import random

from .docrun import expressible, flow_doc, from_tla, normalize, number_blocks, number_units, run_jobs
from .tlaval import iter_dump, to_tla
from .tlc import MachineryError, run_tlc
from .traces import validate

FLOW_FORMATS = ["docx", "odt", "html", "mhtml", "epub", "rtf", "doc"]
MULTI = {"deck": ["pptx", "odp", "odg", "ppt"], "book": ["xlsx", "ods", "xls"],
         "pages": ["pdf", "txt", "md", "csv", "tsv", "json", "rtf", "epub"]}

def gen_units(ctx, kind, max_units):
    cfg = f'SPECIFICATION Spec\nCONSTANTS Kind = "{kind}"\n MaxUnits = {max_units}\n'
    dump = ctx.scratch / f"docgen2-{kind}-{max_units}.dump"
    r = run_tlc("DocGen2", cfg, scratch=ctx.scratch, dump=dump, heap="8g")
    ctx.ev.tlc(f"DocGen2 Kind={kind} MaxUnits={max_units}: multi-unit shapes", r)
    shapes = sorted((from_tla(s["units"]) for s in iter_dump(dump)), key=lambda b: json.dumps(b))
    if len(shapes) != r.distinct:
        raise MachineryError(f"DocGen2 dump {len(shapes)} != {r.distinct}")
    return shapes


def multi_docs(ctx, rng, quick_cap=350):
    """Decks / workbooks / paged documents from DocGen2 (all up to 2 units; 3 units sampled in quick)."""
    docs = []
    for kind in ("deck", "book", "pages"):
        shapes = gen_units(ctx, kind, 3 if kind != "deck" or ctx.thorough else 2)
        if not ctx.thorough and len(shapes) > quick_cap:
            small = [s for s in shapes if len(s) <= (1 if kind == "deck" else 2)]
            rest = [s for s in shapes if s not in small]
            rng.shuffle(rest)
            shapes = small + rest[: quick_cap - len(small)]
        docs += [number_units(kind, sh) for sh in shapes]
    return docs


def gen_shapes(ctx, max_blocks, rich, mode="blocks"):
    cfg = (f"SPECIFICATION Spec\nCONSTANTS MaxBlocks = {max_blocks}\n Rich = {'TRUE' if rich else 'FALSE'}\n"
           f' Mode = "{mode}"\n')
    dump = ctx.scratch / f"docgen-{mode}-{max_blocks}-{int(rich)}.dump"
    r = run_tlc("DocGen", cfg, scratch=ctx.scratch, dump=dump, heap="8g")
    ctx.ev.tlc(f"DocGen Mode={mode} MaxBlocks={max_blocks} Rich={rich}: document shapes", r)
    shapes = sorted((from_tla(s["blocks"]) for s in iter_dump(dump)), key=lambda b: json.dumps(b))
    if len(shapes) != r.distinct:
        raise MachineryError(f"DocGen dump {len(shapes)} != {r.distinct}")
    return shapes


def trace_cfg(dev):
    return f"SPECIFICATION TraceSpec\nCONSTANTS Dev = {to_tla(set(dev))}\nCONSTRAINT TraceAccept\n"


def validate_with_findings(ctx, spec, traces, finding_dev, describe, where, cfg=None):
    """Strict validation; rejected traces are retried with each open finding's deviation (then all)."""
    v, ev = ctx.v, ctx.ev
    trace_cfg = cfg or globals()["trace_cfg"]
    br = validate(spec, trace_cfg(set()), traces, scratch=ctx.scratch, parallel=14, min_chunk=150)
    ev.tlc_counts(f"{spec}: strict validation of {len(traces)} traces", br.distinct, br.states, br.wall_s)
    rejected = [(t, tv) for t, tv in zip(traces, br.verdicts) if not tv.accepted]
    v.ok(len(traces) - len(rejected))
    if not rejected:
        return
    open_devs = {fid: d for fid, d in finding_dev.items() if v.open_finding(fid)}
    remaining = [t for t, _ in rejected]
    explained = {}
    for fid, d in sorted(open_devs.items()):
        if not remaining:
            break
        fam = d.split("!")[0].lower()          # a deviation only concerns its own format family
        mine = [t for t in remaining if t["hdr"]["fmt"].startswith(fam) or (fam == "html" and t["hdr"]["fmt"] == "mhtml")]
        if not mine:
            continue
        b2 = validate(spec, trace_cfg({d}), mine, scratch=ctx.scratch, parallel=14, min_chunk=60)
        ev.tlc_counts(f"{spec}: as-built validation with {d}", b2.distinct, b2.states, b2.wall_s)
        acc = set()
        for t, tv in zip(mine, b2.verdicts):
            if tv.accepted:
                explained[t["id"]] = [fid]
                acc.add(t["id"])
        remaining = [t for t in remaining if t["id"] not in acc]
    if remaining and len(open_devs) > 1:
        b3 = validate(spec, trace_cfg(set(open_devs.values())), remaining, scratch=ctx.scratch, parallel=14, min_chunk=150)
        ev.tlc_counts(f"{spec}: as-built validation with all open deviations", b3.distinct, b3.states, b3.wall_s)
        nxt = []
        for t, tv in zip(remaining, b3.verdicts):
            if tv.accepted:
                explained[t["id"]] = sorted(open_devs)
            else:
                nxt.append(t)
        remaining = nxt
    rem_ids = {t["id"] for t in remaining}
    for t, tv in rejected:
        if t["id"] in rem_ids:
            e = t["ev"][min(tv.reached, len(t["ev"]) - 1)]
            v.violation(what=describe(t, e), case={"fmt": t["hdr"]["fmt"], "doc": t["hdr"]["doc"], "event": e},
                        observed=t.get("raw"), where=where(t))
        else:
            for fid in explained[t["id"]]:
                e = t["ev"][min(tv.reached, len(t["ev"]) - 1)]
                v.known(fid, describe(t, e), case=None)




def heading_jobs(ctx, rng, sample=400):
    """Heading-section documents (all sequences of <= 4 (quick: sampled) / 5 headings and paragraphs) for docx / odt."""
    shapes = gen_shapes(ctx, 5 if ctx.thorough else 4, False, mode="headings")
    if not ctx.thorough and len(shapes) > sample:
        small = [s for s in shapes if len(s) <= 3]
        rest = [s for s in shapes if len(s) > 3]
        rng.shuffle(rest)
        shapes = small + rest[: max(0, sample - len(small))]
    docs = [flow_doc(number_blocks(sh, 1)[0]) for sh in shapes]
    jobs = [{"doc": d, "fmt": f} for d in docs for f in ("docx", "odt")]
    # legacy .doc: headings exist as wording only ("Chapter ..." level 1, "Subsection ..." level 2), so levels 1..2
    jobs += [{"doc": d, "fmt": "doc"} for d in docs if all(b[0] != "h" or b[1] <= 2 for b in d["blocks"])]
    return jobs, len(docs)


def build_jobs(ctx, rng, two_block_sample=2600):
    """All (document, format) pairs of the suite for this tier."""
    shapes1 = gen_shapes(ctx, 1, True)
    shapes2 = [s for s in gen_shapes(ctx, 2, bool(ctx.thorough)) if len(s) == 2]
    shapes3 = []
    if not ctx.thorough:
        rng.shuffle(shapes2)
        shapes2 = shapes2[:two_block_sample]
    else:
        # thorough: all 2-block documents over the rich shape set, plus a seeded sample of 3-block documents. The 3-block
        # universe [1..3 -> BlockShapes] has more than 10^6 elements (TLC refuses to build such a set): the sample is drawn
        # from the same universe by picking three of the block shapes TLC enumerated
        base = [s[0] for s in gen_shapes(ctx, 1, False)]
        seen3 = set()
        while len(seen3) < min(12000, len(base) ** 3):
            seen3.add(tuple(rng.randrange(len(base)) for _ in range(3)))
        shapes3 = [[base[i] for i in t] for t in sorted(seen3)]
    docs = []
    for k, sh in enumerate(shapes1 + shapes2 + shapes3):
        blocks, nxt = number_blocks(sh, 1)
        hdr = [["r", nxt]] if k % 3 == 0 else []
        ftr = [["r", nxt + 1]] if k % 3 == 1 else []
        docs.append(flow_doc(blocks, hdr, ftr))
    jobs = [{"doc": d, "fmt": f} for d in docs for f in FLOW_FORMATS if expressible(d, f)]
    mdocs = multi_docs(ctx, rng)
    for d in mdocs:
        for f in MULTI[d["kind"]]:
            if f == "odg":      # a drawing has no speaker notes: same pages without the notes
                jobs.append({"doc": dict(d, slides=[dict(s, notes=[]) for s in d["slides"]]), "fmt": f})
            elif f == "ppt":
                if expressible(d, "ppt"):
                    jobs.append({"doc": d, "fmt": f})
            elif d["kind"] == "pages" and "gap" in d["pages"]:
                if f == "epub":     # only an EPUB spine can hold a position that is no chapter
                    jobs.append({"doc": d, "fmt": f})
            else:
                jobs.append({"doc": d, "fmt": f})
    return jobs, len(docs) + len(mdocs)


def run_suite(ctx, jobs, make_events, what):
    """Execute jobs, build one trace per job with the events make_events(obs) returns (None = skip)."""
    obs = run_jobs(jobs)
    traces = []
    for k, (j, o) in enumerate(zip(jobs, obs)):
        hdr = {"fmt": j["fmt"], "doc": normalize(j["doc"])}
        if "exc" in o:
            ctx.v.violation(what=f"extractor raised {o['exc']} on a generated well-formed {j['fmt']} document: {o['msg']}",
                            case=hdr, where=f"read_{j['fmt']}")
            continue
        evs = make_events(j, o)
        if evs:
            traces.append({"id": f"{j['fmt']}:{k}", "hdr": hdr, "raw": o.get("full_raw"), "ev": evs})
    return traces
