"""Per-property registration data; `python -m mbv.manifest` renders MANIFEST.json from it.
A property is claimed iff it has an entry in CHECKS *and* mbv/props/<id>.py exists."""

CHECKS = {
    "C07": dict(
        category="model_checking",
        text="TLC proves on all routing tables over a small token universe that the two entry points agree "
             "exactly when the tables are well-formed, then enumerates the complete abstract path universe over "
             "every extension token of the running code's tables; every path is replayed (3 case modes x 3 "
             "mimetypes configurations) through is_supported_file, get_extractor and read_file, and the recorded "
             "observations plus the exported tables are validated by TLC against the specification's two "
             "algorithm-shaped operators and the README-transcribed documented routes. Exhaustive on the "
             "abstract universe, which is the right level for a finite table-driven decision.",
        design_ref="DESIGN.md 4/C07",
        note="Trusted: hand transcription of README tables into Router.tla; mimetypes.guess_type is observed "
             "(logged), not modelled; stems/directories are sampled with VERIF_SEED.",
        technique="explicit TLA+ spec (Router*.tla) + TLC exhaustive enumeration + spec->code replay + "
                  "code->spec trace validation by TLC",
    ),
}

NOT_YET = "check not yet built in this round; design in DESIGN.md section 4 (TLA+ module planned)"
