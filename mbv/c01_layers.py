"""C01: the LAYER functions of the library and the stage of each of their lines.

A layer function is one of the functions Surface.tla gives a catch policy to.  For every such function
the source is parsed once; every line gets a STAGE relative to the function's *wrapper* try statement:

    "try"   inside the wrapper's try body (any depth; inner handlers included)
    "fin"   inside a `finally` clause nested in the wrapper's try body
    "hdl"   inside a handler of the wrapper            (only reached with an exception in flight)
    "ofin"  inside the wrapper's own finally           (input-independent bookkeeping)
    "pro"   outside the wrapper: ReadFile / Attachment / Cli / ArchiveLoop -> the documented "before the
            try" stage; Extractor / ArchiveEntry -> only if the statement does not touch the input
    "open"  outside the wrapper AND touching the input in an Extractor / ArchiveEntry: an unprotected
            statement (the specification has no such stage: a raise there is rejected by TLC)

The wrapper is the outermost `try` that contains the function's `yield`s (generators) or, for cli.main,
the outermost `try` that contains the call of read_file.  Nothing here decides anything: the stage is an
argument of the Raise event that TLC validates.
"""
from __future__ import annotations

import ast
import importlib
import inspect
import textwrap

KIND_OF = {
    "read_docx": "docx", "read_pptx": "pptx", "read_xlsx": "xlsx", "read_doc": "doc", "read_ppt": "ppt",
    "read_xls": "xls", "read_rtf": "rtf", "read_odt": "odt", "read_ods": "ods", "read_odp": "odp",
    "read_odg": "odg", "read_odf": "odf", "read_pdf": "pdf", "read_html": "html", "read_mhtml": "mhtml",
    "read_epub": "epub", "read_plain_text": "plain", "read_eml_format_mail": "eml",
    "read_mbox_format_mail": "mbox", "read_msg_format_mail": "msg", "read_archive": "archive",
}
KINDS = sorted(set(KIND_OF.values()))
LEGACY = ["doc", "ppt", "xls"]
MULTI = ["mbox"]

ARCHIVE_MOD = "sharepoint2text.parsing.extractors.archive_extractor"
ARCHIVE_LOOPS = ["_extract_from_zip_optimized", "_extract_from_tar_optimized", "_extract_from_7z_optimized",
                 "_process_7z_files_sequential"]


class BindingVanished(Exception):
    pass


class LayerFn:
    def __init__(self, func, t, k, name):
        self.func, self.t, self.k, self.name = func, t, k, name
        self.code = func.__code__
        self.file = self.code.co_filename
        src = textwrap.dedent(inspect.getsource(func))
        self.first = self.code.co_firstlineno
        tree = ast.parse(src)
        fn = tree.body[0]
        # decorators shift: co_firstlineno is the line of the first decorator / def
        self.off = self.first - fn.lineno if not fn.decorator_list else self.first - fn.decorator_list[0].lineno
        self.fn = fn
        self.stage = {}           # absolute line -> stage
        self.wrapper_hdl = set()  # absolute lines inside a wrapper handler
        self.any_hdl = set()      # absolute lines inside any handler body
        self.after_yield_possible = False
        self._analyse()

    # -- helpers
    def _abs(self, ln):
        return ln + self.off

    def _lines(self, node):
        return range(self._abs(node.lineno), self._abs(getattr(node, "end_lineno", node.lineno)) + 1)

    @staticmethod
    def _has_yield(node):
        for n in ast.walk(node):
            if isinstance(n, (ast.Yield, ast.YieldFrom)):
                return True
        return False

    @staticmethod
    def _calls(node, name):
        for n in ast.walk(node):
            if isinstance(n, ast.Call):
                f = n.func
                if (isinstance(f, ast.Attribute) and f.attr == name) or (isinstance(f, ast.Name) and f.id == name):
                    return True
        return False

    def _find_wrapper(self):
        """outermost Try (not nested in another Try) containing the yields / the read_file call."""
        found = []

        def walk(stmts):
            for st in stmts:
                if isinstance(st, ast.Try):
                    found.append(st)
                    continue
                if isinstance(st, (ast.FunctionDef, ast.AsyncFunctionDef, ast.ClassDef)):
                    continue
                for fld in ("body", "orelse", "finalbody"):
                    sub = getattr(st, fld, None)
                    if isinstance(sub, list) and sub and isinstance(sub[0], ast.stmt):
                        walk(sub)
        walk(self.fn.body)
        if self.t == "Cli":
            cands = [t for t in found if self._calls(t, "read_file")]
        else:
            cands = [t for t in found if self._has_yield(t)]
        return cands[0] if cands else None

    def _analyse(self):
        fn = self.fn
        params = {a.arg for a in fn.args.args + fn.args.kwonlyargs + fn.args.posonlyargs}
        if fn.args.vararg:
            params.add(fn.args.vararg.arg)
        if fn.args.kwarg:
            params.add(fn.args.kwarg.arg)
        self.wrapper = w = self._find_wrapper()
        tainted = set(params) - {"self"} if self.t != "Attachment" else set(params)

        def names(node):
            return {n.id for n in ast.walk(node) if isinstance(n, ast.Name)}

        def benign_seek(st):
            # X.seek(<constant>) / X.tell() / y = X.read() / X.getvalue() on a parameter: accessors of the in-memory
            # stream the caller handed over; they cannot fail because of the bytes in it
            val = st.value if isinstance(st, (ast.Expr, ast.Assign, ast.AnnAssign)) else None
            return (isinstance(val, ast.Call)
                    and isinstance(val.func, ast.Attribute)
                    and val.func.attr in ("seek", "tell", "read", "getvalue", "getbuffer")
                    and isinstance(val.func.value, ast.Name) and val.func.value.id in params
                    and all(isinstance(a, ast.Constant) for a in val.args) and not val.keywords)

        def outside(stmts):
            for st in stmts:
                if st is w:
                    inside(st)
                    continue
                if isinstance(st, ast.Expr) and isinstance(st.value, ast.Constant):
                    continue                                   # docstring
                touches = bool(names(st) & tainted) and not benign_seek(st)
                if isinstance(st, (ast.Assign, ast.AnnAssign, ast.AugAssign)) and (touches or benign_seek(st)):
                    tg = st.targets if isinstance(st, ast.Assign) else [st.target]
                    for t in tg:
                        tainted.update(names(t))
                if self.t in ("Extractor", "ArchiveEntry"):
                    stg = "open" if touches else "pro"
                else:
                    stg = "pro"
                for ln in self._lines(st):
                    self.stage[ln] = stg
                # compound statements outside the wrapper that contain it (with / for / if)
                if w is not None and any(n is w for n in ast.walk(st)) and st is not w:
                    for fld in ("body", "orelse", "finalbody"):
                        sub = getattr(st, fld, None)
                        if isinstance(sub, list) and sub and isinstance(sub[0], ast.stmt):
                            outside(sub)

        def mark(stmts, stg):
            for st in stmts:
                for ln in self._lines(st):
                    self.stage[ln] = stg

        def inner(stmts, stg):
            """inside the wrapper body: nested finally clauses are "fin", everything else keeps stg."""
            for st in stmts:
                for ln in self._lines(st):
                    self.stage[ln] = stg
                if isinstance(st, (ast.FunctionDef, ast.AsyncFunctionDef, ast.ClassDef)):
                    continue
                if isinstance(st, ast.Try):
                    inner(st.body, stg)
                    for h in st.handlers:
                        inner(h.body, stg)
                        for ln in self._lines(h):
                            self.any_hdl.add(ln)
                    inner(st.orelse, stg)
                    inner(st.finalbody, "fin")
                    continue
                for fld in ("body", "orelse"):
                    sub = getattr(st, fld, None)
                    if isinstance(sub, list) and sub and isinstance(sub[0], ast.stmt):
                        inner(sub, stg)

        def inside(t):
            for ln in self._lines(t):
                self.stage[ln] = "try"
            inner(t.body, "try")
            for h in t.handlers:
                for ln in self._lines(h):
                    self.stage[ln] = "hdl"
                    self.wrapper_hdl.add(ln)
                    self.any_hdl.add(ln)
            mark(t.orelse, "open")
            mark(t.finalbody, "ofin")

        if w is None:
            # no wrapper at all: every input-touching statement is unprotected
            outside(fn.body)
        else:
            outside(fn.body)
        # lines that consist of NOP / RESUME only (`try:` headers, `pass`, ...) cannot raise: no crash point.
        # (CPython does not even put a `try:` header into the protected range of the enclosing try.)
        import dis
        ops = {}
        for ins in dis.get_instructions(self.code):
            if ins.positions and ins.positions.lineno:
                ops.setdefault(ins.positions.lineno, set()).add(ins.opname)
        # ... and so are lines that only move constants / locals around or return (`return 0`, `x = "utf-8"`,
        # `continue`): nothing the input could make fail, and CPython keeps a `return` outside the protected range
        inert = {"NOP", "RESUME", "RETURN_GENERATOR", "POP_TOP", "LOAD_CONST", "RETURN_CONST", "RETURN_VALUE",
                 "LOAD_FAST", "STORE_FAST", "JUMP_FORWARD", "JUMP_BACKWARD", "JUMP_BACKWARD_NO_INTERRUPT", "COPY",
                 "SWAP", "PUSH_NULL", "POP_JUMP_IF_FALSE", "POP_JUMP_IF_TRUE", "POP_JUMP_IF_NONE",
                 "POP_JUMP_IF_NOT_NONE", "LOAD_FAST_AND_CLEAR", "BUILD_LIST", "BUILD_TUPLE", "IS_OP", "TO_BOOL"}
        self.noop = {ln for ln, o in ops.items() if o <= inert}
        # cli.main: once a statement has written to sys.stdout, the statements after it in the same block can only
        # fail because of the output stream itself (not because of the input file): no crash points
        if self.t == "Cli" and self.wrapper is not None:
            def writes_stdout(st):
                for n in ast.walk(st):
                    if isinstance(n, ast.Attribute) and n.attr == "stdout" and isinstance(n.value, ast.Name) \
                            and n.value.id == "sys":
                        return True
                return False

            def blocks(stmts):
                written = False
                for st in stmts:
                    if written:
                        for ln in self._lines(st):
                            self.noop.add(ln)
                    elif not isinstance(st, (ast.If, ast.For, ast.While, ast.With, ast.Try)) and writes_stdout(st):
                        written = True
                    for fld in ("body", "orelse", "finalbody"):
                        sub = getattr(st, fld, None)
                        if isinstance(sub, list) and sub and isinstance(sub[0], ast.stmt):
                            blocks(sub)
            blocks(self.wrapper.body)
        # the `def` line(s) themselves
        for ln in range(self.first, self._abs(fn.body[0].lineno)):
            self.stage.setdefault(ln, "pro")

    def stage_of(self, line):
        return self.stage.get(line, "pro")

    def describe(self):
        return {"name": self.name, "t": self.t, "k": self.k, "file": self.file, "first": self.first,
                "wrapper": None if self.wrapper is None else self._abs(self.wrapper.lineno)}


def discover():
    """-> list[LayerFn]; raises BindingVanished when a name the binding needs is gone."""
    out = []
    try:
        from sharepoint2text.parsing import router
        reg = router._EXTRACTOR_REGISTRY
    except Exception as e:
        raise BindingVanished(f"router._EXTRACTOR_REGISTRY: {e!r}")
    seen = set()
    for ft, (mod, fn) in sorted(reg.items()):
        if (mod, fn) in seen:
            continue
        seen.add((mod, fn))
        try:
            f = getattr(importlib.import_module(mod), fn)
        except Exception as e:
            raise BindingVanished(f"{mod}.{fn}: {e!r}")
        if not inspect.isgeneratorfunction(f):
            raise BindingVanished(f"{mod}.{fn} is not a generator function")
        out.append(LayerFn(f, "Extractor", KIND_OF.get(fn, fn), fn))
    try:
        import sharepoint2text
        from sharepoint2text import cli
        from sharepoint2text.parsing.extractors import data_types
        am = importlib.import_module(ARCHIVE_MOD)
        out.append(LayerFn(sharepoint2text.read_file, "ReadFile", "-", "read_file"))
        out.append(LayerFn(am._process_archive_entry, "ArchiveEntry", "-", "_process_archive_entry"))
        for n in ARCHIVE_LOOPS:
            out.append(LayerFn(getattr(am, n), "ArchiveLoop", "-", n))
        out.append(LayerFn(data_types.EmailContent.iterate_supported_attachments, "Attachment", "-",
                           "iterate_supported_attachments"))
        out.append(LayerFn(cli.main, "Cli", "-", "main"))
    except AttributeError as e:
        raise BindingVanished(repr(e))
    return out


def cli_helpers():
    """serialisers called by cli.main inside its try: a raise in them is a raise at main's call line."""
    from sharepoint2text import cli
    names = ["_serialize_results", "_serialize_unit_results", "_serialize_full_text"]
    out = []
    for n in names:
        f = getattr(cli, n, None)
        if f is not None:
            out.append(f)
    return out
