"""C04 helpers: concretiser for the cases TLC enumerates (IfaceGen.tla), the accessor-protocol recorder
(one event per call of the common interface, with the PROJECTED return), seeded byte-level mutation,
and the worker entry point.  Nothing here computes an expectation: that is IfaceTrace.tla's job."""
from __future__ import annotations

import io
import os
import random
import signal
import time
from pathlib import Path

NX_ROOT = "/c04-no-such-root"          # must not exist
MAX_EVENTS_PER_TRACE = 120
MAX_CPS = 80

# ----------------------------------------------------------------------------- spellings
SEG = {"d": ["dir", "sub dir", "Folder1", "a-b_c"], "u": ["données", "文書", "Ünï"],
       "z": ["archive.zip!", "a b.zip!", "Архив.7z!"], "x.y": ["v1.2", "x.y", "d.ir.zip"]}
STEM = {"s": ["report", "a", "x-y_z", "R2"], "u": ["résumé", "файл", "文書"], "b": ["Quarterly Report 2024", "my file"]}
EXT = {"docx": ["docx", "txt", "pdf", "odt", "html"], "gz": ["gz", "tar", "bak", "v2"], "UP": ["DOCX", "PDF", "Txt", "RTF"]}
FIELD_LETTER = {"title": "t", "author": "u", "subject": "s", "keywords": "k", "description": "d"}
CLASS_CHAR = {"e1": "é", "cy": "Ж", "em": "\U0001F600", "dq": '"', "sq": "'", "lb": "{", "rb": "}", "am": "&",
              "lt": "<", "bs": "\\", "sp": " ", "nl": "p\nq", "tb": "p\tq", "ds": "p  q"}
FIELDS = ["title", "author", "subject", "keywords", "description"]
# binding: abstract property -> attribute of the metadata object (first that exists)
ATTR = {"title": ("title",), "author": ("author", "creator"), "subject": ("subject",), "keywords": ("keywords",),
        "description": ("description", "doc_comment", "comments")}


def spell_val(val, field):
    toks = list(val) if field in ("title", "subject", "description") else list(reversed(val))
    return "".join(FIELD_LETTER[field] if t == "a" else CLASS_CHAR[t] for t in toks)


def spell_path(ap, rng, own_ext=None):
    """Abstract path (IfaceGen state) -> the same record with concrete spellings."""
    if ap["root"] == "none":
        return {"root": "none", "dirs": [], "stem": "", "exts": [], "fexists": False, "dexists": False}
    exts = [rng.choice(EXT[t]) for t in ap["exts"]]
    if own_ext and exts and ap["exts"][-1] == "docx" and rng.random() < 0.5:
        exts[-1] = own_ext
    return {"root": ap["root"], "dirs": [rng.choice(SEG[t]) for t in ap["dirs"]], "stem": rng.choice(STEM[ap["stem"]]),
            "exts": exts, "fexists": bool(ap["fexists"]), "dexists": bool(ap["dexists"])}


def path_string(sp, cwd):
    if sp["root"] == "none":
        return None
    name = ".".join([sp["stem"]] + sp["exts"])
    rel = "/".join(sp["dirs"] + [name])
    if sp["root"] == "rel":
        return rel
    return (cwd if sp["root"] == "cwd" else NX_ROOT) + "/" + rel


def materialise(sp, cwd, data):
    """Create / do not create folder and file below cwd as the abstract path says."""
    if sp["root"] in ("none", "nx", "dc"):
        return
    d = Path(cwd).joinpath(*sp["dirs"])
    if sp["dexists"]:
        d.mkdir(parents=True, exist_ok=True)
    if sp["fexists"]:
        (d / ".".join([sp["stem"]] + sp["exts"])).write_bytes(data)


# ----------------------------------------------------------------------------- projections
def _cls(v):
    if v is None:
        return "none"
    if isinstance(v, bool):
        return "bool"
    if isinstance(v, str):
        return "str"
    if isinstance(v, int):
        return "int" if abs(v) < 2 ** 31 else "bigint"
    return type(v).__name__[:40]


def _utf8(v):
    if not isinstance(v, str):
        return False
    try:
        v.encode("utf-8")
        return True
    except UnicodeError:
        return False


def _cps(s):
    return [ord(ch) for ch in s[:MAX_CPS]]


def proj_dir(s, roots):
    """Reported directory string -> {k, root, segs}."""
    if s is None:
        return {"k": "none", "root": "", "segs": []}
    if not isinstance(s, str):
        return {"k": _cls(s), "root": "", "segs": []}
    for tok, prefix in roots:
        if s == prefix:
            return {"k": "str", "root": tok, "segs": []}
        if s.startswith(prefix + "/"):
            return {"k": "str", "root": tok, "segs": s[len(prefix) + 1:].split("/")}
    if s.startswith("/"):
        return {"k": "str", "root": "abs", "segs": s[1:].split("/")}
    return {"k": "str", "root": "rel", "segs": s.split("/") if s else []}


def proj_file(s, roots):
    """Reported file path -> (directory part projected, name pieces)."""
    if not isinstance(s, str):
        return proj_dir(s, roots), []
    head, sep, last = s.rpartition("/")
    if not sep:
        return {"k": "str", "root": "rel", "segs": []}, last.split(".")
    return proj_dir(head if head else "/", roots), last.split(".")


def _pieces(v):
    return v.split(".") if isinstance(v, str) else []


# ----------------------------------------------------------------------------- recorder
class _Timeout(BaseException):
    pass


class Recorder:
    """Calls the whole accessor protocol on one result and logs one event per call."""

    def __init__(self, roots, props=None, fmt="", units=None):
        self.ev = []
        self.roots = roots
        self.props = props
        self.fmt = fmt
        self.units = units

    def call(self, who, fn):
        try:
            return True, fn()
        except _Timeout:
            raise
        except BaseException as e:  # noqa: an accessor must not raise anything
            if isinstance(e, (KeyboardInterrupt, SystemExit, MemoryError)):
                raise
            self.ev.append({"a": "Raise", "who": who, "exc": type(e).__name__, "msg": str(e)[:120]})
            return False, None

    def text(self, who, fn):
        ok, v = self.call(who, fn)
        if ok:
            self.ev.append({"a": "Text", "who": who, "cls": _cls(v), "utf8": _utf8(v)})
        return v if ok else None

    def number(self, who, v, optional=False):
        c = _cls(v)
        self.ev.append({"a": "OptNum" if optional else "Num", "who": who, "cls": c, "n": v if c == "int" else 0})

    def table(self, who, t):
        ok, g = self.call(who + ".get_table", t.get_table)
        if not ok:
            return
        ok, d = self.call(who + ".get_dim", t.get_dim)
        if not ok:
            return
        islist = isinstance(g, list) and all(isinstance(r, (list, tuple)) for r in g)
        widths = sorted({len(r) for r in g}) if islist else []
        cells_ok = True
        if islist:
            for r in g:
                for c in r:
                    if isinstance(c, str) and not _utf8(c):
                        cells_ok = False
        dr, dc = getattr(d, "rows", None), getattr(d, "columns", None)
        isdim = _cls(dr) == "int" and _cls(dc) == "int"
        self.ev.append({"a": "Table", "who": who, "gridcls": "list" if islist else _cls(g), "rows": len(g) if islist else 0,
                        "widths": widths, "cellsutf8": cells_ok, "dimcls": "dim" if isdim else _cls(d),
                        "dimrows": dr if isdim else 0, "dimcols": dc if isdim else 0})

    def image(self, who, im):
        def stream():
            s = im.get_bytes()
            binary = isinstance(s, (io.BytesIO, io.BufferedIOBase, io.RawIOBase)) and not isinstance(s, io.TextIOBase)
            pos = s.tell()
            data = s.read()
            s2 = im.get_bytes()
            pos2 = s2.tell()
            data2 = s2.read()
            s2.seek(0)
            return binary, pos, data, pos2, data2
        ok, r = self.call(who + ".get_bytes", stream)
        if ok:
            binary, pos, data, pos2, data2 = r
            size = getattr(im, "size_bytes", None)
            hassize = _cls(size) == "int"
            isb = isinstance(data, (bytes, bytearray)) and isinstance(data2, (bytes, bytearray))
            self.ev.append({"a": "Stream", "who": who, "cls": "binary" if binary else "other", "bytes": isb,
                            "pos": pos if _cls(pos) == "int" else 999999, "len": len(data) if isb else 0,
                            "pos2": pos2 if _cls(pos2) == "int" else 999999, "len2": len(data2) if isb else 0,
                            "hassize": hassize, "size": size if hassize else 0})
        self.text(who + ".get_content_type", im.get_content_type)
        self.text(who + ".get_caption", im.get_caption)
        self.text(who + ".get_description", im.get_description)
        ok, md = self.call(who + ".get_metadata", im.get_metadata)
        if ok:
            self.number(who + ".image_number", getattr(md, "image_number", None))
            self.number(who + ".unit_number", getattr(md, "unit_number", None), optional=True)
            for dim in ("width", "height"):
                v = getattr(md, dim, None)
                c = "float" if isinstance(v, float) else "int" if isinstance(v, int) and not isinstance(v, bool) else _cls(v)
                self.ev.append({"a": "Size", "who": f"{who}.{dim}", "cls": c})

    def unit(self, who, u):
        self.text(who + ".get_text", u.get_text)
        ok, md = self.call(who + ".get_metadata", u.get_metadata)
        if ok:
            num = md.get("unit_number") if isinstance(md, dict) and not hasattr(md, "unit_number") \
                else getattr(md, "unit_number", None)
            self.number(who + ".unit_number", num)
        ok, ims = self.call(who + ".get_images", lambda: list(u.get_images()))
        if ok:
            for k, im in enumerate(ims):
                self.image(f"{who}.image[{k}]", im)
        ok, tbs = self.call(who + ".get_tables", lambda: list(u.get_tables()))
        if ok:
            for k, t in enumerate(tbs):
                self.table(f"{who}.table[{k}]", t)
        if hasattr(u, "to_json"):
            ok, j = self.call(who + ".to_json", u.to_json)
            if ok:
                self.ev.append({"a": "Json", "who": who + ".to_json", "cls": "dict" if isinstance(j, dict) else _cls(j)})

    def filemeta(self, who, md, ri=1):
        fdir, fpn = proj_file(getattr(md, "file_path", None), self.roots)
        fn, ext = getattr(md, "filename", None), getattr(md, "file_extension", None)
        strs_ok = True
        for k, v in (vars(md).items() if hasattr(md, "__dict__") else []):
            vals = v if isinstance(v, (list, tuple)) else [v]
            for x in vals:
                if isinstance(x, str) and not _utf8(x):
                    strs_ok = False
        self.ev.append({"a": "FileMeta", "who": who, "mtype": type(md).__name__, "strsutf8": strs_ok, "ri": ri,
                        "fnk": _cls(fn), "fn": _pieces(fn), "extk": _cls(ext), "ext": _pieces(ext),
                        "dir": proj_dir(getattr(md, "folder_path", None), self.roots), "fdir": fdir, "fpn": fpn})

    def properties(self, who, md):
        for f in FIELDS:
            stored = self.props.get(f)
            if stored is None:
                continue
            attr = next((a for a in ATTR[f] if hasattr(md, a)), None)
            v = getattr(md, attr) if attr else None
            self.ev.append({"a": "Prop", "who": f"{who}.{attr or f}", "mtype": type(md).__name__, "field": f,
                            "has": attr is not None, "cls": _cls(v), "stored": _cps(stored),
                            "got": _cps(v) if isinstance(v, str) else []})

    def result(self, r, k=0, thin=False):
        """thin: result-level accessors only (full text, metadata, to_json) -- used by the quick tier for the
        property-value cases, whose documents differ from the fully recorded ones in the properties only."""
        who = f"result[{k}]"
        full = self.text(who + ".get_full_text", r.get_full_text)
        ok, us = self.call(who + ".iterate_units", lambda: list(r.iterate_units()))
        if ok and not thin:
            for n, u in enumerate(us):
                self.unit(f"{who}.unit[{n}]", u)
        ok, ims = self.call(who + ".iterate_images", lambda: list(r.iterate_images()))
        if ok and not thin:
            for n, im in enumerate(ims):
                self.image(f"{who}.image[{n}]", im)
        ok, tbs = self.call(who + ".iterate_tables", lambda: list(r.iterate_tables()))
        if ok and not thin:
            for n, t in enumerate(tbs):
                self.table(f"{who}.table[{n}]", t)
        ok, md = self.call(who + ".get_metadata", r.get_metadata)
        if ok:
            self.filemeta(who + ".get_metadata", md, ri=k + 1)
            if self.props:
                self.properties(who + ".get_metadata", md)
            if self.units is not None:
                t = getattr(md, "title", None)
                self.ev.append({"a": "Units", "who": "title", "units": self.units, "cls": _cls(t),
                                "cps": _cps(t) if isinstance(t, str) else []})
                body = full if isinstance(full, str) else ""
                i, j = body.find("zq0001x"), body.find("zq0002x")
                seg = body[i + 7:j] if 0 <= i < j else body
                self.ev.append({"a": "Units", "who": "body", "units": self.units, "cls": _cls(full),
                                "cps": [ord(ch) for ch in seg.strip()[:MAX_CPS]]})
        ok, j = self.call(who + ".to_json", r.to_json)
        if ok:
            self.ev.append({"a": "Json", "who": who + ".to_json", "cls": "dict" if isinstance(j, dict) else _cls(j)})


# ----------------------------------------------------------------------------- mutation
def mutate(data: bytes, rng: random.Random):
    """One seeded mutant: (kind, bytes).  For ZIP containers half of the mutants damage the CONTENT of one
    member and re-pack it (valid CRC), so that the damage reaches the format's own parser."""
    if data[:4] == b"PK\x03\x04" and rng.random() < 0.5:
        import zipfile
        try:
            zin = zipfile.ZipFile(io.BytesIO(data))
            infos = [i for i in zin.infolist() if i.file_size > 0]
            if infos:
                victim = rng.choice(infos)
                members = [(i, zin.read(i)) for i in zin.infolist()]
                kind, newc = _mutate_bytes(zin.read(victim), rng)
                buf = io.BytesIO()
                with zipfile.ZipFile(buf, "w") as zout:
                    for i, c in members:
                        zout.writestr(i, newc if i.filename == victim.filename else c,
                                      compress_type=i.compress_type)
                return f"member:{victim.filename}:{kind}", buf.getvalue()
        except Exception:
            pass
    return _mutate_bytes(data, rng)


def _mutate_bytes(data: bytes, rng: random.Random):
    n = len(data)
    b = bytearray(data)
    kind = rng.choice(["trunc", "flip", "flip", "zero", "ff"])
    if kind == "trunc":
        cut = rng.randrange(max(1, n // 8), n) if n > 8 else max(1, n - 1)
        return f"trunc@{cut}", bytes(b[:cut])
    if kind == "flip":
        k = rng.choice([1, 1, 2, 4, 8])
        pos = sorted(rng.randrange(n) for _ in range(k))
        for p in pos:
            b[p] ^= rng.randrange(1, 256)
        return f"flip@{pos[0]}x{k}", bytes(b)
    ln = max(1, min(rng.choice([1, 4, 16, 64, 512, 4096]), n // 4 or 1))
    st = rng.randrange(0, max(1, n - ln))
    b[st:st + ln] = (b"\x00" if kind == "zero" else b"\xff") * ln
    return f"{kind}@{st}+{ln}", bytes(b)


# ----------------------------------------------------------------------------- worker
def _extractor(fmt):
    import importlib
    from sharepoint2text.parsing.router import _EXTRACTOR_REGISTRY
    mod, name = _EXTRACTOR_REGISTRY[fmt]
    return getattr(importlib.import_module(mod), name)


def units_rtf(units):
    """RTF whose title, body paragraph and one table cell contain exactly the given run of \\uN escapes."""
    esc = "".join("\\u%d?" % (u if u < 32768 else u - 65536) for u in units)
    return ("{\\rtf1\\ansi\\ansicpg1252\\deff0{\\fonttbl{\\f0\\fswiss Helvetica;}}{\\info{\\title " + esc
            + "}{\\author zq0009x}}\n\\pard\\plain zq0001x " + esc + " zq0002x\\par\n"
            + "\\trowd\\cellx3000\\cellx6000\\intbl zq0003x\\cell " + esc + "\\cell\\row\\pard\\par}").encode("ascii")


def doc_images(doc):
    k = doc.get("kind", "flow")
    if k == "flow":
        return doc.get("images") or []
    if k == "deck":
        return [i for sl in doc["slides"] for i in sl.get("images", [])]
    if k == "book":
        return [i for sh in doc["sheets"] for i in sh.get("images", [])]
    return []


IMAGE_DAMAGE = {"zerohdr": lambda d: d[:12] + b"\0" * 30 + d[42:],          # dimensions in the header wiped
                "garbage": lambda d: b"\x00\x01not-an-image" * 3,            # payload of no known image format
                "empty": lambda d: b""}


def corrupt_members(data: bytes, names) -> bytes:
    """Flip one byte in the stored data of the named ZIP members (the member's CRC no longer matches)."""
    import struct
    import zipfile
    b = bytearray(data)
    with zipfile.ZipFile(io.BytesIO(data)) as z:
        for i in z.infolist():
            if i.filename in names and i.compress_size > 0:
                nlen, elen = struct.unpack("<HH", data[i.header_offset + 26:i.header_offset + 30])
                b[i.header_offset + 30 + nlen + elen + i.compress_size // 2] ^= 0x5A
    return bytes(b)


def damage_images(doc, how):
    """A well-formed container whose picture payloads are not (recognisable) images: accepted input."""
    for i in doc_images(doc):
        i["data"] = IMAGE_DAMAGE[how](i["data"])
    return doc


def enrich(doc):
    """Add a third row to the first table of a docrun.rich_doc (so that rows != columns)."""
    k = doc.get("kind", "flow")
    if k == "flow":
        for b in doc["blocks"]:
            if b[0] == "tbl":
                b[1].append([[["p", [["r", 10]]]], [["p", [["r", 11]]]]])
                break
    elif k == "deck":
        for sl in doc["slides"]:
            for sh in sl["shapes"]:
                if sh[0] == "tbl":
                    sh[1].append([[[["r", 10]]], [[["r", 11]]]])
                    return doc
    elif k == "book":
        doc["sheets"][0]["rows"].append([["s", 10], ["s", 11]])
    return doc


_ACTIVE = False


def _activate():
    global _ACTIVE
    if not _ACTIVE:
        from .repo import activate
        activate()
        import warnings
        warnings.simplefilter("ignore")
        import logging
        logging.disable(logging.CRITICAL)
        _ACTIVE = True


def _alarm(signum, frame):
    raise _Timeout()


def run_job(job):
    """job: {"id", "kind": "gen"|"file", "fmt"|"route", "data"|"doc"|"file", "mut": seed-or-None, "sp": spelled path,
    "props", "units", "wd", "timeout"}  ->  {"id", "status", "hdr", "events", "nres", "msg"}"""
    _activate()
    from .docrun import render
    out = {"id": job["id"], "status": "ok", "events": [], "nres": 0, "msg": "", "hdr": {}}
    wd = os.path.realpath(job["wd"])
    os.makedirs(wd, exist_ok=True)
    sp = job["sp"]
    try:
        if "data" in job:
            data = job["data"]
        elif "doc" in job:
            data = render(job["doc"], job["fmt"])
        else:
            data = Path(job["file"]).read_bytes()
        if job.get("badcrc"):
            data = corrupt_members(data, set(job["badcrc"]))
        if job.get("mut") is not None:
            mk, data = mutate(data, random.Random(job["mut"]))
            out["msg"] = mk
        if job.get("route"):
            import sharepoint2text
            fn = sharepoint2text.get_extractor(job["route"])
        else:
            fn = _extractor(job["fmt"])
        cwd = job.get("cwd") or wd
        os.chdir(cwd)
        if job.get("mat", True):
            materialise(sp, cwd, data)
        parg = job["parg"] if "parg" in job else path_string(sp, cwd)
        roots = sorted([("cwd", cwd), ("nx", NX_ROOT)], key=lambda x: -len(x[1]))
        hdr = {"fmt": job.get("fmt") or "", "path": {k: sp[k] for k in ("root", "dirs", "stem", "exts", "fexists", "dexists")},
               "mutant": job.get("mut") is not None, "dcwrapper": bool(job.get("dcwrapper")),
               "member": job.get("member") or {"k": "none", "archseg": "", "dirs": [], "stem": "", "exts": []},
               "members": job.get("members") or []}
        out["hdr"] = hdr
        out["parg"] = parg
        old = signal.signal(signal.SIGALRM, _alarm)
        signal.setitimer(signal.ITIMER_REAL, job.get("timeout", 20))
        try:
            try:
                results = list(fn(io.BytesIO(data), parg))
            except _Timeout:
                raise
            except Exception as e:
                out["status"] = "rejected"
                out["msg"] += f" {type(e).__name__}: {e}"[:200]
                return out
            rec = Recorder(roots, props=job.get("props"), fmt=hdr["fmt"], units=job.get("units"))
            for k, r in enumerate(results):
                rec.result(r, k, thin=bool(job.get("thin")))
            out["events"] = rec.ev
            out["nres"] = len(results)
        except _Timeout:
            out["status"] = "timeout"
        finally:
            signal.setitimer(signal.ITIMER_REAL, 0)
            signal.signal(signal.SIGALRM, old)
    finally:
        os.chdir("/")
    return out


def run_batch(jobs):
    res = []
    for j in jobs:
        t0 = time.time()
        try:
            r = run_job(j)
        except _Timeout:
            r = {"id": j["id"], "status": "timeout", "events": [], "nres": 0, "msg": "", "hdr": {}}
        except Exception as e:  # harness problem: reported as machinery failure by the driver
            r = {"id": j["id"], "status": "harness", "events": [], "nres": 0, "msg": f"{type(e).__name__}: {e}"[:300], "hdr": {}}
        r["wall"] = round(time.time() - t0, 3)
        res.append(r)
    return res


# ----------------------------------------------------------------------------- markup layouts of the properties
def _xesc(s, quote=None):
    s = s.replace("&", "&amp;").replace("<", "&lt;").replace(">", "&gt;")
    if quote == '"':
        s = s.replace('"', "&quot;")
    elif quote == "'":
        s = s.replace("'", "&#39;")
    return s


def html_variant(doc, layout, rng) -> bytes:
    """The flow document as HTML5 with the head laid out as the abstract layout says (own renderer for the head;
    the body comes from the shared writer's body_html)."""
    from .writers.web import body_html
    p = doc.get("props") or {}
    up = layout["tagcase"] == "upper"

    def tag(t):
        return t.upper() if up else t

    def case(n):
        return {"lower": n, "title": n.title(), "upper": n.upper()}[layout["namecase"]]
    metas = [f'<{tag("meta")} charset="utf-8">']
    for k in ("author", "description", "keywords"):
        if p.get(k) is None:
            continue
        q = rng.choice(['"', "'"])
        a_name = f'{tag("name")}={q}{case(k)}{q}'
        a_cont = f'{tag("content")}={q}{_xesc(p[k], q)}{q}'
        a = f"{a_name} {a_cont}" if layout["attr"] == "name-first" else f"{a_cont} {a_name}"
        metas.append(f'<{tag("meta")} {a}>')
    title = f'<{tag("title")}>{_xesc(p["title"])}</{tag("title")}>' if p.get("title") is not None else ""
    # the charset declaration stays first; the title goes before or after the named meta elements
    head = metas[0] + (title + "".join(metas[1:]) if layout["titlepos"] == "first" else "".join(metas[1:]) + title)
    out = "<!DOCTYPE html>"
    if layout["html"]:
        out += f'<{tag("html")}>'
    out += (f'<{tag("head")}>{head}</{tag("head")}>' if layout["head"] else head)
    body = body_html(doc.get("blocks", []))
    out += (f'<{tag("body")}>{body}</{tag("body")}>' if layout["body"] else body)
    if layout["html"]:
        out += f'</{tag("html")}>'
    return out.encode("utf-8")


def mhtml_wrap(html: bytes, rng) -> bytes:
    import base64
    import quopri
    enc = rng.choice(["quoted-printable", "base64"])
    payload = base64.encodebytes(html) if enc == "base64" else quopri.encodestring(html)
    b = b"----=_NextPart_000_C04"
    return (b"From: <Saved by test>\r\nSubject: page\r\nMIME-Version: 1.0\r\n"
            b'Content-Type: multipart/related; type="text/html"; boundary="' + b + b'"\r\n\r\n'
            b"--" + b + b'\r\nContent-Type: text/html; charset="utf-8"\r\n'
            b"Content-Transfer-Encoding: " + enc.encode() + b"\r\nContent-Location: http://example.invalid/\r\n\r\n"
            + payload + b"\r\n--" + b + b"--\r\n")


def _rezip(pkg: bytes, edit) -> bytes:
    """Re-pack a ZIP package with edit(name, bytes) -> bytes applied to every member (order and methods kept)."""
    import zipfile
    zin = zipfile.ZipFile(io.BytesIO(pkg))
    buf = io.BytesIO()
    with zipfile.ZipFile(buf, "w") as zout:
        for i in zin.infolist():
            zout.writestr(i, edit(i.filename, zin.read(i)), compress_type=i.compress_type)
    return buf.getvalue()


def epub_variant(pkg: bytes, props, layout) -> bytes:
    """Replace the package document of the shared writer's EPUB by one laid out as the abstract layout says."""
    import re
    pre = "opf:" if layout["prefix"] == "opf" else ""

    def dc(tagname, key, extra=""):
        v = props.get(key)
        if v is None:
            return ""
        return f"<dc:{tagname}{extra if layout['attrs'] else ''}>{_xesc(v)}</dc:{tagname}>"

    def edit(name, data):
        if not name.endswith(".opf"):
            return data
        old = data.decode("utf-8")
        man = re.search(r"<manifest>(.*?)</manifest>", old, re.S).group(1)
        spine = re.search(r"<spine>(.*?)</spine>", old, re.S).group(1)
        if pre:
            man = man.replace("<item ", "<opf:item ")
            spine = spine.replace("<itemref ", "<opf:itemref ")
        title = dc("title", "title", ' id="t1" xml:lang="en"')
        rest = (dc("creator", "author", ' id="cr" opf:role="aut" opf:file-as="x"') + dc("subject", "subject", ' xml:lang="en"')
                + dc("description", "description", ' id="d1"'))
        fixed = '<dc:identifier id="uid">urn:uuid:0</dc:identifier><dc:language>en</dc:language>'
        meta = fixed + (title + rest if layout["titlepos"] == "first" else rest + title)
        if layout.get("wrapper") == "dc-metadata":      # OEB 1.x: dc elements in a wrapper, followed by x-metadata
            meta = f'<{pre}dc-metadata>{meta}</{pre}dc-metadata><{pre}x-metadata><{pre}meta name="x" content="y"/></{pre}x-metadata>'
        ns = {"opf": 'xmlns:opf="http://www.idpf.org/2007/opf"',
              "default": 'xmlns="http://www.idpf.org/2007/opf" xmlns:opf="http://www.idpf.org/2007/opf"',
              "none": 'xmlns:opf="http://www.idpf.org/2007/opf"',
              "oeb1": 'xmlns="http://openebook.org/namespaces/oeb-package/1.0/" xmlns:opf="http://www.idpf.org/2007/opf"',
              }[layout["prefix"]]
        return (f'<?xml version="1.0" encoding="utf-8"?><{pre}package {ns} version="{layout["version"]}" '
                f'unique-identifier="uid"><{pre}metadata xmlns:dc="http://purl.org/dc/elements/1.1/">{meta}</{pre}metadata>'
                f"<{pre}manifest>{man}</{pre}manifest><{pre}spine>{spine}</{pre}spine></{pre}package>").encode("utf-8")
    return _rezip(pkg, edit)


# ----------------------------------------------------------------------------- alternative texts of pictures
ALT_TEXT = {"name": "zqname Bild 1", "title": "zqtitle Titel é & co", "desc": "zqdesc Beschreibung <x> ü"}


def _alt_value(kind, which):
    return {"empty": "", "blank": "  ", "text": ALT_TEXT[which]}.get(kind)


def alt_variant(pkg: bytes, fmt, alt) -> bytes:
    """Post-process the package of the shared writer: give every picture the name / title / description the
    abstract case says (ODF: draw:name attribute, svg:title / svg:desc children; OOXML: name / title / descr
    attributes of docPr and cNvPr)."""
    import re
    name, title, desc = (_alt_value(alt[k], w) for k, w in (("name", "name"), ("title", "title"), ("desc", "desc")))
    count = [0]

    def odf_frame(m):
        count[0] += 1
        open_tag = re.sub(r'\sdraw:name="[^"]*"', "", m.group(1))
        if name is not None:
            open_tag = open_tag[:-1] + f' draw:name="{_xesc(name, chr(34))}">'
        kids = ""
        if title is not None:
            kids += f"<svg:title>{_xesc(title)}</svg:title>" if title != "" else "<svg:title/>"
        if desc is not None:
            kids += f"<svg:desc>{_xesc(desc)}</svg:desc>" if desc != "" else "<svg:desc/>"
        return open_tag + m.group(2) + kids + "</draw:frame>"

    def ooxml_pr(m):
        count[0] += 1
        attrs = re.sub(r'\s(name|title|descr)="[^"]*"', "", m.group(2))
        for k, v in (("name", name), ("descr", desc), ("title", title)):
            if v is not None:
                attrs += f' {k}="{_xesc(v, chr(34))}"'
        return f"<{m.group(1)}{attrs}/>"

    def edit(part, data):
        if fmt in ("odt", "ods", "odp", "odg"):
            if part != "content.xml":
                return data
            x = data.decode("utf-8")
            x = re.sub(r"(<draw:frame\b[^>]*>)(<draw:image\b[^>]*/>)</draw:frame>", odf_frame, x)
            return x.encode("utf-8")
        if not part.endswith(".xml"):
            return data
        x = data.decode("utf-8")
        if fmt == "docx" and part == "word/document.xml":
            x = re.sub(r"<(wp:docPr|pic:cNvPr)\b([^>]*?)/>", ooxml_pr, x)
        elif fmt == "pptx" and part.startswith("ppt/slides/slide"):
            x = re.sub(r"(?<=<p:pic><p:nvPicPr>)<(p:cNvPr)\b([^>]*?)/>", ooxml_pr, x)
        elif fmt == "xlsx" and "/drawings/" in part:
            x = re.sub(r"(?<=<xdr:pic><xdr:nvPicPr>)<(xdr:cNvPr)\b([^>]*?)/>", ooxml_pr, x)
        return x.encode("utf-8")
    out = _rezip(pkg, edit)
    if count[0] == 0:
        raise ValueError(f"no picture element found in the {fmt} package (writer changed?)")
    return out


# ----------------------------------------------------------------------------- four pictures; where their bytes come from
def four_images(doc, fmt):
    """Add two pictures to the first unit of a docrun.rich_doc (first / middle / last positions exist)."""
    from .writers.images import make
    extra = [make("png", 3, 3, 7), make("png", 4, 2, 9)]
    k = doc.get("kind", "flow")
    if fmt == "docx":
        doc["images"] += [{"target": f"media/image{n}.png", "part": f"word/media/image{n}.png", "data": d}
                          for n, d in zip((3, 4), extra)]
    elif fmt == "odt":
        doc["images"] += [{"target": f"Pictures/c{n}.png", "part": f"Pictures/c{n}.png", "data": d} for n, d in zip((3, 4), extra)]
    elif k == "deck":
        pre, part = ("../media/", "ppt/media/") if fmt == "pptx" else ("Pictures/", "Pictures/")
        doc["slides"][0]["images"] += [{"target": f"{pre}j{n}.png", "part": f"{part}j{n}.png", "data": d}
                                       for n, d in zip((3, 4), extra)]
    elif k == "book":
        pre, part = ("../media/", "xl/media/") if fmt == "xlsx" else ("Pictures/", "Pictures/")
        doc["sheets"][0]["images"] += [{"target": f"{pre}j{n}.png", "part": f"{part}j{n}.png", "data": d}
                                       for n, d in zip((3, 4), extra)]
    return doc


SRC_TARGET = {"http": "http://example.invalid/pic.png", "https": "https://example.invalid/a/b/pic.png",
              "dangling": "missing-c04.png", "outside": "../../outside-c04.png"}
ODF_FORMATS = ("odt", "ods", "odp", "odg")
ALT_FORMATS = ODF_FORMATS + ("docx", "pptx", "xlsx")


def _pick(n, pos):
    return {"first": 0, "middle": 1 if n > 2 else 0, "last": n - 1}[pos]


def _members(pkg):
    import zipfile
    z = zipfile.ZipFile(io.BytesIO(pkg))
    return {i.filename: z.read(i) for i in z.infolist()}


def src_variant(pkg: bytes, fmt, pos, src) -> bytes:
    """Post-process the shared writer's package: the first / middle / last picture is linked (URL), or points to
    a package path that does not exist, or outside the package."""
    import re
    files = _members(pkg)
    if fmt in ODF_FORMATS:
        x = files["content.xml"].decode("utf-8")
        ms = list(re.finditer(r'(<draw:image\b[^>]*?xlink:href=")([^"]*)(")', x))
        if not ms:
            raise ValueError(f"no draw:image in the {fmt} package")
        m = ms[_pick(len(ms), pos)]
        tgt = SRC_TARGET[src] if src != "dangling" else "Pictures/" + SRC_TARGET[src]
        new = {"content.xml": (x[:m.start(2)] + tgt + x[m.end(2):]).encode("utf-8")}
    else:
        part = max((n for n in files if n.endswith(".xml") and b"r:embed=" in files[n]),
                   key=lambda n: files[n].count(b"r:embed="), default=None)
        if part is None:
            raise ValueError(f"no r:embed in the {fmt} package")
        x = files[part].decode("utf-8")
        ids = re.findall(r'r:embed="([^"]+)"', x)
        rid = ids[_pick(len(ids), pos)]
        d, _, base = part.rpartition("/")
        rels_name = f"{d}/_rels/{base}.rels"
        rels = files[rels_name].decode("utf-8")
        rm = re.search(r'<Relationship\b[^>]*\bId="%s"[^>]*/>' % re.escape(rid), rels)
        old_t = re.search(r'Target="([^"]*)"', rm.group(0)).group(1)
        if src in ("http", "https"):
            rel = re.sub(r'Target="[^"]*"', f'Target="{SRC_TARGET[src]}" TargetMode="External"', rm.group(0))
            x = x.replace(f'r:embed="{rid}"', f'r:link="{rid}"', 1)
        elif src == "dangling":
            rel = rm.group(0).replace(old_t, old_t.rpartition("/")[0] + "/" + SRC_TARGET[src] if "/" in old_t else SRC_TARGET[src])
        else:
            rel = rm.group(0).replace(old_t, SRC_TARGET[src])
        new = {part: x.encode("utf-8"), rels_name: (rels[:rm.start()] + rel + rels[rm.end():]).encode("utf-8")}
    return _rezip(pkg, lambda n, dta: new.get(n, dta))


# ----------------------------------------------------------------------------- picture geometry
LEN_VALUE = {"cm": "2.5cm", "mm": "25mm", "in": "1.25in", "pt": "72pt", "px": "96px", "pc": "6pc", "percent": "50%",
             "comma": "12,5cm", "exponent": "1.5e1cm", "negative": "-2cm", "empty": "", "garbage": "abc", "missing": None,
             "nounit": "12", "spaced": " 3 cm ", "huge": "99999999999999999999cm", "zero": "0cm", "dotonly": ".5cm",
             "nan": "nancm", "unitonly": "cm", "twounits": "2cm3mm"}
EMU_VALUE = {"zero": "0", "negative": "-914400", "huge": "99999999999999999999", "nonnumeric": "abc", "empty": "",
             "missing": None, "float": "914400.5", "plus": "+914400"}


def _set_attr(tag_text, attr, value):
    import re
    tag_text = re.sub(r'\s%s="[^"]*"' % re.escape(attr), "", tag_text)
    if value is None:
        return tag_text
    end = "/>" if tag_text.endswith("/>") else ">"
    return tag_text[:-len(end)] + f' {attr}="{_xesc(value, chr(34))}"' + end


def len_variant(pkg: bytes, fmt, attr, kind) -> bytes:
    """Post-process the shared writer's package: every picture frame / extent carries the odd geometry value."""
    import re
    n = [0]
    if fmt in ODF_FORMATS:
        v = LEN_VALUE[kind]
        attrs = {"width": ["svg:width"], "height": ["svg:height"], "x": ["svg:x"], "y": ["svg:y"],
                 "both": ["svg:width", "svg:height"]}[attr]

        def frame(m):
            n[0] += 1
            t = m.group(1)
            for a in attrs:
                t = _set_attr(t, a, v)
            return t + m.group(2)

        def edit(part, data):
            if part != "content.xml":
                return data
            return re.sub(r"(<draw:frame\b[^>]*>)(<draw:image\b)", frame, data.decode("utf-8")).encode("utf-8")
    else:
        v = EMU_VALUE[kind]
        attrs = {"cx": ["cx"], "cy": ["cy"], "both": ["cx", "cy"]}[attr]
        pat = {"docx": r"<wp:extent\b[^>]*/>", "xlsx": r"<xdr:ext\b[^>]*/>",
               "pptx": r"(?<=<p:spPr><a:xfrm>)(?:<a:off\b[^>]*/>)?<a:ext\b[^>]*/>"}[fmt]

        def ext(m):
            n[0] += 1
            t = m.group(0)
            head = ""
            if fmt == "pptx" and t.startswith("<a:off"):
                head, t = t[:t.index("/>") + 2], t[t.index("/>") + 2:]
            for a in attrs:
                t = _set_attr(t, a, v)
            return head + t

        def edit(part, data):
            if not part.endswith(".xml") or b"blip" not in data:
                return data
            x = data.decode("utf-8")
            if fmt == "pptx":      # only the extents of pictures
                return re.sub(r"<p:pic>.*?</p:pic>", lambda pm: re.sub(pat, ext, pm.group(0)), x, flags=re.S).encode("utf-8")
            return re.sub(pat, ext, x).encode("utf-8")
    out = _rezip(pkg, edit)
    if n[0] == 0:
        raise ValueError(f"no picture geometry found in the {fmt} package (writer changed?)")
    return out


# ----------------------------------------------------------------------------- tagged PDF with odd string bytes
def _pdf_string(raw: bytes, enc: str) -> bytes:
    if enc in ("hex", "utf16"):
        return b"<" + raw.hex().encode() + b">"
    out = bytearray(b"(")
    for b in raw:
        if b in b"()\\":
            out += b"\\" + bytes([b])
        elif b < 32 or b > 126:
            out += b"\\%03o" % b
        else:
            out.append(b)
    return bytes(out + b")")


def tagged_pdf(case) -> bytes:
    """Minimal tagged PDF (own writer): one figure (image XObject in marked content) whose caption / description
    string holds the byte (or the unpaired UTF-16 surrogate) of the abstract case, at the place it names."""
    place, enc, b = case["place"], case["enc"], case["byte"]
    if enc == "utf16":
        raw = b"\xfe\xff" + "Fig zq ".encode("utf-16-be") + b.to_bytes(2, "big") + " end".encode("utf-16-be")
    else:
        raw = b"Figure zq co" + bytes([b]) + b"operation end"
    s = _pdf_string(raw, enc)
    fig = b"q 20 0 0 20 72 700 cm /Im0 Do Q"
    txt = b"BT /F1 12 Tf 72 680 Td %s ET"
    alt = b""
    if place == "caption":
        content = b"/Figure <</MCID 0>> BDC " + fig + b" EMC\n/Caption <</MCID 1>> BDC " + txt % (s + b" Tj") + b" EMC\n"
    elif place == "same":
        content = b"/Figure <</MCID 0>> BDC " + fig + b" " + txt % (s + b" Tj") + b" EMC\n"
    elif place == "tjarray":
        content = (b"/Figure <</MCID 0>> BDC " + fig + b" EMC\n/Caption <</MCID 1>> BDC "
                   + txt % (b"[(Fig ) -120 " + s + b" 30 (.)] TJ") + b" EMC\n")
    elif place == "actualtext":
        content = (b"/Figure <</MCID 0>> BDC " + fig + b" EMC\n/Span <</MCID 1 /ActualText " + s + b">> BDC "
                   + txt % b"(x) Tj" + b" EMC\n")
    else:                      # no marked content around the figure: the extractor falls back to the XObject's /Alt
        alt = b" /Alt " + s
        content = fig + b"\n"
    content += b"/P <</MCID 2>> BDC BT /F1 12 Tf 72 650 Td (zq0001x zq0002x) Tj ET EMC\n"
    pixels = bytes([255, 0, 0] * 4)
    objs = [b"<< /Type /Catalog /Pages 2 0 R /MarkInfo << /Marked true >> >>",
            b"<< /Type /Pages /Kids [3 0 R] /Count 1 >>",
            b"<< /Type /Page /Parent 2 0 R /MediaBox [0 0 612 792] /Contents 4 0 R "
            b"/Resources << /Font << /F1 5 0 R >> /XObject << /Im0 6 0 R >> >> >>",
            b"<< /Length %d >>\nstream\n" % len(content) + content + b"endstream",
            b"<< /Type /Font /Subtype /Type1 /BaseFont /Helvetica /Encoding /WinAnsiEncoding >>",
            b"<< /Type /XObject /Subtype /Image /Width 2 /Height 2 /ColorSpace /DeviceRGB /BitsPerComponent 8"
            + alt + b" /Length %d >>\nstream\n" % len(pixels) + pixels + b"\nendstream"]
    out = bytearray(b"%PDF-1.4\n%\xe2\xe3\xcf\xd3\n")
    offs = []
    for i, body in enumerate(objs, start=1):
        offs.append(len(out))
        out += b"%d 0 obj\n" % i + body + b"\nendobj\n"
    xref = len(out)
    out += b"xref\n0 %d\n0000000000 65535 f \n" % (len(objs) + 1)
    for o in offs:
        out += b"%010d 00000 n \n" % o
    out += b"trailer\n<< /Size %d /Root 1 0 R >>\nstartxref\n%d\n%%%%EOF\n" % (len(objs) + 1, xref)
    return bytes(out)


# ----------------------------------------------------------------------------- HTML numeric character references
NCR = {"hi": "&#55357;", "lo": "&#xDE00;", "pair": "&#xD83D;&#xDE00;", "beyond": "&#1114112;", "nul": "&#0;", "c1": "&#150;"}


def ncr_html(place, ref) -> bytes:
    r = NCR[ref]
    w = {p: (f" {r} " if p == place else " ") for p in ("title", "meta", "body", "alt", "cell")}
    return ("<!DOCTYPE html><html><head><meta charset=\"utf-8\"><title>T{title}t</title>"
            "<meta name=\"author\" content=\"A{meta}a\"><meta name=\"description\" content=\"D{meta}d\"></head><body>"
            "<h1>zq0003x</h1><p>zq0001x{body}zq0002x</p><p><img src=\"x.png\" alt=\"pic{alt}p\"></p>"
            "<table><tr><td>c{cell}c</td><td>zq0004x</td></tr><tr><td>zq0005x</td><td>zq0006x</td></tr></table>"
            "</body></html>").format(**w).encode("utf-8")


# ----------------------------------------------------------------------------- degenerate-but-accepted inputs
_GIF = b"GIF89a\x01\x00\x01\x00\x80\x00\x00\x00\x00\x00\xff\xff\xff!\xf9\x04\x01\x00\x00\x00\x00,\x00\x00\x00\x00\x01\x00\x01\x00\x00\x02\x02D\x01\x00;"


def _mime(parts, subtype="related", top=b""):
    import base64
    b = b"----=_NextPart_C04_degen"
    out = (b"From: <Saved by test>\r\nSubject: page\r\nMIME-Version: 1.0\r\n" + top
           + b'Content-Type: multipart/' + subtype.encode() + b'; boundary="' + b + b'"\r\n\r\n')
    for ctype, payload, extra in parts:
        out += (b"--" + b + b"\r\nContent-Type: " + ctype + b"\r\nContent-Transfer-Encoding: base64\r\n" + extra + b"\r\n"
                + base64.encodebytes(payload) + b"\r\n")
    return out + b"--" + b + b"--\r\n"


def _pdf_pages(n_pages):
    objs = [b"<< /Type /Catalog /Pages 2 0 R >>",
            b"<< /Type /Pages /Kids [" + b" ".join(b"%d 0 R" % (3 + i) for i in range(n_pages)) + b"] /Count %d >>" % n_pages]
    for _ in range(n_pages):
        objs.append(b"<< /Type /Page /Parent 2 0 R /MediaBox [0 0 612 792] >>")
    out = bytearray(b"%PDF-1.4\n%\xe2\xe3\xcf\xd3\n")
    offs = []
    for i, body in enumerate(objs, start=1):
        offs.append(len(out))
        out += b"%d 0 obj\n" % i + body + b"\nendobj\n"
    xref = len(out)
    out += b"xref\n0 %d\n0000000000 65535 f \n" % (len(objs) + 1)
    for o in offs:
        out += b"%010d 00000 n \n" % o
    out += b"trailer\n<< /Size %d /Root 1 0 R >>\nstartxref\n%d\n%%%%EOF\n" % (len(objs) + 1, xref)
    return bytes(out)


def degenerate_input(name):
    """(registry format, bytes) of a well-formed container that lacks the main part its extractor looks for."""
    from .docrun import render
    if name == "mhtml-nohtml":
        return "mhtml", _mime([(b'text/plain; charset="utf-8"', b"zq0001x saved resource\n", b"Content-Location: http://example.invalid/a.txt\r\n"),
                               (b"image/gif", _GIF, b"Content-Location: http://example.invalid/a.gif\r\n")])
    if name == "mhtml-onlyimage":
        return "mhtml", _mime([(b"image/gif", _GIF, b"Content-Location: http://example.invalid/a.gif\r\n")])
    if name == "eml-nobody":
        return "eml", (b"From: a@example.invalid\r\nTo: b@example.invalid\r\nSubject: zq0001x\r\n"
                       b"Date: Mon, 1 Jan 2024 00:00:00 +0000\r\nMessage-ID: <1@example.invalid>\r\n\r\n")
    if name == "eml-onlyattachment":
        return "eml", _mime([(b'application/octet-stream; name="a.bin"', b"\x00\x01\x02", b'Content-Disposition: attachment; filename="a.bin"\r\n')],
                            "mixed", b"To: b@example.invalid\r\nDate: Mon, 1 Jan 2024 00:00:00 +0000\r\n")
    if name == "mbox-onemessage-nobody":
        return "mbox", (b"From a@example.invalid Mon Jan  1 00:00:00 2024\nFrom: a@example.invalid\nTo: b@example.invalid\n"
                        b"Subject: zq0001x\nDate: Mon, 1 Jan 2024 00:00:00 +0000\n\n\n")
    if name in ("mbox-two", "mbox-three"):
        n = 2 if name == "mbox-two" else 3
        return "mbox", b"".join(
            b"From a%d@example.invalid Mon Jan  1 00:00:0%d 2024\nFrom: a%d@example.invalid\nTo: b@example.invalid\n"
            b"Subject: zq000%dx\nDate: Mon, 1 Jan 2024 00:00:0%d +0000\nMessage-ID: <%d@example.invalid>\n\nbody zq001%dx\n\n"
            % (i, i, i, i, i, i, i) for i in range(1, n + 1))
    if name in ("xlsx-emptysheet", "ods-emptysheet"):
        f = name.split("-")[0]
        return f, render({"kind": "book", "props": {}, "sheets": [{"name": "zq0001x", "name_id": 1, "rows": [], "images": []}]}, f)
    if name == "pdf-zeropages":
        return "pdf", _pdf_pages(0)
    if name == "pdf-emptypage":
        return "pdf", _pdf_pages(1)
    if name in ("docx-nobody", "odt-nobody"):
        f = name.split("-")[0]
        return f, render({"kind": "flow", "blocks": [], "header": [], "footer": [], "props": {}}, f)
    if name == "pptx-noslides":
        return "pptx", render({"kind": "deck", "props": {}, "slides": []}, "pptx")
    if name == "odp-nopages":
        return "odp", render({"kind": "deck", "props": {}, "slides": []}, "odp")
    if name == "html-empty":
        return "html", b""
    if name == "html-onlyhead":
        return "html", b"<!DOCTYPE html><html><head><title>zq0001x</title></head></html>"
    if name == "rtf-empty":
        return "rtf", b"{\\rtf1}"
    if name == "txt-newline":
        return "txt", b"\n"
    if name == "csv-empty":
        return "csv", b""
    if name == "json-empty":
        return "json", b"{}"
    if name == "md-blank":
        return "md", b"   \n\n"
    if name == "epub-nochapters":
        pkg = render({"kind": "flow", "blocks": [["p", [["r", 1]]]], "header": [], "footer": [], "props": {"title": "zq0002x"}}, "epub")
        import re

        def edit(part, data):
            if part.endswith(".opf"):
                return re.sub(rb"<spine>.*?</spine>", b"<spine></spine>", data, flags=re.S)
            return data
        return "epub", _rezip(pkg, edit)
    if name == "zip-emptymember":
        import zipfile
        buf = io.BytesIO()
        with zipfile.ZipFile(buf, "w") as z:
            z.writestr("empty.txt", b"")
            z.writestr("dir/also-empty.md", b"")
        return "zip", buf.getvalue()
    raise ValueError(name)


# ----------------------------------------------------------------------------- names of the containers of units
NAME_VALUE = {"absent": None, "empty": "", "blank": " ", "one": "x", "long31": "zq" + "n" * 29, "nonascii": "Übersicht 表 №1"}


def name_variant(pkg: bytes, fmt, which, kind) -> bytes:
    """Post-process the shared writer's package: the naming attribute of the first / of every unit container
    (sheet, page, slide, chapter) is absent / empty / ... / non-ASCII."""
    import re
    v = NAME_VALUE[kind]
    n = [0]

    def attr_sub(tag_re, attr):
        def one(m):
            n[0] += 1
            if which == "first" and n[0] > 1:
                return m.group(0)
            val = v if (v is None or which == "first" or kind in ("absent", "empty", "blank")) else f"{v}{n[0]}"[-31:]
            return _set_attr(m.group(0), attr, val)
        return lambda x: re.sub(tag_re, one, x)

    def edit(part, data):
        if fmt == "ods" and part == "content.xml":
            return attr_sub(r"<table:table\b[^>]*>", "table:name")(data.decode("utf-8")).encode("utf-8")
        if fmt in ("odp", "odg") and part == "content.xml":
            return attr_sub(r"<draw:page\b[^>]*>", "draw:name")(data.decode("utf-8")).encode("utf-8")
        if fmt == "xlsx" and part == "xl/workbook.xml":
            return attr_sub(r"<sheet\b[^>]*/>", "name")(data.decode("utf-8")).encode("utf-8")
        if fmt == "pptx" and re.fullmatch(r"ppt/slides/slide\d+\.xml", part):
            return attr_sub(r"<p:cSld\b[^>]*>", "name")(data.decode("utf-8")).encode("utf-8")
        if fmt == "epub" and part.endswith((".xhtml", ".html", ".htm")):
            x = data.decode("utf-8")
            n[0] += 1
            if which == "first" and n[0] > 1:
                return data
            x = re.sub(r"<title>.*?</title>", "", x, flags=re.S)
            if v is not None:
                x = x.replace("<head>", f"<head><title>{_xesc(v)}</title>", 1)
            return x.encode("utf-8")
        return data
    out = _rezip(pkg, edit)
    if n[0] == 0:
        raise ValueError(f"no unit container found in the {fmt} package (writer changed?)")
    return out


# ----------------------------------------------------------------------------- archive members
ARCH_EXTS = {"zip": ["zip"], "tar": ["tar"], "tgz": ["tar", "gz"], "7z": ["7z"]}
MEMBER_LAST_EXT = ["txt", "md", "csv", "json", "html"]


def spell_member(am, rng):
    """Abstract member (IfaceGen MemberForms) -> spelled member record + the member name stored in the archive."""
    exts = [rng.choice(["final", "v2", "2024", "BAK"]) if i < len(am["exts"]) - 1 else rng.choice(MEMBER_LAST_EXT)
            for i in range(len(am["exts"]))]
    m = {"dirs": [rng.choice(SEG[t]) if t != "x.y" else rng.choice(["v1.2", "x.y"]) for t in am["dirs"]],
         "stem": rng.choice(STEM[am["stem"]]), "exts": exts}
    name = ("/" if am["abs"] else "") + "/".join(m["dirs"] + [".".join([m["stem"]] + exts)])
    return m, name


def archive_bytes(kind, member_name, data=b"zq0001x zq0002x\n"):
    """Archive with one member (or, for a list of names, several); every member is stored under exactly the given
    name (absolute names are kept)."""
    if isinstance(member_name, (list, tuple)):
        names = list(member_name)
        if kind == "zip":
            import zipfile
            buf = io.BytesIO()
            with zipfile.ZipFile(buf, "w") as z:
                for n in names:
                    zi = zipfile.ZipInfo("placeholder")
                    zi.filename = n
                    zi.compress_type = zipfile.ZIP_DEFLATED
                    z.writestr(zi, data)
            return buf.getvalue()
        if kind in ("tar", "tgz"):
            import tarfile
            buf = io.BytesIO()
            with tarfile.open(fileobj=buf, mode="w:gz" if kind == "tgz" else "w", format=tarfile.PAX_FORMAT) as t:
                for n in names:
                    ti = tarfile.TarInfo("placeholder")
                    ti.name = n
                    ti.size = len(data)
                    t.addfile(ti, io.BytesIO(data))
            return buf.getvalue()
        from .c10_sevenz import write_7z
        out = write_7z([{"name": n, "kind": "file", "data": data} for n in names], [list(range(len(names)))])
        return out[0] if isinstance(out, tuple) else out
    if kind == "zip":
        import zipfile
        buf = io.BytesIO()
        with zipfile.ZipFile(buf, "w") as z:
            zi = zipfile.ZipInfo("placeholder")
            zi.filename = member_name
            zi.compress_type = zipfile.ZIP_DEFLATED
            z.writestr(zi, data)
        return buf.getvalue()
    if kind in ("tar", "tgz"):
        import tarfile
        buf = io.BytesIO()
        with tarfile.open(fileobj=buf, mode="w:gz" if kind == "tgz" else "w", format=tarfile.PAX_FORMAT) as t:
            ti = tarfile.TarInfo("placeholder")
            ti.name = member_name
            ti.size = len(data)
            t.addfile(ti, io.BytesIO(data))
        return buf.getvalue()
    if kind == "7z":
        from .c10_sevenz import write_7z          # independent 7z writer of C09 / C10 (read-only use)
        out = write_7z([{"name": member_name, "kind": "file", "data": data}], [[0]])
        return out[0] if isinstance(out, tuple) else out
    raise ValueError(kind)


# ----------------------------------------------------------------------------- heading structures
def struct_doc(fmt, items, pics, seed=0):
    """Flow document whose body is the given sequence of h1 / h2 / h3 / p / e(mpty paragraph) / t(able) items."""
    from .docrun import rich_doc
    n = [0]
    ntables = [(seed + len(items)) % 3]

    def tok():
        n[0] += 1
        return ["r", n[0]]
    blocks = []
    for it in items:
        if it in ("h1", "h2", "h3"):
            blocks.append(["h", int(it[1]), [tok()]])
        elif it == "p":
            blocks.append(["p", [tok(), ["tab"], tok()]])
        elif it == "e":
            blocks.append(["p", []])
        else:
            # tables alternate between a regular 3 x 2 grid, a one-cell banner row above two three-cell rows, and a grid
            # whose last row is the widest: get_dim() must be the shape of get_table() for ragged grids too
            widths = ([2, 2, 2], [1, 3, 3], [2, 1, 3])[ntables[0] % 3]
            ntables[0] += 1
            blocks.append(["tbl", [[[["p", [tok()]]] for _ in range(w)] for w in widths]])
    doc = {"kind": "flow", "blocks": blocks, "header": [], "footer": [], "props": {"title": "zqT"}}
    if pics:
        doc["images"] = rich_doc(fmt, seed).get("images") or []
    return doc


# ----------------------------------------------------------------------------- picture parts with odd file extensions
PIC_EXT = {"svg": ".svg", "webp": ".webp", "jp2": ".jp2", "none": "", "upper": ".PNG", "unknown": ".xyz9", "dotted": ".v2.tiff"}


def rename_images(doc, kind):
    """The pictures of a docrun document get part names with an extension outside the extractors' tables."""
    for i in doc_images(doc):
        for key in ("target", "part", "href"):
            if i.get(key):
                head, _, last = i[key].rpartition("/")
                stem = last.split(".")[0]
                i[key] = (head + "/" if head else "") + stem + PIC_EXT[kind]
    return doc


def epub_with_images(doc, kind, seed=0):
    """EPUB (shared writer) with two pictures in the manifest, named as the abstract case says."""
    from .writers.images import make
    from .writers.web import write_epub
    imgs = [{"part": "OEBPS/img/a" + PIC_EXT[kind], "href": "img/a" + PIC_EXT[kind], "data": make("png", 4, 3, seed), "media": "image/png"},
            {"part": "OEBPS/img/b" + PIC_EXT[kind], "href": "img/b" + PIC_EXT[kind], "data": make("jpeg", 5, 4, seed), "media": "application/octet-stream"}]
    return write_epub({"chapters": [doc], "props": doc.get("props"), "images": imgs})
