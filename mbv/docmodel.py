"""Abstract document model shared by the writers, the projections and specs/Doc.tla.

A document is plain JSON (so that it can be handed to TLC unchanged):

  flow document   {"kind": "flow", "blocks": [B..], "header": [I..], "footer": [I..],
                   "props": {"title": id, "author": id, ...}, "images": [...]}
  deck            {"kind": "deck", "slides": [{"blocks": [B..], "notes": [I..]} ..]}
  book            {"kind": "book", "sheets": [{"name": id, "rows": [[cell..]..]} ..]}

  Block B:  ["p", [I..]] | ["h", level, [I..]] | ["ul", [[B..] ..]] | ["tbl", [[[B..] ..] ..]]
            | ["sdt", [B..]] | ["tbx", [B..]]
  Inline I: ["r", id] | ["tab"] | ["br"] | ["sp"] (a blank that is a text node of its own between two runs) | ["a", [I..]] | ["ins", [I..]] | ["del", [I..]]
            | ["isdt", [I..]] | ["fn", id] | ["cm", id] | ["itbx", [B..]] (text box anchored in the paragraph)

Every text leaf is a token id (positive int, unique in the document); it is rendered as the
word  zq<id:04d>x  which no extractor decoration can produce.  The *class* of a token (BODY,
CELL, DEL, ...) is not stored: Doc.tla derives it from the position in the tree.
"""
from __future__ import annotations

import re

# three renderings of a token, chosen by the id range (the abstract document only ever sees the id):
#   1..2999     zq0007x                       a plain word
#   3000..4999  zq3007é zy3007x               one run of two words, the first ending in a non-ASCII letter (the
#                                              blank inside the run is text: gluing the halves destroys the token)
#   5000..9999  9007199254005007              a 16-digit number (digits only -- also a run of 16 hex digits)
TOKEN_RE = re.compile(r"zq(\d{4})x|zq(\d{4})\u00e9\s+zy\2x|9007199254(\d{6})")
TOKEN_RE_NOSPACE = re.compile(r"zq(\d{4})x|zq(\d{4})\u00e9zy\2x|9007199254(\d{6})")     # after deleting all white space
ACCENT_BASE, NUMERIC_BASE = 3000, 5000


def word(i: int) -> str:
    if i >= NUMERIC_BASE:
        return f"9007199254{i:06d}"
    if i >= ACCENT_BASE:
        return f"zq{i:04d}\u00e9 zy{i:04d}x"
    return f"zq{i:04d}x"


def _tok_id(m) -> int:
    return int(m.group(1) or m.group(2) or m.group(3))


def project_text(text: str) -> dict:
    """Projection of an extracted text: token ids in order, whitespace-separation flags between
    consecutive tokens, and the kinds of residue left after deleting the tokens."""
    ids, sep = [], []
    last = 0
    residue = []
    for m in TOKEN_RE.finditer(text):
        gap = text[last:m.start()]
        if ids:
            sep.append(1 if any(c.isspace() for c in gap) else 0)
        residue.append(gap)
        ids.append(_tok_id(m))
        last = m.end()
    residue.append(text[last:])
    return {"ids": ids, "sep": sep, "residue": residue}


def inl_ids(inls):
    for i in inls:
        t = i[0]
        if t == "r" or t == "fn" or t == "cm":
            yield i[1]
        elif t in ("a", "ins", "del", "isdt"):
            yield from inl_ids(i[1])
        elif t == "itbx":       # a text box anchored inside the paragraph: blocks
            yield from block_ids(i[1])


def block_ids(blocks):
    for b in blocks:
        t = b[0]
        if t == "p":
            yield from inl_ids(b[1])
        elif t == "h":
            yield from inl_ids(b[2])
        elif t == "ul":
            for item in b[1]:
                yield from block_ids(item)
        elif t == "tbl":
            for row in b[1]:
                for cell in row:
                    yield from block_ids(cell)
        elif t in ("sdt", "tbx"):
            yield from block_ids(b[1])


def constructs(doc) -> set:
    """Set of construct tags used by a document (to ask a writer whether it can express it)."""
    out = set()

    def inl(xs, ctx):
        for i in xs:
            out.add(i[0])
            if i[0] == "r" and i[1] >= NUMERIC_BASE:
                out.add("r.num")
            elif i[0] == "r" and i[1] >= ACCENT_BASE:
                out.add("r.acc")
            if i[0] in ("a", "ins", "del", "isdt"):
                inl(i[1], ctx)
            elif i[0] == "itbx":
                blk(i[1])

    def blk(bs, depth_tbl=0, in_cell=False):
        for b in bs:
            t = b[0]
            out.add(t)
            if t == "p":
                inl(b[1], None)
            elif t == "h":
                inl(b[2], None)
            elif t == "ul":
                for item in b[1]:
                    if any(x[0] == "ul" for x in item):
                        out.add("ul.nested")
                    blk(item, depth_tbl, in_cell)
            elif t == "tbl":
                if depth_tbl:
                    out.add("tbl.nested")
                    if any(len(row) > 1 for row in b[1]):
                        out.add("tbl.nested.wide")      # a nested table with more than one cell in a row
                for row in b[1]:
                    for cell in row:
                        if len(cell) > 1:
                            out.add("cell.multi")
                        blk(cell, depth_tbl + 1, True)
            else:
                blk(b[1], depth_tbl, in_cell)
    if doc.get("kind", "flow") == "flow":
        blk(doc.get("blocks", []))
        if doc.get("header"):
            out.add("header")
        if doc.get("footer"):
            out.add("footer")
    return out
