"""Backbone check (specs/Pipeline.tla + PipelineTrace.tla): TLC theorem on the composed stage machine, sensitivity
runs, and trace validation of coarse stage events recorded from real read_file() calls.  Called from c07.run
(routing is the first stage of the pipeline); its evidence is accounted under C07."""
from __future__ import annotations

import json
import subprocess
import sys
from pathlib import Path

from . import PY, REPO, VERIF
from .repo import child_env
from .tlc import MachineryError, run_tlc
from .traces import validate

CFG = ("SPECIFICATION Spec\nCONSTANTS MaxYield = 2\nINVARIANT Inv_GuardFirst\nINVARIANT Inv_RouteBeforeOpen\n"
       "INVARIANT Inv_DetectBeforeYield\nINVARIANT Inv_ValidBeforeRead\nINVARIANT Inv_FamilyOnly\n"
       "INVARIANT Inv_ErrorPriority\nPROPERTY Prop_Terminates\n")


def _worker(jobs_file, out_file):
    import builtins
    import io
    import pathlib
    import warnings
    warnings.simplefilter("ignore")
    import sharepoint2text
    from sharepoint2text.parsing import exceptions as X
    jobs = json.loads(Path(jobs_file).read_text())
    events = []
    target = [None]
    real_stat, real_open, real_get = pathlib.Path.stat, builtins.open, sharepoint2text.get_extractor

    def stat(self, *a, **k):
        if target[0] and str(self) == target[0]:
            events.append({"a": "Stat"})
        return real_stat(self, *a, **k)

    class Proxy:
        def __init__(self, fh):
            self._fh = fh

        def read(self, *a):
            events.append({"a": "Load"})
            return self._fh.read(*a)

        def __enter__(self):
            self._fh.__enter__()
            return self

        def __exit__(self, *a):
            return self._fh.__exit__(*a)

        def __getattr__(self, n):
            return getattr(self._fh, n)

    def open_(file, *a, **k):
        fh = real_open(file, *a, **k)
        if target[0] and str(file) == target[0]:
            events.append({"a": "Open"})
            return Proxy(fh)
        return fh

    def get_extractor(p):
        if target[0] and str(p) == target[0]:
            events.append({"a": "Route"})
        return real_get(p)
    pathlib.Path.stat = stat
    builtins.open = open_
    sharepoint2text.get_extractor = get_extractor
    cls = [(X.ExtractionFileTooLargeError, "TooLarge"), (X.ExtractionFileFormatNotSupportedError, "NotSupported"),
           (X.ExtractionFileEncryptedError, "Encrypted"), (X.ExtractionZipBombError, "ZipBomb"), (X.ExtractionError, "Failed")]
    out = []
    for j in jobs:
        del events[:]
        target[0] = j["path"]
        try:
            n = 0
            for _ in sharepoint2text.read_file(j["path"], **({"max_file_size": j["max"]} if j.get("max") is not None else {})):
                n += 1
                if n <= 2:
                    events.append({"a": "Yield"})
            end = "Done" if n else "Empty"
        except Exception as e:
            end = next((name for c, name in cls if isinstance(e, c)), "Other:" + type(e).__name__)
        target[0] = None
        out.append({"id": j["id"], "hdr": {"tooLarge": j["tooLarge"], "supported": j["supported"], "limit": j.get("max") != 0},
                    "ev": [dict(e, out="") for e in events] + [{"a": "End", "out": end}]})
    pathlib.Path.stat, builtins.open, sharepoint2text.get_extractor = real_stat, real_open, real_get
    Path(out_file).write_text(json.dumps(out))


def run(ctx):
    ev, v = ctx.ev, ctx.v
    r = run_tlc("Pipeline", CFG, scratch=ctx.scratch)
    ev.tlc("Pipeline: composed stage machine, cross-property ordering invariants + termination", r)
    if r.violated:
        v.violation(what=f"Pipeline.tla: {r.violated} violated on the specification")
    # inputs
    from .docrun import render, rich_doc
    wd = ctx.scratch / "pipeline"
    wd.mkdir()
    jobs = []
    for fmt in ("docx", "odt", "pptx", "xlsx", "ods", "epub", "html", "rtf", "pdf", "txt", "xls"):
        data = render(rich_doc(fmt, ctx.seed), fmt)
        p = wd / f"doc.{fmt}"
        p.write_bytes(data)
        jobs.append({"id": f"{fmt}:plain", "path": str(p), "max": None, "tooLarge": False, "supported": True})
        jobs.append({"id": f"{fmt}:limit-1", "path": str(p), "max": len(data) - 1, "tooLarge": True, "supported": True})
        jobs.append({"id": f"{fmt}:limit", "path": str(p), "max": len(data), "tooLarge": False, "supported": True})
        jobs.append({"id": f"{fmt}:nolimit", "path": str(p), "max": 0, "tooLarge": False, "supported": True})
        q = wd / f"doc-{fmt}.xyz"
        q.write_bytes(data)
        jobs.append({"id": f"{fmt}:unsupported", "path": str(q), "max": None, "tooLarge": False, "supported": False})
        jobs.append({"id": f"{fmt}:unsupported+large", "path": str(q), "max": 3, "tooLarge": True, "supported": False})
        t = wd / f"cut.{fmt}"
        t.write_bytes(data[: len(data) // 2])
        jobs.append({"id": f"{fmt}:truncated", "path": str(t), "max": None, "tooLarge": False, "supported": True})
    for pth in sorted((REPO / "sharepoint2text" / "tests" / "resources").rglob("*")):
        if pth.is_file() and any(s in pth.name.lower() for s in ("password", "protected", "encrypted")) and pth.stat().st_size < 2_000_000:
            jobs.append({"id": f"fixture:{pth.name}", "path": str(pth), "max": None, "tooLarge": False, "supported": True})
    jf, of = ctx.scratch / "pipeline-jobs.json", ctx.scratch / "pipeline-out.json"
    jf.write_text(json.dumps(jobs))
    p = subprocess.run([PY, "-m", "mbv.pipeline_check", "worker", str(jf), str(of)], env=child_env(), cwd=str(VERIF),
                       capture_output=True, text=True, timeout=900)
    if p.returncode != 0:
        raise MachineryError("pipeline recorder failed:\n" + p.stderr[-1500:])
    traces = json.loads(of.read_text())
    br = validate("PipelineTrace", "SPECIFICATION TraceSpec\nCONSTANTS MaxYield = 2\nCONSTRAINT TraceAccept\n", traces,
                  scratch=ctx.scratch, parallel=4, min_chunk=40)
    ev.tlc_counts("PipelineTrace: stage events of real read_file() calls", br.distinct, br.states, br.wall_s)
    for t, tv in zip(traces, br.verdicts):
        if tv.accepted:
            v.ok()
        else:
            v.violation(what=f"read_file() stage order / outcome not allowed by the backbone specification for {t['id']}: "
                             f"events {[e['a'] + (':' + e['out'] if e['out'] else '') for e in t['ev']]}",
                        case=t, where="sharepoint2text/__init__.py:read_file")
    ev.replayed(len(traces))
    ev.sample({"pipeline_trace": traces[0]["id"], "events": [e["a"] for e in traces[0]["ev"]]})


if __name__ == "__main__":
    if sys.argv[1] == "worker":
        _worker(sys.argv[2], sys.argv[3])
