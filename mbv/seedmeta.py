"""Write seeded/<id>/meta.json from run.txt + notes.md + the HISTORY table below (lead-maintained)."""
import json
import re
from pathlib import Path

from . import VERIF

# id -> (property, needs, first result, what was strengthened)
HISTORY = {
    "C02-A": ("C02", "a block-level content control nested inside another one (docx)", "missed",
              "DocGen gained nested content-control shapes (sdt in sdt, table / list in sdt, two-paragraph text box)"),
    "C02-B": ("C02", "mixed content (text + inline child + text) in an HTML heading or table cell", "caught", ""),
    "C03-A": ("C03", "a unit with empty text strictly between two non-empty units", "caught", ""),
    "C03-B": ("C03", "EPUB whose package file sits two or more directories deep", "missed",
              "the EPUB writer now places the package file at the root / one / two directories deep, chosen by document shape"),
    "C06-A": ("C06", "two PPTX decks in one process: first with a comment part on slide N, second without", "missed",
              "C06 gained an isolated per-document baseline, order-permuted same-process sequences and a commented + plain deck pair"),
    "C06-B": ("C06", "DOCX with paragraph styles differing only in letter case + different PYTHONHASHSEED", "missed",
              "the generated DOCX now carries styles Note / NOTE / note"),
    "C06-C": ("C06", "image bytes read before to_json() (stream position)", "caught", ""),
    "C07-A": ("C07", "upper / mixed case extension whose MIME type is unmapped or mapped elsewhere", "caught", ""),
    "C07-B": ("C07", "compound suffix (.tar.gz) occurring in the path but not at its end", "caught", ""),
    "C13-A": ("C13", "XLSX sheet whose last row / column holds only zeros or False", "missed",
              "typed kinds z (0) and bf (False) added to the typed-row universe"),
    "C13-B": ("C13", "HTML table with unclosed <col> elements followed by another table", "missed",
              "the HTML writer renders even-row tables HTML5-style (colgroup/col, thead/tbody, th)"),
}


def main():
    for d in sorted((VERIF / "seeded").iterdir()):
        if not d.is_dir() or d.name not in HISTORY:
            continue
        prop, needs, first, strengthened = HISTORY[d.name]
        run = (d / "run.txt").read_text() if (d / "run.txt").exists() else ""
        m = re.search(r"checks against changed tree:(.*)", run)
        meta = {"id": d.name, "breaks_property": prop, "needs_to_manifest": needs,
                "written_by": "independent sub-agent given only the property text and a scratch worktree",
                "confirmed": {"demo_unchanged_rc": int(re.search(r"unchanged tree: rc=(\d+)", run).group(1)) if run else None,
                              "demo_changed_rc": int(re.search(r"with change: rc=(\d+)", run).group(1)) if run else None,
                              "repo_tests_with_change": (re.search(r"repo tests with change: (.*)", run).group(1).strip("= ") if run else None)},
                "ran": f"mbv/seedtest.sh {prop} <agent output dir> {d.name.split('-')[1]} (scratch worktree of /repo HEAD, "
                       "git apply patch.diff, demo.py, pytest, SP2T_REPO=<worktree> ./check)",
                "first_result": first, "strengthened": strengthened,
                "final_result": (m.group(1).strip() if m else "")}
        (d / "meta.json").write_text(json.dumps(meta, indent=1))
    print("meta written")


if __name__ == "__main__":
    main()
