"""Write seeded/<id>/meta.json from run.txt + notes.md + the HISTORY table below (lead-maintained)."""
import json
import re
from pathlib import Path

from . import VERIF

# id -> (property, needs, first result, what was strengthened)
HISTORY = {
    "C02-A": ("C02", "a block-level content control nested inside another one (docx)", "missed",
              "DocGen gained nested content-control shapes (sdt in sdt, table / list in sdt, two-paragraph text box)"),
    "C02-B": ("C02", "mixed content (text + inline child + text) in an HTML heading or table cell", "caught", ""),
    "C03-A": ("C03", "a unit with empty text strictly between two non-empty units", "caught", ""),
    "C03-B": ("C03", "EPUB whose package file sits two or more directories deep", "missed",
              "the EPUB writer now places the package file at the root / one / two directories deep, chosen by document shape"),
    "C06-A": ("C06", "two PPTX decks in one process: first with a comment part on slide N, second without", "missed",
              "C06 gained an isolated per-document baseline, order-permuted same-process sequences and a commented + plain deck pair"),
    "C06-B": ("C06", "DOCX with paragraph styles differing only in letter case + different PYTHONHASHSEED", "missed",
              "the generated DOCX now carries styles Note / NOTE / note"),
    "C06-C": ("C06", "image bytes read before to_json() (stream position)", "caught", ""),
    "C07-A": ("C07", "upper / mixed case extension whose MIME type is unmapped or mapped elsewhere", "caught", ""),
    "C07-B": ("C07", "compound suffix (.tar.gz) occurring in the path but not at its end", "caught", ""),
    "C13-A": ("C13", "XLSX sheet whose last row / column holds only zeros or False", "missed",
              "typed kinds z (0) and bf (False) added to the typed-row universe"),
    "C13-B": ("C13", "HTML table with unclosed <col> elements followed by another table", "missed",
              "the HTML writer renders even-row tables HTML5-style (colgroup/col, thead/tbody, th)"),
    "C05-A": ("C05", "a BytesIO payload not at offset 0 when to_json() runs (stream read before serialising)", "missed",
              "Serial.tla BytesIO values carry a stream position; instances and fixture results are round-tripped with streams at start / mid / end"),
    "C05-B": ("C05", "--json-unit without --binary on an input yielding >= 2 results whose units carry image payloads", "missed",
              "multi-result archives with binary payloads added to the CLI part; per-item binary-exclusion law (CliItem) decided by TLC"),
    "C08-A": ("C08", "XLS workbook with a zero-length record (WriteProtect) before FILEPASS", "caught", ""),
    "C08-B": ("C08", "ZIP whose only encrypted members are ones the extractor skips (dotfile, unsupported type, nested zip)", "caught", ""),
    "C11-A": ("C11", "per-entry compression ratio strictly between the limit and limit + 1", "caught", ""),
    "C11-B": ("C11", "ODF encryption probe opening the container without the bomb guard (read before validate)", "caught", ""),
    "C12-A": ("C12", "ZIP member above the per-member limit that compresses to below it", "caught", ""),
    "C12-B": ("C12", "XML part with a DOCTYPE declaring nested internal entities (defusedxml replaced by the stdlib parser)", "caught", ""),
    "C16-A": ("C16", "mbox recipient whose RFC 2047-encoded display name contains a comma once decoded", "caught", ""),
    "C16-B": ("C16", ".eml Subject folded with a TAB continuation", "caught", ""),
    "C17-A": ("C17", "a removable element nested in an element of the same name, followed by more content of the outer one", "missed",
              "quick tier gained alphabet AlphaQ4 (object / noscript nesting, length <= 5) and the deviation FirstEndTagCloses"),
    "C17-B": ("C17", "a bare void <embed> not inside <object>", "caught", ""),
    "C20-A": ("C20", "a 192-bit key (extra SubWord step applied for Nk = 6)", "caught", ""),
    "C20-B": ("C20", "stream-wrapper encryption of a block-aligned message (padding block dropped)", "caught", ""),
    "C04-A": ("C04", "RTF run holding a lone low surrogate written as \\uN (no high surrogate before it)", "caught", ""),
    "C04-B": ("C04", "table whose first row has fewer cells than a later row (merged banner row)", "caught", ""),
    "C09-A": ("C09", "7z empty-file entry (no data stream, EmptyFile flag) named absolutely or with ../", "caught", ""),
    "C09-B": ("C09", "nested archive with a compound extension (.tar.gz / .tar.bz2 / .tar.xz) inside an archive", "caught", ""),
    "C10-A": ("C10", "7z with a folder of >= 2 files after another folder (layouts [3,2], [1,4], [2,2,1])", "caught", ""),
    "C10-B": ("C10", "deflated ZIP member whose damage breaks the deflate syntax (zlib.error instead of a CRC mismatch)", "caught", ""),
    "C14-A": ("C14", "PDF image XObject with a filter cascade [/FlateDecode /DCTDecode]", "missed", "the C14 PDF writer renders every legal /Filter form per image (name, one-element array, cascades with Flate / ASCIIHex / ASCII85)"),
    "C14-B": ("C14", "XLSX whose drawing part names do not follow sheet order", "caught", ""),
    "C15-A": ("C15", "two PDFs sharing one embedded font, glyph set of the second a strict subset of the first, wide one first", "missed",
              "glyph-id sets in subset / superset / overlapping / disjoint relation in all orders; documents show all glyphs; projection of overwritten glyphs; deviation FontCacheSupersetReuse"),
    "C15-B": ("C15", "two threads whose page extractions overlap and finish in entry order (lock released during the body)", "caught", ""),
    "C18-A": ("C18", "a folder item whose facet is the empty object {}", "missed",
              "the fake Graph transport now draws facet shapes ({} / {childCount} / extra keys) and optional members per item"),
    "C18-B": ("C18", "4xx other than 404 on the folder-resolution request of a filtered listing", "caught", ""),
    "C19-A": ("C19", "structural element without its optional property nested around one that has it (descendant lookup)", "caught", ""),
    "C19-B": ("C19", "bracket-only radical followed by a run mixing a mapped symbol and the closing bracket", "missed",
              "closing runs now mix a mapped symbol, plain text and the closer; 582 more symbol trees"),
    "C02-A2": ("C02", "PPTX slide where a table (graphicFrame with a direct p:xfrm) is followed by a text shape at larger y", "caught", ""),
    "C02-B2": ("C02", "EPUB chapter: a removed element containing a different removable element with text after it", "caught by C17",
               "(C02 does not generate removable markup; the C17 check decides this clause)"),
    "C02-C2": ("C02", "ODF line break inside a span / hyperlink (depth >= 1) with no adjacent white space", "missed",
               "DocGen paragraph shapes gained breaks and tabs inside link / insertion / inline content control wrappers"),
    "C03-A2": ("C03", "DOCX outline with a skipped heading level (H1 followed by H3 siblings, or starting with H2)", "missed",
               "Doc.tla FlowUnits gained the heading-path clause HeadPathOK (path = chain of open headings)"),
    "C03-B2": ("C03", "mbox envelope sender without '@' (MAILER-DAEMON, root, '-')", "caught by C16",
               "(C03's document suite has no mailboxes; the C16 check decides mailbox boundaries)"),
    "C03-C2": ("C03", "EPUB spine item that yields no chapter (SVG page, dangling idref) before later chapters", "missed",
               "DocGen2 pages gained a gap position; the EPUB writer emits an SVG / dangling spine item for it; PagedUnits counts it as a position"),
    "C13-A2": ("C13", "DOCX table in a block-level content control with a nested table in one of its cells", "missed",
               "TablesOK now allows a nested table to be listed at most once (SubseqMatch consumes NestedIn); new shapes sdt(table with nested table), sdt(two tables)"),
    "C13-B2": ("C13", "ODT nested table whose row sits in table:table-header-rows", "missed",
               "the ODT writer wraps the first row of every other table in table:table-header-rows"),
    "C13-C2": ("C13", "ODS sheet whose right-most column holds only falsy typed values (0, FALSE, empty) in every row", "missed",
               "header-less typed grids (DocGen2 Kind=typedgrid, Doc!TypedGridOK) for ODS"),
    "C05-A2": ("C05", "round trip of a plain-text result (FileMetadataInterface dropped from the type registry)", "caught", ""),
    "C05-B2": ("C05", "XLSX time-of-day cell below the header row", "caught", ""),
    "C06-A2": ("C06", "ODS sheet whose text starts / ends with white space, observed between two to_json() calls", "missed",
               "generated ODS / XLS documents carry cells with leading and trailing blanks"),
    "C06-B2": ("C06", "ODF formula with >= 2 distinct annotations + different PYTHONHASHSEED", "missed",
               "an OpenDocument Formula writer (MathML with three annotations) and .xls were added to the C06 document set"),
    "C06-C2": ("C06", "buffer with ZIP magic but no end-of-central-directory record (truncated archive)", "missed",
               "input purity is now also checked on damaged variants (truncations, zeroed tail, flipped byte) of every document"),
    "C07-A2": ("C07", "path ending in .tar.bz2 (compound table value without extractor)", "caught", ""),
    "C07-B2": ("C07", ".pps alias removed: routing depends on the host MIME database", "caught", ""),
    "C07-C2": ("C07", "read_file on a symbolic link whose target has another / no extension", "missed",
               "every fourth file of the read_file phase is a symlink into a blob store with another extension"),
    "C08-A2": ("C08", "PDF with empty user password AND empty owner password (decrypt('') returns OWNER_PASSWORD)", "missed",
               "the PDF universe gained the owner-password dimension (same as the empty user password / distinct)"),
    "C08-B2": ("C08", "OLE-wrapped OOXML with EncryptedPackage but no EncryptionInfo (IRM layout)", "caught", ""),
    "C16-A2": ("C16", "mbox part that is inline-with-name, named only via Content-Type, or attachment without name", "caught", ""),
    "C16-B2": ("C16", "single-part mbox message in a non-UTF-8 charset", "caught", ""),
    "C01-A": ("C01", "valid .xls with one FAT bit flipped (xlrd assert with empty args) through the direct extractor", "caught", ""),
    "C01-B": ("C01", "embedded JPEG with a zero-length segment before SOF (RTF \\pict, PPT/XLS records, EPUB images)", "missed",
              "(pending: builder asked for image-header-aware container mutants and loop monitors on the sniffers)"),
    "C01-C": ("C01", "CLI on an input that yields no results (empty archive, zero-byte mbox)", "caught", ""),
    "C04-A2": ("C04", "path argument whose last component has no suffix (README, hidden file, trailing dot, archive member)", "caught", ""),
    "C04-B2": ("C04", "PPTX picture whose pixel size cannot be measured (EMF / truncated header)", "caught", ""),
    "C09-A2": ("C09", "7z archive consumed only partly (close / abandon / exception in the consumer)", "caught", ""),
    "C09-B2": ("C09", "TAR hard-link member with a supported extension pointing at a hidden / unsupported earlier member", "missed",
               "(pending: builder asked to let hard-link targets range over hidden / unsupported / oversize members)"),
    "C10-A2": ("C10", ".tar.bz2 written with compresslevel 1..8 (header BZh1..BZh8)", "missed",
               "(pending: builder asked to vary packer parameters that change container headers)"),
    "C10-B2": ("C10", "7z with a zero-byte file listed before a file with data", "caught", ""),
    "C11-A2": ("C11", "container with empty deflated entries (compress_size 2) near the total-ratio limit", "caught", ""),
    "C11-B2": ("C11", "caller keeps using its stream after validate_zip_bytesio rejected it", "caught", ""),
    "C12-A2": ("C12", "ODS empty row with a huge repeat count followed by a non-empty row", "caught", ""),
    "C12-B2": ("C12", "read_file(max_file_size=0) on a non-empty file", "caught", ""),
    "C14-A2": ("C14", "DOCX picture: JPEG whose DHT segment precedes its SOF segment", "missed",
               "(pending: builder asked for legal header variants per image kind)"),
    "C14-B2": ("C14", "PPTX slide relationship with an absolute picture target", "caught", ""),
}


def main():
    for d in sorted((VERIF / "seeded").iterdir()):
        if not d.is_dir() or d.name not in HISTORY:
            continue
        prop, needs, first, strengthened = HISTORY[d.name]
        run = (d / "run.txt").read_text() if (d / "run.txt").exists() else ""
        m = re.search(r"checks against changed tree:(.*)", run)
        meta = {"id": d.name, "breaks_property": prop, "needs_to_manifest": needs,
                "written_by": "independent sub-agent given only the property text and a scratch worktree",
                "confirmed": {"demo_unchanged_rc": int(re.search(r"unchanged tree: rc=(\d+)", run).group(1)) if run else None,
                              "demo_changed_rc": int(re.search(r"with change: rc=(\d+)", run).group(1)) if run else None,
                              "repo_tests_with_change": (re.search(r"repo tests with change: (.*)", run).group(1).strip("= ") if run else None)},
                "ran": f"mbv/seedtest.sh {prop} <agent output dir> {d.name.split('-')[1]} (scratch worktree of /repo HEAD, "
                       "git apply patch.diff, demo.py, pytest, SP2T_REPO=<worktree> ./check)",
                "first_result": first, "strengthened": strengthened,
                "final_result": (m.group(1).strip() if m else "")}
        (d / "meta.json").write_text(json.dumps(meta, indent=1))
    print("meta written")


if __name__ == "__main__":
    main()
