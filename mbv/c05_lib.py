"""C05 helper: everything that runs *inside the library's process* (worker side).

  schema export   registry (serialization._get_type_registry) -> abstract schema: per class the fields
                  with the hint shape _deserialize_value distinguishes + the projected default
  projection      live Python object / JSON value -> abstract value of specs/Serial.tla
  concretiser     TLC value template (SerialGen, Mode = "templates") + hint -> live Python value
  execution       to_json / json.dumps / from_json / serialize_extraction(include_binary=False)

Nothing here computes an expectation: the events are validated by TLC (SerialTrace.tla)."""
from __future__ import annotations

import base64
import binascii
import dataclasses
import hashlib
import io
import json
import math
import random
import types
import typing

import re

MARKERS = ("_type", "_bytes", "_bytesio")
_ADDR = re.compile(r"0x[0-9a-fA-F]+")
_OKCHARS = set("abcdefghijklmnopqrstuvwxyzABCDEFGHIJKLMNOPQRSTUVWXYZ0123456789 _-.,:;/+=()@")


# ------------------------------------------------------------------ ids
def sid(s: str) -> str:
    """Short ASCII strings are carried verbatim (marker vocabulary!), everything else as a hash id."""
    if len(s) <= 24 and not s.startswith("#") and all(c in _OKCHARS for c in s):
        return s
    return "#" + hashlib.sha1(s.encode("utf-8", "surrogatepass")).hexdigest()[:12]


def kid(s: str) -> str:
    """Keys (dict keys, JSON object keys, dataclass field names): verbatim up to 48 characters."""
    if len(s) <= 48 and not s.startswith("#") and all(c in _OKCHARS for c in s):
        return s
    return sid(s)


def bid(b: bytes) -> str:
    return b.hex() if len(b) <= 8 else "#" + hashlib.sha1(b).hexdigest()[:12]


# ------------------------------------------------------------------ projection
class Proj:
    """Projects Python / JSON values; collects the base64 facts (enc/dec tables) the spec looks up."""

    def __init__(self, keep: int = 0):
        self.keep = keep          # 0 = keep every list element; k = first k + last k of longer lists
        self.enc: dict[str, str] = {}
        self.dec: dict[str, str] = {}
        self.classes: set[str] = set()
        self.strs: set[str] = set()
        self.nodes = 0

    def _cut(self, xs):
        xs = list(xs)
        k = self.keep
        if k and len(xs) > 2 * k + 1:
            return xs[:k] + xs[-k:]
        return xs

    def _b(self, b: bytes) -> str:
        i = bid(b)
        e = sid(base64.b64encode(b).decode("utf-8"))
        self.enc[i] = e
        self.dec[e] = i
        return i

    def _dec_fact(self, s):
        if isinstance(s, str):
            try:
                self.dec.setdefault(sid(s), bid(base64.b64decode(s.encode("utf-8"))))
            except (binascii.Error, ValueError):
                self.dec.setdefault(sid(s), "ERR")

    def py(self, x):
        self.nodes += 1
        if x is None:
            return {"t": "null"}
        if isinstance(x, bool):
            return {"t": "bool", "tf": x}
        if isinstance(x, int):
            return {"t": "int", "n": str(x)}
        if isinstance(x, float):
            return {"t": "num", "s": repr(x) if math.isfinite(x) else ("nan" if x != x else "inf")}
        if isinstance(x, str):
            self.strs.add(x) if len(x) < 40 else None
            return {"t": "str", "s": sid(x)}
        if isinstance(x, io.BytesIO):
            n, at = len(x.getvalue()), x.tell()
            return {"t": "bytesio", "b": self._b(x.getvalue()),
                    "pos": "start" if at == 0 else ("end" if at >= n else "mid")}
        if isinstance(x, (bytes, bytearray)):
            return {"t": "bytes", "b": self._b(bytes(x))}
        if dataclasses.is_dataclass(x) and not isinstance(x, type):
            self.classes.add(type(x).__name__)
            return {"t": "dc", "c": type(x).__name__,
                    "f": [[kid(f.name), self.py(getattr(x, f.name))] for f in dataclasses.fields(x)]}
        if isinstance(x, dict):
            for mk in ("_bytes", "_bytesio"):
                if mk in x:
                    self._dec_fact(x[mk])
            return {"t": "dict", "kv": [[kid(str(k)), self.py(v)] for k, v in x.items()]}
        if isinstance(x, (list, tuple, set)):
            tag = "list" if isinstance(x, list) else ("tuple" if isinstance(x, tuple) else "set")
            return {"t": tag, "xs": [self.py(i) for i in self._cut(x)]}
        return {"t": "py", "k": type(x).__name__}

    def js(self, j):
        self.nodes += 1
        if j is None:
            return {"t": "null"}
        if isinstance(j, bool):
            return {"t": "bool", "tf": j}
        if isinstance(j, int):
            return {"t": "int", "n": str(j)}
        if isinstance(j, float):
            return {"t": "num", "s": repr(j) if math.isfinite(j) else ("nan" if j != j else "inf")}
        if isinstance(j, str):
            return {"t": "str", "s": sid(j)}
        if isinstance(j, list):
            return {"t": "arr", "xs": [self.js(i) for i in self._cut(j)]}
        if isinstance(j, dict):
            return {"t": "obj", "kv": [[kid(k), self.js(v)] for k, v in j.items()]}
        return {"t": "py", "k": type(j).__name__}


def has_marker_dict(v) -> bool:
    """Syntactic superset of the finding's domain (the spec decides the domain itself)."""
    t = v["t"]
    if t == "dict":
        return any(k in MARKERS for k, _ in v["kv"]) or any(has_marker_dict(x) for _, x in v["kv"])
    if t == "dc":
        return any(has_marker_dict(x) for _, x in v["f"])
    if t in ("list", "tuple", "set"):
        return any(has_marker_dict(x) for x in v["xs"])
    return False


# ------------------------------------------------------------------ schema export
def _registry():
    from sharepoint2text.parsing.extractors import serialization
    for n in ("_get_type_registry", "_serialize_for_json", "_deserialize_value", "_deserialize_dataclass",
              "serialize_extraction", "deserialize_extraction"):
        if not hasattr(serialization, n):
            raise SystemExit(f"binding vanished: serialization.{n}")
    return dict(serialization._get_type_registry())


def hint_of(tp, reg) -> dict:
    """The shape of a resolved type hint, exactly as far as _deserialize_value tells hints apart
    (k), plus how to generate a well-typed value where the decoder does not care (g)."""
    if tp is typing.Any:
        return {"k": "any"}
    origin = typing.get_origin(tp)
    args = typing.get_args(tp)
    if origin is typing.Union:
        non_none = [a for a in args if a is not type(None)]
        if len(non_none) == 1 and len(args) == 2:
            return {"k": "opt", "of": hint_of(non_none[0], reg)}
        return {"k": "other", "g": {"k": "dflt"}}
    if origin is types.UnionType:                      # PEP 604: not unwrapped by _unwrap_optional
        non_none = [a for a in args if a is not type(None)]
        if len(non_none) == 1 and len(args) == 2:
            return {"k": "other", "g": {"k": "opt", "of": hint_of(non_none[0], reg)}}
        return {"k": "other", "g": {"k": "dflt"}}
    if origin is list:
        return {"k": "list", "of": hint_of(args[0], reg) if args else {"k": "any"}}
    if origin is dict:
        return {"k": "dict", "of": hint_of(args[1], reg) if len(args) > 1 else {"k": "any"}}
    if tp is dict:        # bare `dict`: get_origin is None, the decoder treats it like a primitive -- but it holds a dict
        return {"k": "other", "g": {"k": "dict", "of": {"k": "any"}}}
    if tp in (list, tuple, set):
        return {"k": "other", "g": {"k": "list", "of": {"k": "any"}}}
    if tp is bytes or tp is bytearray:
        return {"k": "bytes"}
    if tp is io.BytesIO:
        return {"k": "bytesio"}
    if isinstance(tp, type) and tp.__name__ in reg:
        return {"k": "dc", "c": tp.__name__}
    if tp in (str, int, bool, float):
        return {"k": "prim", "p": tp.__name__}
    if isinstance(tp, type):                           # Protocol / unregistered class: a registered implementer
        impl = sorted(n for n, c in reg.items() if c is not tp and _safe_issubclass(c, tp) and _instantiable(c))
        if impl:
            return {"k": "other", "g": {"k": "dc", "c": impl[0]}}
    return {"k": "other", "g": {"k": "dflt"}}


def _safe_issubclass(c, tp):
    try:
        return tp in c.__mro__
    except Exception:
        return False


def _instantiable(cls) -> bool:
    return not getattr(cls, "_is_protocol", False)


def export_schema() -> dict:
    reg = _registry()
    out = {}
    for name in sorted(reg):
        cls = reg[name]
        try:
            hints = typing.get_type_hints(cls)
        except Exception as e:  # the library's own _get_field_types would fail the same way
            out[name] = {"error": repr(e), "fields": [], "instantiable": False}
            continue
        fs = []
        p = Proj()
        for f in dataclasses.fields(cls):
            if f.default is not dataclasses.MISSING:
                d = p.py(f.default)
            elif f.default_factory is not dataclasses.MISSING:
                try:
                    d = p.py(f.default_factory())
                except Exception:
                    d = {"t": "required"}
            else:
                d = {"t": "required"}
            fs.append([kid(f.name), hint_of(hints.get(f.name, typing.Any), reg), d, bool(f.init)])
        out[name] = {"fields": fs, "instantiable": _instantiable(cls),
                     "to_json": callable(getattr(cls, "to_json", None)),
                     "content": all(callable(getattr(cls, m, None)) for m in
                                    ("iterate_units", "iterate_images", "iterate_tables", "get_full_text")),
                     "enc": p.enc, "dec": p.dec}
    return out


def discover_markers():
    """The marker keys the running serialiser uses, found by serialising probes (not read from its source)."""
    from sharepoint2text.parsing.extractors.serialization import serialize_extraction
    from sharepoint2text.parsing.extractors import data_types as dt
    found = set(serialize_extraction({"k": b"x"})["k"].keys()) | set(serialize_extraction({"k": io.BytesIO(b"x")})["k"].keys())
    probe = dt.TableDim(rows=1, columns=2)
    found |= set(serialize_extraction(probe).keys()) - {f.name for f in dataclasses.fields(probe)}
    return sorted(found)


def has_post_init(cls) -> bool:
    return any("__post_init__" in vars(c) for c in cls.__mro__ if c is not object)


# spellings of a string leaf that a normalising constructor does not leave alone, and whose image is
# not a fixed point of sloppy normalisers (line-end mixes, several kinds of outer white space, NUL, BOM)
NON_FIXED_POINT_STRINGS = ["a\r\r\nb\r\r\n", "\r\n\na\r\n\n", " \t a \t ", "\x0b\x0ca\x1c\x1d", "\u00a0a\u2028\u3000",
                           "\x00a\x00", "\ufeffa\ufeff", "a\r", "\ra", "a \r\n \r\n", "  \r\r\n  a  \n\r  "]


# ------------------------------------------------------------------ concretiser
def hkey(h) -> str:
    return json.dumps(h, sort_keys=True)


def has_dcref(t) -> bool:
    if t["t"] == "dcref":
        return True
    if t["t"] == "list":
        return any(has_dcref(x) for x in t["xs"])
    if t["t"] == "dict":
        return any(has_dcref(x) for _, x in t["kv"])
    return False


class Builder:
    def __init__(self, schema, templates, seed, any_classes):
        self.reg = _registry()
        self.schema = schema
        self.tpl = templates            # hkey(gen hint) -> [template, ...] (sorted)
        self.tpl_flat = {k: [t for t in v if not has_dcref(t)] for k, v in templates.items()}
        self.seed = seed
        self.any_classes = any_classes
        self._order = {}

    def order(self, cname, fname, n):
        """Seeded permutation of the template indices of one field (so every template is used)."""
        key = (cname, fname, n)
        if key not in self._order:
            idx = list(range(n))
            random.Random(f"{self.seed}:{cname}:{fname}").shuffle(idx)
            self._order[key] = idx
        return self._order[key]

    def value(self, t, h, depth, salt):
        k = h["k"]
        if k == "other":
            return self.value(t, h["g"], depth, salt)
        if k == "opt" and t["t"] != "null":
            return self.value(t, h["of"], depth, salt)
        tt = t["t"]
        if tt == "null":
            return None
        if tt == "bool":
            return t["tf"]
        if tt == "int":
            return int(t["n"])
        if tt == "num":
            return float(t["s"])
        if tt == "str":
            return t["s"]
        if tt == "bytes":
            return bytes.fromhex(t["b"])
        if tt == "bytesio":
            buf = io.BytesIO(bytes.fromhex(t["b"]))
            return seek_to(buf, t.get("pos", "start"))
        if tt == "list":
            of = h["of"] if k == "list" else {"k": "any"}
            return [self.value(x, of, depth, salt + i + 1) for i, x in enumerate(t["xs"])]
        if tt == "dict":
            of = h["of"] if k == "dict" else {"k": "any"}
            return {kk: self.value(x, of, depth, salt + i + 1) for i, (kk, x) in enumerate(t["kv"])}
        if tt == "dcref":
            cname = h["c"] if k == "dc" else self.any_classes[(t["i"] + salt) % len(self.any_classes)]
            if not self.schema[cname]["instantiable"]:
                impl = sorted(n for n, c in self.reg.items()
                              if self.schema[n]["instantiable"] and self.reg[cname] in c.__mro__[1:])
                cname = impl[0] if impl else self.any_classes[0]
            return self.instance(cname, t["i"] * 31 + salt, depth + 1)
        raise ValueError(f"unknown template {t}")

    def instance(self, cname, i, depth):
        """Instance number i of a registered class: field j gets template order[j][i mod n_j]."""
        kwargs = {}
        for j, (fname, h, d, init) in enumerate(self.schema[cname]["fields"]):
            if not init:
                continue
            g = h["g"] if h["k"] == "other" else h
            if g["k"] == "dflt":
                if d["t"] == "required":
                    kwargs[fname] = None
                continue
            ts = (self.tpl if depth < 2 else self.tpl_flat)[hkey(g)]
            if not ts:
                if d["t"] == "required":       # only dataclass-valued templates exist: stop the recursion
                    kwargs[fname] = self.value(self.tpl[hkey(g)][0], h, depth, j) if depth < 4 else None
                continue
            n = len(ts)
            t = ts[self.order(cname, fname, n)[i % n]] if depth == 0 else ts[(i + 7 * j) % n]
            kwargs[fname] = self.value(t, h, depth, i + j)
        return self.reg[cname](**kwargs)

    def post_init_instances(self, cname):
        """For a class whose constructor normalises fields: instances whose str-typed fields hold, in turn,
        each spelling of NON_FIXED_POINT_STRINGS (the other fields as in instance 0)."""
        cls = self.reg[cname]
        if not has_post_init(cls):
            return
        base = self.instance(cname, 0, 0)
        strf = [f for f, h, d, init in self.schema[cname]["fields"]
                if init and (h["g"] if h["k"] == "other" else h) in ({"k": "prim", "p": "str"},
                                                                      {"k": "opt", "of": {"k": "prim", "p": "str"}})]
        for s_ in NON_FIXED_POINT_STRINGS:
            kw = {f.name: getattr(base, f.name) for f in dataclasses.fields(base) if f.init}
            kw.update({f: s_ for f in strf})
            yield s_, cls(**kw)

    def count(self, cname) -> int:
        n = 1
        for fname, h, d, init in self.schema[cname]["fields"]:
            g = h["g"] if h["k"] == "other" else h
            if init and g["k"] != "dflt":
                n = max(n, len(self.tpl[hkey(g)]))
        return n


# ------------------------------------------------------------------ stream positions
def seek_to(buf: io.BytesIO, where: str) -> io.BytesIO:
    n = len(buf.getvalue())
    buf.seek({"start": 0, "mid": n // 2, "end": n}[where])
    return buf


def streams(x, seen=None):
    """Every BytesIO reachable from x through dataclass fields, lists, tuples, sets and dicts."""
    seen = set() if seen is None else seen
    if id(x) in seen:
        return
    if isinstance(x, io.BytesIO):
        seen.add(id(x))
        yield x
    elif dataclasses.is_dataclass(x) and not isinstance(x, type):
        seen.add(id(x))
        for f in dataclasses.fields(x):
            yield from streams(getattr(x, f.name), seen)
    elif isinstance(x, dict):
        for v in x.values():
            yield from streams(v, seen)
    elif isinstance(x, (list, tuple, set)):
        for v in x:
            yield from streams(v, seen)


def set_positions(x, where: str) -> int:
    """Leave every reachable non-empty stream at start / mid / end, as a caller who looked at the
    payload (img.get_bytes().read(), att.data.read(n)) would; returns the number of such streams."""
    n = 0
    for b in streams(x):
        if len(b.getvalue()) > 1:
            seek_to(b, where)
            n += 1
    return n


# ------------------------------------------------------------------ execution
def _cmp_methods(x, y):
    """Same observable content through the common interface (compared, not predicted)."""
    if not all(callable(getattr(x, m, None)) for m in ("iterate_units", "iterate_images", "iterate_tables",
                                                        "get_full_text")):
        return "n/a"

    def addr(s):
        # hand-built instances may hold objects in Any-typed cells whose str()/repr() shows a memory
        # address (<_io.BytesIO object at 0x..>): identity, not content
        return _ADDR.sub("0x", s)

    def obs(o):
        return {
            "text": addr(o.get_full_text()),
            "units": [addr(json.dumps(u.to_json(), sort_keys=True)) for u in o.iterate_units()],
            "tables": [json.dumps(Proj().py(t.get_table()), sort_keys=True).replace('"pos": "mid"', '"pos": "start"')
                       .replace('"pos": "end"', '"pos": "start"') for t in o.iterate_tables()],
            "bytes": [hashlib.sha1(im.get_bytes().getvalue()).hexdigest() for im in o.iterate_images()],
        }
    try:
        a = obs(x)
    except Exception:
        return "n/a"          # the accessors do not work on this (hand-built) object to begin with
    try:
        b = obs(y)
    except Exception as e:
        return "no:accessor raised " + type(e).__name__
    for k in a:
        if a[k] != b[k]:
            return "no:" + k
    return "yes"


def execute(x, keep=0):
    """One RoundTrip event for the live object x."""
    from sharepoint2text.parsing.extractors.data_types import ExtractionInterface
    from sharepoint2text.parsing.extractors.serialization import serialize_extraction
    p = Proj(keep)
    ev = {"a": "RoundTrip", "cls": type(x).__name__, "v": p.py(x), "same": "n/a"}
    err = {"t": "error"}
    try:
        payload = x.to_json() if callable(getattr(x, "to_json", None)) else serialize_extraction(x)
        text = json.dumps(payload)
        j = json.loads(text)
        ev["j"] = p.js(j)
    except Exception as e:
        ev["j"], ev["out"], ev["nb"] = err, err, err
        ev["exc"] = f"json.dumps(to_json()): {type(e).__name__}: {e}"[:200]
        j = None
    if j is not None:
        # the binary-excluded encoding is taken BEFORE any accessor of x runs (some accessors write into
        # the object -- that is C06's business, not this property's)
        try:
            ev["nb"] = p.js(json.loads(json.dumps(serialize_extraction(x, include_binary=False))))
        except Exception as e:
            ev["nb"] = err
            ev["exc"] = f"serialize_extraction(include_binary=False): {type(e).__name__}: {e}"[:200]
        try:
            y = ExtractionInterface.from_json(j)
            ev["out"] = p.py(y)
            if type(y) is type(x):
                full = json.dumps(y.to_json() if callable(getattr(y, "to_json", None)) else serialize_extraction(y),
                                  sort_keys=True) == json.dumps(payload, sort_keys=True)
                ev["same"] = _cmp_methods(x, y) if full else "no:to_json"
        except Exception as e:
            ev["out"] = err
            ev["exc"] = f"from_json: {type(e).__name__}: {e}"[:200]
    ev["_enc"], ev["_dec"] = p.enc, p.dec
    ev["_classes"] = sorted(p.classes | {s for s in p.strs if s in _registry()})
    ev["_nodes"] = p.nodes
    return ev


# ------------------------------------------------------------------ hostile inputs (own minimal writers)
def _pdf_lit(raw: bytes) -> bytes:
    out = bytearray(b"(")
    for b in raw:
        if b in b"()\\":
            out += b"\\" + bytes([b])
        elif b < 32 or b > 126:
            out += b"\\%03o" % b
        else:
            out.append(b)
    return bytes(out + b")")


def hostile_pdf(alt: bytes, title: bytes, key: bytes = b"/Alt") -> bytes:
    """One-page PDF with one image XObject (not in marked content) whose /Alt (or /Title, /Caption, /TU) is
    the given raw PDF string, and an Info dictionary whose /Title /Author /Subject carry `title`."""
    pixels = bytes([255, 0, 0] * 4)
    content = b"q 20 0 0 20 72 700 cm /Im0 Do Q\nBT /F1 12 Tf 72 650 Td (hello figure) Tj ET\n"
    objs = [b"<< /Type /Catalog /Pages 2 0 R >>",
            b"<< /Type /Pages /Kids [3 0 R] /Count 1 >>",
            b"<< /Type /Page /Parent 2 0 R /MediaBox [0 0 612 792] /Contents 4 0 R "
            b"/Resources << /Font << /F1 5 0 R >> /XObject << /Im0 6 0 R >> >> >>",
            b"<< /Length %d >>\nstream\n" % len(content) + content + b"endstream",
            b"<< /Type /Font /Subtype /Type1 /BaseFont /Helvetica /Encoding /WinAnsiEncoding >>",
            b"<< /Type /XObject /Subtype /Image /Width 2 /Height 2 /ColorSpace /DeviceRGB /BitsPerComponent 8 "
            + key + b" " + _pdf_lit(alt) + b" /Length %d >>\nstream\n" % len(pixels) + pixels + b"\nendstream",
            b"<< /Title " + _pdf_lit(title) + b" /Author " + _pdf_lit(title) + b" /Subject " + _pdf_lit(title)
            + b" /Keywords " + _pdf_lit(title) + b" >>"]
    out = bytearray(b"%PDF-1.4\n%\xe2\xe3\xcf\xd3\n")
    offs = []
    for i, body in enumerate(objs, start=1):
        offs.append(len(out))
        out += b"%d 0 obj\n" % i + body + b"\nendobj\n"
    xref = len(out)
    out += b"xref\n0 %d\n0000000000 65535 f \n" % (len(objs) + 1)
    for o in offs:
        out += b"%010d 00000 n \n" % o
    out += b"trailer\n<< /Size %d /Root 1 0 R /Info 7 0 R >>\nstartxref\n%d\n%%%%EOF\n" % (len(objs) + 1, xref)
    return bytes(out)


HOSTILE_PDF_STRINGS = {
    "ascii": b"A plain figure",
    "del-7f": b"Fig \x7f one",                      # bytes PDFDocEncoding has no character for
    "c1-9f": b"Fig \x9f two",
    "mixed-7f-9f-ad": b"\x7f\x9f\xad",
    "latin1": b"Abb. \xe4\xf6\xfc \xdf",
    "utf16-bom": b"\xfe\xff" + "Bild ä 漢".encode("utf-16-be"),
    "utf16-lone-surrogate": b"\xfe\xff" + "Fig ".encode("utf-16-be") + b"\xd8\x3d" + " x".encode("utf-16-be"),
    "utf8-bom": b"\xef\xbb\xbfBild \xc3\xa4",
    "odd-utf16": b"\xfe\xff\x00A\x00",              # BOM but an odd number of bytes
}


def hostile_mail(variant: str, n: int = 0) -> bytes:
    """RFC 822 message in which EVERY header the result carries holds non-ASCII: as raw 8-bit UTF-8 bytes
    (RFC 6532 style), as raw Latin-1 bytes, or as RFC 2047 encoded words."""
    def w(text):
        if variant == "raw-utf8":
            return text.encode("utf-8")
        if variant == "raw-latin1":
            return text.encode("latin-1", "replace")
        if variant == "rfc2047":
            out = []
            for tok in text.split(" "):
                if tok.isascii():
                    out.append(tok.encode())
                else:
                    out.append(b"=?utf-8?B?" + base64.b64encode(tok.encode("utf-8")) + b"?=")
            return b" ".join(out)
        return text.encode("ascii", "replace")
    lines = [
        b"From: " + w("Jürgen Müller") + b" <juergen@" + w("müller") + b".example>",
        b"To: " + w("Zoë Café") + b" <zoe@example.org>, " + w("René") + b" <rene@example.org>",
        b"Cc: " + w("Åsa Øst") + b" <asa@example.org>",
        b"Bcc: " + w("Bébé") + b" <bebe@example.org>",
        b"Reply-To: " + w("Antwort Müller") + b" <antwort@" + w("müller") + b".example>",
        b"Subject: " + w("Grüße aus Köln à bientôt") + b" %d" % n,
        b"Date: Mon, 01 Jan 2024 10:0%d:00 +0000 (" % (n % 10) + w("Mitteleuropäische Zeit") + b")",
        b"Message-ID: <nachricht-%d@" % n + w("müller") + b".example>",
        b"In-Reply-To: <antwort-%d@" % n + w("müller") + b".example>",
        b"References: <erste-%d@" % n + w("müller") + b".example> <zweite@" + w("köln") + b".example>",
        b"MIME-Version: 1.0",
        b"Content-Type: text/plain; charset=utf-8",
        b"Content-Transfer-Encoding: 8bit",
        b"",
        "Körper der Nachricht – body 漢字".encode("utf-8"),
        b"",
    ]
    return b"\r\n".join(lines)


def hostile_mbox(variants) -> bytes:
    out = b""
    for n, var in enumerate(variants):
        out += b"From sender@example.org Mon Jan  1 10:00:00 2024\n" + hostile_mail(var, n).replace(b"\r\n", b"\n") + b"\n"
    return out


def payload_sizes(thorough: bool):
    """Payload lengths around every plausible chunk boundary, and every residue mod 3."""
    mib = 1024 * 1024
    sizes = {0, 1, 2, 3, 4, 5, 57, 58, 59, 3 * 1024, 64 * 1024 - 1, 64 * 1024, 64 * 1024 + 1}
    for b in ((1, 4) if not thorough else (1, 4, 8, 16)):
        sizes |= {b * mib + d for d in (-2, -1, 0, 1, 2)}
    sizes |= {8 * mib + 1, 16 * mib + 2} if not thorough else {32 * mib + 1, 3 * 5 * mib}
    return sorted(sizes)


def payload_instances(sizes, seed):
    """Dataclass instances built directly (no documents): one bytes-typed and one BytesIO-typed payload per size."""
    from sharepoint2text.parsing.extractors import data_types as dt
    for n in sizes:
        data = random.Random(f"{seed}:{n}").randbytes(n)
        yield f"PdfImage.data = {n} bytes", dt.PdfImage(index=1, name="big", data=data, format="raw")
        yield f"DocxImage.data = BytesIO of {n} bytes", dt.DocxImage(rel_id="r1", filename="big.bin", data=io.BytesIO(data),
                                                                      size_bytes=n)


# ------------------------------------------------------------------ containers with damaged picture members
_PIC_DIRS = ("Pictures/", "word/media/", "ppt/media/", "xl/media/", "OEBPS/images/", "media/")


def damage_pictures(pkg: bytes, kind: str):
    """Rewrite a ZIP container so that its picture members cannot be read: kind = "crc" (stored data with
    a flipped byte: BadZipFile on read), "method" (compression method 98, unsupported: NotImplementedError),
    "missing" (member removed, relationships / manifest still name it), "truncated" (file cut inside the
    member data is not expressible without breaking the central directory: the member is stored with a
    declared size larger than its data instead -> error on read).  Returns (bytes, number of pictures)."""
    import struct
    import zipfile
    src = zipfile.ZipFile(io.BytesIO(pkg))
    out = io.BytesIO()
    pics = []
    with zipfile.ZipFile(out, "w") as z:
        for info in src.infolist():
            data = src.read(info.filename)
            is_pic = (any(info.filename.startswith(d) or ("/" + d) in info.filename for d in _PIC_DIRS)
                      and not info.is_dir() and len(data) > 8)
            if is_pic and kind == "missing":
                pics.append(info.filename)
                continue
            ni = zipfile.ZipInfo(info.filename, date_time=info.date_time)
            ni.compress_type = zipfile.ZIP_STORED if (is_pic or info.filename == "mimetype") else zipfile.ZIP_DEFLATED
            z.writestr(ni, data)
            if is_pic:
                pics.append(info.filename)
    raw = bytearray(out.getvalue())
    if kind in ("crc", "method"):
        z = zipfile.ZipFile(io.BytesIO(bytes(raw)))
        for info in z.infolist():
            if info.filename not in pics:
                continue
            off = info.header_offset
            nlen, elen = struct.unpack("<HH", raw[off + 26:off + 30])
            if kind == "crc":
                raw[off + 30 + nlen + elen + 4] ^= 0xFF
            else:
                raw[off + 8:off + 10] = struct.pack("<H", 98)
        if kind == "method":      # the central directory names the method too
            pos = 0
            while True:
                pos = raw.find(b"PK\x01\x02", pos)
                if pos < 0:
                    break
                nlen = struct.unpack("<H", raw[pos + 28:pos + 30])[0]
                name = bytes(raw[pos + 46:pos + 46 + nlen]).decode("utf-8", "replace")
                if name in pics:
                    raw[pos + 10:pos + 12] = struct.pack("<H", 98)
                pos += 46
    return bytes(raw), len(pics)
