"""Dev helper: group replay files of a property by (format, constructs)."""
import collections, glob, json, sys
from .docmodel import constructs
prop = sys.argv[1]
c = collections.Counter(); ex = {}
for f in glob.glob(f'/verif/replays/{prop}/*.json'):
    v = json.load(open(f))
    case = v.get('case') or {}
    if 'doc' not in case:
        c[('other', v['what'][:100])] += 1
        continue
    fmt = case['fmt']
    cs = set()
    for u in case['doc']['units']:
        cs |= constructs({"kind": "flow", "blocks": u['blocks']})
    key = (fmt, tuple(sorted(cs - {"p", "r"})))
    c[key] += 1
    ex.setdefault(key, v['what'][:int(sys.argv[2]) if len(sys.argv) > 2 else 200])
byfmt = collections.Counter()
for k, n in c.items():
    byfmt[k[0]] += n
print(dict(byfmt))
for k, n in sorted(c.items(), key=lambda x: (x[0][0], -x[1]))[:int(sys.argv[3]) if len(sys.argv) > 3 else 25]:
    print(n, k, ex.get(k, ''))
