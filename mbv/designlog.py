"""Render the generated parts of DESIGN.md section 11 (fixes, open findings, seeded changes) between markers."""
import json
import re
from pathlib import Path

from . import VERIF

BEGIN, END = "<!-- BEGIN GENERATED LOG -->", "<!-- END GENERATED LOG -->"


def render() -> str:
    out = []
    kf = json.loads((VERIF / "known_findings.json").read_text())["findings"]
    frag = []
    for f in sorted((VERIF / "findings").glob("*.json")):
        frag += json.loads(f.read_text()).get("findings", [])
    fixed = [e for e in kf if e.get("status") == "fixed"]
    opened = [e for e in kf + frag if e.get("status") == "open"]
    seen = set()
    opened = [e for e in opened if not (e["id"] in seen or seen.add(e["id"]))]
    out.append("### 11.4 Repairs committed to /repo (\"fix:\" commits)\n")
    out.append("Each is one minimal unguarded commit; the repository's suite (236 pass, the same 3 always fail) was re-run "
               "after each. The check of the named property reports the old behaviour as a VIOLATION again.\n")
    out.append("| property | commit | what failed |\n|---|---|---|")
    for e in fixed:
        out.append(f"| {e['property']} | {e['commit']} | {e['witness']} |")
    out.append("\n### 11.5 Open findings (genuine defects recorded, not repaired)\n")
    out.append("Recorded because the repair changes documented behaviour, a golden text of the repository's tests, or is not "
               "small. Each entry names the spec deviation that confines the relaxation to its domain; a different violation "
               "of the same property is still reported.\n")
    out.append("| id | property | deviation | domain | witness | where |\n|---|---|---|---|---|---|")
    for e in sorted(opened, key=lambda x: x["id"]):
        out.append(f"| {e['id']} | {e['property']} | `{e.get('deviation','')}` | {e.get('domain','')} | {e.get('witness','')[:220]} "
                   f"| {e.get('where','')[:160]} |")
    out.append("\n### 11.6 Seeded changes (written by independent sub-agents) and which checks catch them\n")
    out.append("Every change was confirmed in a scratch worktree: the demonstration passes on the unchanged tree and fails with "
               "the change, the repository's suite is unchanged (236 pass / 3 fail). `first` is the result of the check as it "
               "stood when the change arrived; `strengthened` says what was added when it was missed.\n")
    out.append("| id | property | needs | first | final check result | strengthened |\n|---|---|---|---|---|---|")
    for d in sorted((VERIF / "seeded").glob("*/meta.json")):
        m = json.loads(d.read_text())
        out.append(f"| {m['id']} | {m['breaks_property']} | {m['needs_to_manifest']} | {m['first_result']} | "
                   f"{m['final_result']} | {m['strengthened']} |")
    out.append("\n### 11.7 As-built summary per property (from mbv/props/cNN.meta.json; details and mutation tables in cNN.selftest.md)\n")
    props = [json.loads(l) for l in (VERIF / "properties.jsonl").read_text().splitlines() if l.strip()]
    for pr in props:
        pid = pr["id"]
        mf = VERIF / "mbv" / "props" / f"{pid.lower()}.meta.json"
        if mf.exists():
            m = json.loads(mf.read_text())
        else:
            from .registry import CHECKS
            m = {"text": CHECKS.get(pid, {}).get("text", "(not built)"), "note": CHECKS.get(pid, {}).get("note", ""),
                 "technique": CHECKS.get(pid, {}).get("technique", "")}
        out.append(f"**{pid} - {pr['title']}.** {m.get('text', '')}\n\n*Trusted base / limits:* {m.get('note', '')}\n")
    return "\n".join(out) + "\n"


def main():
    p = VERIF / "DESIGN.md"
    s = p.read_text()
    block = BEGIN + "\n" + render() + END
    if BEGIN in s:
        s = re.sub(re.escape(BEGIN) + r".*?" + re.escape(END), lambda _: block, s, flags=re.S)
    else:
        s = s.rstrip("\n") + "\n\n" + block + "\n"
    p.write_text(s)
    print("DESIGN.md log rendered")


if __name__ == "__main__":
    main()
