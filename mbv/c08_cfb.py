"""Minimal OLE2 / Compound File Binary (MS-CFB, version 3, 512-byte sectors) WRITER for C08.

    write_cfb({"Workbook": b"...", "\\x06DataSpaces": {"Version": b"..."}, ...}) -> bytes
    read_tree(data) -> the same nested dict, read back with olefile (used to rewrite real fixtures)

Streams below 4096 bytes go to the mini stream (64-byte mini sectors) as the format demands; the
directory of every storage is a balanced binary search tree in MS-CFB order (shorter name first,
then upper-cased code-unit comparison) with the incomplete last level coloured red, so it is also a
valid red-black tree.  No DIFAT sectors: at most 109 FAT sectors (about 7 MB), ample here.
"""
from __future__ import annotations

import io
import struct

SECT = 512
MINI = 64
CUTOFF = 4096
FREESECT, ENDOFCHAIN, FATSECT = 0xFFFFFFFF, 0xFFFFFFFE, 0xFFFFFFFD
NOSTREAM = 0xFFFFFFFF


def _key(name: str):
    u = name.upper().encode("utf-16-le")
    return (len(u), [int.from_bytes(u[i:i + 2], "little") for i in range(0, len(u), 2)])


class _Entry:
    def __init__(self, name, kind, data=b""):
        self.name, self.kind, self.data = name, kind, data      # kind: 5 root, 1 storage, 2 stream
        self.left = self.right = self.child = NOSTREAM
        self.color = 1                                            # black
        self.start, self.size = ENDOFCHAIN, 0
        self.kids = []


def _build(entries, node: _Entry, tree: dict):
    kids = []
    for name in sorted(tree, key=_key):
        v = tree[name]
        if len(name.encode("utf-16-le")) > 62:
            raise ValueError("CFB name too long: %r" % name)
        e = _Entry(name, 1 if isinstance(v, dict) else 2, b"" if isinstance(v, dict) else bytes(v))
        entries.append(e)
        e.sid = len(entries) - 1
        kids.append(e)
    node.kids = kids

    def bst(lo, hi, depth, maxdepth):
        if lo >= hi:
            return NOSTREAM
        mid = (lo + hi) // 2
        e = kids[mid]
        e.left = bst(lo, mid, depth + 1, maxdepth)
        e.right = bst(mid + 1, hi, depth + 1, maxdepth)
        e.color = 0 if (depth == maxdepth and not _perfect(len(kids))) else 1
        return e.sid
    n = len(kids)
    maxdepth = n.bit_length() - 1 if n else 0
    node.child = bst(0, n, 0, maxdepth)
    for e, name in zip(kids, sorted(tree, key=_key)):
        if e.kind == 1:
            _build(entries, e, tree[name])


def _perfect(n):
    return (n + 1) & n == 0


def write_cfb(tree: dict, clsid: bytes = b"\0" * 16) -> bytes:
    root = _Entry("Root Entry", 5)
    root.sid = 0
    entries = [root]
    _build(entries, root, tree)

    sectors: list[bytes] = []          # regular sectors, in file order (after the header)
    fat: list[int] = []

    def alloc_chain(data: bytes) -> int:
        if not data:
            return ENDOFCHAIN
        n = (len(data) + SECT - 1) // SECT
        first = len(sectors)
        for i in range(n):
            sectors.append(data[i * SECT:(i + 1) * SECT].ljust(SECT, b"\0"))
            fat.append(first + i + 1 if i + 1 < n else ENDOFCHAIN)
        return first

    # mini stream
    mini = bytearray()
    minifat: list[int] = []
    for e in entries[1:]:
        if e.kind != 2:
            continue
        e.size = len(e.data)
        if e.size == 0:
            e.start = ENDOFCHAIN
        elif e.size < CUTOFF:
            n = (e.size + MINI - 1) // MINI
            first = len(minifat)
            mini += e.data.ljust(n * MINI, b"\0")
            minifat.extend([first + i + 1 for i in range(n - 1)] + [ENDOFCHAIN])
            e.start = first
        else:
            e.start = alloc_chain(e.data)
    root.size = len(mini)
    root.start = alloc_chain(bytes(mini))
    minifat_bytes = b"".join(struct.pack("<I", x) for x in minifat)
    if len(minifat_bytes) % SECT:
        minifat_bytes += struct.pack("<I", FREESECT) * ((SECT - len(minifat_bytes) % SECT) // 4)
    minifat_start = alloc_chain(minifat_bytes)
    n_minifat = len(minifat_bytes) // SECT

    # directory
    while len(entries) % 4:
        entries.append(None)
    dir_bytes = bytearray()
    for e in entries:
        if e is None:
            dir_bytes += b"\0" * 64 + struct.pack("<HBB", 0, 0, 0) + struct.pack("<III", NOSTREAM, NOSTREAM, NOSTREAM) \
                + b"\0" * 16 + b"\0" * 4 + b"\0" * 16 + struct.pack("<IQ", 0, 0)
            continue
        nm = e.name.encode("utf-16-le") + b"\0\0"
        dir_bytes += nm.ljust(64, b"\0") + struct.pack("<HBB", len(nm), e.kind, e.color)
        dir_bytes += struct.pack("<III", e.left, e.right, e.child)
        dir_bytes += (clsid if e.kind == 5 else b"\0" * 16) + b"\0" * 4 + b"\0" * 16
        dir_bytes += struct.pack("<IQ", e.start if e.kind != 1 else 0, e.size if e.kind != 1 else 0)
    dir_start = alloc_chain(bytes(dir_bytes))

    # FAT sectors: solve for their number (they describe themselves)
    n_data = len(sectors)
    n_fat = 1
    while n_fat * (SECT // 4) < n_data + n_fat:
        n_fat += 1
    if n_fat > 109:
        raise ValueError("c08_cfb: file too large for a header-only DIFAT")
    fat_first = n_data
    fat.extend([FATSECT] * n_fat)
    fat.extend([FREESECT] * (n_fat * (SECT // 4) - len(fat)))
    fat_bytes = b"".join(struct.pack("<I", x) for x in fat)
    for i in range(n_fat):
        sectors.append(fat_bytes[i * SECT:(i + 1) * SECT])

    hdr = bytearray()
    hdr += b"\xD0\xCF\x11\xE0\xA1\xB1\x1A\xE1" + b"\0" * 16
    hdr += struct.pack("<HHHHH", 0x003E, 0x0003, 0xFFFE, 9, 6) + b"\0" * 6
    hdr += struct.pack("<III", 0, n_fat, dir_start)
    hdr += struct.pack("<II", 0, CUTOFF)
    hdr += struct.pack("<II", minifat_start if n_minifat else ENDOFCHAIN, n_minifat)
    hdr += struct.pack("<II", ENDOFCHAIN, 0)                      # no DIFAT sectors
    difat = [fat_first + i for i in range(n_fat)] + [FREESECT] * (109 - n_fat)
    hdr += b"".join(struct.pack("<I", x) for x in difat)
    assert len(hdr) == 512, len(hdr)
    return bytes(hdr) + b"".join(sectors)


def read_tree(data: bytes) -> dict:
    """Nested {name: bytes | dict} of an existing compound file (via olefile)."""
    import olefile
    tree: dict = {}
    with olefile.OleFileIO(io.BytesIO(data)) as ole:
        for path in ole.listdir(streams=True, storages=True):
            node = tree
            for part in path[:-1]:
                node = node.setdefault(part, {})
            if ole.get_type(path) == olefile.STGTY_STORAGE:
                node.setdefault(path[-1], {})
            else:
                node[path[-1]] = ole.openstream(path).read()
    return tree
