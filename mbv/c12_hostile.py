"""C12 helper: concretiser for the amplifier cases TLC enumerates (Limits.tla, part (b)).

build(construct, magnitude, position, rng) -> {"ext", "data" (bytes), "usize" (uncompressed input size in
bytes: the file itself, or for containers the sum of the member sizes the container declares and whose
guards they pass), "note"}.  Every file is small (the encoded size is checked by the driver); the
declared magnitude is what the construct asks the extractor to expand to.  No file is ever extracted here.
"""
from __future__ import annotations

import gzip
import io
import lzma
import struct
import tarfile
import zipfile
from pathlib import Path

from . import REPO
from .writers import odf as W_odf
from .writers import docx as W_docx
from .writers import web as W_web
from .writers import xlsx as W_xlsx
from . import c12_sevenz

FIX = REPO / "sharepoint2text" / "tests" / "resources"


# ------------------------------------------------------------------------------------ zip helpers
def zip_usize(data: bytes) -> int:
    with zipfile.ZipFile(io.BytesIO(data)) as z:
        return sum(i.file_size for i in z.infolist())


def zip_replace(pkg: bytes, name: str, new: bytes) -> bytes:
    out = io.BytesIO()
    with zipfile.ZipFile(io.BytesIO(pkg)) as zi, zipfile.ZipFile(out, "w") as zo:
        for i in zi.infolist():
            d = new if i.filename == name else zi.read(i.filename)
            zo.writestr(i.filename, d, zipfile.ZIP_STORED if i.filename == "mimetype" else zipfile.ZIP_DEFLATED)
    return out.getvalue()


def zip_get(pkg: bytes, name: str) -> bytes:
    with zipfile.ZipFile(io.BytesIO(pkg)) as z:
        return z.read(name)


# ------------------------------------------------------------------------------------ XML tricks
def _with_doctype(xml: bytes, root: str, internal_subset: str) -> bytes:
    """Insert <!DOCTYPE root [ ... ]> after the XML declaration."""
    s = xml.decode("utf-8")
    end = s.index("?>") + 2 if s.startswith("<?xml") else 0
    return (s[:end] + f"<!DOCTYPE {root} [{internal_subset}]>" + s[end:]).encode("utf-8")


def _laughs(mag: int) -> tuple[str, str]:
    """Nested entities expanding to >= mag characters: returns (internal subset, reference)."""
    levels, n = 1, 10
    while n < mag:
        n *= 10
        levels += 1
    sub = '<!ENTITY l0 "ha">'
    for k in range(1, levels + 1):
        sub += f'<!ENTITY l{k} "' + f"&l{k-1};" * 10 + '">'
    return sub, f"&l{levels};"


def _quadratic(mag: int) -> tuple[str, str]:
    """One long entity referenced many times: total expansion ~ mag characters."""
    ln = max(10, int(mag ** 0.5))
    return f'<!ENTITY q "{"q" * ln}">', "&q;" * (mag // ln)


def _entity_payload(kind: str, mag: int):
    if kind == "laughs":
        return _laughs(mag)
    if kind == "quadratic":
        return _quadratic(mag)
    if kind == "external":
        return '<!ENTITY x SYSTEM "file:///dev/zero">', "&x;"
    if kind == "parameter":
        return '<!ENTITY % p "<!ENTITY q &#x27;' + "z" * 10 + '&#x27;>">%p;', "&q;" * min(mag, 1000)
    raise ValueError(kind)


# ------------------------------------------------------------------------------------ per-format bases
def _ods(rows):
    return W_odf.write_ods({"sheets": [{"name": "S", "rows": rows}]})


def _odt_with_body(inner: str) -> bytes:
    pkg = W_odf.write_odt({"blocks": [["p", [["r", 1]]]]})
    xml = zip_get(pkg, "content.xml").decode()
    k = xml.index("</office:text>")
    return zip_replace(pkg, "content.xml", (xml[:k] + inner + xml[k:]).encode())


def _docx_with_body(inner: str) -> bytes:
    pkg = W_docx.write_docx({"blocks": [["p", [["r", 1]]]]})
    xml = zip_get(pkg, "word/document.xml").decode()
    k = xml.index("<w:sectPr")
    return zip_replace(pkg, "word/document.xml", (xml[:k] + inner + xml[k:]).encode())


def _xlsx_sheet(sheet_xml_inner: str) -> bytes:
    pkg = W_xlsx.write_xlsx({"sheets": [{"name": "S", "rows": [[["s", 1]]]}]})
    xml = zip_get(pkg, "xl/worksheets/sheet1.xml").decode()
    k = xml.index("<sheetData>")
    e = xml.index("</sheetData>") + len("</sheetData>")
    return zip_replace(pkg, "xl/worksheets/sheet1.xml", (xml[:k] + sheet_xml_inner + xml[e:]).encode())


XML_HOSTS = ("ods", "odt", "docx", "xlsx", "pptx", "epub")


def _xml_host(host: str):
    """-> (package bytes, part name, root element name, a text anchor inside the part)."""
    if host == "ods":
        return _ods([[["str", "ANCHOR"]]]), "content.xml", "office:document-content", "ANCHOR"
    if host == "odt":
        return _odt_with_body("<text:p>ANCHOR</text:p>"), "content.xml", "office:document-content", "ANCHOR"
    if host == "docx":
        return (_docx_with_body("<w:p><w:r><w:t>ANCHOR</w:t></w:r></w:p>"), "word/document.xml", "w:document",
                "ANCHOR")
    if host == "xlsx":
        pkg = W_xlsx.write_xlsx({"sheets": [{"name": "S", "rows": [[["str", "ANCHOR"]]]}]})
        part = "xl/sharedStrings.xml" if b"ANCHOR" in _safe(pkg, "xl/sharedStrings.xml") else "xl/worksheets/sheet1.xml"
        return pkg, part, "sst" if part.endswith("sharedStrings.xml") else "worksheet", "ANCHOR"
    if host == "pptx":
        from .writers import pptx as W_pptx
        pkg = W_pptx.write_pptx({"kind": "deck", "slides": [{"shapes": [["text", [[["r", 1]]]]]}]})
        names = zipfile.ZipFile(io.BytesIO(pkg)).namelist()
        part = next(n for n in names if n.startswith("ppt/slides/slide") and n.endswith(".xml"))
        xml = zip_get(pkg, part).decode()
        from .docmodel import word
        return pkg, part, "p:sld", word(1)
    if host == "epub":
        pkg = W_web.write_epub({"chapters": [{"blocks": [["p", [["r", 1]]]]}], "props": {"title": "ANCHOR"}})
        return pkg, "OEBPS/content.opf", "package", "ANCHOR"
    raise ValueError(host)


def _safe(pkg, name):
    try:
        return zip_get(pkg, name)
    except KeyError:
        return b""


# ------------------------------------------------------------------------------------ OLE property set
def _ole_flip(path: Path, value: int) -> bytes:
    """Patch the \\x05SummaryInformation property set of an OLE fixture: the first VT_FILETIME property
    becomes VT_VECTOR|VT_R8 (0x1005: a vector of a base type olefile does not implement, so every element
    costs no input bytes) with element count `value`."""
    import olefile
    raw = path.read_bytes()
    ole = olefile.OleFileIO(io.BytesIO(raw))
    stream = ole.openstream("\x05SummaryInformation").read()
    ole.close()
    sec = struct.unpack_from("<I", stream, 44)[0]          # header 28 bytes, fmtid 16, section offset 4
    n = struct.unpack_from("<I", stream, sec + 4)[0]
    at = None
    for i in range(n):
        pid, off = struct.unpack_from("<II", stream, sec + 8 + i * 8)
        if struct.unpack_from("<I", stream, sec + off)[0] == 64:
            at = sec + off
            break
    if at is None:
        raise ValueError("no VT_FILETIME property in the summary information")
    lo = max(0, at - 16)
    lo = max(lo, (at // 64) * 64)                           # stay inside one (mini) sector
    key = stream[lo:at + 12]
    pos = raw.find(key)
    if pos < 0 or raw.find(key, pos + 1) >= 0:
        raise ValueError("cannot locate the property uniquely in the OLE file")
    out = bytearray(raw)
    struct.pack_into("<II", out, pos + (at - lo), 0x1005, value)
    return bytes(out)


# ------------------------------------------------------------------------------------ PDF loops
def _pdf(objs: dict, trailer: str) -> bytes:
    out = bytearray(b"%PDF-1.4\n")
    offs = {}
    for n in sorted(objs):
        offs[n] = len(out)
        out += f"{n} 0 obj\n".encode() + objs[n] + b"\nendobj\n"
    x = len(out)
    mx = max(objs) + 1
    out += f"xref\n0 {mx}\n".encode() + b"0000000000 65535 f \n"
    for n in range(1, mx):
        out += f"{offs.get(n, 0):010d} {'00000 n' if n in offs else '65535 f'} \n".encode()
    out += f"trailer\n<< /Size {mx} /Root 1 0 R {trailer}>>\nstartxref\n{x}\n%%EOF\n".encode()
    return bytes(out)


# ------------------------------------------------------------------------------------ minimal Word 97 file
def _ole_single_stream(stream_name: str, stream: bytes) -> bytes:
    """Compound file (version 3, 512-byte sectors) holding ONE stream of at least 4096 bytes."""
    SECT, FREE, END, FATSECT = 512, 0xFFFFFFFF, 0xFFFFFFFE, 0xFFFFFFFD
    if len(stream) < 4096:
        stream = stream.ljust(4096, b"\x00")
    n_stream = -(-len(stream) // SECT)
    n_fat = 1
    while n_fat * 128 < n_fat + 1 + n_stream:
        n_fat += 1
    if n_fat > 109:
        raise ValueError("stream too large for a header-only DIFAT")
    first = n_fat + 1
    fat = [FATSECT] * n_fat + [END] + [first + i + 1 for i in range(n_stream - 1)] + [END]
    fat += [FREE] * (n_fat * 128 - len(fat))

    def entry(name, typ, child, start, size):
        raw = (name.encode("utf-16-le") + b"\x00\x00") if name else b""
        e = raw.ljust(64, b"\x00") + struct.pack("<H", len(raw)) + struct.pack("<BB", typ, 1)
        e += struct.pack("<III", FREE, FREE, child) + bytes(16) + struct.pack("<I", 0) + bytes(16)
        return e + struct.pack("<IQ", start, size)
    directory = (entry("Root Entry", 5, 1, END, 0) + entry(stream_name, 2, FREE, first, len(stream))
                 + entry("", 0, FREE, 0, 0) * 2)
    header = b"\xd0\xcf\x11\xe0\xa1\xb1\x1a\xe1" + bytes(16) + struct.pack("<HHHHH", 0x3E, 3, 0xFFFE, 9, 6) + bytes(6)
    header += struct.pack("<IIIIIIIII", 0, n_fat, n_fat, 0, 4096, END, 0, END, 0)
    header += struct.pack("<109I", *(list(range(n_fat)) + [FREE] * (109 - n_fat)))
    return header + struct.pack("<%dI" % len(fat), *fat) + directory + stream.ljust(n_stream * SECT, b"\x00")


def _word_stream(payload: bytes) -> bytes:
    text = b"Quarterly report. " * 60
    fib = bytearray(0x200)
    struct.pack_into("<H", fib, 0, 0xA5EC)             # wIdent
    struct.pack_into("<H", fib, 2, 0x00C1)             # nFib (Word 97)
    struct.pack_into("<I", fib, 0x4C, len(text))       # ccpText
    body = bytes(fib) + text
    return body.ljust(0x1000, b"\x00") + payload


DIB_TAIL = 128 * 1024


def _gradient(n: int) -> bytes:
    return bytes((i * 7 + (i >> 8)) & 0xFF for i in range(n))


def _dib_headers(n: int, shape: str) -> bytes:
    """n BITMAPINFOHEADERs (40 bytes, 200 x 200 x 24 bit) back to back, then DIB_TAIL bytes of pixel data.
    nested   every header declares (biSizeImage) pixel data up to the END of the stream: the first covers all
    chain    header k declares pixel data up to the start of header k + 2
    overrun  every header declares more than the stream holds
    disjoint n separate tiny bitmaps (8 x 1 x 24 bit, 24 bytes of pixel data each), then the tail"""
    out = bytearray()
    if shape == "disjoint":
        for j in range(n):
            out += struct.pack("<IiiHHIIiiII", 40, 8, 1, 1, 24, 0, 24, 2835, 2835, 0, j) + bytes((j + k) & 0xFF for k in range(24))
        return bytes(out) + _gradient(DIB_TAIL)
    total = 40 * n + DIB_TAIL
    for j in range(n):
        pos = 40 * j
        size = {"nested": total - pos - 40, "chain": 40 if j + 2 < n else total - pos - 40,
                "overrun": total + 4096}[shape]
        out += struct.pack("<IiiHHIIiiII", 40, 200, 200, 1, 24, 0, size, 2835, 2835, 0, j)
    return bytes(out) + _gradient(DIB_TAIL)


def _png_signatures(n: int, shape: str) -> bytes:
    """n PNG signatures inside a WordDocument stream.
    nested   every signature is followed by one chunk that spans everything up to a single shared IEND chunk
    bare     signatures back to back, no chunk structure, then the tail
    disjoint n complete minimal PNG files back to back"""
    sig = b"\x89PNG\r\n\x1a\n"
    if shape == "bare":
        return sig * n + _gradient(DIB_TAIL)
    if shape == "disjoint":
        from .writers import images as IM
        return b"".join(IM.png(2, 2, j) for j in range(n)) + _gradient(DIB_TAIL)
    tail = _gradient(DIB_TAIL)
    p_iend = 16 * n + len(tail) + 4                  # position of the shared IEND chunk (after a 4-byte crc slot)
    out = bytearray()
    for j in range(n):
        chunk_start = 16 * j + 16
        out += sig + struct.pack(">I", p_iend - 4 - chunk_start) + b"juNK"
    return bytes(out) + tail + bytes(4) + struct.pack(">I", 0) + b"IEND" + struct.pack(">I", 0xAE426082)


# ------------------------------------------------------------------------------------ hostile image headers
IMG_TRICKS = ("zero", "tiny", "huge", "many")


def hostile_image(kind: str, trick: str) -> bytes:
    """A small picture whose FIRST length field (JPEG marker segment / PNG chunk / BMP header size and data
    offset / GIF sub-block) is 0 ("zero": a scanner that adds the length never moves), 1 ("tiny": shorter than the
    field itself), the maximum ("huge": far beyond the end of the data) or is repeated 2000 times with the
    smallest legal value ("many").  The frame header with the real dimensions follows where a scanner that skips
    correctly finds it."""
    from .writers import images as IM
    if kind == "jpeg":
        base = IM.jpeg(7, 5)
        rest = base[2:]                                    # after SOI: APP0 ... SOF0 ...
        seg = {"zero": b"\xff\xe1\x00\x00", "tiny": b"\xff\xe1\x00\x01", "huge": b"\xff\xe1\xff\xff",
               "many": b"\xff\xe1\x00\x02" * 2000}[trick]
        return base[:2] + seg + rest
    if kind == "png":
        base = IM.png(7, 5)
        ln = {"zero": 0, "tiny": 1, "huge": 0xFFFFFFFF, "many": 0}[trick]
        if trick == "many":                                # 2000 empty ancillary chunks in front of IHDR
            empty = struct.pack(">I", 0) + b"tEXt" + struct.pack(">I", 0x2D8E9D5A)
            return base[:8] + empty * 2000 + base[8:]
        return base[:8] + struct.pack(">I", ln) + base[12:]      # IHDR length field
    if kind == "bmp":
        base = bytearray(IM.bmp(7, 5))
        v = {"zero": 0, "tiny": 1, "huge": 0xFFFFFFFF, "many": 0x7FFFFFFF}[trick]
        struct.pack_into("<I", base, 2, v)                 # file size
        struct.pack_into("<I", base, 10, v)                # offset of the pixel data
        struct.pack_into("<I", base, 14, v)                # DIB header size
        return bytes(base)
    if kind == "gif":
        base = IM.gif(7, 5)
        head, tail = base[:19], base[19:]                  # header + LSD + 2-colour table | image descriptor ...
        sub = {"zero": b"\x21\xff\x00", "tiny": b"\x21\xff\x01", "huge": b"\x21\xff\xff",
               "many": b"\x21\xfe\x01a\x00" * 2000}[trick]       # application / comment extension sub-blocks
        return head + sub + tail
    raise ValueError(kind)


def _ole_patch_jpeg(path: Path, trick: str) -> bytes:
    """Patch the length of the first marker segment of the JPEG stored in an OLE fixture (in place)."""
    raw = bytearray(path.read_bytes())
    at = bytes(raw).find(b"\xff\xd8\xff")
    if at < 0:
        raise ValueError("no JPEG in the fixture")
    struct.pack_into(">H", raw, at + 4, {"zero": 0, "tiny": 1, "huge": 0xFFFF}[trick])
    return bytes(raw)


def _image_host(host: str, kind: str, data: bytes):
    ext = {"jpeg": "jpg"}.get(kind, kind)
    media = {"jpeg": "image/jpeg", "png": "image/png", "gif": "image/gif", "bmp": "image/bmp"}[kind]
    para = {"blocks": [["p", [["r", 1]]]]}
    if host == "rtf":
        blip = {"jpeg": "\\jpegblip", "png": "\\pngblip"}[kind]
        doc = ("{\\rtf1\\ansi\\deff0{\\fonttbl{\\f0 Arial;}}\n\\f0\\fs24 before\\par\n{\\pict" + blip
               + "\\picw7\\pich5 " + data.hex() + "}\\par\nafter\\par}\n").encode()
        return "rtf", doc, len(doc)
    if host == "docx":
        pkg = W_docx.write_docx(para, images=[(f"media/image1.{ext}", data, f"word/media/image1.{ext}")])
        return "docx", pkg, zip_usize(pkg)
    if host == "pptx":
        from .writers import pptx as W_pptx
        pkg = W_pptx.write_pptx({"kind": "deck", "slides": [{"shapes": [["text", [[["r", 1]]]]], "images": [
            {"target": f"../media/image1.{ext}", "part": f"ppt/media/image1.{ext}", "data": data}]}]})
        return "pptx", pkg, zip_usize(pkg)
    if host == "xlsx":
        pkg = W_xlsx.write_xlsx({"sheets": [{"name": "S", "rows": [[["s", 1]]], "images": [
            {"target": f"../media/image1.{ext}", "part": f"xl/media/image1.{ext}", "data": data}]}]})
        return "xlsx", pkg, zip_usize(pkg)
    if host == "odt":
        pkg = W_odf.write_odt({**para, "images": [{"target": f"Pictures/i1.{ext}", "part": f"Pictures/i1.{ext}",
                                                    "data": data}]})
        return "odt", pkg, zip_usize(pkg)
    if host == "epub":
        pkg = W_web.write_epub({"chapters": [para], "images": [
            {"part": f"OEBPS/img/a.{ext}", "data": data, "href": f"img/a.{ext}", "media": media}]})
        return "epub", pkg, zip_usize(pkg)
    raise ValueError(host)


# ------------------------------------------------------------------------------------ the builder
def build(construct: str, mag: int, pos: str, rng) -> dict:
    c = construct
    note = ""
    # ---- ODS repeats.  pos: first | last (where the repeated cell/row stands among 3 ordinary ones)
    if c in ("ods_cell_repeat", "ods_cell_repeat_empty"):
        cell = ["str", "v"] if c == "ods_cell_repeat" else None
        rep = {"repeat": mag, "cell": cell}
        others = [["str", "a"], ["str", "b"], ["str", "c"]]
        row = [rep] + others if pos == "first" else others + [rep]
        data = _ods([row, others])
        return {"ext": "ods", "data": data, "usize": zip_usize(data), "note": note}
    if c in ("ods_row_repeat", "ods_row_repeat_empty"):
        cells = [["str", "a"], ["str", "b"]] if c == "ods_row_repeat" else [None, None]
        rep = {"repeat": mag, "cells": cells}
        others = [[["str", "x"], ["str", "y"]]] * 2
        rows = [rep] + others if pos == "first" else others + [rep]
        data = _ods(rows)
        return {"ext": "ods", "data": data, "usize": zip_usize(data), "note": note}
    if c == "ods_cell_x_row":           # cell repeat mag inside a row repeated mag times (mag^2 slots)
        rep = {"repeat": mag, "cells": [{"repeat": mag, "cell": ["str", "v"]}]}
        others = [[["str", "x"]]]
        data = _ods([rep] + others if pos == "first" else others + [rep])
        return {"ext": "ods", "data": data, "usize": zip_usize(data), "note": note}
    # ---- ODF text:s with a count (all five ODF extractors share the expansion)
    if c == "odf_space_count":
        inner = f'<text:p>a<text:s text:c="{mag}"/>b</text:p>'
        if pos == "odt":
            data = _odt_with_body(inner)
        else:
            pkg = _ods([[["str", "ANCHOR"]]])
            xml = zip_get(pkg, "content.xml").decode().replace("ANCHOR", f'a<text:s text:c="{mag}"/>b')
            data = zip_replace(pkg, "content.xml", xml.encode())
        return {"ext": pos, "data": data, "usize": zip_usize(data), "note": note}
    # ---- declared dimensions
    if c == "xlsx_dimension":
        # pos: "declared" = <dimension> claims the magnitude, one real cell; "farcell" = one real cell far away
        from .writers.xlsx import _col
        if pos == "declared":
            inner = (f'<dimension ref="A1:{_col(min(mag, 16384) - 1)}{mag}"/>'
                     '<sheetData><row r="1"><c r="A1" t="inlineStr"><is><t>v</t></is></c></row></sheetData>')
        else:
            row = min(mag, 1048576) if pos in ("farcell", "farrow") else 2
            col = _col(min(mag, 16384) - 1) if pos in ("farcell", "farcol") else "A"
            inner = ('<sheetData><row r="1"><c r="A1" t="inlineStr"><is><t>v</t></is></c></row>'
                     f'<row r="{row}"><c r="{col}{row}" t="inlineStr"><is><t>w</t></is></c></row></sheetData>')
        data = _xlsx_sheet(inner)
        return {"ext": "xlsx", "data": data, "usize": zip_usize(data), "note": note}
    # ---- XML entity / DTD constructs.  pos = "<kind>@<host>"
    if c == "xml_entity":
        kind, host = pos.split("@")
        pkg, part, root, anchor = _xml_host(host)
        sub, ref = _entity_payload(kind, mag)
        xml = zip_get(pkg, part)
        if anchor.encode() not in xml:
            raise ValueError(f"anchor not found in {host}:{part}")
        xml = _with_doctype(xml.replace(anchor.encode(), ref.encode(), 1), root, sub)
        data = zip_replace(pkg, part, xml)
        return {"ext": host, "data": data, "usize": zip_usize(data), "note": note}
    # ---- nesting depth.  pos = host
    if c == "nesting":
        d = mag
        if pos == "html":
            data = ("<html><body>" + "<div>" * d + "x" + "</div>" * d + "</body></html>").encode()
            return {"ext": "html", "data": data, "usize": len(data), "note": note}
        if pos == "html_unclosed":
            data = ("<html><body>" + "<div>" * d + "x</body></html>").encode()
            return {"ext": "html", "data": data, "usize": len(data), "note": note}
        if pos == "rtf":
            data = (r"{\rtf1\ansi " + "{" * d + "x" + "}" * d + "}").encode()
            return {"ext": "rtf", "data": data, "usize": len(data), "note": note}
        if pos == "odt":
            data = _odt_with_body("<text:p>" + "<text:span>" * d + "x" + "</text:span>" * d + "</text:p>")
            return {"ext": "odt", "data": data, "usize": zip_usize(data), "note": note}
        if pos == "docx":
            data = _docx_with_body("<w:p>" + "<w:smartTag>" * d + "<w:r><w:t>x</w:t></w:r>" + "</w:smartTag>" * d + "</w:p>")
            return {"ext": "docx", "data": data, "usize": zip_usize(data), "note": note}
        if pos == "docx_tbl":
            open_, close_ = "<w:tbl><w:tr><w:tc>", "<w:p/></w:tc></w:tr></w:tbl>"
            data = _docx_with_body(open_ * d + "<w:p><w:r><w:t>x</w:t></w:r></w:p>" + close_ * d)
            return {"ext": "docx", "data": data, "usize": zip_usize(data), "note": note}
        if pos == "ods":
            pkg = _ods([[["str", "ANCHOR"]]])
            xml = zip_get(pkg, "content.xml").decode().replace(
                "ANCHOR", "<text:span>" * d + "x" + "</text:span>" * d)
            data = zip_replace(pkg, "content.xml", xml.encode())
            return {"ext": "ods", "data": data, "usize": zip_usize(data), "note": note}
        if pos == "epub":
            ch = ("<?xml version='1.0'?><html xmlns='http://www.w3.org/1999/xhtml'><body>" + "<div>" * d + "x"
                  + "</div>" * d + "</body></html>").encode()
            pkg = W_web.write_epub({"chapters": [{"blocks": [["p", [["r", 1]]]]}]})
            data = zip_replace(pkg, "OEBPS/ch1.xhtml", ch)
            return {"ext": "epub", "data": data, "usize": zip_usize(data), "note": note}
        raise ValueError(pos)
    # ---- OLE property-set counts (third-party olefile loop).  pos = fixture kind
    if c == "ole_vector_count":
        fx = {"xls": FIX / "legacy_ms" / "xls_with_images.xls",
              "ppt": FIX / "legacy_ms" / "slide_with_notes.ppt",
              "doc": FIX / "legacy_ms" / "Speech_Prime_Minister_of_The_Netherlands_EN.doc"}[pos]
        data = _ole_flip(fx, mag)
        return {"ext": pos, "data": data, "usize": len(data), "note": note}
    # ---- compression ratio inside archives.  mag = uncompressed member size in bytes
    if c == "sevenz_ratio":
        # pos: "honest" (declared = real, above the member limit) | "lying" (declared 16 bytes, LZMA2 stream
        # expands to mag) | "admitted" (real = declared = mag <= limit)
        body = bytes(mag)
        if pos == "lying":
            data = c12_sevenz.write_7z([("big.txt", body)], method="lzma2", declared=[16], folder_declared=16)
            usize = len(data) + 16
        else:
            data = c12_sevenz.write_7z([("big.txt", body)], method="lzma2")
            usize = len(data) + (mag if pos == "admitted" else 0)
        return {"ext": "7z", "data": data, "usize": usize, "note": note}
    # ---- 7z: what the header declares vs what the packed stream yields.  pos = "<coder>.<declared>.<end>"
    #      declared: zero | smaller (16 bytes) | larger (8 MiB declared, 1 KiB in the stream) | firstbig (coder chain:
    #      the BCJ coder declares mag, the compressor and the member 16 bytes);  mag = bytes the stream really yields
    if c == "sevenz_declared":
        coder, decl, end = pos.split(".")
        actual = 1024 if decl == "larger" else mag
        body = bytes(actual)
        chain = coder.startswith("bcj+")
        if decl == "zero":
            sizes = [0, 0] if chain else [0]
        elif decl == "smaller":
            sizes = [16, 16] if chain else [16]
        elif decl == "larger":
            sizes = [8 << 20, 8 << 20] if chain else [8 << 20]
        elif decl == "firstbig":
            sizes = [mag, 16]
        else:
            raise ValueError(decl)
        data = c12_sevenz.write_7z_declared("big.txt", body, coder, sizes[-1], sizes, strip_end=(end == "noend"))
        # input size = the file + what the guards admit (the member's declared size)
        return {"ext": "7z", "data": data, "usize": len(data) + min(sizes[-1], actual), "note": note}
    if c == "targz_ratio":
        # pos: "skipped" member (size mag > limit) | "admitted" (mag <= limit)
        buf = io.BytesIO()
        with tarfile.open(fileobj=buf, mode="w:gz", compresslevel=9) as tf:
            ti = tarfile.TarInfo("big.txt")
            ti.size = mag
            tf.addfile(ti, _Zeros(mag))
        data = buf.getvalue()
        return {"ext": "tar.gz", "data": data, "usize": len(data) + (mag if pos == "admitted" else 0), "note": note}
    if c == "zip_ratio":
        buf = io.BytesIO()
        with zipfile.ZipFile(buf, "w", zipfile.ZIP_DEFLATED, compresslevel=9) as z:
            with z.open("big.txt", "w", force_zip64=True) as f:
                left = mag
                while left:
                    k = min(left, 1 << 20)
                    f.write(bytes(k))
                    left -= k
        data = buf.getvalue()
        return {"ext": "zip", "data": data, "usize": len(data) + (mag if pos == "admitted" else 0), "note": note}
    # ---- many / nested bitmap headers and PNG signatures inside a Word binary stream.  mag = number of headers
    if c in ("doc_dib_headers", "doc_png_signatures"):
        payload = _dib_headers(mag, pos) if c == "doc_dib_headers" else _png_signatures(mag, pos)
        data = _ole_single_stream("WordDocument", _word_stream(payload))
        return {"ext": "doc", "data": data, "usize": len(data), "note": note}
    # ---- ODS cells / rows that are TYPED but empty, repeated.  pos = "<variant>.<first|last>"
    if c in ("ods_cell_repeat_typed_empty", "ods_row_repeat_typed_empty"):
        variant, where = pos.split(".")
        typed = {"string_p": '<table:table-cell{rep} office:value-type="string"><text:p/></table:table-cell>',
                 "string_nop": '<table:table-cell{rep} office:value-type="string"/>',
                 "string_attr": '<table:table-cell{rep} office:value-type="string" office:string-value=""><text:p></text:p></table:table-cell>',
                 "string_span": '<table:table-cell{rep} office:value-type="string"><text:p><text:span/></text:p></table:table-cell>',
                 # the covered part of a merge (no value, no text): an empty cell all the same
                 "covered": '<table:covered-table-cell{rep}/>',
                 }[variant]
        if c == "ods_cell_repeat_typed_empty":
            marker_cell = ["str", "TYPEDEMPTY"]
            others = [["str", "a"], ["str", "b"], ["str", "c"]]
            row = [marker_cell] + others if where == "first" else others + [marker_cell]
            pkg = _ods([row, others])
            cell_xml = typed.format(rep=f' table:number-columns-repeated="{mag}"')
        else:
            rep = {"repeat": mag, "cells": [["str", "TYPEDEMPTY"], ["str", "TYPEDEMPTY"]]}
            others = [[["str", "x"], ["str", "y"]]] * 2
            pkg = _ods([rep] + others if where == "first" else others + [rep])
            cell_xml = typed.format(rep="")
        xml = zip_get(pkg, "content.xml").decode()
        old = '<table:table-cell office:value-type="string"><text:p>TYPEDEMPTY</text:p></table:table-cell>'
        if old not in xml:
            raise ValueError("ODS writer changed: marker cell not found")
        data = zip_replace(pkg, "content.xml", xml.replace(old, cell_xml).encode())
        return {"ext": "ods", "data": data, "usize": zip_usize(data), "note": note}
    # ---- mailbox with ONE very long "From " line.  mag = length of the line; pos = "<shape>.<nl|eof>.<first|last|only>"
    if c == "mbox_longline":
        shape, term, place = pos.split(".")
        msg = (b"From a@b Mon Jan  1 00:00:00 2024\nSubject: s\nDate: Mon, 1 Jan 2024 00:00:00 +0000\nFrom: a@b\n\nx\n\n")
        line = {"years": b"From a@b " + b"2024 " * (mag // 5), "digits": b"From " + b"1" * mag,
                "spaces": b"From a@b" + b" " * mag, "letters": b"From a@b " + b"x" * mag,
                "nonspace": b"From " + b"x" * mag, "yearsnosp": b"From a@b " + b"2024x" * (mag // 5),
                "froms": b"From " * (mag // 5)}[shape]
        line += b"\n" if term == "nl" else b""
        if place == "last":
            data = msg + line
        elif place == "first":
            data = line + (msg if term == "nl" else b"")
        else:
            data = line
        return {"ext": "mbox", "data": data, "usize": len(data), "note": note}
    # ---- hostile image headers inside documents.  pos = "<kind>_<trick>@<host>"
    if c == "image_header":
        kt, host = pos.split("@")
        kind, trick = kt.split("_")
        if host in ("ppt", "xls"):
            fx = {"ppt": FIX / "legacy_ms" / "ppt_with_images.ppt", "xls": FIX / "legacy_ms" / "xls_with_images.xls"}[host]
            data = _ole_patch_jpeg(fx, trick)
            return {"ext": host, "data": data, "usize": len(data), "note": note}
        ext, data, usize = _image_host(host, kind, hostile_image(kind, trick))
        return {"ext": ext, "data": data, "usize": usize, "note": note}
    # ---- mailbox with many separators.  mag = number of "From " lines
    if c == "mbox_from":
        if pos == "bare":
            data = b"From a@b Mon Jan  1 00:00:00 2024\n" * mag
        else:
            data = b"".join(b"From a@b Mon Jan  1 00:00:00 2024\nSubject: s\nDate: Mon, 1 Jan 2024 00:00:00 +0000\n"
                            b"From: a@b\n\nx\n\n" for _ in range(mag))
        return {"ext": "mbox", "data": data, "usize": len(data), "note": note}
    # ---- PDF object loops (third-party pypdf).  pos = which loop
    if c == "pdf_loop":
        if pos == "kids_self":
            objs = {1: b"<< /Type /Catalog /Pages 2 0 R >>",
                    2: b"<< /Type /Pages /Kids [2 0 R 3 0 R] /Count %d >>" % mag,
                    3: b"<< /Type /Page /Parent 2 0 R /MediaBox [0 0 10 10] >>"}
            data = _pdf(objs, "")
        elif pos == "count_only":
            objs = {1: b"<< /Type /Catalog /Pages 2 0 R >>",
                    2: b"<< /Type /Pages /Kids [3 0 R] /Count %d >>" % mag,
                    3: b"<< /Type /Page /Parent 2 0 R /MediaBox [0 0 10 10] >>"}
            data = _pdf(objs, "")
        elif pos == "prev_loop":
            objs = {1: b"<< /Type /Catalog /Pages 2 0 R >>",
                    2: b"<< /Type /Pages /Kids [3 0 R] /Count 1 >>",
                    3: b"<< /Type /Page /Parent 2 0 R /MediaBox [0 0 10 10] >>"}
            base = _pdf(objs, "")
            x = base.rindex(b"startxref")
            xo = int(base[x:].split()[1])
            data = _pdf(objs, f"/Prev {xo} ")
        elif pos == "ref_chain":
            objs = {1: b"<< /Type /Catalog /Pages 2 0 R >>",
                    2: b"<< /Type /Pages /Kids [3 0 R] /Count 1 >>",
                    3: b"<< /Type /Page /Parent 2 0 R /MediaBox [0 0 10 10] /Contents 4 0 R >>",
                    4: b"5 0 R", 5: b"4 0 R"}
            data = _pdf(objs, "")
        else:
            raise ValueError(pos)
        return {"ext": "pdf", "data": data, "usize": len(data), "note": note}
    raise ValueError(construct)


class _Zeros(io.RawIOBase):
    def __init__(self, n):
        self.left = n

    def readable(self):
        return True

    def read(self, n=-1):
        if n is None or n < 0:
            n = self.left
        n = min(n, self.left, 1 << 20)
        self.left -= n
        return bytes(n)
