"""Tiny raster image files with chosen pixel dimensions (own encoders; headers are what matters)."""
from __future__ import annotations

import struct
import zlib


def png(w: int, h: int, seed: int = 0) -> bytes:
    def chunk(t, d):
        return struct.pack(">I", len(d)) + t + d + struct.pack(">I", zlib.crc32(t + d) & 0xFFFFFFFF)
    raw = b"".join(b"\x00" + b"".join(bytes(((x * 7 + y * 13 + seed) & 0xFF, (x + seed) & 0xFF, (y * 3) & 0xFF))
                                       for x in range(w)) for y in range(h))
    return (b"\x89PNG\r\n\x1a\n" + chunk(b"IHDR", struct.pack(">IIBBBBB", w, h, 8, 2, 0, 0, 0))
            + chunk(b"IDAT", zlib.compress(raw)) + chunk(b"IEND", b""))


def gif(w: int, h: int, seed: int = 0) -> bytes:
    # 2-colour GIF89a, LZW min code size 2, one clear + end (decoders may complain; the header is valid)
    return (b"GIF89a" + struct.pack("<HH", w, h) + b"\x80\x00\x00" + bytes((seed & 0xFF, 0, 0, 255, 255, 255))
            + b"\x2c" + struct.pack("<HHHH", 0, 0, w, h) + b"\x00" + b"\x02\x02\x44\x01\x00" + b"\x3b")


def bmp(w: int, h: int, seed: int = 0) -> bytes:
    row = b"".join(bytes(((x + seed) & 0xFF, 0x40, 0x80)) for x in range(w))
    pad = (-len(row)) % 4
    data = (row + b"\x00" * pad) * h
    hdr = struct.pack("<IiiHHIIiiII", 40, w, h, 1, 24, 0, len(data), 2835, 2835, 0, 0)
    return b"BM" + struct.pack("<IHHI", 14 + 40 + len(data), 0, 0, 54) + hdr + data


def jpeg(w: int, h: int, seed: int = 0) -> bytes:
    """Baseline JPEG: valid SOI/APP0/DQT/SOF0/DHT/SOS/EOI structure with a constant-colour scan.
    Dimension sniffers read SOF0; the entropy data is minimal (decoders would show a grey image)."""
    soi = b"\xff\xd8"
    app0 = b"\xff\xe0" + struct.pack(">H", 16) + b"JFIF\x00\x01\x01\x00\x00\x01\x00\x01\x00\x00"
    dqt = b"\xff\xdb" + struct.pack(">H", 67) + b"\x00" + bytes([16 + (seed % 8)] * 64)
    sof0 = b"\xff\xc0" + struct.pack(">HBHHB", 11, 8, h, w, 1) + b"\x01\x11\x00"
    # one DC and one AC Huffman table with a single 1-bit code each
    dht_dc = b"\xff\xc4" + struct.pack(">H", 20) + b"\x00" + bytes([1] + [0] * 15) + b"\x00"
    dht_ac = b"\xff\xc4" + struct.pack(">H", 20) + b"\x10" + bytes([1] + [0] * 15) + b"\x00"
    sos = b"\xff\xda" + struct.pack(">HB", 8, 1) + b"\x01\x00" + b"\x00\x3f\x00"
    nblocks = ((w + 7) // 8) * ((h + 7) // 8)
    scan = bytes([0x00] * max(1, (2 * nblocks + 7) // 8))
    return soi + app0 + dqt + sof0 + dht_dc + dht_ac + sos + scan + b"\xff\xd9"


MAKERS = {"png": (png, "image/png"), "gif": (gif, "image/gif"), "bmp": (bmp, "image/bmp"),
          "jpeg": (jpeg, "image/jpeg"), "jpg": (jpeg, "image/jpeg")}


def make(kind: str, w: int, h: int, seed: int = 0) -> bytes:
    return MAKERS[kind][0](w, h, seed)
