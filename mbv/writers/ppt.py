"""Abstract deck -> legacy .ppt bytes: minimal "PowerPoint Document" record stream inside an OLE2 compound file
(compound-file writer: mbv/c08_cfb.py).  Only what the extractor's record walk reads is written:
DocumentContainer > SlideListWithText(instance 0: slides; instance 2: notes) > per slide SlidePersistAtom,
TextHeaderAtom(type) + TextCharsAtom / TextBytesAtom per text shape.  Tables are not expressible."""
from __future__ import annotations

import struct

from ..docmodel import word

RT_DOCUMENT, RT_SLWT, RT_PERSIST, RT_HEADER, RT_CHARS, RT_BYTES = 0x03E8, 0x0FF0, 0x03F3, 0x0F9F, 0x0FA0, 0x0FA8


def _rec(ver, inst, rtype, data):
    return struct.pack("<HHI", (inst << 4) | ver, rtype, len(data)) + data


def _text_of(paras):
    out = []
    for p in paras:
        s = ""
        for i in p:
            if i[0] == "r":
                s += word(i[1])
            elif i[0] == "br":
                s += "\x0b"
            elif i[0] == "a":
                s += "".join(word(j[1]) for j in i[1] if j[0] == "r")
        out.append(s)
    return "\r".join(out)


def _text_atoms(ttype, text, k):
    hdr = _rec(0, 0, RT_HEADER, struct.pack("<I", ttype))
    if k % 2:
        return hdr + _rec(0, 0, RT_BYTES, text.encode("latin-1"))
    return hdr + _rec(0, 0, RT_CHARS, text.encode("utf-16-le"))


def expressible(deck) -> bool:
    return all(sh[0] != "tbl" for s in deck["slides"] for sh in s.get("shapes", []))


def write_ppt(deck: dict) -> bytes:
    from ..c08_cfb import write_cfb
    slides, notes = b"", b""
    k = 0
    for n, s in enumerate(deck["slides"], start=1):
        persist = _rec(0, 0, RT_PERSIST, struct.pack("<IIiII", n, 0, len(s.get("shapes", [])), 255 + n, 0))
        slides += persist
        for sh in s.get("shapes", []):
            ttype = {"title": 0, "body": 1, "text": 4}[sh[0]]
            paras = [sh[1]] if sh[0] == "title" else sh[1]
            slides += _text_atoms(ttype, _text_of(paras), k)
            k += 1
        if s.get("notes"):
            notes += _rec(0, 0, RT_PERSIST, struct.pack("<IIiII", 100 + n, 0, 1, 255 + n, 0))
            notes += _text_atoms(2, _text_of([s["notes"]]), k)
            k += 1
    doc = _rec(0xF, 0, RT_SLWT, slides)
    if notes:
        doc += _rec(0xF, 2, RT_SLWT, notes)
    stream = _rec(0xF, 0, RT_DOCUMENT, doc)
    if len(stream) < 4096:
        stream += _rec(0, 0, 0x0FFF, b"\0" * (4096 - len(stream) - 8))     # padding record keeps the stream out of the mini stream
    current_user = _rec(0, 0, 0x0FF6, struct.pack("<IIIHHBBHI", 20, 0xE391C05F, 0, 0, 1012, 3, 0, 0, 8) + b"verif\0\0\0")
    return write_cfb({"PowerPoint Document": stream, "Current User": current_user})
