"""Abstract documents -> RTF, PDF (hand-written objects + xref), plain-text family."""
from __future__ import annotations

import zlib

from ..docmodel import word

RTF_SUPPORTS = {"r.acc", "r.num", "p", "h", "tbl", "r", "tab", "br", "sp", "del", "fn", "cm", "header", "footer"}


# ----------------------------------------------------------------------------- RTF
def _rtf_escape(s: str) -> str:
    out = []
    for ch in s:
        o = ord(ch)
        if ch in "\\{}":
            out.append("\\" + ch)
        elif o < 128:
            out.append(ch)
        elif o < 0x10000:
            out.append(f"\\u{o if o < 32768 else o - 65536}?")
        else:
            o -= 0x10000
            hi, lo = 0xD800 + (o >> 10), 0xDC00 + (o & 0x3FF)
            out.append(f"\\u{hi - 65536}?\\u{lo - 65536}?")
    return "".join(out)


def _rtf_word(i: int) -> str:
    """A token word; non-ASCII letters as \\'xx escapes of code page 1252 (the blank that follows is text)."""
    return "".join(ch if ord(ch) < 128 else "\\'%02x" % ch.encode("cp1252")[0] for ch in word(i))


def _rtf_inl(inls) -> str:
    out = []
    for i in inls:
        t = i[0]
        if t == "r":
            out.append(_rtf_word(i[1]))
        elif t == "tab":
            out.append("\\tab ")
        elif t == "sp":          # a blank between two formatted runs: {\b A} {\i B}
            out.append(" ")
        elif t == "br":
            out.append("\\line ")
        elif t == "del":
            out.append("{\\deleted " + _rtf_inl(i[1]) + "}")
        elif t == "fn":
            out.append("{\\footnote\\pard\\plain " + _rtf_word(i[1]) + "}")
        elif t == "cm":
            out.append("{\\*\\atnid rev}{\\*\\atnauthor rev}{\\*\\annotation\\pard\\plain " + _rtf_word(i[1]) + "}")
        elif t in ("a", "ins", "isdt"):
            out.append(_rtf_inl(i[1]))
        else:
            raise ValueError(t)
    return "".join(out)


def _rtf_blocks(blocks) -> str:
    out = []
    for b in blocks:
        t = b[0]
        if t == "p":
            out.append("\\pard\\plain " + _rtf_inl(b[1]) + "\\par\n")
        elif t == "h":
            out.append(f"\\pard\\plain\\s{b[1]}\\outlinelevel{b[1]-1}\\b " + _rtf_inl(b[2]) + "\\b0\\par\n")
        elif t == "tbl":
            for row in b[1]:
                out.append("\\trowd" + "".join(f"\\cellx{(k + 1) * 2000}" for k in range(len(row))) + "\n")
                for cell in row:
                    paras = [x for x in cell if x[0] in ("p", "h")]        # (a heading in a cell: a bold paragraph)
                    out.append("\\pard\\intbl " + "\\par ".join(
                        _rtf_inl(p[1]) if p[0] == "p" else "{\\b " + _rtf_inl(p[2]) + "}" for p in paras) + "\\cell\n")
                out.append("\\row\n")
            out.append("\\pard\\par\n")        # an (empty) paragraph ends the table: adjacent tables stay separate
        elif t == "page":
            out.append("\\page\n")
        else:
            raise ValueError(t)
    return "".join(out)


def write_rtf(doc: dict) -> bytes:
    """doc may be a flow document or {"pages": [blocks ..]} (explicit \\page breaks between them)."""
    p = doc.get("props") or {}
    info = "".join("{\\%s %s}" % (k2, _rtf_escape(p[k])) for k, k2 in
                   (("title", "title"), ("author", "author"), ("subject", "subject"), ("keywords", "keywords"),
                    ("description", "doccomm")) if p.get(k) is not None)
    head = "{\\rtf1\\ansi\\ansicpg1252\\deff0{\\fonttbl{\\f0\\fswiss Helvetica;}}{\\info" + info + "}\n"
    if doc.get("header"):
        head += "{\\header\\pard\\plain " + _rtf_inl(doc["header"]) + "\\par}\n"
    if doc.get("footer"):
        head += "{\\footer\\pard\\plain " + _rtf_inl(doc["footer"]) + "\\par}\n"
    for kind, inls in (doc.get("hf_extra") or []):      # further header / footer kinds: headerf, headerl, footerr, ...
        head += "{\\" + kind + "\\pard\\plain " + _rtf_inl(inls) + "\\par}\n"
    if "pages" in doc:
        body = ""
        for k, pg in enumerate(doc["pages"]):
            if k:       # every second break is a section break of kind "page" instead of \page
                body += "\\page\n" if k % 2 else "\\sect\\sectd\\sbkpage\n"
            body += _rtf_blocks(pg)
    else:
        body = _rtf_blocks(doc.get("blocks", []))
    return (head + body + "}").encode("ascii")


# ----------------------------------------------------------------------------- PDF
def _pdf_str(s: str) -> bytes:
    return b"(" + s.replace("\\", "\\\\").replace("(", "\\(").replace(")", "\\)").encode("latin-1") + b")"


def write_pdf(pages: list, props: dict | None = None, images: dict | None = None, rotate: bool = False) -> bytes:
    """pages: list of pages; a page is a list of lines; a line is a list of token ids (joined by a space)
    or a literal string.  images: {page_index: [ {"kind": "jpeg"|"flate", "data": bytes, "w": int, "h": int} ]}.
    One Type1 font (Helvetica, WinAnsi), explicit Td per line -- nothing for table heuristics to latch on."""
    objs: list[bytes] = []

    def add(b: bytes) -> int:
        objs.append(b)
        return len(objs)
    font = add(b"<< /Type /Font /Subtype /Type1 /BaseFont /Helvetica /Encoding /WinAnsiEncoding >>")
    pages_id = len(objs) + 1
    add(b"")                                   # placeholder for /Pages
    kids = []
    for pi, lines in enumerate(pages):
        # text matrix: upright, or (second page of every four) turned by 90 degrees (a vertical label), or (fourth)
        # by 180 degrees (an upside-down stamp); reading order within the page is the order of the lines
        tm = {1: b"0 1 -1 0 300 100 Tm", 3: b"-1 0 0 -1 540 700 Tm"}.get(pi % 4) if rotate else None
        content = [b"BT /F1 12 Tf 14 TL " + (tm if tm else b"72 760 Td")]
        for ln in lines:
            text = ln if isinstance(ln, str) else " ".join(word(i) for i in ln)
            content.append(_pdf_str(text) + b" Tj T*")
        content.append(b"ET")
        xobjs = b""
        for k, img in enumerate((images or {}).get(pi, []), start=1):
            cs = img.get("cs", "rgb")
            if cs != "rgb":
                # /ColorSpace as an array: [/ICCBased n 0 R], or an indexed space over it (array nested in an array)
                prof = b"ICCPROFILE-" + bytes(range(64))
                icc = add(b"<< /N 3 /Length %d >>\nstream\n" % len(prof) + prof + b"\nendstream")
                csb = (b"[/ICCBased %d 0 R]" % icc if cs == "icc"
                       else b"[/Indexed [/ICCBased %d 0 R] 3 <000000FF000000FF000000FF>]" % icc)
                d = zlib.compress(img["data"])
                io_ = add(b"<< /Type /XObject /Subtype /Image /Width %d /Height %d /ColorSpace " % (img["w"], img["h"]) + csb
                          + b" /BitsPerComponent 8 /Filter /FlateDecode /Length %d >>\nstream\n" % len(d) + d + b"\nendstream")
            elif img["kind"] == "jpeg":
                d = img["data"]
                io_ = add(b"<< /Type /XObject /Subtype /Image /Width %d /Height %d /ColorSpace /DeviceRGB "
                          b"/BitsPerComponent 8 /Filter /DCTDecode /Length %d >>\nstream\n" % (img["w"], img["h"], len(d))
                          + d + b"\nendstream")
            else:
                d = zlib.compress(img["data"])
                io_ = add(b"<< /Type /XObject /Subtype /Image /Width %d /Height %d /ColorSpace /DeviceRGB "
                          b"/BitsPerComponent 8 /Filter /FlateDecode /Length %d >>\nstream\n" % (img["w"], img["h"], len(d))
                          + d + b"\nendstream")
            xobjs += b"/Im%d %d 0 R " % (k, io_)
            content.append(b"q 50 0 0 50 72 %d cm /Im%d Do Q" % (100 + 60 * k, k))
        if not lines and not (images or {}).get(pi) and pi % 2 == 0:
            # a blank page needs no content stream: /Contents is optional (every second blank page is written so)
            kids.append(add(b"<< /Type /Page /Parent %d 0 R /MediaBox [0 0 612 792] /Resources << >> >>" % pages_id))
            continue
        if rotate and lines and not (images or {}).get(pi) and pi % 4 == 2:
            # third page of every four: the text is painted through a form XObject that has its own font resources;
            # the page's /Resources hold only /XObject
            fstream = b"\n".join(content)
            form = add(b"<< /Type /XObject /Subtype /Form /BBox [0 0 612 792] /Resources << /Font << /F1 %d 0 R >> >> /Length %d >>\nstream\n"
                       % (font, len(fstream)) + fstream + b"\nendstream")
            pstream = b"q /Fm1 Do Q"
            cid = add(b"<< /Length %d >>\nstream\n" % len(pstream) + pstream + b"\nendstream")
            kids.append(add(b"<< /Type /Page /Parent %d 0 R /MediaBox [0 0 612 792] /Contents %d 0 R /Resources << /XObject << /Fm1 %d 0 R >> >> >>"
                            % (pages_id, cid, form)))
            continue
        stream = b"\n".join(content)
        cid = add(b"<< /Length %d >>\nstream\n" % len(stream) + stream + b"\nendstream")
        res = b"<< /Font << /F1 %d 0 R >> " % font + (b"/XObject << " + xobjs + b">> " if xobjs else b"") + b">>"
        pid = add(b"<< /Type /Page /Parent %d 0 R /MediaBox [0 0 612 792] /Contents %d 0 R /Resources " % (pages_id, cid)
                  + res + b" >>")
        kids.append(pid)
    objs[pages_id - 1] = (b"<< /Type /Pages /Count %d /Kids [" % len(kids)
                          + b" ".join(b"%d 0 R" % k for k in kids) + b"] >>")
    cat = add(b"<< /Type /Catalog /Pages %d 0 R >>" % pages_id)
    info = None
    if props:
        m = {"title": "Title", "author": "Author", "subject": "Subject", "keywords": "Keywords"}
        body = b" ".join(b"/" + m[k].encode() + b" " + _pdf_utf16(v) for k, v in props.items() if k in m and v is not None)
        info = add(b"<< " + body + b" >>")
    out = bytearray(b"%PDF-1.4\n%\xe2\xe3\xcf\xd3\n")
    offs = []
    for n, o in enumerate(objs, start=1):
        offs.append(len(out))
        out += b"%d 0 obj\n" % n + o + b"\nendobj\n"
    xref = len(out)
    out += b"xref\n0 %d\n0000000000 65535 f \n" % (len(objs) + 1)
    for o in offs:
        out += b"%010d 00000 n \n" % o
    out += b"trailer\n<< /Size %d /Root %d 0 R" % (len(objs) + 1, cat)
    if info:
        out += b" /Info %d 0 R" % info
    out += b" >>\nstartxref\n%d\n%%%%EOF\n" % xref
    return bytes(out)


def _pdf_utf16(s: str) -> bytes:
    return b"<" + (b"\xfe\xff" + s.encode("utf-16-be")).hex().encode() + b">"


# ----------------------------------------------------------------------------- plain text family
def write_plain(lines: list, kind: str = "txt") -> bytes:
    """lines: list of lists of token ids.  txt/md: one line each, tokens space separated;
    csv/tsv: one row each; json: array of arrays of strings."""
    if sum(len(ln) for ln in lines) % 2 == 0 and lines and kind != "json":
        # every second file starts with the UTF-8 signature (byte-order mark), as Windows editors write it
        return b"\xef\xbb\xbf" + _plain_body(lines, kind)
    return _plain_body(lines, kind)


def _plain_body(lines: list, kind: str) -> bytes:
    if kind == "csv":
        return ("\n".join(",".join(word(i) for i in ln) for ln in lines) + "\n").encode()
    if kind == "tsv":
        return ("\n".join("\t".join(word(i) for i in ln) for ln in lines) + "\n").encode()
    if kind == "json":
        import json
        return json.dumps([[word(i) for i in ln] for ln in lines], indent=1).encode()
    if kind == "md":
        return ("\n\n".join(("# " if k == 0 else "") + " ".join(word(i) for i in ln) for k, ln in enumerate(lines)) + "\n").encode()
    return ("\n".join(" ".join(word(i) for i in ln) for ln in lines) + "\n").encode()
