"""Abstract flow documents -> HTML / XHTML chapter / EPUB / MHTML bytes."""
from __future__ import annotations

import io
import zipfile
from xml.sax.saxutils import escape

from ..docmodel import word

HTML_SUPPORTS = {"r.acc", "r.num", "p", "h", "ul", "ul.nested", "tbl", "tbl.nested", "cell.multi", "r", "br", "sp", "a", "ins", "isdt", "cm"}


def _inl(inls) -> str:
    out = []
    for i in inls:
        t = i[0]
        if t == "r":
            w_ = word(i[1])
            if i[1] % 3 == 0:        # one word split over two inline elements
                out.append(f"<b>{w_[:4]}</b><i>{w_[4:]}</i>")
            elif i[1] % 3 == 1:      # bare text node
                out.append(w_)
            else:
                out.append(f"<span>{w_}</span>")
        elif t == "br":
            out.append("<br/>")
        elif t == "tab":
            out.append("\t")
        elif t == "sp":
            out.append(" ")
        elif t == "a":
            out.append(f'<a href="https://example.invalid/">{_inl(i[1])}</a>')
        elif t == "ins":
            out.append(f"<ins>{_inl(i[1])}</ins>")
        elif t == "isdt":
            out.append(f"<em>{_inl(i[1])}</em>")
        elif t == "cm":
            out.append(f"<!-- {word(i[1])} -->")
        else:
            raise ValueError(t)
    return "".join(out)


def body_html(blocks, vmerge: bool = False) -> str:
    out = []
    for b in blocks:
        t = b[0]
        if t == "p":
            out.append(f"<p>{_inl(b[1])}</p>")
        elif t == "h":
            out.append(f"<h{b[1]}>{_inl(b[2])}</h{b[1]}>")
        elif t == "ul":
            out.append("<ul>" + "".join(f"<li>{body_html(item, vmerge)}</li>" for item in b[1]) + "</ul>")
        elif t == "tbl":
            rows = b[1]
            ncols = max(len(r) for r in rows)
            # in tables of three or more columns (and every second smaller shape) an empty cell right of a non-empty one is
            # the covered part of a horizontal merge: HTML writes ONE cell with colspan="2" for both grid positions
            merge = ncols >= 3 or (len(rows) + ncols) % 2 == 0

            def hcovered(row, j):
                return merge and j > 0 and not row[j] and bool(row[j - 1])

            def vcovered(i, j):
                # (HTML / MHTML only) an empty cell below a non-empty one, not already part of a horizontal merge, is the
                # covered part of a vertical merge: the cell above carries rowspan="2" and this row has NO element for it
                return (vmerge and i > 0 and j < len(rows[i - 1]) and not rows[i][j] and bool(rows[i - 1][j])
                        and not hcovered(rows[i], j) and not hcovered(rows[i - 1], j)
                        and not (merge and j + 1 < len(rows[i - 1]) and not rows[i - 1][j + 1]))

            def block_at(j):
                # (HTML / MHTML only, two-row tables) a cell of the first row with an empty right neighbour and two empty
                # cells below them is ONE cell spanning two columns and two rows
                return (vmerge and merge and len(rows) == 2 and j >= 0 and j + 1 < len(rows[0]) and j + 1 < len(rows[1])
                        and bool(rows[0][j]) and not rows[0][j + 1] and not rows[1][j] and not rows[1][j + 1])

            def cells(i, tag):
                row = rows[i]
                out_ = []
                for j, cell in enumerate(row):
                    if hcovered(row, j) or vcovered(i, j) or (i == 1 and (block_at(j) or block_at(j - 1))):
                        continue
                    span = ' colspan="2"' if merge and cell and j + 1 < len(row) and not row[j + 1] and not vcovered(i, j + 1) else ""
                    if span and i == 0 and block_at(j):
                        span += ' rowspan="2"'
                    if not span and i + 1 < len(rows) and j < len(rows[i + 1]) and vcovered(i + 1, j):
                        span = ' rowspan="2"'
                    out_.append(f"<{tag}{span}>{body_html(cell, vmerge)}</{tag}>")
                return "".join(out_)
            if len(rows) % 2 == 0:
                # HTML5-style table: unclosed <col> in a colgroup, header cells, thead / tbody sections
                head = "<tr>" + cells(0, "th") + "</tr>"
                rest = "".join("<tr>" + cells(i, "td") + "</tr>" for i in range(1, len(rows)))
                out.append("<table><colgroup>" + "<col>" * ncols + f"</colgroup><thead>{head}</thead><tbody>{rest}</tbody></table>")
            else:
                out.append("<table>" + "".join("<tr>" + cells(i, "td") + "</tr>" for i in range(len(rows))) + "</table>")
        else:
            raise ValueError(t)
    return "\n".join(out)


def write_html(doc: dict, xhtml: bool = False) -> bytes:
    p = doc.get("props") or {}
    head = '<meta charset="utf-8"/>'
    if p.get("title") is not None:
        head += f"<title>{escape(p['title'])}</title>"
    for k, name in (("author", "author"), ("description", "description"), ("keywords", "keywords")):
        if p.get(k) is not None:
            head += f'<meta name="{name}" content="{escape(p[k], {chr(34): "&quot;"})}"/>'
    body = body_html(doc.get("blocks", []), vmerge=not xhtml)      # (EPUB chapters: horizontal merges only)
    if xhtml:
        return (f'<?xml version="1.0" encoding="utf-8"?><html xmlns="http://www.w3.org/1999/xhtml"><head>{head}</head>'
                f"<body>{body}</body></html>").encode()
    return f"<!DOCTYPE html><html><head>{head}</head><body>{body}</body></html>".encode()


CHAPTER_EXT = {1: ".htm", 2: ".html", 3: ".html", 4: ".htm", 8: ".htm"}      # (vary_ext) otherwise .xhtml / .html / .htm by n % 3


def write_epub(book: dict, opf_dir: str = "OEBPS", vary_ext: bool = False) -> bytes:
    """book = {"chapters": [doc ..], "props": {...}, "images": [{"part": "OEBPS/img/a.png", "data": b, "href": "img/a.png",
    "media": "image/png"}], "nonlinear": [..]}"""
    p = book.get("props") or {}
    man, spine, files = "", "", {}
    pre = (opf_dir.strip("/") + "/") if opf_dir else ""       # package file at the root, one or several directories deep
    for n, ch in enumerate(book["chapters"], start=1):
        if ch == "gap":
            # a spine item that is not an XHTML chapter: an SVG page (odd positions) or a dangling idref (even)
            if n % 2:
                files[f"{pre}page{n}.svg"] = b'<svg xmlns="http://www.w3.org/2000/svg" width="10" height="10"/>'
                man = f'<item id="ch{n}" href="page{n}.svg" media-type="image/svg+xml"/>' + man
            spine += f'<itemref idref="ch{n}"/>'
            continue
        # chapter files are named .xhtml, .html or .htm (vary_ext: the document suite; other callers address ch1.xhtml)
        ext = CHAPTER_EXT.get(n, (".xhtml", ".html", ".htm")[n % 3]) if vary_ext else ".xhtml"
        files[f"{pre}ch{n}{ext}"] = (ch["raw_xhtml"].encode() if isinstance(ch, dict) and "raw_xhtml" in ch
                                     else write_html(ch, xhtml=True))
        # old converters declare their (X)HTML chapters with other media types (OEB 1.x, plain XML): chapters all the same
        mt = {1: "text/x-oeb1-document", 3: "application/xml"}.get(n % 5, "application/xhtml+xml")
        man = f'<item id="ch{n}" href="ch{n}{ext}" media-type="{mt}"/>' + man   # manifest order != spine order
        # every third chapter is auxiliary content (linear="no": answers, notes): part of the book all the same
        spine += f'<itemref idref="ch{n}"' + (' linear="no"' if n % 3 == 2 else (' linear="yes"' if n % 3 == 0 else "")) + "/>"
    for k, img in enumerate(book.get("images") or [], start=1):
        if img.get("data") is not None:
            files[img["part"]] = img["data"]
        man += f'<item id="img{k}" href="{escape(img["href"])}" media-type="{img["media"]}"/>'

    def dc(tag, key):
        return f"<dc:{tag}>{escape(p[key])}</dc:{tag}>" if p.get(key) is not None else ""
    opf = ('<?xml version="1.0" encoding="utf-8"?><package xmlns="http://www.idpf.org/2007/opf" version="3.0" '
           'unique-identifier="uid"><metadata xmlns:dc="http://purl.org/dc/elements/1.1/">'
           '<dc:identifier id="uid">urn:uuid:0</dc:identifier><dc:language>en</dc:language>'
           + dc("title", "title") + dc("creator", "author") + dc("subject", "subject") + dc("description", "description")
           + f"</metadata><manifest>{man}</manifest><spine>{spine}</spine></package>")
    files[f"{pre}content.opf"] = opf.encode()
    files["META-INF/container.xml"] = (
        b'<?xml version="1.0"?><container version="1.0" xmlns="urn:oasis:names:tc:opendocument:xmlns:container">'
        b'<rootfiles><rootfile full-path="' + pre.encode() + b'content.opf" media-type="application/oebps-package+xml"/></rootfiles>'
        b"</container>")
    files.update(book.get("extra_files") or {})
    buf = io.BytesIO()
    with zipfile.ZipFile(buf, "w") as z:
        z.writestr(zipfile.ZipInfo("mimetype"), "application/epub+zip")
        for n, d in files.items():
            z.writestr(n, d, zipfile.ZIP_DEFLATED)
    return buf.getvalue()


def write_mhtml(doc: dict, encoding: str = "quoted-printable") -> bytes:
    import base64
    import quopri
    html = write_html(doc)
    # the transfer encoding and the spelling of its name (the value is case-insensitive, RFC 2045) vary with the document
    pick = len(html) % 6
    if encoding == "quoted-printable" and pick in (1, 4):
        encoding = "base64"
    if encoding == "quoted-printable" and pick == 5:
        encoding = "8bit"               # the part as it is (UTF-8 bytes, no transfer encoding)
    if encoding == "base64":
        payload = base64.encodebytes(html)
    elif encoding == "8bit":
        payload = html
    else:
        payload = quopri.encodestring(html)
    encoding = {0: encoding, 1: encoding, 2: "Quoted-Printable", 3: "QUOTED-PRINTABLE", 4: "BASE64", 5: encoding}[pick]
    b = "----=_NextPart_000_0000"
    return (b"From: <Saved by test>\r\nSubject: page\r\nMIME-Version: 1.0\r\n"
            b'Content-Type: multipart/related; type="text/html"; boundary="' + b.encode() + b'"\r\n\r\n'
            b"--" + b.encode() + b"\r\nContent-Type: text/html" + (b"" if encoding == "8bit" else b"; charset=\"utf-8\"") + b"\r\n"
            b"Content-Transfer-Encoding: " + encoding.encode() + b"\r\nContent-Location: http://example.invalid/\r\n\r\n"
            + payload + b"\r\n--" + b.encode() + b"--\r\n")
